#!/usr/bin/env python3
"""Re-confirms seeded changes in parallel (seedeval.confirm: scratch worktree, patch applies, compiles,
suite passes with it, demonstration fails with it and passes without). usage: confirm_par.py SUBSTR [-j N]"""
import sys, os, glob, json, concurrent.futures as cf
sys.path.insert(0, os.path.dirname(os.path.abspath(__file__)))
import seedeval
V = os.path.dirname(os.path.abspath(__file__))
subs = [a for a in sys.argv[1:] if not a.startswith("-")]
j = int(sys.argv[sys.argv.index("-j") + 1]) if "-j" in sys.argv else 6
ds = [d for d in sorted(glob.glob(os.path.join(V, "seeded", "C*_*"))) if any(s in os.path.basename(d) for s in subs)]
def one(d):
    try:
        return seedeval.confirm(d)
    except BaseException as e:
        return {"error": str(e)[:300]}
bad = 0
with cf.ThreadPoolExecutor(j) as ex:
    for d, r in zip(ds, ex.map(one, ds)):
        ok = all(r.get(k) for k in ("applies", "compiles", "suite_passes_with_change", "demo_fails_with_change", "demo_passes_without_change"))
        print(os.path.basename(d), "CONFIRMED" if ok else "NOT-CONFIRMED %s" % {k: v for k, v in r.items() if k != "demo_with_output_tail"})
        if ok:
            m = json.load(open(os.path.join(d, "meta.json")))
            m["confirmed"] = {k: r.get(k) for k in ("applies", "compiles", "suite_passes_with_change", "demo_fails_with_change", "demo_passes_without_change")}
            m["confirmed_by"] = "seedeval.py confirm (scratch worktree of /repo HEAD, removed afterwards)"
            json.dump(m, open(os.path.join(d, "meta.json"), "w"), indent=1)
        else:
            bad += 1
print("confirm: %d seeds, %d not confirmed" % (len(ds), bad))
