#!/usr/bin/env python3
"""Parallel regression of the checker over the three corpora, in scratch copies of /repo
(never touching /repo's working tree):

  seeded/<id>/patch.diff            must be reported (by the property it was written against)
  benign_seeded/<id>/patch.diff     must stay silent
  checker/testdata/mutants/*.json   each mutant's `expect` rules must fire; `kind: benign` silent
  checker/testdata/derived/<id>/    a benign maintenance change plus one breaking edit: `expect` rules must fire

Each item: `git worktree add` under a fresh temp directory, apply, run the checker binary
with -repo <worktree> and evidence to a scratch directory, remove both. N at a time.

usage: partest.py [seeded|benign|derived|mutants|all] [--only SUBSTR] [-j N] [--write]
  --write  rewrite seeded/MATRIX.{json,md}, benign_seeded/RESULT.json, testdata/selftest_result.json
"""
import json, os, sys, glob, tempfile, shutil, subprocess, concurrent.futures as cf

REPO = "/repo"
VERIF = os.path.dirname(os.path.abspath(__file__))
ENV = dict(os.environ, GOFLAGS="-mod=mod", GOPROXY="off")
for k in ("GOWORK", "GOSUMDB", "GOTOOLCHAIN"):
    ENV.pop(k, None)
BIN = os.environ.get("VERIF_BIN", VERIF + "/bin/anonverif")


def sh(cmd, cwd=None, timeout=1200):
    p = subprocess.run(cmd, shell=True, cwd=cwd, env=ENV, stdout=subprocess.PIPE, stderr=subprocess.STDOUT, text=True, timeout=timeout)
    return p.returncode, p.stdout


def scratch():
    wt = tempfile.mkdtemp(prefix="partest_")
    # plain copy of the tracked files (cheaper and lock-free compared with git worktree)
    rc, out = sh("git -C %s archive HEAD | tar -x -C %s" % (REPO, wt))
    if rc != 0:
        raise RuntimeError(out)
    return wt


def run_checker(wt, props="all"):
    ev = tempfile.mkdtemp(prefix="partest_ev_")
    try:
        rc, out = sh("%s -prop %s -tier quick -repo %s -evidence %s -known %s/known_findings.json" % (BIN, props, wt, ev, VERIF))
    finally:
        shutil.rmtree(ev, ignore_errors=True)
    fired = [l.strip()[:400] for l in out.splitlines() if l.strip().startswith("VIOLATED")]
    props_v = sorted(set(l.split("property=")[1].split()[0] for l in out.splitlines() if l.startswith("VIOLATION")))
    return rc, props_v, fired, out


def eval_patch(d):
    wt = scratch()
    try:
        shutil.rmtree(wt)
        rc, out = sh("git clone -q --shared %s %s && cd %s && git apply --3way %s" % (REPO, wt, wt, os.path.join(d, "patch.diff")))
        if rc != 0:
            return {"applies": False, "out": out[-300:]}
        rc, props_v, fired, out = run_checker(wt)
        if rc != 0 and not props_v:
            props_v = ["<exit %d>" % rc]
        return {"applies": True, "exit": rc, "properties": props_v, "fired": fired, "rules": sorted(set(f.split()[1] for f in fired))}
    finally:
        shutil.rmtree(wt, ignore_errors=True)


def eval_mutant(m):
    wt = scratch()
    try:
        for e in m["edits"]:
            p = os.path.join(wt, e["file"])
            s = open(p).read()
            if s.count(e["old"]) < 1:
                return {"applies": False, "out": "anchor text not found in " + e["file"]}
            cnt = e.get("count", 1)
            s = s.replace(e["old"], e["new"], cnt) if cnt > 0 else s.replace(e["old"], e["new"])
            open(p, "w").write(s)
        props = sorted(set(x.split("-")[0] for x in m.get("expect", [])) | set(m.get("props", []))) or ["all"]
        rc, props_v, fired, out = run_checker(wt, ",".join(props) if props != ["all"] else "all")
        return {"applies": True, "exit": rc, "properties": props_v, "fired": fired, "rules": sorted(set(f.split()[1] for f in fired)), "tail": out[-300:] if rc not in (0, 1) else ""}
    finally:
        shutil.rmtree(wt, ignore_errors=True)


def main():
    args = sys.argv[1:]
    which = args[0] if args and not args[0].startswith("-") else "all"
    only = args[args.index("--only") + 1] if "--only" in args else None
    jobs = int(args[args.index("-j") + 1]) if "-j" in args else 8
    write = "--write" in args
    sh("./run.sh C08 quick >/dev/null 2>&1", cwd=VERIF)
    bad = 0
    with cf.ThreadPoolExecutor(jobs) as ex:
        if which in ("seeded", "all"):
            ds = [d for d in sorted(glob.glob(os.path.join(VERIF, "seeded", "C*_*"))) if not only or only in os.path.basename(d)]
            res = list(ex.map(eval_patch, ds))
            rows, missed, cross, stale = [], [], [], []
            for d, r in zip(ds, res):
                sid = os.path.basename(d)
                meta = json.load(open(os.path.join(d, "meta.json")))
                own = meta["property"]
                if not r["applies"]:
                    stale.append(sid); print("%-8s STALE-PATCH %s" % (sid, r["out"][-120:].replace("\n", " "))); continue
                st = "caught" if own in r["properties"] else ("cross-only" if r["properties"] else "MISSED")
                if r["rules"] and all(x.endswith("-load") for x in r["rules"]):
                    st = "MISSED"  # the patched tree does not load (a stale patch that no longer compiles): not a verdict
                    print("%-8s DOES-NOT-COMPILE (reported only as a load failure)" % sid)
                (missed if st == "MISSED" else cross if st == "cross-only" else []).append(sid)
                print("%-8s %-10s %s %s" % (sid, st, r["properties"], r["rules"]))
                rows.append({"id": sid, "property": own, "caught_by_properties": r["properties"], "caught_by_rules": r["rules"]})
                if write:
                    meta["caught_by_properties"] = r["properties"]; meta["caught_by_rules"] = r["rules"]
                    json.dump(meta, open(os.path.join(d, "meta.json"), "w"), indent=1)
            print("seeded: %d changes, %d missed %s, %d cross-only %s, %d stale %s" % (len(ds), len(missed), missed, len(cross), cross, len(stale), stale))
            bad += len(missed) + len(stale)
            if write and not only:
                json.dump(rows, open(os.path.join(VERIF, "seeded", "MATRIX.json"), "w"), indent=1)
                with open(os.path.join(VERIF, "seeded", "MATRIX.md"), "w") as f:
                    f.write("| seeded change | written against | reported by (properties) | rules |\n|---|---|---|---|\n")
                    for r in rows:
                        f.write("| %s | %s | %s | %s |\n" % (r["id"], r["property"], ", ".join(r["caught_by_properties"]) or "-", ", ".join(r["caught_by_rules"]) or "-"))
        if which in ("benign", "all"):
            ds = [d for d in sorted(glob.glob(os.path.join(VERIF, "benign_seeded", "B*_*"))) if not only or only in os.path.basename(d)]
            res = list(ex.map(eval_patch, ds))
            rows, alarms, known_fa = [], [], []
            for d, r in zip(ds, res):
                bid = os.path.basename(d)
                if not r["applies"]:
                    print("%-8s STALE-PATCH" % bid); bad += 1; continue
                rows.append({"id": bid, "alarms": r["rules"], "properties": r["properties"]})
                try:
                    disputed = json.load(open(os.path.join(d, "meta.json"))).get("not_benign_for", {})
                except Exception:
                    disputed = {}
                if r["properties"] and set(r["properties"]) <= set(disputed.get("properties", [])):
                    # the author's claim of "behaviour preserved" does not hold for the property as
                    # written (reason in meta.json): the report is right, not a false alarm
                    rows[-1]["not_benign_for"] = disputed
                    print("%-8s reported, rightly (%s)" % (bid, ", ".join(r["properties"])))
                elif r["properties"] and json.load(open(os.path.join(d, "meta.json"))).get("known_false_alarm"):
                    # an alarm on a change that preserves behaviour, documented as a remaining
                    # over-strictness of the machinery (DESIGN.md section 6): counted, not hidden
                    rows[-1]["known_false_alarm"] = True
                    known_fa.append(bid)
                    print("%-8s KNOWN-FALSE-ALARM %s %s" % (bid, r["properties"], r["rules"]))
                elif r["properties"]:
                    alarms.append(bid)
                    print("%-8s FALSE-ALARM %s %s" % (bid, r["properties"], r["rules"]))
                    for f in r["fired"][:8]:
                        print("       ", f[:330])
                else:
                    print("%-8s silent" % bid)
            print("benign: %d changes, %d false alarms %s, %d known (documented) false alarms %s" % (len(ds), len(alarms), alarms, len(known_fa), known_fa))
            bad += len(alarms)
            if write and not only:
                json.dump(rows, open(os.path.join(VERIF, "benign_seeded", "RESULT.json"), "w"), indent=1)
        if which in ("derived", "all"):
            ds = [d for d in sorted(glob.glob(os.path.join(VERIF, "checker/testdata/derived", "*"))) if not only or only in os.path.basename(d)]
            res = list(ex.map(eval_patch, ds))
            fails = []
            for d, r in zip(ds, res):
                exp = json.load(open(os.path.join(d, "expect.json")))["expect"]
                if not r["applies"]:
                    fails.append(os.path.basename(d)); print("%-45s STALE-PATCH" % os.path.basename(d)); continue
                ok = all(e in r["rules"] for e in exp)
                if not ok:
                    fails.append(os.path.basename(d))
                print("%-45s %s expected %s got %s" % (os.path.basename(d), "ok  " if ok else "FAIL", exp, r["rules"]))
            print("derived: %d items, %d failures %s" % (len(ds), len(fails), fails))
            bad += len(fails)
        if which in ("mutants", "all"):
            ms = []
            for f in sorted(glob.glob(os.path.join(VERIF, "checker/testdata/mutants/*.json"))):
                for m in json.load(open(f)):
                    m["_file"] = os.path.basename(f)
                    if not only or only in m["name"] or only in m["_file"]:
                        ms.append(m)
            res = list(ex.map(eval_mutant, ms))
            rows, fails = [], []
            for m, r in zip(ms, res):
                benign = m.get("kind") == "benign"
                if not r["applies"]:
                    ok, why = False, "DRIFT " + r["out"]
                elif benign:
                    ok, why = not r["properties"], "alarms %s" % r["rules"]
                else:
                    exp = m.get("expect", [])
                    ok = all(any(x == e or x.startswith(e) for x in r["rules"]) for e in exp) and bool(r["rules"])
                    why = "expected %s got %s %s" % (exp, r["rules"], r.get("tail", ""))
                rows.append({"name": m["name"], "file": m["_file"], "kind": m.get("kind", "mutant"), "ok": ok, "rules": r.get("rules", [])})
                if not ok:
                    fails.append(m["name"]); print("%-60s FAIL %s" % (m["name"], why))
            print("mutants: %d items, %d failures" % (len(ms), len(fails)))
            bad += len(fails)
            if write and not only:
                json.dump(rows, open(os.path.join(VERIF, "checker/testdata/selftest_result.json"), "w"), indent=1)
    return 1 if bad else 0


if __name__ == "__main__":
    sys.exit(main())
