#!/bin/bash
# Re-runs every registered quick command individually (as the harness does) so that each
# evidence file carries its own load time; four at a time.
cd "$(dirname "$0")"
./run.sh C08 quick >/dev/null 2>&1   # build once
fail=0
for p in $(seq -w 1 20); do
  ( ./run.sh C$p quick > /tmp/regen_C$p.log 2>&1 || echo "C$p FAILED" ) &
  if (( $(jobs -r | wc -l) >= 4 )); then wait -n; fi
done
wait
grep -L "^OK property" /tmp/regen_C*.log | sed 's/^/not OK: /'
rm -f /tmp/regen_C*.log
