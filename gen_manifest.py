#!/usr/bin/env python3
"""Generates MANIFEST.json from the table below (kept in one place so the manifest is always valid)."""
import json, sys
P = {}
def prop(pid, text, note, technique, design):
    P[pid] = dict(text=text, note=note, technique=technique, design=design)

NOT_BUILT = {}

prop("C08",
 "Structural necessary conditions of the error discipline, decided exactly on the SSA of the current source: every write to the output writer is error-checked and a failed write ends the stream function with a non-nil error before any further write; scanner/gzip/open errors are returned; wrappers propagate; every CLI call site maps a non-nil error to a non-zero exit on all paths; record and newline are one write; the writer handed to the funnel is an *os.File or a buffering writer whose Flush error is checked on every path to the end of the command; and a line cut short by a failing read cannot be completed and emitted (every token read of the parser is error-checked, the entry point rejects trailing data). Level 'other' because the fault behaviour of the OS and of the library (short writes, ENOSPC) is not decided - only that no error the code receives can be dropped.",
 "Trusted: go/ssa, library contract 'short write => non-nil error', bufio.Scanner.Err semantics. Not decided: byte-exactness of the already written prefix, Close errors.",
 "SSA path queries (must-reach non-nil error return / non-zero exit from each err!=nil edge), resolved callees",
 "DESIGN.md section 3, C08")

prop("C09",
 "Sibling agreement between encrypting and decrypting side plus fail-closed handling of the decrypt command, decided on SSA: same primitive chain from the key parameter, identical (nil) associated data, both siblings reach the primitive under error tests of the set-up calls only (no data-dependent guard on one side) with the data parameter as received; every return of the string choke point is its placeholder or the base64 text of the ciphertext just computed from its own parameter; the plaintext handed to the choke point at every call site is the input leaf itself; the same base64 encoding object on both sides; the decrypted bytes are converted, labelled with a constant and printed - nothing else touches them; one encoding for key writer/reader; plaintext print dominated by err==nil of all three steps. Level 'other': the cryptographic round trip itself is Tink's and is not decided.",
 "Trusted: Tink AES-SIV (daead), encoding/base64. Not decided: authenticity, arbitrary Unicode content, JSON escaping of the ciphertext text.",
 "SSA def-use chains of the crypto calls, operand identity across the two siblings, guard facts at the print", "DESIGN.md section 3, C09")
prop("C10",
 "Fail-closed and single-choke-point structure of encrypt mode, decided on SSA: taint from the plaintext parameter never reaches a return of the string choke point and every return is the placeholder or the fresh ciphertext encoding; Encrypt has one call site; every string leaf the scalar step replaces goes through it; no time/randomness/environment source is reachable from Encrypt in the package (thorough tier: in the whole program through third-party code); the keyset around the raw key is a function of the key alone (constant key ids, RAW output prefix, key material = parameter); the key global is written only by its setter from the redact command; encrypt mode implies an installed generated/validated key before any processing call on every path; the key functions propagate every failure and the key reader validates the whole file content; the --encrypt switch is evaluated before every record-producing call and depends only on its two flags. Level 'other': determinism/injectivity of AES-SIV is the primitive's contract.",
 "Trusted: Tink determinism. Not decided: equality of ciphertexts across runs as observed bytes.",
 "intra-package taint analysis, call-site enumeration, CFG must-pass-through from SetShouldEncrypt to processing calls", "DESIGN.md section 3, C10")
prop("C11",
 "Ordering and who-may-write for the key path, decided on SSA with a taint from the --encryptionKeyFile flag: only the key writer mutates that path, only under existence-test==false, and test, write and load use the same path expression; the existence test answers false only for not-exist/directory; written bytes = fresh 64-byte crypto/rand key = installed key; the reader's success return is DecodeString of the whole file content, validated for read/base64/len==64, and nothing in the reader overwrites a buffer; mode has no group/other bits; the three key functions propagate every failing call; every key error exits non-zero; no key operation after a processing call. Level 'other': file-system semantics are not decided.",
 "Trusted: os.Stat/os.WriteFile semantics, crypto/rand. Not decided: umask, odd file types, sequences beyond the per-run invariant.",
 "taint of the key path, guard facts at writer call sites, constant evaluation of mode/length, path queries for error exits", "DESIGN.md section 3, C11")
prop("C13",
 "Purity and shape of the pseudonym function, decided on SSA: reads only the replacement text, side table write-only package-wide, no nondeterministic source; pipeline trim '$' -> split '.' -> per-component SHA-256 -> [0:8] -> '%s_%x' -> join '.', one output per component in order; single hashing site. Pseudonyms are used verbatim at every live call site (never as a regexp replacement template, never case-folded or trimmed). Level 'other': collision-freeness of truncated SHA-256 is probabilistic and not decided.",
 "Trusted: crypto/sha256, fmt %x rendering, strings.Split/Join.",
 "SSA shape matching of the pipeline stages with constant evaluation; package-wide use scan of the side table", "DESIGN.md section 3, C13")
prop("C16",
 "Wiring of Atlas mode, decided by role-taint over SSA and format-string parsing: start/end flags reach exactly the startDate=/endDate= operands through setters, globals, window function, download and per-host call; project/host/cluster reach their path segments; default window (now-604800, now); one per-host call per host in order, one client.Do per function, no loop around it; BaseURL-prefixed URLs with an https cloud.mongodb.com constant; temp file written only by io.Copy from the response body; output <outputFile>.<i> paired with file i. The --encrypt switch is honoured on the Atlas channel and a gzip payload is streamed member after member (reader never reconfigured). Level 'other': HTTP exchanges are not observed.",
 "Trusted: net/http, digest transport round trips, connstring parsing. Not decided: SRV resolution, gzip payloads, challenge rounds.",
 "inter-procedural role taint (per result index), constant format parsing, loop-shape recognition", "DESIGN.md section 3, C16")
prop("C17",
 "Acquire/release pairing of downloaded temp files on every CFG exit, with defer modelled (runs on return/panic, not on os.Exit): partial file removed on error after CreateTemp; host-loop error returns delete earlier files; after a successful download every return is covered by a registered deferred delete and every os.Exit - also one inside a called function or nested closure - by a direct delete, and the deleted list is the whole download result (never a sub-slice); delete helper removes all elements; no other file creation on the download path (thorough tier: in the whole program). Level 'other': signals and library panics are outside.",
 "Trusted: os.Remove/os.CreateTemp semantics, Go defer semantics.",
 "CFG must-pass-through queries with defer/os.Exit modelling, loop-shape recognition", "DESIGN.md section 3, C17")
prop("C20",
 "Explicit-flow confinement of the Atlas private key, decided by inter-procedural taint over SSA seeded at the flag variable and os.Getenv(\"ATLAS_PRIVATE_KEY\"): allowed uses are comparison with \"\", local copies, passing to package functions, and the store into digest.Transport.Password; the transport object is used only as http.Client.Transport; no Authorization header / SetBasicAuth in the package. Reads of os.Args (beyond the program name) count as sources of the secret; thorough tier: no environment writer or logger is reachable from the Atlas client through third-party code. Level 'other': the digest library's behaviour on the wire is read from its source, not observed.",
 "Trusted: mongodb-forks/digest (sends credentials only in response to a 401 challenge), net/http.",
 "inter-procedural taint with an allow-list of use kinds; who-may-use scan of the credential-holding struct", "DESIGN.md section 3, C20")

prop("C01",
 "Structural necessary conditions of full redaction, decided exactly on SSA + reconstructed tables: the line gate and the dispatch of the three command documents and of every zone key; every store into an output container and every walker return classified as sanitised or as a raw pass-through justified by one of ten enumerated guard classes (guards from dominating branch edges, short-circuit phis and disjunctive joins); in-place loops cover the whole container; Exempt/FieldName/Namespace table positions confined to a reviewed allow-list (tables reconstructed by abstract interpretation of the initialisers, 367 Set calls); flag->setter->global wiring; constant remote placeholder. Zone keys are checked per JSON form the command grammar allows (update/u as document and as pipeline array, deletes, documents, pipeline); an early return of the in-place array walker before its loop is a raw pass-through without justification. Level 'other': whether the table lookup routes every grammar position to the intended entry is value-level and not decided.",
 "Trusted: go/ssa; orderedmap semantics; the reviewed allow-list rules/table_policy.json; HashName/Encrypt results are not the plaintext. Not decided: grammar coverage of the tables, JSON escaping.",
 "provenance dataflow + control-dependence guard atoms over SSA (sink analysis), abstract interpretation of table initialisers, per-iteration store counting, flag wiring flow", "DESIGN.md section 3, C01")
prop("C03",
 "Container typestate, leaf-kind preservation and parser/serialiser agreement, decided on SSA: exactly one store per iteration into the associated fresh map/slice at the current key/index (bounded path enumeration per loop body), output length = input length, scalar-step returns keep the JSON class for every kind the parser produces and call sites pass (class-set refinement by guard atoms), json.Marshal only receives provable non-containers, only structural constants or marshalled bytes are written, brackets closed on every success path, the scan loop writes exactly the serialiser's result. The serialiser's buffer is written only through its own write methods and the serialiser's functions (who-may-write). Level 'other': encoding/json's rendering is trusted.",
 "Trusted: encoding/json (Token kinds, Marshal of scalars), orderedmap iteration order. Not decided: duplicate sibling keys, escaping.",
 "typestate dataflow over loop bodies, JSON-class abstract domain over guard atoms, who-may-write scan of the serialiser", "DESIGN.md section 3, C03")
prop("C07",
 "Discharge of every potentially panicking instruction on the per-line path by a local guard, decided on SSA: unchecked type assertions need a dominating comma-ok success on the same value/type (one listed exception), index/slice bounds need the range-loop index, a dominating len comparison (linear reasoning on len(x)+c) or an inter-procedural non-emptiness summary of key-path parameters, no division/panic/MustCompile of non-constants, no exit from inside the scan loop except returning a non-nil error, default split function. The scanner's token limit is not raised beyond 64 KiB (the only bound on recursion depth); no package-level state is both written and read on the line path (a failed line cannot poison later ones). Level 'other': panics inside libraries are not decided.",
 "Trusted: encoding/json, regexp, orderedmap, Tink do not panic on their inputs; pointers to parsed nodes and table nodes are non-nil by construction.",
 "panic-obligation enumeration over SSA with guard-fact discharge (dominance, small linear bound reasoning, call-site summaries)", "DESIGN.md section 3, C07")

prop("C18",
 "Exhaustive decision of the redact command's argument validation over all 2^13 presence combinations by abstract interpretation of the closure's SSA over the presence domain (empty/non-empty, zero/non-zero, unknown for results of effectful calls with both branches explored), compared with a specification predicate written from the property and the README: verdict, accepted mode, absence of side effects before every flags-only rejection, loudness of every rejection. The space is finite and enumerated completely. Level 'other' (not 'proof') because the abstraction of cobra/pflag parsing and of stdin detection is assumed, not derived.",
 "Trusted: cobra/pflag bind flags to the variables and enforce MaximumNArgs(1); os.Stdin.Stat models piped input. Not decided: unknown flags, invalid regexp values.",
 "abstract interpretation over a finite presence domain, exhaustive enumeration of the 8192 abstract initial states, effect log ordering", "DESIGN.md section 3, C18")

prop("C12",
 "Completeness, consistency and confinement of namespace pseudonymisation, decided on SSA + reconstructed tables: must-pass-through of the attr.ns rewrite on every successful return after attr is resolved; pairing of each command-document dispatch with the namespace rewriter on the same map under the flag only; verb list and store shape of the rewriter; Namespace typing of stage arguments and HashName stores in both Namespace arms; a single hashing site; every HashName call guarded (directly or through all callers) by the flag, a field-name parameter or the namespace-prefix test. attr.ns is rewritten only after every read of it, so other per-line decisions see the original namespace. Level 'other': whole-line absence of names is not decided.",
 "Trusted: go/ssa, orderedmap. Not decided: names in places the tool does not know (error messages), object forms of $out/$merge.into.",
 "CFG must-pass-through, guard atoms at call sites with inheritance through callers, table reconstruction", "DESIGN.md section 3, C12")
prop("C14",
 "Value-independence and path integrity of selective mode, decided on SSA: the guard of the selective pass-through contains only flags, options and the path matcher on a key path without input values; every call site carrying a matcher-reaching key path passes the caller's own path, append(path,key) or a guarded empty-path fallback; the matcher ranges over the whole path. No package-level state is both written and read in the walkers (no memoised verdicts). Level 'other': which names a regexp matches is value-level.",
 "Trusted: regexp. One listed exception (sub-pipeline restart) in rules/exceptions.json.",
 "backward guard analysis of the pass-through return, inter-procedural parameter role propagation, call-site argument shape classification", "DESIGN.md section 3, C14")
prop("C15",
 "Wiring of field-name redaction, decided on SSA: the per-line mode is true only via HasPrefix(attr.ns, p) over the whole configured list and reaches every command-walker call and the plan-summary guard; every walker-to-walker call threads the caller's own flag parameter (about 30 sites); map walkers rename non-operator keys with HashName(current key) under the flag; '$field' references are renamed; sort is dispatched; renames are confined to the mode; the plan-summary rewrite is reached on every path, uses HashName and never rewrites its own output. The constant regular expressions that tokenize the plan summary are evaluated by the checker on probe summaries: every index key, dotted paths included, is one whole token; pseudonyms are inserted verbatim; the mode is decided on the original attr.ns. Level 'other': whole-line absence of names is not decided.",
 "Trusted: go/ssa, regexp.ReplaceAllStringFunc semantics.",
 "parameter-role propagation over the call graph, phi-edge guard analysis, loop-carried haystack detection", "DESIGN.md section 3, C15")

prop("C05",
 "Validity of the placeholder constants and of the class->placeholder selection, decided on source constants and SSA: each placeholder constant is a member of its class (RFC 3339 date, 24 hex digits, valid base64, e-mail literal accepted by the classifier pattern and length bounds extracted from the source, number 0, boolean false - evaluated by the checker on the constants, no repository code runs); in the scalar step the guard atoms of every choke-point call select the placeholder of exactly that class ($date, $oid, $binary.base64, e-mail, generic, number, boolean), parent / grand-parent key are the last / second-to-last path elements; the replacement text is stored only by init and its setter fed by --replacement; $binary.subType is exempt. Below each key-context test ($date / $oid / $binary.base64 with a string) every path yields that class's placeholder (no content test splits a class); the --replacement flag reaches the setter unmodified. Level 'other': JSON rendering of an arbitrary replacement string is the library's.",
 "Trusted: time.Parse/regexp/base64 in the checker agree with the Go runtime the tool is built with; encoding/json renders strings faithfully.",
 "constant evaluation of source constants with checker-side class predicates, guard atoms at the choke-point calls, store scan of the replacement global", "DESIGN.md section 3, C05")
prop("C19",
 "Fixed-point structure of redaction, decided on source constants and SSA: every placeholder constant, fed back through the class tests extracted from the same source, selects the same arm and yields the same constant (e-mail literal accepted, default replacement not e-mail shaped and not '$'-prefixed, wrapper arms keyed on key and string type only, number/boolean placeholders keep their JSON kind, remote placeholder constant); every non-raw return of the scalar step is one of those constants, the replacement global or a choke-point result over them; parse followed by serialise keeps kinds, key order and number text (UseNumber before the first token, objects rebuilt in token order, Front-to-Next serialisation, containers never handed to encoding/json). Below each key-context test every path yields that class's placeholder; the serialiser's buffer has no other writer. Level 'other': byte-level canonicity of encoding/json on its own output is not decided.",
 "Trusted: encoding/json is canonical on its own output; a user-supplied e-mail-shaped replacement is excluded by the statement.",
 "constant evaluation with the extracted classifier, return-value classification of the scalar step, parser/serialiser agreement rules shared with C03/C04", "DESIGN.md section 3, C19")

prop("C06",
 "Structural necessary conditions of the order-preserving, line-local map, decided on SSA: mod/ref of package-level state over the per-line call tree (nothing both written and read; tables never mutated, by receiver provenance), no goroutine/channel/sync, no time/randomness/environment/file/network source, no unsorted Go-map iteration (each zero-count detector re-validated against a positive control on every run); the scan loop hands the raw line only to the redactor and to comparisons with \"\", writes at most once per iteration exactly string(MarshalOrdered(RedactMongoLog(line))), every write-free iteration path (enumerated with edge facts) is guarded by the redactor's error, the serialiser's error or line==\"\", and the loop exits only with a non-nil error; every input channel reaches that one loop with the caller's own writer, wrapper success returns come only from it, the created output handle and os.Stdout are used only through the funnel, informational stdout text and a progress bar cannot coexist with stdout-bound records (CFG co-reachability / contradictory flag facts). A line yields a record only if it is exactly one complete JSON object (every token read error-checked, nothing may follow the object); a gzip reader is only handed to the scan loop and closed. Level 'other': line splitting (LF/CRLF/final newline) and gzip decoding are the library's.",
 "Trusted: bufio.ScanLines, compress/gzip, os.Create truncation. Not decided: byte equality across OS channels as observed bytes.",
 "inter-procedural mod/ref of globals, receiver provenance, bounded path enumeration of the scan loop with edge facts, who-may-use analysis of the output handle, CFG co-reachability", "DESIGN.md section 3, C06")

prop("C04",
 "Who may write what, decided on SSA with the provenance analysis and the reconstructed tables: every mutator call or element store whose receiver is part of the parsed line is one of an enumerated set (attr.remote constant under --redactIPs; the three command documents re-stored as themselves; attr.planSummary under the per-line field-name mode; attr.ns under --redactNamespaces; zone keys in the command walker; the namespace rewriter's constant key list with all its calls under the flag; in-place stores only inside zone walkers), no Delete/ReplaceKey, the line function returns the parsed entry itself; UseNumber dominates every decoder use and no number token is converted; keys inside zones are renamed only under the field-name parameter; $limit/$skip/$sample/search index, limit, numCandidates/$binary.subType are Exempt in the tables and every Exempt arm of the walkers hands the value on untouched; parser keeps member and element order and returns scalar tokens unchanged; serialiser iterates Front-to-Next and marshals every member; dispatch only under the COMMAND/QUERY/WRITE/'Slow query' gate with no further disjunct. Level 'other': encoding/json's byte-level rendering is trusted.",
 "Trusted: encoding/json renders json.Number verbatim and strings faithfully (HTML escaping is a semantically identical re-encoding); orderedmap.Set keeps the position of an existing key.",
 "receiver-provenance classification of all mutators on the line path against a writer table, dominance checks, table reconstruction, parser/serialiser loop-shape analysis", "DESIGN.md section 3, C04")

prop("C02",
 "Absence of explicit and implicit flows from sensitive leaves to the output in placeholder mode, decided inside the package by a use classification over SSA: every (instruction, operand) pair whose operand has input provenance in the walker functions (about 420 uses) must be of an enumerated kind - type/nil test, container traversal, the leading-'$' test, hand-over to a walker / scalar step / choke point / e-mail classifier, output store or return (raw pass-through, judged by C01-R2), pseudonymisation or table lookup of a '$' field path or a FieldName/Namespace position, byte conversion for the encryption call, or anything dominated by the selective-mode / encrypt-mode switch; length, slicing, indexing, hashing, formatting, comparisons with constants or other values, Go-map keys, stores to package state and appends to key paths are reported. Branch conditions are computed by such uses, so implicit flows are covered; the e-mail classifier may look at the value only through constant length bounds and the constant pattern, its verdict only steers a branch; key-context placeholders ($date/$oid/$binary) are chosen before any content test; every non-raw result of the scalar step is a constant / the replacement text / the choke point over those; the pseudonym side table is write-only. Level 'other': a one-run dataflow argument for a two-run property; flows through the standard library and timing are not decided.",
 "Trusted: go/ssa; library calls are pure functions of their arguments; json.Marshal of a constant is constant. Context-insensitive provenance: a use is judged by the union of everything that can reach it (sound for rejection, may over-report on restructured code).",
 "provenance dataflow + exhaustive use classification with guard atoms (explicit and implicit flows), CFG reachability query for class precedence, return-value classification", "DESIGN.md section 3, C02")

ALL = ["C%02d" % i for i in range(1, 21)]
checks = []
for pid in ALL:
    if pid not in P: continue
    p = P[pid]
    checks.append({
        "property_id": pid,
        "quick_cmd": "./run.sh %s quick" % pid,
        "thorough_cmd": "./run.sh %s thorough" % pid,
        "evidence_file": "/verif/evidence/%s.json" % pid,
        "replay_cmd_template": "cat {path}",
        "engine": "anonverif",
        "level_claimed": {"category": "other", "text": p["text"], "design_ref": p["design"]},
        "level_note": p["note"],
        "technique": "static analysis: " + p["technique"],
    })
na = [{"property_id": pid, "reason": NOT_BUILT.get(pid, "check not built yet in this round (planned, see DESIGN.md section 3)")} for pid in ALL if pid not in P]
m = {
 "version": 1,
 "setup_cmd": "cd /verif/checker && env -u GOWORK -u GOSUMDB -u GOTOOLCHAIN GOFLAGS=-mod=mod GOPROXY=off go build -o ../bin/anonverif .",
 "hooks": {
  "guard": "verif",
  "enable": "no hooks: static analysis reads the source; the checker loads /repo/src with build tag 'verif' set so that any future guarded file is covered",
  "baseline_off_cmd": "cd /repo && env -u GOWORK -u GOSUMDB GOFLAGS=-mod=mod GOPROXY=off go test -vet=off -count=1 ./...",
  "source_commits": [],
  "add_only": True
 },
 "engines": [{"name": "anonverif", "path": "/verif/checker", "serves_properties": [c["property_id"] for c in checks],
              "kind_free_text": "repository-specific static checker (Go, golang.org/x/tools v0.29.0: go/packages, go/ssa, typed AST, constant evaluation, call graph); never executes repository code"}],
 "checks": checks,
 "not_applicable": na,
 "notes": "All claims are level 'other': structural necessary conditions decided exactly from the current source; DESIGN.md lists per property what is and is not decided. known_findings.json lists genuine defects (open => KNOWN-FINDING line, fixed => suppresses nothing)."
}
json.dump(m, open("/verif/MANIFEST.json", "w"), indent=1)
print("checks:", len(checks), "not_applicable:", len(na))
