#!/usr/bin/env python3
"""Generates MANIFEST.json from the table below (kept in one place so the manifest is always valid)."""
import json, sys
P = {}
def prop(pid, text, note, technique, design):
    P[pid] = dict(text=text, note=note, technique=technique, design=design)

NOT_BUILT = {}

prop("C08",
 "Structural necessary conditions of the error discipline, decided exactly on the SSA of the current source: every write to the output writer is error-checked and a failed write ends the stream function with a non-nil error before any further write; scanner/gzip/open errors are returned; wrappers propagate; every CLI call site maps a non-nil error to a non-zero exit on all paths; record and newline are one write. Level 'other' because the fault behaviour of the OS and of the library (short writes, ENOSPC) is not decided - only that no error the code receives can be dropped.",
 "Trusted: go/ssa, library contract 'short write => non-nil error', bufio.Scanner.Err semantics. Not decided: byte-exactness of the already written prefix, Close errors.",
 "SSA path queries (must-reach non-nil error return / non-zero exit from each err!=nil edge), resolved callees",
 "DESIGN.md section 3, C08")

ALL = ["C%02d" % i for i in range(1, 21)]
checks = []
for pid in ALL:
    if pid not in P: continue
    p = P[pid]
    checks.append({
        "property_id": pid,
        "quick_cmd": "./run.sh %s quick" % pid,
        "thorough_cmd": "./run.sh %s thorough" % pid,
        "evidence_file": "/verif/evidence/%s.json" % pid,
        "replay_cmd_template": "cat {path}",
        "engine": "anonverif",
        "level_claimed": {"category": "other", "text": p["text"], "design_ref": p["design"]},
        "level_note": p["note"],
        "technique": "static analysis: " + p["technique"],
    })
na = [{"property_id": pid, "reason": NOT_BUILT.get(pid, "check not built yet in this round (planned, see DESIGN.md section 3)")} for pid in ALL if pid not in P]
m = {
 "version": 1,
 "setup_cmd": "cd /verif/checker && env -u GOWORK -u GOSUMDB -u GOTOOLCHAIN GOFLAGS=-mod=mod GOPROXY=off go build -o ../bin/anonverif .",
 "hooks": {
  "guard": "verif",
  "enable": "no hooks: static analysis reads the source; the checker loads /repo/src with build tag 'verif' set so that any future guarded file is covered",
  "baseline_off_cmd": "cd /repo && env -u GOWORK -u GOSUMDB GOFLAGS=-mod=mod GOPROXY=off go test -vet=off -count=1 ./...",
  "source_commits": [],
  "add_only": True
 },
 "engines": [{"name": "anonverif", "path": "/verif/checker", "serves_properties": [c["property_id"] for c in checks],
              "kind_free_text": "repository-specific static checker (Go, golang.org/x/tools v0.29.0: go/packages, go/ssa, typed AST, constant evaluation, call graph); never executes repository code"}],
 "checks": checks,
 "not_applicable": na,
 "notes": "All claims are level 'other': structural necessary conditions decided exactly from the current source; DESIGN.md lists per property what is and is not decided. known_findings.json lists genuine defects (open => KNOWN-FINDING line, fixed => suppresses nothing)."
}
json.dump(m, open("/verif/MANIFEST.json", "w"), indent=1)
print("checks:", len(checks), "not_applicable:", len(na))
