#!/usr/bin/env python3
"""Evaluate one seeded change (a directory holding patch.diff, a demonstration and meta.json).

  seedeval.py confirm <dir>   - in a scratch worktree of /repo HEAD (under /tmp, removed
                                 afterwards): the patch applies and compiles, the existing
                                 suite passes with it, the demonstration fails with it and
                                 passes without it
  seedeval.py check <dir> [props]  - apply the patch to /repo, run the checks (all by
                                 default), print which rules fire, and undo the patch

Nothing is ever committed to /repo.
"""
import json, os, subprocess, sys, shutil, tempfile, glob

REPO = "/repo"
VERIF = os.path.dirname(os.path.abspath(__file__))
ENV = dict(os.environ, GOFLAGS="-mod=mod", GOPROXY="off")
for k in ("GOWORK", "GOSUMDB", "GOTOOLCHAIN"):
    ENV.pop(k, None)


def sh(cmd, cwd=None, timeout=900):
    p = subprocess.run(cmd, shell=True, cwd=cwd, env=ENV, stdout=subprocess.PIPE, stderr=subprocess.STDOUT, text=True, timeout=timeout)
    return p.returncode, p.stdout


def demo_cmd(d, wt):
    if os.path.exists(os.path.join(d, "demo_test.go")):
        return "go test -vet=off -count=1 -run TestSeedDemo ./src", True
    if os.path.exists(os.path.join(d, "demo.sh")):
        return "bash %s %s </dev/null" % (os.path.join(d, "demo.sh"), wt), False
    raise SystemExit("no demonstration in " + d)


def run_demo(d, wt):
    cmd, is_test = demo_cmd(d, wt)
    if is_test:
        shutil.copy(os.path.join(d, "demo_test.go"), os.path.join(wt, "src", "zz_seed_demo_test.go"))
    try:
        rc, out = sh(cmd, cwd=wt)
    finally:
        if is_test:
            os.remove(os.path.join(wt, "src", "zz_seed_demo_test.go"))
    return rc, out


def confirm(d):
    wt = tempfile.mkdtemp(prefix="seedchk_")
    os.rmdir(wt)
    res = {}
    rc, out = sh("git worktree add -q --detach %s HEAD" % wt, cwd=REPO)
    if rc != 0:
        raise SystemExit(out)
    try:
        rc, out = run_demo(d, wt)
        res["demo_passes_without_change"] = rc == 0
        if rc != 0:
            res["demo_without_output"] = out[-600:]
        rc, out = sh("git apply --3way %s" % os.path.join(d, "patch.diff"), cwd=wt)
        res["applies"] = rc == 0
        if rc != 0:
            res["apply_output"] = out[-600:]
            return res
        sh("git reset -q", cwd=wt)
        rc, out = sh("go build -o /dev/null ./src", cwd=wt)
        res["compiles"] = rc == 0
        rc, out = sh("go test -vet=off -count=1 ./... 2>&1 | tail -5", cwd=wt)
        res["suite_passes_with_change"] = ("ok" in out) and ("FAIL" not in out)
        if not res["suite_passes_with_change"]:
            res["suite_output"] = out[-600:]
        rc, out = run_demo(d, wt)
        res["demo_fails_with_change"] = rc != 0
        res["demo_with_output_tail"] = out[-400:]
    finally:
        sh("git worktree remove --force %s" % wt, cwd=REPO)
        shutil.rmtree(wt, ignore_errors=True)
    return res


def check(d, props="all"):
    rc, out = sh("git status --porcelain", cwd=REPO)
    if out.strip():
        raise SystemExit("refusing: /repo is dirty\n" + out)
    ev = tempfile.mkdtemp(prefix="seedev_")
    res = {}
    try:
        rc, out = sh("git apply --3way %s && git reset -q" % os.path.join(d, "patch.diff"), cwd=REPO)
        if rc != 0:
            # conflict with later commits: restore the (clean, committed) tree
            sh("git reset -q --hard HEAD && git clean -fdq src", cwd=REPO)
            return {"applies_to_repo": False, "out": out[-400:]}
        rc, out = sh("%s -prop %s -tier quick -repo %s -evidence %s -known %s/known_findings.json" % (os.environ.get("VERIF_BIN", VERIF + "/bin/anonverif"), props, REPO, ev, VERIF))
        fired = []
        for l in out.splitlines():
            if l.strip().startswith("VIOLATED"):
                fired.append(l.strip()[:300])
        res["exit"] = rc
        res["violated_properties"] = sorted(set(l.split("property=")[1].split()[0] for l in out.splitlines() if l.startswith("VIOLATION")))
        res["fired"] = fired
    finally:
        sh("git checkout -q -- . && git clean -fdq src", cwd=REPO)
        shutil.rmtree(ev, ignore_errors=True)
    return res


def wcheck(d, props="all"):
    """like check, but in a scratch worktree (does not touch /repo's working tree)"""
    wt = tempfile.mkdtemp(prefix="seedwt_")
    os.rmdir(wt)
    ev = tempfile.mkdtemp(prefix="seedev_")
    res = {}
    rc, out = sh("git worktree add -q --detach %s HEAD" % wt, cwd=REPO)
    if rc != 0:
        raise SystemExit(out)
    try:
        rc, out = sh("git apply --3way %s && git reset -q" % os.path.join(d, "patch.diff"), cwd=wt)
        if rc != 0:
            return {"applies_to_repo": False, "out": out[-400:]}
        rc, out = sh("%s -prop %s -tier quick -repo %s -evidence %s -known %s/known_findings.json" % (os.environ.get("VERIF_BIN", VERIF + "/bin/anonverif"), props, wt, ev, VERIF))
        res["exit"] = rc
        res["violated_properties"] = sorted(set(l.split("property=")[1].split()[0] for l in out.splitlines() if l.startswith("VIOLATION")))
        res["fired"] = [l.strip()[:300] for l in out.splitlines() if l.strip().startswith("VIOLATED")]
    finally:
        sh("git worktree remove --force %s" % wt, cwd=REPO)
        shutil.rmtree(wt, ignore_errors=True)
        shutil.rmtree(ev, ignore_errors=True)
    return res


if __name__ == "__main__":
    mode, d = sys.argv[1], os.path.abspath(sys.argv[2])
    if mode == "confirm":
        print(json.dumps(confirm(d), indent=1))
    elif mode == "check":
        print(json.dumps(check(d, sys.argv[3] if len(sys.argv) > 3 else "all"), indent=1))
    elif mode == "wcheck":
        print(json.dumps(wcheck(d, sys.argv[3] if len(sys.argv) > 3 else "all"), indent=1))
    elif mode == "wboth":
        r = confirm(d)
        r["check"] = wcheck(d, sys.argv[3] if len(sys.argv) > 3 else "all")
        print(json.dumps(r, indent=1))
    elif mode == "both":
        r = confirm(d)
        r["check"] = check(d, sys.argv[3] if len(sys.argv) > 3 else "all")
        print(json.dumps(r, indent=1))
