#!/bin/bash
# usage: run.sh <Cnn|all> <quick|thorough>
# Builds the checker if needed (from files on disk, offline) and analyses /repo's
# current working tree. Nothing is cached between runs; nothing is left in /tmp.
set -u
cd "$(dirname "$0")"
export GOFLAGS=-mod=mod GOPROXY=off
unset GOWORK GOSUMDB GOTOOLCHAIN
PROP="${1:?property id}"; TIER="${2:-${VERIF_TIER:-quick}}"
BIN=./bin/anonverif
newest=$(ls -t checker/*.go checker/go.mod 2>/dev/null | head -1)
if [ ! -x "$BIN" ] || [ "$newest" -nt "$BIN" ]; then
  (cd checker && go build -o ../bin/anonverif .) || { echo "checker build failed"; exit 2; }
fi
exec "$BIN" -prop "$PROP" -tier "$TIER" -repo /repo -evidence /verif/evidence -known /verif/known_findings.json
