#!/usr/bin/env python3
"""Imports delivered maintenance changes (<src>/<Bnn>.out/<k>/{patch.diff,meta.json}) into
/verif/benign_seeded/<Bnn>_<k>/. usage: benignimport.py <srcdir> [note]"""
import json, os, sys, shutil, glob
src = sys.argv[1]
note = sys.argv[2] if len(sys.argv) > 2 else ""
V = os.path.dirname(os.path.abspath(__file__))
for d in sorted(glob.glob(os.path.join(src, "B*.out", "[0-9]"))):
    bid = os.path.basename(os.path.dirname(d))[:-4] + "_" + os.path.basename(d)
    if not os.path.exists(os.path.join(d, "patch.diff")):
        print("skip (no patch)", d); continue
    dst = os.path.join(V, "benign_seeded", bid)
    if os.path.exists(dst):
        continue
    os.makedirs(dst)
    shutil.copy(os.path.join(d, "patch.diff"), dst)
    m = {}
    try:
        m = json.load(open(os.path.join(d, "meta.json")))
    except Exception as e:
        print("meta unreadable", d, e)
    m["id"] = bid
    m["origin"] = "written by an independent sub-agent that was given the 20 property texts and a scratch worktree of the repository" + (" (" + note + ")" if note else "")
    json.dump(m, open(os.path.join(dst, "meta.json"), "w"), indent=1)
    print("imported", bid)
