#!/bin/bash
# usage: try.sh <patch-dir> <props> [keep]  - scratch clone of /repo with the patch applied, checker output, scratch removed unless keep
set -u
D=$(cd "$1" && pwd); P="${2:-all}"
WT=$(mktemp -d /tmp/try_XXXX); rmdir $WT
git clone -q --shared /repo $WT && (cd $WT && git apply --3way $D/patch.diff 2>&1 | grep -v "^Applied\|cleanly" )
EV=$(mktemp -d /tmp/tryev_XXXX)
export GOFLAGS=-mod=mod GOPROXY=off; unset GOWORK GOSUMDB GOTOOLCHAIN
/verif/bin/anonverif -prop $P -tier quick -repo $WT -evidence $EV -known /verif/known_findings.json ${VERIF_EXTRA:-} 2>&1
if [ "${3:-}" = keep ]; then echo "kept: $WT $EV"; else rm -rf $WT $EV; fi
