#!/usr/bin/env python3
"""Behaviour-preserving maintenance changes written by independent sub-agents
(/verif/benign_seeded/<id>/{patch.diff,meta.json}): every check must stay silent on them.

For each: `git -C /repo apply patch.diff`, run every check (quick tier, evidence to a
scratch directory), undo with `git -C /repo checkout -- .`. Exit 1 if any check reports a
violation. usage: benigntest.py [--only ID-substring]"""
import json, os, sys, glob
sys.path.insert(0, os.path.dirname(os.path.abspath(__file__)))
import seedeval
VERIF = os.path.dirname(os.path.abspath(__file__))

def main():
    args = sys.argv[1:]
    only = args[args.index("--only") + 1] if "--only" in args else None
    seedeval.sh("./run.sh C08 quick >/dev/null 2>&1", cwd=VERIF)
    rows, alarms = [], []
    for d in sorted(glob.glob(os.path.join(VERIF, "benign_seeded", "B*_*"))):
        bid = os.path.basename(d)
        if only and only not in bid:
            continue
        chk = seedeval.check(d)
        row = {"id": bid, "applies_to_repo": chk.get("applies_to_repo", True), "alarms": sorted(set(f.split()[1] for f in chk.get("fired", []))), "properties": chk.get("violated_properties", [])}
        rows.append(row)
        if not row["applies_to_repo"]:
            print("%-8s STALE-PATCH" % bid); continue
        if chk.get("exit", 0) != 0 and not row["properties"]:
            row["properties"] = ["<checker exit %s without a VIOLATION line>" % chk.get("exit")]
        if row["properties"]:
            alarms.append(bid)
            print("%-8s FALSE-ALARM %s %s" % (bid, row["properties"], row["alarms"]))
            for f in chk.get("fired", [])[:6]:
                print("      ", f[:400])
        else:
            print("%-8s silent" % bid)
    if not only:
        json.dump(rows, open(os.path.join(VERIF, "benign_seeded", "RESULT.json"), "w"), indent=1)
    print("benigntest: %d changes, %d false alarms %s" % (len(rows), len(alarms), alarms))
    return 1 if alarms else 0

if __name__ == "__main__":
    sys.exit(main())
