#!/usr/bin/env python3
"""Systematic first-order mutation sweep of /repo/src against the suite and the checker.

For every mutant that tools/mutgen enumerates (operator flips, negated conditions, deleted call
statements / error checks / defers, swapped arguments, constants +-1, changed string constants,
table types exchanged): apply it in a scratch clone of /repo, build, run the repository's own test
suite; for the mutants the suite does NOT kill, run all 20 checks and record which fire.

The interesting rows are the survivors no check reports: each is either an equivalent / harmless
mutant or a property-breaking change the rules miss - to be triaged by reading (mutsweep/TRIAGE.md).
Nothing is written to /repo. usage: mutsweep.py [-j N] [--only FILE] [--ids a,b,c] [--out DIR]
"""
import json, os, sys, subprocess, tempfile, shutil, concurrent.futures as cf, threading, time

REPO = "/repo"
VERIF = os.path.dirname(os.path.abspath(__file__))
ENV = dict(os.environ, GOFLAGS="-mod=mod", GOPROXY="off")
for k in ("GOWORK", "GOSUMDB", "GOTOOLCHAIN"):
    ENV.pop(k, None)
MUTGEN = VERIF + "/bin/mutgen"
BIN = os.environ.get("VERIF_BIN", VERIF + "/bin/anonverif")


def sh(cmd, cwd=None, timeout=300):
    try:
        p = subprocess.run(cmd, shell=True, cwd=cwd, env=ENV, stdout=subprocess.PIPE, stderr=subprocess.STDOUT, text=True, timeout=timeout)
        return p.returncode, p.stdout
    except subprocess.TimeoutExpired as e:
        return 124, (e.stdout or "") if isinstance(e.stdout, str) else "timeout"


local = threading.local()
allwts = []


def worktree():
    wt = getattr(local, "wt", None)
    if wt is None:
        wt = tempfile.mkdtemp(prefix="mutsweep_")
        rc, out = sh("git -C %s archive HEAD | tar -x -C %s && cd %s && git init -q && git add -A >/dev/null && git -c user.email=x -c user.name=x commit -qm base" % (REPO, wt, wt))
        if rc != 0:
            raise RuntimeError(out)
        local.wt = wt
        allwts.append(wt)
    return wt


def one(m):
    wt = worktree()
    tmp = os.path.join(wt, "mut.tmp")
    rc, out = sh("%s apply %s/src %d %s" % (MUTGEN, wt, m["id"], tmp))
    if rc != 0:
        return dict(m, status="apply-failed")
    fname = out.strip().splitlines()[-1]
    target = os.path.join(wt, "src", fname)
    shutil.copy(target, os.path.join(wt, "orig.tmp"))
    shutil.move(tmp, target)
    res = dict(m)
    try:
        rc, out = sh("go build -o /dev/null ./src", cwd=wt, timeout=120)
        if rc != 0:
            res["status"] = "no-compile"
            return res
        rc, out = sh("go test -vet=off -count=1 ./... 2>&1 | tail -3", cwd=wt, timeout=180)
        if "ok" not in out or "FAIL" in out or rc == 124:
            res["status"] = "killed-by-suite"
            return res
        ev = tempfile.mkdtemp(prefix="mutsweep_ev_")
        try:
            rc, out = sh("%s -prop all -tier quick -repo %s -evidence %s -known %s/known_findings.json" % (BIN, wt, ev, VERIF), timeout=600)
        finally:
            shutil.rmtree(ev, ignore_errors=True)
        props = sorted(set(l.split("property=")[1].split()[0] for l in out.splitlines() if l.startswith("VIOLATION")))
        rules = sorted(set(l.split()[1] for l in out.splitlines() if l.strip().startswith("VIOLATED")))
        res["status"] = "survived"
        res["properties"] = props
        res["rules"] = rules
        if rc not in (0, 1):
            res["checker_exit"] = rc
        return res
    finally:
        shutil.copy(os.path.join(wt, "orig.tmp"), target)
        sh("git checkout -q -- . && git clean -fdq", cwd=wt)


def main():
    args = sys.argv[1:]
    jobs = int(args[args.index("-j") + 1]) if "-j" in args else 14
    only = args[args.index("--only") + 1] if "--only" in args else None
    ids = set(int(x) for x in args[args.index("--ids") + 1].split(",")) if "--ids" in args else None
    outdir = args[args.index("--out") + 1] if "--out" in args else os.path.join(VERIF, "mutsweep")
    os.makedirs(outdir, exist_ok=True)
    rc, out = sh("%s list %s/src" % (MUTGEN, REPO))
    ms = [json.loads(l) for l in out.splitlines() if l.startswith("{")]
    if only:
        ms = [m for m in ms if m["file"] == only]
    if ids is not None:
        ms = [m for m in ms if m["id"] in ids]
    head = subprocess.check_output(["git", "-C", REPO, "log", "--format=%h", "-1"], text=True).strip()
    t0 = time.time()
    done = 0
    rows = []
    with cf.ThreadPoolExecutor(jobs) as ex:
        for r in ex.map(one, ms):
            rows.append(r)
            done += 1
            if done % 100 == 0:
                print("%d / %d  (%.0f s)" % (done, len(ms), time.time() - t0), flush=True)
    for wt in allwts:
        shutil.rmtree(wt, ignore_errors=True)
    with open(os.path.join(outdir, "results.jsonl"), "w") as f:
        for r in rows:
            f.write(json.dumps(r) + "\n")
    st = {}
    for r in rows:
        st[r["status"]] = st.get(r["status"], 0) + 1
    surv = [r for r in rows if r["status"] == "survived"]
    flagged = [r for r in surv if r["properties"]]
    summary = {"repo_head": head, "mutants": len(rows), "by_status": st, "survived_the_suite": len(surv), "reported_by_some_check": len(flagged), "not_reported": len(surv) - len(flagged), "wall_s": round(time.time() - t0)}
    json.dump(summary, open(os.path.join(outdir, "summary.json"), "w"), indent=1)
    print(json.dumps(summary, indent=1))


if __name__ == "__main__":
    main()
