#!/usr/bin/env python3
"""Lists mutants whose anchor text (`old`) no longer occurs in /repo (after a fix commit moved it)."""
import json, glob, os, sys
bad = 0
for p in sorted(glob.glob(os.path.join(os.path.dirname(os.path.abspath(__file__)), "checker/testdata/mutants/*.json"))):
    for m in json.load(open(p)):
        # edits apply sequentially
        texts = {}
        for e in m["edits"]:
            f = os.path.join("/repo", e["file"])
            t = texts.get(f)
            if t is None:
                t = open(f).read() if os.path.exists(f) else ""
            if e["old"] not in t:
                print("DRIFT %s :: %s :: %s\n   old=%r" % (os.path.basename(p), m["name"], e["file"], e["old"][:160]))
                bad += 1
                break
            t = t.replace(e["old"], e["new"], e.get("count", 1) if e.get("count", 1) > 0 else t.count(e["old"]))
            texts[f] = t
print("drifted:", bad)
sys.exit(1 if bad else 0)
