#!/bin/bash
# C01: literals of the predicate / inserted document survive in the server-made copies that the
# same log line carries next to the command: attr.stats (plan executor error lines) and
# attr.errMsg / attr.error (failed operations).
WT="${1:?usage: repro.sh <worktree>}"
export GOFLAGS=-mod=mod GOPROXY=off; unset GOWORK GOSUMDB GOTOOLCHAIN
TMP=$(mktemp -d); trap 'rm -rf "$TMP"' EXIT
(cd "$WT" && go build -o "$TMP/anonymongo" ./src) || { echo "build failed"; exit 2; }
cat > "$TMP/in.log" <<'LOG'
{"t":{"$date":"2024-03-01T12:00:00.000+00:00"},"s":"W","c":"QUERY","id":23798,"ctx":"conn12","msg":"Plan executor error during find command","attr":{"error":{"code":292,"codeName":"QueryExceededMemoryLimitNoDiskUseAllowed","errmsg":"Sort exceeded memory limit of 104857600 bytes, but did not opt in to external sorting."},"stats":{"stage":"SORT","nReturned":0,"works":1200,"sortPattern":{"created":-1},"memLimit":104857600,"inputStage":{"stage":"COLLSCAN","filter":{"$and":[{"email":{"$eq":"alice.smith@corp.example"}},{"diagnosis":{"$eq":"S3CR3T-diagnosis"}}]},"nReturned":1100,"direction":"forward","docsExamined":90000}},"cmd":{"find":"patients","filter":{"email":"alice.smith@corp.example","diagnosis":"S3CR3T-diagnosis"},"sort":{"created":-1},"lsid":{"id":{"$uuid":"a657a630-1111-0000-0000-d01de73c37e7"}},"$db":"clinic"}}}
{"t":{"$date":"2024-03-01T12:00:01.000+00:00"},"s":"I","c":"COMMAND","id":51803,"ctx":"conn12","msg":"Slow query","attr":{"type":"command","ns":"clinic.patients","command":{"insert":"patients","ordered":true,"lsid":{"id":{"$uuid":"a657a630-1111-0000-0000-d01de73c37e7"}},"$db":"clinic","documents":[{"_id":{"$oid":"65e1c0a1f0f0f0f0f0f0f0f0"},"email":"bob.jones@corp.example","name":"S3CR3T-name"}]},"ninserted":0,"keysInserted":0,"numYields":0,"ok":0,"errMsg":"E11000 duplicate key error collection: clinic.patients index: email_1 dup key: { email: \"bob.jones@corp.example\" }","errName":"DuplicateKey","errCode":11000,"reslen":250,"remote":"10.1.2.3:5555","protocol":"op_msg","durationMillis":140}}
{"t":{"$date":"2024-03-01T12:00:02.000+00:00"},"s":"D1","c":"COMMAND","id":21962,"ctx":"conn12","msg":"Assertion while executing command","attr":{"command":"update","db":"clinic","commandArgs":{"update":"patients","updates":[{"q":{"_id":7},"u":{"$set":{"email":"carol.w@corp.example"}}}],"$db":"clinic"},"error":"DuplicateKey{ keyPattern: { email: 1 }, keyValue: { email: \"carol.w@corp.example\" } }: E11000 duplicate key error collection: clinic.patients index: email_1 dup key: { email: \"carol.w@corp.example\" }"}}
LOG
rc=0
for flags in "" "--redactNumbers --redactBooleans --redactIPs --redactNamespaces" "--replacement XXX"; do
  "$TMP/anonymongo" redact $flags < "$TMP/in.log" > "$TMP/out.log" || { echo "run failed"; exit 2; }
  [ "$(wc -l < "$TMP/out.log")" -eq 3 ] || { echo "expected 3 output lines"; exit 2; }
  n=0
  while IFS= read -r line; do
    n=$((n+1))
    for secret in 'alice.smith@corp.example' 'S3CR3T-diagnosis' 'bob.jones@corp.example' 'carol.w@corp.example'; do
      if printf '%s' "$line" | grep -q -- "$secret"; then
        case $n in 1) where="attr.stats.inputStage.filter";; 2) where="attr.errMsg";; *) where="attr.error";; esac
        echo "VIOLATION (C01) flags [$flags] line $n: literal '$secret' of the command document is still in the emitted line, in $where"
        rc=1
      fi
    done
  done < "$TMP/out.log"
done
exit $rc
