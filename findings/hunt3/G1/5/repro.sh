#!/bin/bash
# C14: in selective mode the member names q / u of an update or delete statement (and filter /
# updateMods / document of a bulkWrite op) are treated as field names on the path. A regexp that
# selects a field called "u" (or "q") therefore redacts EVERY literal of the update specification
# (or predicate), also under field names that do not match - and the same statement logged in its
# WRITE-line / findAndModify form is treated differently.
WT="${1:?usage: repro.sh <worktree>}"
export GOFLAGS=-mod=mod GOPROXY=off; unset GOWORK GOSUMDB GOTOOLCHAIN
TMP=$(mktemp -d); trap 'rm -rf "$TMP"' EXIT
(cd "$WT" && go build -o "$TMP/anonymongo" ./src) || { echo "build failed"; exit 2; }
wrap() { # $1 component, $2 type, $3 command document
  printf '{"t":{"$date":"2024-01-01T00:00:00.000+00:00"},"s":"I","c":"%s","id":51803,"ctx":"conn1","msg":"Slow query","attr":{"type":"%s","ns":"db.tickets","command":%s,"durationMillis":5}}\n' "$1" "$2" "$3"
}
rc=0
# collection with short field names: u = user, s = status, p = priority
R='^(u|SSN)$'
upd=$(wrap COMMAND command '{"update":"tickets","updates":[{"q":{"s":"KEEP-open","u":"GONE-alice"},"u":{"$set":{"s":"KEEP-closed","p":{"$numberLong":"7"}},"$push":{"tags":{"$each":["KEEP-tag"]}}},"multi":false,"upsert":false}],"ordered":true,"$db":"db"}' | "$TMP/anonymongo" redact --redactFieldsRegexp "$R")
wri=$(wrap WRITE update '{"q":{"s":"KEEP-open","u":"GONE-alice"},"u":{"$set":{"s":"KEEP-closed","p":{"$numberLong":"7"}},"$push":{"tags":{"$each":["KEEP-tag"]}}},"multi":false,"upsert":false}' | "$TMP/anonymongo" redact --redactFieldsRegexp "$R")
for out in "$upd" "$wri"; do
  printf '%s' "$out" | grep -q 'GONE-alice' && { echo "matching field u not redacted (unexpected)"; rc=1; }
done
for lit in 'KEEP-open' 'KEEP-closed' 'KEEP-tag' '"\$numberLong":"7"'; do
  if ! printf '%s' "$upd" | grep -q -- "$lit"; then
    echo "VIOLATION (C14) update command, regexp $R: literal $lit sits under no matching field name (path: \$set.s / \$set.p / \$push.tags.\$each) but was redacted"
    rc=1
  fi
  printf '%s' "$wri" | grep -q -- "$lit" || { echo "WRITE-line form also changed $lit"; rc=1; }
done
# delete statement, field called q (quantity)
R2='^q$'
del=$(wrap COMMAND command '{"delete":"tickets","deletes":[{"q":{"s":"KEEP-open","q":"GONE-5"},"limit":1}],"$db":"db"}' | "$TMP/anonymongo" redact --redactFieldsRegexp "$R2")
printf '%s' "$del" | grep -q 'KEEP-open' || { echo "VIOLATION (C14) delete command, regexp $R2: literal KEEP-open under field s (no matching name on its path) was redacted"; rc=1; }
if [ $rc -eq 1 ]; then
  echo "--- update command form:"; printf '%s\n' "$upd" | sed 's/.*"command"://; s/,"durationMillis".*//'
  echo "--- same statement, WRITE slow-query form:"; printf '%s\n' "$wri" | sed 's/.*"command"://; s/,"durationMillis".*//'
  echo "--- delete:"; printf '%s\n' "$del" | sed 's/.*"command"://; s/,"durationMillis".*//'
fi
exit $rc
