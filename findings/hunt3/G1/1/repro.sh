#!/bin/bash
# C01: an Atlas Search facet whose (client-chosen) name is "type" or "numBuckets" is copied verbatim
WT="${1:?usage: repro.sh <worktree>}"
export GOFLAGS=-mod=mod GOPROXY=off; unset GOWORK GOSUMDB GOTOOLCHAIN
TMP=$(mktemp -d); trap 'rm -rf "$TMP"' EXIT
(cd "$WT" && go build -o "$TMP/anonymongo" ./src) || { echo "build failed"; exit 2; }

mk() { # $1 = facet name
cat <<LINE
{"t":{"\$date":"2024-05-01T10:00:00.000+00:00"},"s":"I","c":"COMMAND","id":51803,"ctx":"conn7","msg":"Slow query","attr":{"type":"command","ns":"shop.orders","command":{"aggregate":"orders","pipeline":[{"\$searchMeta":{"index":"default","facet":{"operator":{"range":{"path":"shipped","gte":{"\$date":"2019-03-04T05:06:07.000Z"}}},"facets":{"$1":{"type":"date","path":"shipped","boundaries":[{"\$date":"2019-03-04T05:06:07.000Z"},{"\$date":"2021-08-09T10:11:12.000Z"}],"default":"S3CR3T-bucket"},"priceFacet":{"type":"number","path":"price","boundaries":[424242,515151]}}}}}],"cursor":{},"\$db":"shop"},"durationMillis":120}}
LINE
}
rc=0
for name in type numBuckets; do
  for flags in "" "--redactNumbers --redactBooleans --redactIPs --redactNamespaces"; do
    out=$(mk "$name" | "$TMP/anonymongo" redact $flags)
    for secret in '2019-03-04T05:06:07' '2021-08-09T10:11:12' 'S3CR3T-bucket'; do
      if printf '%s' "$out" | grep -q -- "$secret"; then
        echo "VIOLATION (C01): facet named \"$name\", flags [$flags]: client literal $secret survives in the emitted line"
        rc=1
      fi
    done
  done
done
# control: the same facet under another name is redacted
out=$(mk "shippedFacet" | "$TMP/anonymongo" redact)
printf '%s' "$out" | grep -q '2021-08-09T10:11:12' && { echo "control also leaks (unexpected)"; rc=1; }
[ $rc -eq 1 ] && mk type | "$TMP/anonymongo" redact | sed 's/.*"facets"://' | cut -c1-260
exit $rc
