#!/bin/bash
# C19: a line that the tool accepts (< 64 KiB) grows past bufio.Scanner's 64 KiB token limit when
# short literals are replaced by the longer placeholder; the tool then cannot read its own output.
WT="${1:?usage: repro.sh <worktree>}"
export GOFLAGS=-mod=mod GOPROXY=off; unset GOWORK GOSUMDB GOTOOLCHAIN
TMP=$(mktemp -d); trap 'rm -rf "$TMP"' EXIT
(cd "$WT" && go build -o "$TMP/anonymongo" ./src) || { echo "build failed"; exit 2; }

ids=$(seq -f '"u%g"' 0 6999 | paste -sd, -)          # 7000 short ids in one $in list
mkline() { # $1 = filter document, $2 = second
  printf '{"t":{"$date":"2024-01-01T00:00:0%s.000+00:00"},"s":"I","c":"COMMAND","id":51803,"ctx":"conn1","msg":"Slow query","attr":{"type":"command","ns":"db.coll","command":{"find":"coll","filter":%s,"$db":"db"},"remote":"10.1.2.3:5555","durationMillis":5}}\n' "$2" "$1"
}
{ mkline '{"uid":"x"}' 1; mkline "{\"uid\":{\"\$in\":[$ids]}}" 2; mkline '{"uid":"y"}' 3; } > "$TMP/in.log"
longest=$(awk '{ if (length($0)>m) m=length($0) } END {print m}' "$TMP/in.log")
echo "longest input line: $longest bytes (limit 65536)"
rc=0
for flags in "" "--redactNumbers --redactBooleans --redactIPs"; do
  "$TMP/anonymongo" redact $flags < "$TMP/in.log" > "$TMP/out1.log" 2> "$TMP/err1"; rc1=$?
  "$TMP/anonymongo" redact $flags < "$TMP/out1.log" > "$TMP/out2.log" 2> "$TMP/err2"; rc2=$?
  if [ $rc1 -ne 0 ] || [ "$(wc -l < "$TMP/out1.log")" -ne 3 ]; then echo "first pass did not emit the 3 lines (rc=$rc1) - precondition failed"; exit 2; fi
  if ! cmp -s "$TMP/out1.log" "$TMP/out2.log"; then
    echo "VIOLATION (C19) flags [$flags]: redact(redact(x)) != redact(x)"
    echo "  first pass : rc=$rc1, $(wc -l < "$TMP/out1.log") lines, $(wc -c < "$TMP/out1.log") bytes, longest line $(awk '{ if (length($0)>m) m=length($0) } END {print m}' "$TMP/out1.log") bytes"
    echo "  second pass: rc=$rc2, $(wc -l < "$TMP/out2.log") lines, $(wc -c < "$TMP/out2.log") bytes, stderr: $(cat "$TMP/err2")"
    rc=1
  fi
done
exit $rc
