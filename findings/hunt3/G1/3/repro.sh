#!/bin/bash
# C19: output file named *.gz is written uncompressed; the reader picks gzip by extension and rejects it
WT="${1:?usage: repro.sh <worktree>}"
export GOFLAGS=-mod=mod GOPROXY=off; unset GOWORK GOSUMDB GOTOOLCHAIN
TMP=$(mktemp -d); trap 'rm -rf "$TMP"' EXIT
(cd "$WT" && go build -o "$TMP/anonymongo" ./src) || { echo "build failed"; exit 2; }
cd "$TMP"
cat > mongodb.log <<'LOG'
{"t":{"$date":"2024-01-01T00:00:01.000+00:00"},"s":"I","c":"COMMAND","id":51803,"ctx":"conn1","msg":"Slow query","attr":{"type":"command","ns":"db.coll","command":{"find":"coll","filter":{"email":"alice@example.com","n":5,"ok":true},"$db":"db"},"remote":"10.1.2.3:5555","durationMillis":5}}
{"t":{"$date":"2024-01-01T00:00:02.000+00:00"},"s":"I","c":"NETWORK","id":22943,"ctx":"listener","msg":"Connection accepted","attr":{"remote":"10.1.2.3:5555","connectionId":7}}
LOG
gzip -k mongodb.log
rc=0
for flags in "" "--redactNumbers --redactBooleans --redactIPs"; do
  rm -f redacted.log.gz again.log.gz
  # the invocation shown under "Examples" in `anonymongo redact --help`
  ./anonymongo redact mongodb.log.gz -o redacted.log.gz $flags < /dev/null > /dev/null 2> err1; rc1=$?
  if [ $rc1 -ne 0 ] || [ "$(wc -l < redacted.log.gz)" -ne 2 ]; then echo "first pass failed (rc=$rc1): $(cat err1)"; exit 2; fi
  ./anonymongo redact redacted.log.gz -o again.log.gz $flags < /dev/null > /dev/null 2> err2; rc2=$?
  if ! cmp -s redacted.log.gz again.log.gz; then
    echo "VIOLATION (C19) flags [$flags]: feeding the output file redacted.log.gz back does not reproduce it"
    echo "  first pass : rc=$rc1, $(wc -c < redacted.log.gz) bytes, first bytes: $(head -c 20 redacted.log.gz)"
    echo "  second pass: rc=$rc2, $(wc -c < again.log.gz) bytes, stderr: $(cat err2)"
    rc=1
  fi
done
exit $rc
