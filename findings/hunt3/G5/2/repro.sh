#!/bin/bash
# usage: repro.sh <worktree>
# C18: "--encrypt needs file input and file output". With Atlas as the input source the
# job is accepted: a key file is generated, the output file is created and a request to
# the Atlas API is attempted. Exits 1 when the violation shows. No network: the HTTPS
# proxy points at a closed local port, so the (wrongly) attempted request fails at once.
set -u
WT=${1:?worktree path}
export GOFLAGS=-mod=mod GOPROXY=off; unset GOWORK GOSUMDB GOTOOLCHAIN
D=$(mktemp -d); trap 'rm -rf "$D"' EXIT
(cd "$WT" && go build -o "$D/anonymongo" ./src) || { echo "build failed"; exit 2; }
mkdir "$D/w" "$D/tmp"; cd "$D/w"
env -i PATH="$PATH" HOME="$D/w" TMPDIR="$D/tmp" HTTPS_PROXY=http://127.0.0.1:9 https_proxy=http://127.0.0.1:9 \
   ATLAS_PUBLIC_KEY=pubkey ATLAS_PRIVATE_KEY=privkey \
   "$D/anonymongo" redact --atlasProjectId proj1 --atlasClusterName cluster0 --outputFile out.log --encrypt \
   </dev/null >stdout.txt 2>stderr.txt
rc=$?
echo "exit status: $rc"; echo "stdout:"; cat stdout.txt; echo "stderr:"; cat stderr.txt; echo "files:"; ls -la
bad=0
if [ -e anonymongo.enc.key ]; then echo "VIOLATION: a key file was generated although --encrypt was given without file input"; bad=1; fi
if [ -e out.log ]; then echo "VIOLATION: the output file was created"; bad=1; fi
if grep -q "Downloading Atlas cluster logs\|Error downloading Atlas logs" stdout.txt stderr.txt; then echo "VIOLATION: the job was accepted and a request to the Atlas API was attempted"; bad=1; fi
[ $bad = 1 ] && exit 1
exit 0
