#!/bin/bash
# usage: repro.sh <worktree>
# C17: raw downloaded logs must not outlive the run. The progress messages go to stdout; when
# stdout is a pipe whose reader has gone (`anonymongo redact ... | head -n 2`) the next message
# kills the process with SIGPIPE between two downloads: no deferred/explicit cleanup runs and the
# unredacted log(s) downloaded so far stay in $TMPDIR. (SIGINT/SIGTERM during a download: same.)
# Exits 1 when the violation shows. No network: local fake Atlas API via HTTPS_PROXY/SSL_CERT_FILE.
set -u
WT=${1:?worktree path}
HERE=$(cd "$(dirname "$0")" && pwd)
export GOFLAGS=-mod=mod GOPROXY=off; unset GOWORK GOSUMDB GOTOOLCHAIN
D=$(mktemp -d); FPID=; trap 'kill $FPID 2>/dev/null; rm -rf "$D"' EXIT
(cd "$WT" && go build -o "$D/anonymongo" ./src) || { echo "build failed"; exit 2; }
(cd "$HERE/fake" && go build -o "$D/fakeatlas" .) || { echo "fake server build failed"; exit 2; }
mkdir "$D/w" "$D/tmp" "$D/srv"; cd "$D/w"
printf '%s\n' '{"t":{"$date":"2024-01-01T00:00:00.000+00:00"},"s":"I","c":"COMMAND","id":51803,"ctx":"conn1","msg":"Slow query","attr":{"ns":"db.c","command":{"find":"c","filter":{"name":"alice-secret"},"$db":"db"}}}' > host.log
gzip -k host.log
cat > cfg.json <<EOC
{"standard":"mongodb://h0:27017,h1:27017,h2:27017","challenge":"digest","default":{"status":200,"bodyFile":"$D/w/host.log.gz"}}
EOC
"$D/fakeatlas" cfg.json "$D/srv" & FPID=$!
for i in $(seq 100); do [ -s "$D/srv/port" ] && break; sleep 0.1; done
PORT=$(cat "$D/srv/port")
env -i PATH="$PATH" HOME="$D/w" TMPDIR="$D/tmp" HTTPS_PROXY=http://127.0.0.1:$PORT https_proxy=http://127.0.0.1:$PORT \
   SSL_CERT_FILE="$D/srv/ca.pem" SSL_CERT_DIR=/nonexistent ATLAS_PUBLIC_KEY=pubkey ATLAS_PRIVATE_KEY=privkey \
   "$D/anonymongo" redact --atlasProjectId proj1 --atlasClusterName cluster0 -o out.log </dev/null 2>stderr.txt | head -n 2
rc=${PIPESTATUS[0]}
sleep 0.3
echo "exit status of anonymongo: $rc (141 = killed by SIGPIPE)"; echo "stderr:"; cat stderr.txt
echo "temporary directory after the run:"; ls -la "$D/tmp"
left=$(ls "$D/tmp" | grep -c '^mongod_')
if [ "$left" -gt 0 ]; then
  echo "VIOLATION: $left downloaded (unredacted) log file(s) left behind, e.g.:"; f=$(ls "$D/tmp"/mongod_* | head -1); echo "  $f: $(zcat "$f" | cut -c1-200)"
  exit 1
fi
exit 0
