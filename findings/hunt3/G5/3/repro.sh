#!/bin/bash
# usage: repro.sh <worktree>
# C18: "start and end dates are given together or not at all". The CLI decides "given" by
# value != 0 instead of by flag presence, so a lone --atlasLogStartDate 0 (or
# --atlasLogEndDate 0) is accepted, while the complete pair "-s 0 -e 1700000000" is refused
# as incomplete. Exits 1 when the violation shows. No network (proxy -> closed local port).
set -u
WT=${1:?worktree path}
export GOFLAGS=-mod=mod GOPROXY=off; unset GOWORK GOSUMDB GOTOOLCHAIN
D=$(mktemp -d); trap 'rm -rf "$D"' EXIT
(cd "$WT" && go build -o "$D/anonymongo" ./src) || { echo "build failed"; exit 2; }
mkdir "$D/w" "$D/tmp"; cd "$D/w"
printf '%s\n' '{"t":{"$date":"2024-01-01T00:00:00.000+00:00"},"s":"I","c":"COMMAND","id":51803,"ctx":"conn1","msg":"Slow query","attr":{"ns":"db.c","command":{"find":"c","filter":{"name":"alice"},"$db":"db"}}}' > in.log
run() { env -i PATH="$PATH" HOME="$D/w" TMPDIR="$D/tmp" HTTPS_PROXY=http://127.0.0.1:9 https_proxy=http://127.0.0.1:9 ATLAS_PUBLIC_KEY=pubkey ATLAS_PRIVATE_KEY=privkey "$D/anonymongo" "$@" </dev/null >stdout.txt 2>stderr.txt; rc=$?; echo "\$ anonymongo $*  -> exit $rc"; sed 's/^/   stdout: /' stdout.txt | cut -c1-160; sed 's/^/   stderr: /' stderr.txt | cut -c1-200; }
bad=0
# control: a lone non-zero start date is rejected
run redact in.log --atlasLogStartDate 5
[ $rc -ne 0 ] || { echo "control failed: lone start date 5 accepted"; bad=1; }
# 1. file job + lone start date (epoch 0): must be rejected (a date alone; Atlas flag with file input)
run redact in.log --atlasLogStartDate 0
if [ $rc -eq 0 ]; then echo "VIOLATION: a start date given without an end date (and together with a file input) was accepted"; bad=1; fi
# 2. Atlas job + lone end date 0: must be rejected from the flags alone, without network request / output file
rm -f out.log
run redact --atlasProjectId proj1 --atlasClusterName cluster0 -o out.log --atlasLogEndDate 0
if grep -q "Downloading Atlas cluster logs" stdout.txt; then echo "VIOLATION: an end date given without a start date was accepted: the Atlas request was attempted (window silently replaced by the last seven days) and out.log created: $(ls out.log 2>/dev/null)"; bad=1; fi
# 3. both dates given (start = epoch 0): a well-defined pair, refused as 'not set together'
run redact --atlasProjectId proj1 --atlasClusterName cluster0 -o out2.log --atlasLogStartDate 0 --atlasLogEndDate 1700000000
if grep -q "must be set together" stderr.txt; then echo "NOTE: the complete pair -s 0 -e 1700000000 is refused with 'must be set together'"; fi
[ $bad = 1 ] && exit 1
exit 0
