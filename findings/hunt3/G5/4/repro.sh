#!/bin/bash
# usage: repro.sh <worktree>
# C16, per-host payload "empty": host 0 answers 200 with a zero-length body (no log data in
# the window), host 1 with a normal gzip log. Expected: out.log.0 empty, out.log.1 = redaction
# of host 1's log, exit 0. Actual: 'failed to create gzip reader: EOF', exit 1, out.log.1 is
# never written. Exits 1 when the violation shows.
# No network: a local fake Atlas API (fake/main.go: CONNECT proxy that terminates TLS with its
# own CA) is reached through HTTPS_PROXY / SSL_CERT_FILE.
set -u
WT=${1:?worktree path}
HERE=$(cd "$(dirname "$0")" && pwd)
export GOFLAGS=-mod=mod GOPROXY=off; unset GOWORK GOSUMDB GOTOOLCHAIN
D=$(mktemp -d); trap 'kill $FPID 2>/dev/null; rm -rf "$D"' EXIT
FPID=
(cd "$WT" && go build -o "$D/anonymongo" ./src) || { echo "build failed"; exit 2; }
(cd "$HERE/fake" && go build -o "$D/fakeatlas" .) || { echo "fake server build failed"; exit 2; }
mkdir "$D/w" "$D/tmp" "$D/srv"; cd "$D/w"
printf '%s\n' '{"t":{"$date":"2024-01-01T00:00:00.000+00:00"},"s":"I","c":"COMMAND","id":51803,"ctx":"conn1","msg":"Slow query","attr":{"ns":"db.c","command":{"find":"c","filter":{"name":"alice"},"$db":"db"}}}' > host1.log
gzip -k host1.log
: > empty.gz
cat > cfg.json <<EOC
{"standard":"mongodb://h0.abcde.mongodb.net:27017,h1.abcde.mongodb.net:27017","challenge":"digest",
 "hosts":{"h0.abcde.mongodb.net":{"status":200,"bodyFile":"$D/w/empty.gz"},
          "h1.abcde.mongodb.net":{"status":200,"bodyFile":"$D/w/host1.log.gz"}}}
EOC
"$D/fakeatlas" cfg.json "$D/srv" & FPID=$!
for i in $(seq 100); do [ -s "$D/srv/port" ] && break; sleep 0.1; done
PORT=$(cat "$D/srv/port")
env -i PATH="$PATH" HOME="$D/w" TMPDIR="$D/tmp" HTTPS_PROXY=http://127.0.0.1:$PORT https_proxy=http://127.0.0.1:$PORT \
   SSL_CERT_FILE="$D/srv/ca.pem" SSL_CERT_DIR=/nonexistent ATLAS_PUBLIC_KEY=pubkey ATLAS_PRIVATE_KEY=privkey \
   "$D/anonymongo" redact --atlasProjectId proj1 --atlasClusterName cluster0 -o out.log </dev/null >stdout.txt 2>stderr.txt
rc=$?
echo "exit status: $rc"; echo "stderr:"; cat stderr.txt; echo "requests seen by the fake API:"; grep -o '"uri":"[^"]*"' "$D/srv/requests.jsonl" | sort | uniq -c
echo "output files:"; ls -la out.log* 2>/dev/null
# reference: what out.log.1 should be = redaction of host1.log in file mode
env -i PATH="$PATH" HOME="$D/w" "$D/anonymongo" redact host1.log </dev/null > expected.1 2>/dev/null
bad=0
if [ $rc -ne 0 ]; then echo "VIOLATION: the run fails on an empty per-host payload (exit $rc)"; bad=1; fi
if [ ! -e out.log.1 ] || ! cmp -s out.log.1 expected.1; then echo "VIOLATION: out.log.1 does not hold the redaction of host 1's log (missing or different)"; bad=1; fi
if [ -e out.log.0 ] && [ -s out.log.0 ]; then echo "VIOLATION: out.log.0 is not empty"; bad=1; fi
[ $bad = 1 ] && exit 1
exit 0
