// fake Atlas API: an HTTP CONNECT proxy that terminates TLS itself for any host.
package main

import (
	"bufio"
	"crypto/ecdsa"
	"crypto/elliptic"
	"crypto/rand"
	"crypto/tls"
	"crypto/x509"
	"crypto/x509/pkix"
	"encoding/json"
	"encoding/pem"
	"fmt"
	"math/big"
	"net"
	"net/http"
	"os"
	"strings"
	"sync"
	"time"
)

type hostCfg struct {
	Status   int               `json:"status"`
	BodyFile string            `json:"bodyFile"`
	Cut      int               `json:"cut"` // -1 none; else declare full length, send only Cut bytes then close
	Headers  map[string]string `json:"headers"`
	Reset    bool              `json:"reset"`
	Echo     bool              `json:"echo"`
}
type cfg struct {
	Standard      string             `json:"standard"`
	Challenge     string             `json:"challenge"` // digest|none|basic|raw:<header>
	ClusterStatus int                `json:"clusterStatus"`
	Hosts         map[string]hostCfg `json:"hosts"`
	Default       *hostCfg           `json:"default"`
}

var (
	c     cfg
	logMu sync.Mutex
	logF  *os.File
)

type oneConnListener struct {
	ch   chan net.Conn
	addr net.Addr
}

func (l *oneConnListener) Accept() (net.Conn, error) {
	c, ok := <-l.ch
	if !ok {
		return nil, fmt.Errorf("closed")
	}
	return c, nil
}
func (l *oneConnListener) Close() error   { return nil }
func (l *oneConnListener) Addr() net.Addr { return l.addr }

func logReq(r *http.Request, connectHost string) {
	logMu.Lock()
	defer logMu.Unlock()
	m := map[string]any{"connect": connectHost, "method": r.Method, "uri": r.RequestURI, "host": r.Host, "headers": r.Header}
	b, _ := json.Marshal(m)
	logF.Write(append(b, '\n'))
}

func handler(connectHost string) http.Handler {
	return http.HandlerFunc(func(w http.ResponseWriter, r *http.Request) {
		logReq(r, connectHost)
		auth := r.Header.Get("Authorization")
		if auth == "" {
			switch {
			case c.Challenge == "digest" || c.Challenge == "":
				w.Header().Set("WWW-Authenticate", `Digest realm="MMS Public API", domain="", nonce="abcNONCE123", algorithm=MD5, qop="auth", stale=false`)
				w.WriteHeader(401)
				w.Write([]byte(`{"error":401}`))
				return
			case c.Challenge == "basic":
				w.Header().Set("WWW-Authenticate", `Basic realm="x"`)
				w.WriteHeader(401)
				return
			case strings.HasPrefix(c.Challenge, "raw:"):
				w.Header().Set("WWW-Authenticate", c.Challenge[4:])
				w.WriteHeader(401)
				return
			}
		}
		p := r.URL.Path
		if !strings.HasSuffix(p, "/logs/mongodb.gz") {
			if c.ClusterStatus != 0 && c.ClusterStatus != 200 {
				w.WriteHeader(c.ClusterStatus)
				fmt.Fprintf(w, "cluster error; your headers: %v", r.Header)
				return
			}
			w.Header().Set("Content-Type", "application/vnd.atlas.2025-03-12+json")
			json.NewEncoder(w).Encode(map[string]any{"connectionStrings": map[string]any{"standard": c.Standard, "standardSrv": "mongodb+srv://x.abcde.mongodb.net"}})
			return
		}
		parts := strings.Split(p, "/")
		host := parts[len(parts)-3]
		hc, ok := c.Hosts[host]
		if !ok {
			if c.Default != nil {
				hc = *c.Default
			} else {
				w.WriteHeader(404)
				return
			}
		}
		if hc.Reset {
			hj := w.(http.Hijacker)
			conn, _, _ := hj.Hijack()
			conn.Close()
			return
		}
		for k, v := range hc.Headers {
			w.Header().Set(k, v)
		}
		if hc.Status != 0 && hc.Status != 200 {
			w.WriteHeader(hc.Status)
			if hc.Echo {
				fmt.Fprintf(w, "error; your headers: %v", r.Header)
			}
			return
		}
		var body []byte
		if hc.BodyFile != "" {
			body, _ = os.ReadFile(hc.BodyFile)
		}
		if hc.Cut >= 0 && hc.Cut < len(body) {
			hj := w.(http.Hijacker)
			conn, bw, _ := hj.Hijack()
			fmt.Fprintf(bw, "HTTP/1.1 200 OK\r\nContent-Type: application/gzip\r\nContent-Length: %d\r\n\r\n", len(body))
			bw.Write(body[:hc.Cut])
			bw.Flush()
			conn.Close()
			return
		}
		w.Header().Set("Content-Type", "application/gzip")
		w.WriteHeader(200)
		w.Write(body)
	})
}

func main() {
	cfgPath, dir := os.Args[1], os.Args[2]
	b, err := os.ReadFile(cfgPath)
	if err != nil {
		panic(err)
	}
	// default Cut -1
	var raw map[string]any
	json.Unmarshal(b, &raw)
	if err := json.Unmarshal(b, &c); err != nil {
		panic(err)
	}
	if hs, ok := raw["hosts"].(map[string]any); ok {
		for k, v := range hs {
			if _, has := v.(map[string]any)["cut"]; !has {
				h := c.Hosts[k]
				h.Cut = -1
				c.Hosts[k] = h
			}
		}
	}
	if d, ok := raw["default"].(map[string]any); ok {
		if _, has := d["cut"]; !has {
			c.Default.Cut = -1
		}
	}
	logF, _ = os.Create(dir + "/requests.jsonl")

	// CA + leaf
	caKey, _ := ecdsa.GenerateKey(elliptic.P256(), rand.Reader)
	caT := &x509.Certificate{SerialNumber: big.NewInt(1), Subject: pkix.Name{CommonName: "fake ca"}, NotBefore: time.Now().Add(-time.Hour), NotAfter: time.Now().Add(24 * time.Hour), IsCA: true, KeyUsage: x509.KeyUsageCertSign | x509.KeyUsageDigitalSignature, BasicConstraintsValid: true}
	caDER, _ := x509.CreateCertificate(rand.Reader, caT, caT, &caKey.PublicKey, caKey)
	caCert, _ := x509.ParseCertificate(caDER)
	os.WriteFile(dir+"/ca.pem", pem.EncodeToMemory(&pem.Block{Type: "CERTIFICATE", Bytes: caDER}), 0644)
	leafKey, _ := ecdsa.GenerateKey(elliptic.P256(), rand.Reader)
	leafT := &x509.Certificate{SerialNumber: big.NewInt(2), Subject: pkix.Name{CommonName: "cloud.mongodb.com"}, DNSNames: []string{"cloud.mongodb.com", "*.mongodb.com", "*.mongodb.net", "localhost"}, NotBefore: time.Now().Add(-time.Hour), NotAfter: time.Now().Add(24 * time.Hour), KeyUsage: x509.KeyUsageDigitalSignature, ExtKeyUsage: []x509.ExtKeyUsage{x509.ExtKeyUsageServerAuth}}
	leafDER, _ := x509.CreateCertificate(rand.Reader, leafT, caCert, &leafKey.PublicKey, caKey)
	tlsCfg := &tls.Config{Certificates: []tls.Certificate{{Certificate: [][]byte{leafDER}, PrivateKey: leafKey}}, NextProtos: []string{"http/1.1"}}

	ln, err := net.Listen("tcp", "127.0.0.1:0")
	if err != nil {
		panic(err)
	}
	os.WriteFile(dir+"/port", []byte(fmt.Sprint(ln.Addr().(*net.TCPAddr).Port)), 0644)
	for {
		conn, err := ln.Accept()
		if err != nil {
			return
		}
		go func(conn net.Conn) {
			br := bufio.NewReader(conn)
			req, err := http.ReadRequest(br)
			if err != nil {
				conn.Close()
				return
			}
			logMu.Lock()
			m := map[string]any{"proxy": true, "method": req.Method, "uri": req.RequestURI, "headers": req.Header}
			bb, _ := json.Marshal(m)
			logF.Write(append(bb, '\n'))
			logMu.Unlock()
			if req.Method != "CONNECT" {
				conn.Write([]byte("HTTP/1.1 400 Bad Request\r\n\r\n"))
				conn.Close()
				return
			}
			conn.Write([]byte("HTTP/1.1 200 Connection established\r\n\r\n"))
			tc := tls.Server(conn, tlsCfg)
			l := &oneConnListener{ch: make(chan net.Conn, 1), addr: ln.Addr()}
			l.ch <- tc
			srv := &http.Server{Handler: handler(req.RequestURI)}
			go srv.Serve(l)
		}(conn)
	}
}
