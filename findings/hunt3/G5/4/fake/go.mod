module fake
go 1.24.3
