#!/bin/bash
# usage: repro.sh <worktree>
# C16 / SRV-form standard connection string: DNS look-ups are made and the ports of the
# resolved members stay in the request path. Exits 1 when the violation shows.
set -u
WT=${1:?worktree path}
HERE=$(cd "$(dirname "$0")" && pwd)
export GOFLAGS=-mod=mod GOPROXY=off; unset GOWORK GOSUMDB GOTOOLCHAIN
T="$WT/src/zz_hunt3_g5_srv_test.go"
cp "$HERE/zz_hunt3_g5_srv_test.go.txt" "$T"
trap 'rm -f "$T"' EXIT
out=$(cd "$WT" && go test -vet=off -count=1 -run 'TestHunt3G5SRV$' -v ./src 2>&1)
rm -f "$T"
echo "$out" | grep -E "VIOLATION|GetHostsFromConnectionString|^(ok|FAIL|---)" 
if echo "$out" | grep -q "VIOLATION"; then
  echo "C16 violated: SRV-form standard string -> DNS look-ups and/or host:port in the log-download URL"
  exit 1
fi
if ! echo "$out" | grep -q "^ok"; then echo "test did not run cleanly:"; echo "$out" | tail -20; exit 2; fi
exit 0
