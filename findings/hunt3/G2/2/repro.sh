#!/bin/bash
# C06: a line of 65535 bytes is processed with LF line ends but aborts the run with CRLF line ends
W=${1:?usage: repro.sh <worktree>}
export GOFLAGS=-mod=mod GOPROXY=off; unset GOWORK GOSUMDB GOTOOLCHAIN
T=$(mktemp -d); trap 'rm -rf "$T"' EXIT
(cd "$W" && go build -o "$T/anonymongo" ./src) || { echo "build failed"; exit 2; }
python3 - "$T" <<'EOP'
import sys
T = sys.argv[1]
L = '{"t":{"$date":"2024-01-01T00:00:00.000+00:00"},"s":"I","c":"COMMAND","id":51803,"ctx":"conn1","msg":"Slow query","attr":{"type":"command","ns":"db.coll","command":{"find":"coll","filter":{"a":"%s"}},"durationMillis":5}}'
first = L % 'short'
line = L % ('y' * (65535 - len(L % '')))
assert len(line) == 65535
last = L % 'tail'
open(T + '/lf.log', 'wb').write((first + '\n' + line + '\n' + last + '\n').encode())
open(T + '/crlf.log', 'wb').write((first + '\r\n' + line + '\r\n' + last + '\r\n').encode())
EOP
"$T/anonymongo" redact < "$T/lf.log" > "$T/lf.out" 2> "$T/lf.err"; rc_lf=$?
"$T/anonymongo" redact < "$T/crlf.log" > "$T/crlf.out" 2> "$T/crlf.err"; rc_crlf=$?
n_lf=$(wc -l < "$T/lf.out"); n_crlf=$(wc -l < "$T/crlf.out")
echo "LF  : exit $rc_lf, $n_lf output lines, stderr: $(cat "$T/lf.err")"
echo "CRLF: exit $rc_crlf, $n_crlf output lines, stderr: $(cat "$T/crlf.err")"
if ! cmp -s "$T/lf.out" "$T/crlf.out" || [ "$rc_lf" != "$rc_crlf" ]; then
  echo "VIOLATION C06: the same 3 lines (middle line 65535 bytes long) give different output bytes / exit status with LF and with CRLF line ends"
  exit 1
fi
echo "ok: LF and CRLF runs agree"
