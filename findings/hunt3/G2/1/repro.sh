#!/bin/bash
# C04: options of the write statements (updates[i] / deletes[i] / ops[i]) are rewritten
W=${1:?usage: repro.sh <worktree>}
export GOFLAGS=-mod=mod GOPROXY=off; unset GOWORK GOSUMDB GOTOOLCHAIN
T=$(mktemp -d); trap 'rm -rf "$T"' EXIT
(cd "$W" && go build -o "$T/anonymongo" ./src) || { echo "build failed"; exit 2; }
cat > "$T/in.log" <<'EOL'
{"t":{"$date":"2024-01-01T00:00:00.000+00:00"},"s":"I","c":"COMMAND","id":51803,"ctx":"conn1","msg":"Slow query","attr":{"type":"command","ns":"db.coll","command":{"delete":"coll","deletes":[{"q":{"a":"x"},"limit":1,"hint":"a_1","collation":{"locale":"en","strength":2}}],"ordered":true,"$db":"db"},"durationMillis":5}}
{"t":{"$date":"2024-01-01T00:00:00.000+00:00"},"s":"I","c":"COMMAND","id":51803,"ctx":"conn1","msg":"Slow query","attr":{"type":"command","ns":"db.coll","command":{"update":"coll","updates":[{"q":{"a":"x"},"u":{"$set":{"b":"y"}},"multi":true,"upsert":true,"hint":{"a":1}}],"ordered":true,"$db":"db"},"durationMillis":5}}
{"t":{"$date":"2024-01-01T00:00:00.000+00:00"},"s":"I","c":"COMMAND","id":51803,"ctx":"conn1","msg":"Slow query","attr":{"type":"command","ns":"admin.$cmd","command":{"bulkWrite":1,"ops":[{"insert":1,"document":{"a":"x"}},{"update":1,"filter":{"a":"x"},"updateMods":{"$set":{"b":"y"}},"multi":true,"hint":"a_1"},{"delete":1,"filter":{"a":"x"},"multi":true}],"nsInfo":[{"ns":"db.c1"},{"ns":"db.c2"}],"$db":"admin"},"durationMillis":5}}
{"t":{"$date":"2024-01-01T00:00:00.000+00:00"},"s":"I","c":"WRITE","id":51803,"ctx":"conn1","msg":"Slow query","attr":{"type":"update","ns":"db.coll","command":{"q":{"a":"x"},"u":{"$set":{"b":"y"}},"multi":true,"upsert":true,"hint":"a_1","collation":{"locale":"en","strength":2}},"durationMillis":5}}
EOL
"$T/anonymongo" redact < "$T/in.log" > "$T/out.default" || { echo "run failed"; exit 2; }
"$T/anonymongo" redact -n -b < "$T/in.log" > "$T/out.nb" || { echo "run failed"; exit 2; }
"$T/anonymongo" redact -f db.coll < "$T/in.log" > "$T/out.f" || { echo "run failed"; exit 2; }
python3 - "$T" <<'EOP'
import json, sys
T = sys.argv[1]
inp = [json.loads(l) for l in open(T + '/in.log') if l.strip()]
def cmd(lines, i): return lines[i]['attr']['command']
bad = []
def same(label, a, b):
    if a != b:
        bad.append("%s: input %s -> output %s" % (label, json.dumps(a), json.dumps(b)))
# query-bearing members of a statement; everything else is an option of the statement
QUERY = {'q', 'u', 'c', 'filter', 'updateMods', 'document', 'arrayFilters'}
for name in ('default', 'nb'):
    out = [json.loads(l) for l in open(T + '/out.' + name) if l.strip()]
    for li, arr in ((0, 'deletes'), (1, 'updates'), (2, 'ops')):
        for si, st in enumerate(cmd(inp, li)[arr]):
            ost = cmd(out, li)[arr][si]
            for k, v in st.items():
                if k not in QUERY:
                    same("[flags=%s] %s[%d].%s" % (name, arr, si, k), v, ost.get(k))
    # reference: the same options at the top level of a WRITE line are kept
    for k in ('multi', 'upsert', 'hint', 'collation'):
        if cmd(inp, 3)[k] != cmd(out, 3)[k]:
            print("note: top-level option %s also changed" % k)
outf = [json.loads(l) for l in open(T + '/out.f') if l.strip()]
for li, arr in ((0, 'deletes'), (1, 'updates')):
    ik = list(cmd(inp, li)[arr][0].keys()); ok = list(cmd(outf, li)[arr][0].keys())
    if ik != ok:
        bad.append("[flags=-f db.coll] keys of %s[0] (command syntax, not user fields): %s -> %s" % (arr, ik, ok))
if bad:
    print("VIOLATION C04: options of write statements are altered (the same options are kept when they sit at the top level of the command document):")
    for b in bad: print("  " + b)
    sys.exit(1)
print("ok: statement options unchanged")
EOP
