#!/bin/bash
# C05: $uuid / $numberDecimal / $regularExpression.options wrappers get the generic text placeholder -> invalid extended JSON
W=${1:?usage: repro.sh <worktree>}
export GOFLAGS=-mod=mod GOPROXY=off; unset GOWORK GOSUMDB GOTOOLCHAIN
T=$(mktemp -d); trap 'rm -rf "$T"' EXIT
(cd "$W" && go build -o "$T/anonymongo" ./src) || { echo "build failed"; exit 2; }
cat > "$T/in.log" <<'EOL'
{"t":{"$date":"2024-01-01T00:00:00.000+00:00"},"s":"I","c":"COMMAND","id":51803,"ctx":"conn1","msg":"Slow query","attr":{"type":"command","ns":"db.coll","command":{"find":"coll","filter":{"sessionId":{"$uuid":"bc20d6db-b6ce-4a8d-93ef-7742457eb5c5"},"price":{"$gte":{"$numberDecimal":"19.99"}},"name":{"$regularExpression":{"pattern":"^smith","options":"i"}},"_id":{"$oid":"507f1f77bcf86cd799439011"},"ts":{"$date":"2020-01-01T00:00:00.000Z"}},"$db":"db"},"durationMillis":5}}
{"t":{"$date":"2024-01-01T00:00:00.000+00:00"},"s":"I","c":"COMMAND","id":51803,"ctx":"conn1","msg":"Slow query","attr":{"type":"command","ns":"db.coll","command":{"insert":"coll","documents":[{"_id":{"$uuid":"bc20d6db-b6ce-4a8d-93ef-7742457eb5c5"},"amount":{"$numberDecimal":"1.5"}}],"$db":"db"},"durationMillis":5}}
EOL
"$T/anonymongo" redact < "$T/in.log" > "$T/out.log" || { echo "run failed"; exit 2; }
python3 - "$T" <<'EOP'
import json, re, sys
T = sys.argv[1]
out = [json.loads(l) for l in open(T + '/out.log') if l.strip()]
bad = []
UUID = re.compile(r'^[0-9a-fA-F]{8}-?[0-9a-fA-F]{4}-?[0-9a-fA-F]{4}-?[0-9a-fA-F]{4}-?[0-9a-fA-F]{12}$')
DEC = re.compile(r'^[+-]?(\d+(\.\d*)?|\.\d+)([eE][+-]?\d+)?$|^[+-]?(Infinity|NaN)$')
def walk(v, path):
    if isinstance(v, dict):
        for k, x in v.items():
            p = path + '/' + k
            if k == '$uuid' and isinstance(x, str) and not UUID.match(x):
                bad.append("%s = %r is not a UUID (EJSON parsers reject it)" % (p, x))
            if k == '$numberDecimal' and isinstance(x, str) and not DEC.match(x):
                bad.append("%s = %r is not a decimal literal (EJSON parsers reject it)" % (p, x))
            if k == '$regularExpression' and isinstance(x, dict) and isinstance(x.get('options'), str) and not re.match(r'^[imxslu]*$', x['options']):
                bad.append("%s/options = %r is not a set of regex flags (EJSON parsers reject it)" % (p, x['options']))
            if k == '$oid' and not re.match(r'^[0-9a-f]{24}$', x): bad.append("%s = %r" % (p, x))
            walk(x, p)
    elif isinstance(v, list):
        for i, x in enumerate(v): walk(x, path + '/%d' % i)
for i, o in enumerate(out): walk(o['attr']['command'], 'line%d:attr/command' % (i + 1))
if bad:
    print("VIOLATION C05: redacted leaves under extended-JSON wrappers are not valid members of their class ($oid / $date on the same lines are):")
    for b in bad: print("  " + b)
    sys.exit(1)
print("ok")
EOP
