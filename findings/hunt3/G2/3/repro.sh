#!/bin/bash
# C06: --outputFile naming the input file: input is truncated before it is read, output is empty, exit 0
W=${1:?usage: repro.sh <worktree>}
export GOFLAGS=-mod=mod GOPROXY=off; unset GOWORK GOSUMDB GOTOOLCHAIN
T=$(mktemp -d); trap 'rm -rf "$T"' EXIT
(cd "$W" && go build -o "$T/anonymongo" ./src) || { echo "build failed"; exit 2; }
L='{"t":{"$date":"2024-01-01T00:00:00.000+00:00"},"s":"I","c":"COMMAND","id":51803,"ctx":"conn1","msg":"Slow query","attr":{"type":"command","ns":"db.coll","command":{"find":"coll","filter":{"a":"secret"}},"durationMillis":5}}'
printf '%s\n%s\n' "$L" "$L" > "$T/mongod.log"
cp "$T/mongod.log" "$T/ref.log"
# reference: separate output file
"$T/anonymongo" redact "$T/ref.log" -o "$T/ref.out" < /dev/null > /dev/null 2>&1 || { echo "reference run failed"; exit 2; }
# same path for input and output (also through a second name of the same file)
"$T/anonymongo" redact "$T/mongod.log" -o "$T/mongod.log" < /dev/null > "$T/stdout" 2> "$T/stderr"; rc=$?
echo "reference run: $(wc -l < "$T/ref.out") output lines"
echo "in-place run : exit $rc, $(wc -l < "$T/mongod.log") lines / $(wc -c < "$T/mongod.log") bytes left in the file, stderr: $(cat "$T/stderr")"
if [ "$rc" = 0 ] && ! cmp -s "$T/ref.out" "$T/mongod.log"; then
  echo "VIOLATION C06: the run reports success but the output holds no line for the 2 JSON input lines (the input was truncated by os.Create before it was read)"
  exit 1
fi
echo "ok"
