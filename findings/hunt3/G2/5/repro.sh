#!/bin/bash
# C04: the Atlas Search index name in a top-level $listSearchIndexes stage is replaced, although index names are kept in $search/$searchMeta/$vectorSearch
W=${1:?usage: repro.sh <worktree>}
export GOFLAGS=-mod=mod GOPROXY=off; unset GOWORK GOSUMDB GOTOOLCHAIN
T=$(mktemp -d); trap 'rm -rf "$T"' EXIT
(cd "$W" && go build -o "$T/anonymongo" ./src) || { echo "build failed"; exit 2; }
cat > "$T/in.log" <<'EOL'
{"t":{"$date":"2024-01-01T00:00:00.000+00:00"},"s":"I","c":"COMMAND","id":51803,"ctx":"conn1","msg":"Slow query","attr":{"type":"command","ns":"db.coll","command":{"aggregate":"coll","pipeline":[{"$listSearchIndexes":{"name":"default"}}],"cursor":{},"$db":"db"},"durationMillis":5}}
{"t":{"$date":"2024-01-01T00:00:00.000+00:00"},"s":"I","c":"COMMAND","id":51803,"ctx":"conn1","msg":"Slow query","attr":{"type":"command","ns":"db.coll","command":{"aggregate":"coll","pipeline":[{"$search":{"index":"default","text":{"query":"x","path":"t"}}},{"$vectorSearch":{"index":"vector_index","path":"e","queryVector":[0.5],"numCandidates":100,"limit":10}}],"cursor":{},"$db":"db"},"durationMillis":5}}
EOL
"$T/anonymongo" redact < "$T/in.log" > "$T/out.log" || { echo "run failed"; exit 2; }
python3 - "$T" <<'EOP'
import json, sys
T = sys.argv[1]
out = [json.loads(l) for l in open(T + '/out.log') if l.strip()]
p0 = out[0]['attr']['command']['pipeline']; p1 = out[1]['attr']['command']['pipeline']
print("$search.index        ->", p1[0]['$search']['index'])
print("$vectorSearch.index  ->", p1[1]['$vectorSearch']['index'])
print("$listSearchIndexes.name ->", p0[0]['$listSearchIndexes']['name'])
if p0[0]['$listSearchIndexes']['name'] != 'default':
    print("VIOLATION C04: the Atlas Search index name of the top-level $listSearchIndexes stage was rewritten (the same index name is kept in $search / $vectorSearch)")
    sys.exit(1)
print("ok")
EOP
