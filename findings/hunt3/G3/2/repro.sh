#!/usr/bin/env bash
# C11: a valid key file is destroyed (truncated to 0 bytes) when --outputFile names the
# same path as --encryptionKeyFile: main.go creates/truncates the output file before it
# looks at the key file.
# usage: repro.sh <worktree>   exit 1 = violation shown, 0 = not shown, 2 = setup problem
set -u
WT=${1:?usage: repro.sh <worktree>}
export GOFLAGS=-mod=mod GOPROXY=off; unset GOWORK GOSUMDB GOTOOLCHAIN
T=$(mktemp -d); trap 'rm -rf "$T"' EXIT
(cd "$WT" && go build -o "$T/anonymongo" ./src) || { echo "build failed"; exit 2; }
BIN="$T/anonymongo"
cat > "$T/in.log" <<'EOF'
{"t":{"$date":"2024-01-01T00:00:00.000+00:00"},"s":"I","c":"COMMAND","id":51803,"ctx":"conn1","msg":"Slow query","attr":{"type":"command","ns":"db.coll","command":{"find":"coll","filter":{"name":"alice"},"$db":"db"}}}
EOF

# run 1: key absent -> the tool generates a valid key
"$BIN" redact "$T/in.log" -o "$T/out1.log" --encrypt --encryptionKeyFile "$T/key" < /dev/null > /dev/null 2>&1 || { echo "run 1 failed"; exit 2; }
[ -s "$T/key" ] || { echo "run 1 did not create a key"; exit 2; }
cp "$T/key" "$T/key.before"
CT=$(sed -n 's/.*"name":"\([^"]*\)".*/\1/p' "$T/out1.log")

# run 2: same valid key file, but the output path is the key path
"$BIN" redact "$T/in.log" -o "$T/key" --encrypt --encryptionKeyFile "$T/key" < /dev/null > "$T/run2.txt" 2>&1; RC=$?

if cmp -s "$T/key" "$T/key.before"; then
  echo "ok: key file untouched (run 2 exit status $RC)"
  exit 0
fi
echo "VIOLATION (C11): the valid key file was modified by a run that names it as --outputFile"
echo "  run 2 exit status : $RC   ($(tail -n 1 "$T/run2.txt"))"
echo "  key size before   : $(wc -c < "$T/key.before") bytes"
echo "  key size after    : $(wc -c < "$T/key") bytes"
"$BIN" decrypt "$CT" --decryptionKeyFile "$T/key" > "$T/dec.txt" 2>&1
echo "  decrypt of run-1 ciphertext with the key file now: exit $? ($(tail -n 1 "$T/dec.txt"))"
exit 1
