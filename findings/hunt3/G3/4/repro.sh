#!/usr/bin/env bash
# C10: with --encrypt --redactNamespaces the strings that placeholder mode replaces by a
# pseudonym (collection / database names: command.find, command.$db, attr.ns, $lookup.from ...)
# come out byte-identical in encrypt mode: out_enc == out_plain != in, and the value is
# not a ciphertext that decrypts to the original.
# usage: repro.sh <worktree>   exit 1 = violation shown, 0 = not shown, 2 = setup problem
set -u
WT=${1:?usage: repro.sh <worktree>}
export GOFLAGS=-mod=mod GOPROXY=off; unset GOWORK GOSUMDB GOTOOLCHAIN
T=$(mktemp -d); trap 'rm -rf "$T"' EXIT
(cd "$WT" && go build -o "$T/anonymongo" ./src) || { echo "build failed"; exit 2; }
BIN="$T/anonymongo"
ORIG='patients_hiv_clinic'
cat > "$T/in.log" <<EOF
{"t":{"\$date":"2024-01-01T00:00:00.000+00:00"},"s":"I","c":"COMMAND","id":51803,"ctx":"conn1","msg":"Slow query","attr":{"type":"command","ns":"hospital.$ORIG","command":{"find":"$ORIG","filter":{"name":"alice"},"\$db":"hospital"}}}
EOF
find_of() { sed -n 's/.*"find":"\([^"]*\)".*/\1/p' "$1"; }

"$BIN" redact "$T/in.log" -o "$T/plain.log" --redactNamespaces < /dev/null > /dev/null 2>&1 || { echo "placeholder run failed"; exit 2; }
P=$(find_of "$T/plain.log")
if [ "$P" = "$ORIG" ]; then echo "placeholder mode does not replace command.find - precondition not met"; exit 0; fi

"$BIN" redact "$T/in.log" -o "$T/enc.log" --redactNamespaces --encrypt --encryptionKeyFile "$T/key" < /dev/null > /dev/null 2>&1 || { echo "encrypt run failed"; exit 2; }
E=$(find_of "$T/enc.log")

OUT=$("$BIN" decrypt "$E" --decryptionKeyFile "$T/key" 2>&1); RC=$?
if [ "$E" != "$P" ] && [ $RC -eq 0 ] && printf '%s\n' "$OUT" | grep -qxF "Raw value: $ORIG"; then
  echo "ok: command.find differs from the placeholder-mode value and decrypts to the original"
  exit 0
fi
echo "VIOLATION (C10): with --encrypt --redactNamespaces"
echo "  input      command.find = $ORIG"
echo "  placeholder-mode value  = $P   (placeholder mode replaces this string leaf)"
echo "  encrypt-mode value      = $E"
[ "$E" = "$P" ] && echo "  -> encrypt-mode output does NOT differ from placeholder-mode output at a leaf that placeholder mode replaces"
echo "  decrypt exit status     = $RC: $(printf '%s' "$OUT" | tail -n 1)"
exit 1
