#!/usr/bin/env bash
# C09: --encrypt --redactIPs emits the constant 255.255.255.255:65535 for attr.remote
# instead of a ciphertext that `decrypt` turns back into the original string.
# usage: repro.sh <worktree>   exit 1 = violation shown, 0 = not shown, 2 = setup problem
set -u
WT=${1:?usage: repro.sh <worktree>}
export GOFLAGS=-mod=mod GOPROXY=off; unset GOWORK GOSUMDB GOTOOLCHAIN
T=$(mktemp -d); trap 'rm -rf "$T"' EXIT
(cd "$WT" && go build -o "$T/anonymongo" ./src) || { echo "build failed"; exit 2; }
BIN="$T/anonymongo"
ORIG='203.0.113.77:51234'
cat > "$T/in.log" <<EOF
{"t":{"\$date":"2024-01-01T00:00:00.000+00:00"},"s":"I","c":"NETWORK","id":22943,"ctx":"listener","msg":"Connection accepted","attr":{"remote":"$ORIG","connectionId":7,"connectionCount":1}}
EOF
remote_of() { sed -n 's/.*"remote":"\([^"]*\)".*/\1/p' "$1"; }

# 1. placeholder mode: the string is one that placeholder mode replaces
"$BIN" redact "$T/in.log" -o "$T/plain.log" --redactIPs < /dev/null > /dev/null 2>&1 || { echo "placeholder run failed"; exit 2; }
P=$(remote_of "$T/plain.log")
if [ "$P" = "$ORIG" ]; then echo "placeholder mode does not replace attr.remote - precondition not met"; exit 0; fi

# 2. encrypt mode, same flags
"$BIN" redact "$T/in.log" -o "$T/enc.log" --redactIPs --encrypt --encryptionKeyFile "$T/key" < /dev/null > /dev/null 2>&1 || { echo "encrypt run failed"; exit 2; }
E=$(remote_of "$T/enc.log")

# 3. the encrypt-mode value must decrypt back to the original
OUT=$("$BIN" decrypt "$E" --decryptionKeyFile "$T/key" 2>&1); RC=$?
if [ $RC -eq 0 ] && printf '%s\n' "$OUT" | grep -qxF "Raw value: $ORIG"; then
  echo "ok: attr.remote is a ciphertext that decrypts to the original"
  exit 0
fi
echo "VIOLATION (C09): with --encrypt --redactIPs"
echo "  input      attr.remote = $ORIG"
echo "  placeholder-mode value = $P   (so placeholder mode replaces this string)"
echo "  encrypt-mode value     = $E   (not a ciphertext)"
echo "  decrypt exit status    = $RC: $(printf '%s' "$OUT" | tail -n 1)"
exit 1
