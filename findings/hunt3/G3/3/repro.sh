#!/usr/bin/env bash
# C08: a short write (the writer accepts only part of a line and returns n < len(p) with a
# nil error) is not noticed: processMongoLogStream ignores the byte count fmt.Fprintln
# returns, reports success, and the output holds a torn line followed by further lines.
# usage: repro.sh <worktree>   exit 1 = violation shown, 0 = not shown, 2 = setup problem
set -u
WT=${1:?usage: repro.sh <worktree>}
export GOFLAGS=-mod=mod GOPROXY=off; unset GOWORK GOSUMDB GOTOOLCHAIN
TEST="$WT/src/zz_repro_shortwrite_test.go"
trap 'rm -f "$TEST"' EXIT
cat > "$TEST" <<'EOF'
package main

import (
	"bytes"
	"fmt"
	"strings"
	"testing"
)

// shortWriter accepts only the first half of the k-th write and reports the short count
// without an error (what a device does when it runs out of room mid-write).
type shortWriter struct {
	buf  bytes.Buffer
	k, n int
}

func (w *shortWriter) Write(p []byte) (int, error) {
	w.n++
	if w.n == w.k {
		h := len(p) / 2
		w.buf.Write(p[:h])
		return h, nil
	}
	return w.buf.Write(p)
}

func TestReproShortWrite(t *testing.T) {
	SetShouldEncrypt(false)
	SetRedactedFieldsRegexp("")
	var lines []string
	for i := 0; i < 5; i++ {
		lines = append(lines, fmt.Sprintf(`{"t":{"$date":"2024-01-01T00:00:00.000+00:00"},"s":"I","c":"COMMAND","id":51803,"ctx":"conn1","msg":"Slow query","attr":{"ns":"db.coll","command":{"find":"coll","filter":{"name":"secret-%d"},"$db":"db"}}}`, i))
	}
	input := strings.Join(lines, "\n") + "\n"

	var want bytes.Buffer
	if err := ProcessMongoLogFileFromReader(strings.NewReader(input), &want, nil); err != nil {
		t.Fatalf("fault-free run failed: %v", err)
	}
	for k := 1; k <= 5; k++ {
		w := &shortWriter{k: k}
		err := ProcessMongoLogFileFromReader(strings.NewReader(input), w, nil)
		got := w.buf.String()
		if err == nil && got != want.String() {
			whole := strings.HasPrefix(want.String(), got) && strings.HasSuffix(got, "\n")
			t.Errorf("VIOLATION (C08): write #%d was short (half a line accepted): run returned err=nil, output has %d of %d bytes, whole-line prefix of the fault-free output: %v",
				k, len(got), want.Len(), whole)
		}
	}
}
EOF
OUT=$(cd "$WT" && go test -vet=off -count=1 -run 'TestReproShortWrite$' ./src 2>&1); RC=$?
printf '%s\n' "$OUT"
if printf '%s' "$OUT" | grep -q "VIOLATION (C08)"; then exit 1; fi
if [ $RC -ne 0 ]; then echo "test run failed for another reason"; exit 2; fi
echo "ok: short writes are reported"
exit 0
