#!/bin/bash
# usage: repro.sh <worktree>
set -u
WT="${1:?worktree path}"
export GOFLAGS=-mod=mod GOPROXY=off; unset GOWORK GOSUMDB GOTOOLCHAIN
TMP=$(mktemp -d); trap 'rm -rf "$TMP"' EXIT
( cd "$WT" && go build -o "$TMP/anonymongo" ./src ) || { echo "build failed"; exit 2; }
BIN="$TMP/anonymongo"
# C15: field names in find's projection / hint (and findAndModify's fields) are not renamed,
# although the same names are renamed in filter, sort and the plan summary.
L1='{"t":{"$date":"2024-01-01T00:00:00.000Z"},"s":"I","c":"COMMAND","id":51803,"ctx":"conn1","msg":"Slow query","attr":{"type":"command","ns":"shop.orders","command":{"find":"orders","filter":{"FcustName":"bob","Ftotal":{"$gt":5}},"sort":{"FcustName":1},"projection":{"FcustName":1,"Ftotal":1,"_id":0},"hint":{"FcustName":1},"$db":"shop"},"planSummary":"IXSCAN { FcustName: 1 }","durationMillis":5}}'
L2='{"t":{"$date":"2024-01-01T00:00:01.000Z"},"s":"I","c":"COMMAND","id":51803,"ctx":"conn1","msg":"Slow query","attr":{"type":"command","ns":"shop.orders","command":{"findAndModify":"orders","query":{"FcustName":"bob"},"sort":{"Ftotal":1},"update":{"$set":{"Ftotal":1}},"fields":{"FcustName":1},"$db":"shop"},"planSummary":"IXSCAN { FcustName: 1 }","durationMillis":5}}'
OUT=$(printf '%s\n%s\n' "$L1" "$L2" | "$BIN" redact --redactFieldNames shop.orders)
echo "$OUT"
if echo "$OUT" | grep -q -e 'FcustName' -e 'Ftotal'; then
  echo "VIOLATION (C15): field names renamed in filter/sort/planSummary remain in projection / hint / fields:"
  echo "$OUT" | grep -o -e '"projection":{[^}]*}' -e '"hint":{[^}]*}' -e '"fields":{[^}]*}'
  exit 1
fi
echo "ok"
exit 0
