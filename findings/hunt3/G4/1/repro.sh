#!/bin/bash
# usage: repro.sh <worktree>
set -u
WT="${1:?worktree path}"
export GOFLAGS=-mod=mod GOPROXY=off; unset GOWORK GOSUMDB GOTOOLCHAIN
TMP=$(mktemp -d); trap 'rm -rf "$TMP"' EXIT
( cd "$WT" && go build -o "$TMP/anonymongo" ./src ) || { echo "build failed"; exit 2; }
BIN="$TMP/anonymongo"
# C15: a bare '$field' reference that is a direct element of $and / $or inside an aggregation
# pipeline is emitted verbatim under --redactFieldNames.
LINE='{"t":{"$date":"2024-01-01T00:00:00.000Z"},"s":"I","c":"COMMAND","id":51803,"ctx":"conn1","msg":"Slow query","attr":{"type":"command","ns":"shop.orders","command":{"aggregate":"orders","pipeline":[{"$match":{"Fflag":true,"Famount":{"$gt":5},"$expr":{"$and":["$Fflag",{"$gt":["$Famount",1]}]}}},{"$project":{"ok":{"$or":["$Fflag","$Famount"]}}}],"cursor":{},"$db":"shop"},"planSummary":"IXSCAN { Fflag: 1 }","durationMillis":5}}'
OUT=$(printf '%s\n' "$LINE" | "$BIN" redact --redactFieldNames shop.orders)
echo "$OUT"
if echo "$OUT" | grep -q -e 'Fflag' -e 'Famount'; then
  echo "VIOLATION (C15): user field names still in the emitted line: $(echo "$OUT" | grep -o -e '"\$*Fflag"' -e '"\$*Famount"' | sort -u | tr '\n' ' ')"
  exit 1
fi
echo "ok: no planted field name left"
exit 0
