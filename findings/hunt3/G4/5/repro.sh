#!/bin/bash
# usage: repro.sh <worktree>
set -u
WT="${1:?worktree path}"
export GOFLAGS=-mod=mod GOPROXY=off; unset GOWORK GOSUMDB GOTOOLCHAIN
TMP=$(mktemp -d); trap 'rm -rf "$TMP"' EXIT
( cd "$WT" && go build -o "$TMP/anonymongo" ./src ) || { echo "build failed"; exit 2; }
BIN="$TMP/anonymongo"
# C15: --redactFieldNames decides from attr.ns only. Command lines without attr.ns (cmd-only
# error lines with attr.cmd, error-report lines with attr.commandArgs) are never renamed, although
# the operation's namespace ($db + collection named by the verb) equals the configured one and
# --redactNamespaces does treat the very same documents as commands of that namespace.
L1='{"t":{"$date":"2025-06-30T07:03:27.149+00:00"},"s":"W","c":"QUERY","id":25000,"ctx":"conn1234","msg":"Aggregate command executor error","attr":{"error":{"code":50,"codeName":"MaxTimeMSExpired","errmsg":"operation exceeded time limit"},"stats":{},"cmd":{"aggregate":"orders","pipeline":[{"$match":{"FcustName":"bob"}},{"$sort":{"FcustName":1}}],"cursor":{},"$db":"shop"}}}'
L2='{"t":{"$date":"2024-05-01T10:00:00.000+00:00"},"s":"I","c":"COMMAND","id":21962,"ctx":"conn12","msg":"Assertion while executing command","attr":{"command":"find","db":"shop","commandArgs":{"find":"orders","filter":{"FcustName":{"$foo":"bob"}},"sort":{"FcustName":1},"$db":"shop"},"error":"BadValue: unknown operator: $foo"}}'
# control: the same aggregate on a line that has attr.ns
L3='{"t":{"$date":"2024-05-01T10:00:02.000+00:00"},"s":"I","c":"COMMAND","id":51803,"ctx":"conn12","msg":"Slow query","attr":{"type":"command","ns":"shop.orders","command":{"aggregate":"orders","pipeline":[{"$match":{"FcustName":"bob"}},{"$sort":{"FcustName":1}}],"cursor":{},"$db":"shop"}}}'
OUT=$(printf '%s\n%s\n%s\n' "$L1" "$L2" "$L3" | "$BIN" redact --redactFieldNames shop.orders)
echo "$OUT"
CTRL=$(echo "$OUT" | sed -n 3p)
if echo "$CTRL" | grep -q FcustName; then echo "control line not renamed either (different defect)"; exit 1; fi
if echo "$OUT" | sed -n 1,2p | grep -q 'FcustName'; then
  echo "VIOLATION (C15): operations on shop.orders logged without attr.ns keep their field names (control line with attr.ns is renamed)"
  exit 1
fi
echo "ok"
exit 0
