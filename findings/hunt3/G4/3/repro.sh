#!/bin/bash
# usage: repro.sh <worktree>
set -u
WT="${1:?worktree path}"
export GOFLAGS=-mod=mod GOPROXY=off; unset GOWORK GOSUMDB GOTOOLCHAIN
TMP=$(mktemp -d); trap 'rm -rf "$TMP"' EXIT
( cd "$WT" && go build -o "$TMP/anonymongo" ./src ) || { echo "build failed"; exit 2; }
BIN="$TMP/anonymongo"
# C15: the string 'path' of a first-level Atlas Search operator ($search.text.path), of
# $search.highlight.path and of $searchMeta facet definitions is kept verbatim under
# --redactFieldNames, while the same name is renamed as $match key (and $vectorSearch.path,
# compound.should[].range.path ARE renamed).
L1='{"t":{"$date":"2024-01-01T00:00:00.000Z"},"s":"I","c":"COMMAND","id":51803,"ctx":"conn1","msg":"Slow query","attr":{"type":"command","ns":"shop.orders","command":{"aggregate":"orders","pipeline":[{"$search":{"index":"default","text":{"query":"hello","path":"Ftitle"},"highlight":{"path":"Fbody"}}},{"$match":{"Ftitle":"y","Fbody":"z"}},{"$sort":{"Ftitle":1}}],"cursor":{},"$db":"shop"},"durationMillis":5}}'
L2='{"t":{"$date":"2024-01-01T00:00:01.000Z"},"s":"I","c":"COMMAND","id":51803,"ctx":"conn1","msg":"Slow query","attr":{"type":"command","ns":"shop.orders","command":{"aggregate":"orders","pipeline":[{"$searchMeta":{"facet":{"operator":{"range":{"path":"Ftitle","gte":1}},"facets":{"f1":{"type":"string","path":"Fbody","numBuckets":3}}}}}],"cursor":{},"$db":"shop"},"durationMillis":5}}'
OUT=$(printf '%s\n%s\n' "$L1" "$L2" | "$BIN" redact --redactFieldNames shop.orders)
echo "$OUT"
if echo "$OUT" | grep -q -e 'Ftitle' -e 'Fbody'; then
  echo "VIOLATION (C15): field names that are renamed as \$match / \$sort keys remain as search paths:"
  echo "$OUT" | grep -o '"path":"F[a-z]*"'
  exit 1
fi
echo "ok"
exit 0
