#!/bin/bash
# usage: repro.sh <worktree>
set -u
WT="${1:?worktree path}"
export GOFLAGS=-mod=mod GOPROXY=off; unset GOWORK GOSUMDB GOTOOLCHAIN
TMP=$(mktemp -d); trap 'rm -rf "$TMP"' EXIT
( cd "$WT" && go build -o "$TMP/anonymongo" ./src ) || { echo "build failed"; exit 2; }
BIN="$TMP/anonymongo"
# C12: on error-report / debug lines that carry the command copy in attr.commandArgs the database
# name is also logged in attr.db; --redactNamespaces pseudonymises commandArgs.$db but leaves
# attr.db, so the database name still appears in the emitted line.
L1='{"t":{"$date":"2024-05-01T10:00:00.000+00:00"},"s":"I","c":"COMMAND","id":21962,"ctx":"conn12","msg":"Assertion while executing command","attr":{"command":"find","db":"Zshopdb","commandArgs":{"find":"Zorders","filter":{"custName":{"$foo":"bob"}},"$db":"Zshopdb"},"error":"BadValue: unknown operator: $foo"}}'
L2='{"t":{"$date":"2024-05-01T10:00:01.000+00:00"},"s":"D2","c":"COMMAND","id":21965,"ctx":"conn12","msg":"About to run the command","attr":{"db":"Zshopdb","client":"127.0.0.1:5000","commandArgs":{"aggregate":"Zorders","pipeline":[{"$lookup":{"from":"Zitems","localField":"a","foreignField":"b","as":"j"}}],"cursor":{},"$db":"Zshopdb"}}}'
OUT=$(printf '%s\n%s\n' "$L1" "$L2" | "$BIN" redact --redactNamespaces)
echo "$OUT"
if echo "$OUT" | grep -q -e 'Zshopdb' -e 'Zorders' -e 'Zitems'; then
  echo "VIOLATION (C12): database / collection name still present with --redactNamespaces:"
  echo "$OUT" | grep -o '"[a-zA-Z$]*":"Z[a-z]*"' | sort | uniq -c
  exit 1
fi
echo "ok"
exit 0
