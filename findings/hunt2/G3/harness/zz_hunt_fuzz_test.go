package main

import (
	"bytes"
	"encoding/json"
	"fmt"
	"math/rand"
	"strings"
	"testing"
)

var huntKeys = []string{"a", "b", "name", "email", "SSN", "a.b", "", "path", "query", "value", "filter", "pipeline", "from", "as", "into", "coll", "db", "let",
	"whenMatched", "facets", "operator", "must", "should", "mustNot", "compound", "text", "range", "gte", "lt", "in", "equals", "embeddedDocument", "facet", "autocomplete",
	"phrase", "near", "origin", "geoWithin", "geometry", "type", "coordinates", "box", "circle", "center", "span", "term", "index", "highlight", "sort", "count", "searchAfter",
	"input", "pipelines", "combination", "weights", "groupBy", "boundaries", "default", "output", "field", "partitionByFields", "sortBy", "newRoot", "if", "then", "else",
	"base64", "subType", "q", "u", "c", "updates", "deletes", "ops", "arrayFilters", "documents", "explain", "update", "insert", "find", "hint", "comment", "key", "localField", "foreignField",
	"$match", "$group", "$project", "$lookup", "$facet", "$unionWith", "$merge", "$out", "$set", "$addFields", "$unset", "$unwind", "$count", "$sortByCount", "$bucket", "$bucketAuto",
	"$densify", "$fill", "$geoNear", "$graphLookup", "$replaceRoot", "$replaceWith", "$redact", "$setWindowFields", "$sample", "$limit", "$skip", "$sort", "$documents", "$changeStream",
	"$search", "$searchMeta", "$vectorSearch", "$rankFusion", "$listSampledQueries", "$collStats", "$planCacheStats", "$querySettings",
	"$eq", "$gt", "$in", "$nin", "$and", "$or", "$nor", "$not", "$exists", "$type", "$expr", "$regex", "$options", "$text", "$where", "$all", "$elemMatch", "$size", "$cond", "$binary", "$date", "$oid",
	"$numberLong", "$numberDecimal", "$uuid", "$timestamp", "$regularExpression", "$literal", "$concat", "$push", "$each", "$inc", "$rename", "$setOnInsert", "$map", "$filter", "$reduce", "$let", "$switch"}

var huntStrs = []string{"", "s", "secret", "a@b.com", "2020-01-01T00:00:00Z", "5f1d7f3e8b0c4a2d9c3e1a77", "QUJD", "1.2.3.4:55", "x y", "日本語", "😀", "a\x00b", "{\"a\":1}", "db.c", "$ref", "$$ROOT", "$", "04", "point", "-"}

func huntGenVal(r *rand.Rand, depth int) any {
	k := r.Intn(10)
	if depth <= 0 && k < 5 {
		k = 5 + r.Intn(5)
	}
	switch {
	case k < 3:
		n := r.Intn(4)
		var sb strings.Builder
		sb.WriteByte('{')
		seen := map[string]bool{}
		first := true
		for i := 0; i < n; i++ {
			key := huntKeys[r.Intn(len(huntKeys))]
			if seen[key] {
				continue
			}
			seen[key] = true
			if !first {
				sb.WriteByte(',')
			}
			first = false
			kb, _ := json.Marshal(key)
			sb.Write(kb)
			sb.WriteByte(':')
			sb.WriteString(huntGenVal(r, depth-1).(string))
		}
		sb.WriteByte('}')
		return sb.String()
	case k < 5:
		n := r.Intn(4)
		parts := make([]string, n)
		for i := range parts {
			parts[i] = huntGenVal(r, depth-1).(string)
		}
		return "[" + strings.Join(parts, ",") + "]"
	case k < 8:
		b, _ := json.Marshal(huntStrs[r.Intn(len(huntStrs))])
		return string(b)
	case k == 8:
		return []string{"1", "-0.0", "1e400", "123456789012345678901234567890", "0.5"}[r.Intn(5)]
	default:
		return []string{"true", "false", "null"}[r.Intn(3)]
	}
}

func huntGenLine(r *rand.Rand) string {
	c := []string{"COMMAND", "QUERY", "WRITE", "NETWORK"}[r.Intn(4)]
	msg := []string{"Slow query", "Plan executor error", "Assertion while executing command"}[r.Intn(3)]
	attrKeys := []string{"command", "cmd", "originatingCommand", "commandArgs"}
	var attr []string
	attr = append(attr, `"ns":"db.c"`, `"remote":"1.2.3.4:5"`, `"planSummary":"IXSCAN { a: 1 }"`)
	for _, ak := range attrKeys {
		if r.Intn(2) == 0 {
			continue
		}
		verb := []string{"find", "aggregate", "update", "delete", "insert", "findAndModify", "count", "distinct", "bulkWrite", "getMore", "explain"}[r.Intn(11)]
		var members []string
		if verb == "explain" {
			members = append(members, `"explain":`+huntGenVal(r, 4).(string))
		} else {
			members = append(members, fmt.Sprintf(`"%s":"c"`, verb))
		}
		for _, mk := range []string{"filter", "query", "sort", "update", "updates", "deletes", "ops", "arrayFilters", "q", "u", "documents", "pipeline", "let", "hint"} {
			if r.Intn(3) == 0 {
				members = append(members, fmt.Sprintf(`"%s":%s`, mk, huntGenVal(r, 5).(string)))
			}
		}
		members = append(members, `"$db":"db"`)
		attr = append(attr, fmt.Sprintf(`"%s":{%s}`, ak, strings.Join(members, ",")))
	}
	return fmt.Sprintf(`{"t":{"$date":"2025-01-01T00:00:00.000+00:00"},"s":"I","c":"%s","id":1,"ctx":"conn1","msg":"%s","attr":{%s}}`, c, msg, strings.Join(attr, ","))
}

func TestHuntFuzz(t *testing.T) {
	key := bytes.Repeat([]byte{9}, 64)
	r := rand.New(rand.NewSource(12345))
	fails := 0
	for n := 0; n < 30000 && fails < 15; n++ {
		line := huntGenLine(r)
		huntReset()
		switch r.Intn(6) {
		case 1:
			SetRedactNumbers(true)
			SetRedactBooleans(true)
		case 2:
			SetRedactIPs(true)
			SetRedactNamespaces(true)
		case 3:
			SetEagerRedactionPaths([]string{"db"})
		case 4:
			SetRedactedFieldsRegexp("^(name|email|SSN|a|path)$")
		case 5:
			SetRedactedString("ZZ")
		}
		in, err := UnmarshalOrdered([]byte(line))
		if err != nil {
			t.Fatalf("gen produced bad json: %v %s", err, line)
		}
		var pl, en OrderedMap
		var err1, err2 error
		func() {
			defer func() {
				if p := recover(); p != nil {
					err1 = fmt.Errorf("panic %v", p)
				}
			}()
			pl, err1 = RedactMongoLog(line)
		}()
		SetShouldEncrypt(true)
		SetEncryptionKey(key)
		func() {
			defer func() {
				if p := recover(); p != nil {
					err2 = fmt.Errorf("panic %v", p)
				}
			}()
			en, err2 = RedactMongoLog(line)
		}()
		if (err1 == nil) != (err2 == nil) {
			t.Errorf("error differs: %v vs %v\n%s", err1, err2, line)
			fails++
			continue
		}
		if err1 != nil {
			continue
		}
		var problems []string
		huntWalk(t, line, "", in, pl, en, key, &problems)
		var real []string
		for _, p := range problems {
			if strings.Contains(p, ".attr.planSummary") {
				continue
			}
			real = append(real, p)
		}
		if len(real) > 0 {
			fails++
			t.Errorf("line %s\n  %s", line, strings.Join(real, "\n  "))
		}
	}
	huntReset()
}
