package main

import (
	"bytes"
	"encoding/base64"
	"encoding/json"
	"fmt"
	"os"
	"path/filepath"
	"regexp"
	"strings"
	"testing"

	"github.com/elliotchance/orderedmap/v3"
)

var huntHashRe = regexp.MustCompile(`^(\$?(REDACTED|X|ZZ)_[0-9a-f]{16}\.?)+$`)

type huntCfg struct {
	name   string
	setup  func()
}

func huntReset() {
	SetRedactedString(RedactedString)
	SetRedactNumbers(false)
	SetRedactBooleans(false)
	SetRedactIPs(false)
	SetEagerRedactionPaths(nil)
	SetRedactNamespaces(false)
	SetRedactedFieldsRegexp("")
	SetShouldEncrypt(false)
	SetEncryptionKey(nil)
}

func huntWalk(t *testing.T, line string, path string, in, pl, en any, key []byte, problems *[]string) {
	switch p := pl.(type) {
	case *orderedmap.OrderedMap[string, any]:
		e, ok := en.(*orderedmap.OrderedMap[string, any])
		if !ok {
			*problems = append(*problems, fmt.Sprintf("%s: shape differs plain=map enc=%T", path, en))
			return
		}
		i, _ := in.(*orderedmap.OrderedMap[string, any])
		if e.Len() != p.Len() {
			*problems = append(*problems, fmt.Sprintf("%s: map len differs", path))
			return
		}
		pe, ee := p.Front(), e.Front()
		var ie *orderedmap.Element[string, any]
		if i != nil && i.Len() == p.Len() {
			ie = i.Front()
		}
		for pe != nil {
			if pe.Key != ee.Key {
				*problems = append(*problems, fmt.Sprintf("%s: key differs %q vs %q", path, pe.Key, ee.Key))
			}
			var iv any
			if ie != nil {
				iv = ie.Value
			}
			huntWalk(t, line, path+"."+pe.Key, iv, pe.Value, ee.Value, key, problems)
			pe, ee = pe.Next(), ee.Next()
			if ie != nil {
				ie = ie.Next()
			}
		}
	case []any:
		e, ok := en.([]any)
		if !ok || len(e) != len(p) {
			*problems = append(*problems, fmt.Sprintf("%s: array shape differs", path))
			return
		}
		i, _ := in.([]any)
		for k := range p {
			var iv any
			if len(i) == len(p) {
				iv = i[k]
			}
			huntWalk(t, line, fmt.Sprintf("%s[%d]", path, k), iv, p[k], e[k], key, problems)
		}
	default:
		pj, _ := json.Marshal(pl)
		ej, _ := json.Marshal(en)
		ij, _ := json.Marshal(in)
		if bytes.Equal(pj, ej) {
			// same in both; if it is a string and differs from the input, placeholder replaced it but encryption did not
			if !bytes.Equal(pj, ij) {
				if ps, ok := pl.(string); ok {
					if huntHashRe.MatchString(ps) || ps == "255.255.255.255:65535" {
						return // already reported class
					}
					*problems = append(*problems, fmt.Sprintf("%s: replaced identically in both modes in=%s out=%s", path, ij, pj))
				}
			}
			return
		}
		es, ok := en.(string)
		if !ok {
			*problems = append(*problems, fmt.Sprintf("%s: differs and enc is not string: %s vs %s", path, pj, ej))
			return
		}
		is, ok := in.(string)
		if !ok {
			*problems = append(*problems, fmt.Sprintf("%s: differs but input is not string: in=%s plain=%s enc=%s", path, ij, pj, ej))
			return
		}
		raw, err := base64.StdEncoding.Strict().DecodeString(es)
		if err != nil {
			*problems = append(*problems, fmt.Sprintf("%s: enc not base64: %s", path, ej))
			return
		}
		dec, err := Decrypt(raw, key)
		if err != nil {
			*problems = append(*problems, fmt.Sprintf("%s: enc does not decrypt: %s (%v)", path, ej, err))
			return
		}
		if string(dec) != is {
			*problems = append(*problems, fmt.Sprintf("%s: decrypts to %q, input %q", path, dec, is))
		}
		if bytes.Equal(pj, ij) {
			*problems = append(*problems, fmt.Sprintf("%s: plain kept %s but enc changed it", path, ij))
		}
	}
}

func huntLines(t *testing.T) []string {
	var lines []string
	files, _ := filepath.Glob("../test_fixtures/*.json")
	for _, f := range files {
		b, err := os.ReadFile(f)
		if err != nil {
			continue
		}
		var buf bytes.Buffer
		if err := json.Compact(&buf, b); err != nil {
			continue
		}
		lines = append(lines, buf.String())
	}
	if b, err := os.ReadFile("/tmp/hunt2/G3.out/extra_lines.jsonl"); err == nil {
		for _, l := range strings.Split(string(b), "\n") {
			if strings.TrimSpace(l) != "" {
				lines = append(lines, l)
			}
		}
	}
	return lines
}

func TestHuntDiff(t *testing.T) {
	key := bytes.Repeat([]byte{7}, 64)
	cfgs := []huntCfg{
		{"default", func() {}},
		{"numbers+bools", func() { SetRedactNumbers(true); SetRedactBooleans(true) }},
		{"ips+ns", func() { SetRedactIPs(true); SetRedactNamespaces(true) }},
		{"fieldnames", func() { SetEagerRedactionPaths([]string{"my_db", "db", "test"}) }},
		{"regexp", func() { SetRedactedFieldsRegexp("^(name|email|SSN|a|foo|status)$") }},
		{"replacement", func() { SetRedactedString("X") }},
	}
	for _, cfg := range cfgs {
		for _, line := range huntLines(t) {
			huntReset()
			cfg.setup()
			in, err := UnmarshalOrdered([]byte(line))
			if err != nil {
				continue
			}
			pl, err1 := RedactMongoLog(line)
			SetShouldEncrypt(true)
			SetEncryptionKey(key)
			en, err2 := RedactMongoLog(line)
			if (err1 == nil) != (err2 == nil) {
				t.Errorf("[%s] error differs: %v vs %v", cfg.name, err1, err2)
				continue
			}
			if err1 != nil {
				continue
			}
			var problems []string
			huntWalk(t, line, "", in, pl, en, key, &problems)
			if len(problems) > 0 {
				l := line
				if len(l) > 300 {
					l = l[:300]
				}
				t.Errorf("[%s] line %s\n  %s", cfg.name, l, strings.Join(problems, "\n  "))
			}
		}
	}
	huntReset()
}
