#!/bin/bash
# usage: repro.sh <worktree>; exits 1 when a client-supplied literal survives redaction
export GOFLAGS=-mod=mod GOPROXY=off; unset GOWORK GOSUMDB GOTOOLCHAIN
W=${1:-/tmp/hunt2/G1}
T=$(mktemp -d)
(cd "$W" && go build -o "$T/anonymongo" ./src) || exit 2
cat > "$T/in.log" <<'EOL'
{"t":{"$date":"2024-01-01T00:00:00.000+00:00"},"s":"I","c":"COMMAND","id":51803,"ctx":"conn1","msg":"Slow query","attr":{"type":"command","ns":"db.c","command":{"aggregate":"c","pipeline":[{"$vectorSearch":{"index":"vi","path":"emb","queryVector":[0.1,0.2],"numCandidates":100,"limit":10,"filter":{"numBuckets":"SECRETA","owner":{"numBuckets":{"$in":["SECRETB",424242]}}}}}],"cursor":{},"$db":"db"},"durationMillis":5}}
{"t":{"$date":"2024-01-01T00:00:00.000+00:00"},"s":"I","c":"COMMAND","id":51803,"ctx":"conn1","msg":"Slow query","attr":{"type":"command","ns":"db.c","command":{"aggregate":"c","pipeline":[{"$search":{"index":"default","moreLikeThis":{"like":{"title":"The Godfather","text":{"body":"x","score":"SECRETC","fuzzy":"SECRETD"},"range":{"score":{"reviewer":"SECRETE"}}}}}}],"cursor":{},"$db":"db"},"durationMillis":5}}
EOL
"$T/anonymongo" redact --redactNumbers --redactBooleans < "$T/in.log" > "$T/out.log"
cat "$T/out.log"
if grep -qE 'SECRET[A-E]|424242' "$T/out.log"; then echo "VIOLATION: literals survived: $(grep -oE 'SECRET[A-E]|424242' "$T/out.log" | tr '\n' ' ')"; rm -rf "$T"; exit 1; fi
rm -rf "$T"; exit 0
