#!/bin/bash
# usage: repro.sh <worktree>; exits 1 when the sort specification of a find command is rewritten
export GOFLAGS=-mod=mod GOPROXY=off; unset GOWORK GOSUMDB GOTOOLCHAIN
W=${1:-/tmp/hunt2/G1}
T=$(mktemp -d)
(cd "$W" && go build -o "$T/anonymongo" ./src) || exit 2
cat > "$T/in.log" <<'EOL'
{"t":{"$date":"2024-01-01T00:00:00.000+00:00"},"s":"I","c":"COMMAND","id":51803,"ctx":"conn1","msg":"Slow query","attr":{"type":"command","ns":"db.c","command":{"find":"c","filter":{"$text":{"$search":"coffee"}},"sort":{"score":{"$meta":"textScore"},"age":-1,"$natural":1},"projection":{"score":{"$meta":"textScore"}},"hint":{"age":-1},"limit":10,"$db":"db"},"planSummary":"IXSCAN { age: -1 }","durationMillis":5}}
EOL
rc=0
o1=$("$T/anonymongo" redact < "$T/in.log" | grep -o '"sort":{.*},"projection"')
o2=$("$T/anonymongo" redact --redactNumbers < "$T/in.log" | grep -o '"sort":{.*},"projection"')
want='"sort":{"score":{"$meta":"textScore"},"age":-1,"$natural":1},"projection"'
echo "no flags      : $o1"; echo "--redactNumbers: $o2"
[ "$o1" = "$want" ] || rc=1
[ "$o2" = "$want" ] || rc=1
[ $rc = 1 ] && echo "VIOLATION: attr.command.sort (not a query-bearing field) was rewritten; projection/hint with the same content are left alone"
rm -rf "$T"; exit $rc
