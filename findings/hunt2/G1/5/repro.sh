#!/bin/bash
# usage: repro.sh <worktree>; exits 1 when literals of a query predicate survive
export GOFLAGS=-mod=mod GOPROXY=off; unset GOWORK GOSUMDB GOTOOLCHAIN
W=${1:-/tmp/hunt2/G1}
T=$(mktemp -d)
(cd "$W" && go build -o "$T/anonymongo" ./src) || exit 2
cat > "$T/in.log" <<'EOL'
{"t":{"$date":"2024-01-01T00:00:00.000+00:00"},"s":"I","c":"COMMAND","id":51803,"ctx":"conn1","msg":"Slow query","attr":{"type":"command","ns":"db.users","command":{"createIndexes":"users","indexes":[{"key":{"email":1},"name":"email_1","unique":true,"partialFilterExpression":{"tenant":"SECRETA","plan":{"$in":["SECRETB",777001]}}}],"$db":"db"},"durationMillis":500}}
{"t":{"$date":"2024-01-01T00:00:00.000+00:00"},"s":"I","c":"COMMAND","id":51803,"ctx":"conn1","msg":"Slow query","attr":{"type":"command","ns":"db.users","command":{"collMod":"users","validator":{"$or":[{"role":"SECRETC"},{"email":{"$regex":"SECRETD"}}]},"validationLevel":"strict","$db":"db"},"durationMillis":500}}
{"t":{"$date":"2024-01-01T00:00:00.000+00:00"},"s":"I","c":"COMMAND","id":51803,"ctx":"conn1","msg":"Slow query","attr":{"type":"command","ns":"db.users","command":{"create":"vip","validator":{"owner":{"$eq":"SECRETE"}},"$db":"db"},"durationMillis":500}}
{"t":{"$date":"2024-01-01T00:00:00.000+00:00"},"s":"I","c":"COMMAND","id":51803,"ctx":"conn1","msg":"Slow query","attr":{"type":"command","ns":"db.users","command":{"find":"users","filter":{"$expr":{"$eq":["$name","$$target"]}},"let":{"target":"SECRETF"},"$db":"db"},"durationMillis":500}}
EOL
"$T/anonymongo" redact --redactNumbers --redactBooleans < "$T/in.log" > "$T/out.log"
s=$(grep -oE 'SECRET[A-F]|777001' "$T/out.log" | tr '\n' ' ')
rm -rf "$T"
if [ -n "$s" ]; then echo "VIOLATION: literals survived: $s"; exit 1; fi
exit 0
