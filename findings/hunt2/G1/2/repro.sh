#!/bin/bash
# usage: repro.sh <worktree>; exits 1 when re-running the tool on its own output does not reproduce it
export GOFLAGS=-mod=mod GOPROXY=off; unset GOWORK GOSUMDB GOTOOLCHAIN
W=${1:-/tmp/hunt2/G1}
T=$(mktemp -d)
(cd "$W" && go build -o "$T/anonymongo" ./src) || exit 2
cd "$T"
cat > mongod.log <<'EOL'
{"t":{"$date":"2024-01-01T00:00:00.000+00:00"},"s":"I","c":"COMMAND","id":51803,"ctx":"conn1","msg":"Slow query","attr":{"type":"command","ns":"db.c","command":{"find":"c","filter":{"name":"alice"},"$db":"db"},"durationMillis":5}}
{"t":{"$date":"2024-01-01T00:00:01.000+00:00"},"s":"I","c":"NETWORK","id":22943,"ctx":"listener","msg":"Connection accepted","attr":{"remote":"10.0.0.1:5000"}}
EOL
gzip -k mongod.log
# README example: anonymongo redact /path/to/mongodb.log.gz -o redacted.log.gz   (script gives the tool a terminal as stdin)
script -qc "./anonymongo redact mongod.log.gz -o redacted.log.gz" /dev/null >/dev/null 2>&1
echo "first run wrote $(wc -l < redacted.log.gz) lines into redacted.log.gz ($(file -b redacted.log.gz))"
script -qc "./anonymongo redact redacted.log.gz -o redacted2.log.gz" /dev/null > run2.txt 2>&1
grep -o 'Error.*' run2.txt
if cmp -s redacted.log.gz redacted2.log.gz; then echo "fixed point OK"; rm -rf "$T"; exit 0; fi
echo "VIOLATION: second run produced $(wc -c < redacted2.log.gz) bytes instead of reproducing the $(wc -c < redacted.log.gz) bytes of the first run"
rm -rf "$T"; exit 1
