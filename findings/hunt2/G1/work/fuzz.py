import json,random,subprocess,sys
from shape import load,cmp
BIN='/tmp/hunt2/G1.out/anonymongo'
vocab=[l.strip() for l in open('vocab.txt') if l.strip()]
vocab+=['$search','$searchMeta','$vectorSearch','$rankFusion','$out','$unionWith','$merge','$binary','base64','subType','$date','$oid','$numberLong','$literal','$cond','$switch','pipeline','filter','query','u','q','a','b','name','x.y','','$uuid','$expr','$lookup','$facet','$in','$and','$or','operator','facets','input','pipelines','path','value','index','compound','must']
def rscalar(r):
    c=r.randrange(9)
    return ['sEcReT','sec@ex.com','$fld',12345,1.5e300,True,False,None,''][c]
def rval(r,d):
    c=r.random()
    if d<=0 or c<0.35: return rscalar(r)
    if c<0.7:
        n=r.randrange(4); o={}
        while len(o)<n: o[r.choice(vocab)]=rval(r,d-1)
        return o
    return [rval(r,d-1) for _ in range(r.randrange(4))]
def rline(r):
    cmd={}
    verb=r.choice(['find','aggregate','update','delete','insert','findAndModify','count','distinct','explain'])
    cmd[verb]='c' if verb!='explain' else rval(r,3)
    for k in r.sample(['filter','query','pipeline','updates','deletes','documents','update','u','q','sort','ops','arrayFilters','explain'],r.randrange(1,5)):
        if k in cmd: continue
        cmd[k]=rval(r,6)
    attr={'type':'command','ns':'db.c','remote':'1.2.3.4:5'}
    attr[r.choice(['command','cmd','commandArgs','originatingCommand'])]=cmd
    return {'t':{'$date':'2024-01-01T00:00:00.000+00:00'},'s':'I','c':r.choice(['COMMAND','QUERY','WRITE']),'id':51803,'ctx':'conn1','msg':'Slow query','attr':attr}
def main():
    seed=int(sys.argv[1]); n=int(sys.argv[2]); flags=sys.argv[3:]
    r=random.Random(seed)
    lines=[json.dumps(rline(r),separators=(',',':')) for _ in range(n)]
    lines=[l for l in lines if len(l)<30000]
    p=subprocess.run([BIN,'redact']+flags,input=('\n'.join(lines)+'\n').encode(),capture_output=True)
    out=p.stdout.decode().split('\n')[:-1]
    if p.returncode!=0 or len(out)!=len(lines):
        print('RC',p.returncode,len(out),len(lines),p.stderr.decode()[-2000:]); 
        # find culprit
        for l in lines:
            q=subprocess.run([BIN,'redact']+flags,input=(l+'\n').encode(),capture_output=True)
            if q.returncode!=0 or q.stdout.count(b'\n')!=1:
                print('CULPRIT',l); print(q.stderr.decode()[-1500:]); break
        return
    bad=0
    for a,b in zip(lines,out):
        diffs=[];shape=[]
        cmp(load(a),load(b),'',diffs,shape)
        if shape:
            bad+=1
            if bad<4: print('SHAPE',shape[:3]); print(' IN ',a); print(' OUT',b)
        if False:
            bad+=1
            if bad<6: print('LEAK'); print(' IN ',a); print(' OUT',b)
    print('done',len(lines),'bad',bad)
main()
