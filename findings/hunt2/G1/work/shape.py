import json,sys,subprocess
from collections import OrderedDict
BIN='/tmp/hunt2/G1.out/anonymongo'
def load(s): return json.loads(s,object_pairs_hook=lambda p: p, parse_float=lambda x:('N',x), parse_int=lambda x:('N',x))
def typ(v):
    if isinstance(v,list):
        if v and all(isinstance(e,tuple) and len(e)==2 and isinstance(e[0],str) and not (e[0]=='N' and isinstance(e[1],str) ) for e in v): return 'obj'
        return 'arr'
    if isinstance(v,tuple): return 'num'
    if isinstance(v,bool): return 'bool'
    if v is None: return 'null'
    return 'str'
# ambiguity: empty list = could be {} or []; handle by raw check elsewhere
def cmp(a,b,path,diffs,shape):
    ta,tb=typ(a),typ(b)
    if ta!=tb: shape.append((path,'type',ta,tb)); return
    if ta=='obj':
        ka=[k for k,_ in a]; kb=[k for k,_ in b]
        if ka!=kb: shape.append((path,'keys',ka,kb)); return
        for (k,va),(_,vb) in zip(a,b): cmp(va,vb,path+'/'+k,diffs,shape)
    elif ta=='arr':
        if len(a)!=len(b): shape.append((path,'len',len(a),len(b))); return
        for i,(va,vb) in enumerate(zip(a,b)): cmp(va,vb,path+'/%d'%i,diffs,shape)
    else:
        if a!=b: diffs.append((path,a,b))
def run(flags,inp):
    return subprocess.run([BIN,'redact']+flags,input=inp.encode(),capture_output=True)
if __name__=='__main__':
    flags=sys.argv[2:]
    for line in open(sys.argv[1]):
        line=line.rstrip('\n')
        if not line: continue
        r=run(flags,line+'\n')
        out=r.stdout.decode()
        if out.count('\n')!=1: print('LINES',repr(out[:200]),r.stderr[:200]); continue
        a=load(line); b=load(out)
        diffs=[];shape=[]
        cmp(a,b,'',diffs,shape)
        for s in shape: print('SHAPE',s)
        for d in diffs: print('DIFF',d)
