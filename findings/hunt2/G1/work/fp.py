import json,random,subprocess,sys
import fuzz as F, fuzz2 as G
