import json,random,subprocess,sys
from shape import load,cmp
BIN='/tmp/hunt2/G1.out/anonymongo'
sv=['index','highlight','path','count','type','threshold','searchAfter','sort','tracking','autocomplete','query','tokenOrder','fuzzy','score','compound','must','mustNot','should','filter','minimumShouldMatch','embeddedDocument','operator','equals','value','exists','facet','facets','numBuckets','geoShape','relation','geometry','coordinates','geoWithin','box','bottomLeft','topRight','circle','center','radius','in','moreLikeThis','like','near','origin','pivot','phrase','slop','synonyms','queryString','defaultPath','range','gte','gt','lte','lt','regex','span','term','contains','little','big','first','endPositionLte','clauses','or','subtract','include','exclude','text','wildcard','exact','limit','numCandidates','queryVector','input','pipelines','combination','weights','scoreDetails','myfield','$date','$oid','$binary','base64','subType','$and','$or','$eq','$in','$limit','$match','$search','$vectorSearch','boundaries','default','$lookup','pipeline','$facet','$skip','$sample','size']
def rscalar(r):
    return r.choice(['sEcReT','sec@ex.com','$fld',12345,1.5e300,True,False,None,''])
def rval(r,d):
    c=r.random()
    if d<=0 or c<0.3: return rscalar(r)
    if c<0.75:
        n=r.randrange(1,4); o={}
        while len(o)<n: o[r.choice(sv)]=rval(r,d-1)
        return o
    return [rval(r,d-1) for _ in range(r.randrange(3))]
def rstage(r):
    st=r.choice(['$search','$searchMeta','$vectorSearch','$rankFusion','$match','$facet','$lookup','$limit','$skip','$sample'])
    v=rval(r,6)
    if st in('$search','$searchMeta','$vectorSearch') and isinstance(v,dict):
        pre=[('index','IDXNAME')]+([('numCandidates',77),('limit',33)] if st=='$vectorSearch' else [])
        items=[(k,x) for k,x in v.items() if k not in('index','numCandidates','limit')]
        r.shuffle(pre)
        v=dict(items[:1]+pre+items[1:])
    if st in('$limit','$skip'): v=55
    if st=='$sample': v={'size':66}
    return {st:v}
def rline(r):
    cmd={'aggregate':'c','pipeline':[rstage(r) for _ in range(r.randrange(1,4))]}
    attr={'type':'command','ns':'db.c','remote':'1.2.3.4:5','command':cmd}
    return {'t':{'$date':'2024-01-01T00:00:00.000+00:00'},'s':'I','c':'COMMAND','id':51803,'ctx':'conn1','msg':'Slow query','attr':attr}
def main():
    seed=int(sys.argv[1]); n=int(sys.argv[2]); flags=sys.argv[3:]
    r=random.Random(seed)
    lines=[json.dumps(rline(r),separators=(',',':')) for _ in range(n)]
    lines=[l for l in lines if len(l)<30000]
    p=subprocess.run([BIN,'redact']+flags,input=('\n'.join(lines)+'\n').encode(),capture_output=True)
    out=p.stdout.decode().split('\n')[:-1]
    if p.returncode!=0 or len(out)!=len(lines):
        print('RC',p.returncode,len(out),len(lines),p.stderr.decode()[-2000:]); 
        for l in lines:
            q=subprocess.run([BIN,'redact']+flags,input=(l+'\n').encode(),capture_output=True)
            if q.returncode!=0 or q.stdout.count(b'\n')!=1:
                print('CULPRIT',l); print(q.stderr.decode()[-1500:]); break
        return
    bad=0
    for a,b in zip(lines,out):
        diffs=[];shape=[]
        cmp(load(a),load(b),'',diffs,shape)
        if shape:
            bad+=1
            if bad<4: print('SHAPE',shape[:3]); print(' IN ',a); print(' OUT',b)
        for d in diffs:
            p=d[0].split('/')
            # top-level stage params
            if len(p)==7 and p[1:4]==['attr','command','pipeline'] and (p[6] in('index','numCandidates','limit','size') or p[5] in('$limit','$skip')) :
                bad+=1
                if bad<6: print('C04',d); print(' IN ',a); print(' OUT',b)
            if len(p)==6 and p[5] in('$limit','$skip'):
                bad+=1; print('C04b',d)
            if p[-1] in ('$limit','$skip') and d[1]==('N','55'):
                bad+=1; print('C04c',d)
            if p[-1]=='subType' and p[-2]=='$binary':
                bad+=1; print('C05sub',d,a)
    print('done',len(lines),'bad',bad)
main()
