#!/bin/bash
# usage: repro.sh <worktree>; exits 1 when the $binary wrapper under embeddedDocument.operator loses its type-aware placeholder / subType
export GOFLAGS=-mod=mod GOPROXY=off; unset GOWORK GOSUMDB GOTOOLCHAIN
W=${1:-/tmp/hunt2/G1}
T=$(mktemp -d)
(cd "$W" && go build -o "$T/anonymongo" ./src) || exit 2
cat > "$T/in.log" <<'EOL'
{"t":{"$date":"2024-01-01T00:00:00.000+00:00"},"s":"I","c":"COMMAND","id":51803,"ctx":"conn1","msg":"Slow query","attr":{"type":"command","ns":"db.c","command":{"aggregate":"c","pipeline":[{"$search":{"index":"default","embeddedDocument":{"path":"items","operator":{"equals":{"path":"items.sku","value":{"$binary":{"base64":"q83vEjRWeJCrze8SNFZ4kA==","subType":"04"}}}}}}}],"cursor":{},"$db":"db"},"durationMillis":5}}
EOL
rc=0
for repl in "REDACTED" "***"; do
  out=$("$T/anonymongo" redact --replacement "$repl" < "$T/in.log")
  bin=$(echo "$out" | grep -o '"\$binary":{[^}]*}')
  echo "replacement=$repl -> $bin"
  [ "$bin" = '"$binary":{"base64":"AAAAAAAAAAAAAAAAAAA=","subType":"04"}' ] || rc=1
done
[ $rc = 1 ] && echo "VIOLATION: \$binary.base64 did not get the binary placeholder and/or subType was overwritten"
rm -rf "$T"; exit $rc
