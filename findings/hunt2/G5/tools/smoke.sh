#!/bin/bash
WT="$1"
. "$(dirname "$0")/lib.sh"
L='{"t":{"$date":"2020-01-01T00:00:00.000Z"},"c":"COMMAND","msg":"Slow query","attr":{"ns":"a.b","command":{"find":"b","filter":{"x":"secret"}}}}'
printf '%s\n%s\n' "$L" "$L" | gzip > "$WORK/h1.gz"
printf '%s\n' "$L" | gzip > "$WORK/h2.gz"
cat > "$WORK/cfg.json" <<J
{"standard":"mongodb://h1.example.net:27017,h2.example.net:27017/?ssl=true&authSource=admin&replicaSet=rs0",
 "hosts":{"h1.example.net":{"bodyFile":"$WORK/h1.gz"},"h2.example.net":{"bodyFile":"$WORK/h2.gz"}}}
J
start_fake "$WORK/cfg.json"
run_tool redact --atlasProjectId 5f5f5f5f5f5f5f5f5f5f5f5f --atlasClusterName Cluster0 --atlasPublicKey pubkey --atlasPrivateKey SECRETPRIV -o "$WORK/out/red.log"
echo "RC=$RC"; echo "--stdout"; cat "$WORK/stdout"; echo "--stderr"; cat "$WORK/stderr"; echo "--requests"; cat "$FAKEDIR/requests.log"; echo "--out"; ls -la "$WORK/out"; head -c 300 "$WORK/out/red.log.0"; echo "--tmp"; ls -la "$TOOLTMP"
