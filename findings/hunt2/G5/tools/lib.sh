# Common helpers for the Atlas CLI reproductions. Source it after setting WT (worktree path).
# Provides: $BIN (anonymongo built from $WT), start_fake <config.json>, stop_fake, run_tool <args...>
export GOFLAGS=-mod=mod GOPROXY=off
unset GOWORK GOSUMDB GOTOOLCHAIN
TOOLS_DIR="$(cd "$(dirname "${BASH_SOURCE[0]}")" && pwd)"
WORK="$(mktemp -d /tmp/hunt2g5.XXXXXX)"
BIN="$WORK/anonymongo"
FAKE="$WORK/fakeatlas"
export FAKEDIR="$WORK/fake"
export TOOLTMP="$WORK/tmp"   # TMPDIR handed to the tool: raw downloads land here
mkdir -p "$FAKEDIR" "$TOOLTMP" "$WORK/out"
( cd "$WT" && go build -o "$BIN" ./src ) || { echo "build of anonymongo failed"; exit 99; }
( cd "$TOOLS_DIR/fakeatlas" && GOFLAGS=-mod=mod go build -o "$FAKE" . ) || { echo "build of fakeatlas failed"; exit 99; }

start_fake() {
  rm -f "$FAKEDIR/ready"
  "$FAKE" -dir "$FAKEDIR" -config "$1" &
  FAKEPID=$!
  for i in $(seq 1 100); do [ -f "$FAKEDIR/ready" ] && break; sleep 0.05; done
  [ -f "$FAKEDIR/ready" ] || { echo "fake atlas did not start"; exit 99; }
  PORT="$(cat "$FAKEDIR/port")"
}
stop_fake() { [ -n "$FAKEPID" ] && kill "$FAKEPID" 2>/dev/null; wait "$FAKEPID" 2>/dev/null; FAKEPID=""; }
cleanup_all() { stop_fake; rm -rf "$WORK"; }
trap cleanup_all EXIT

# run_tool <args...>: runs the binary against the fake API; stdin is /dev/null (a character
# device, which the tool does not take for piped input). stdout/stderr go to $WORK/stdout|stderr.
run_tool() {
  ( cd "$WORK/out" && env -u ATLAS_PUBLIC_KEY -u ATLAS_PRIVATE_KEY \
      HTTPS_PROXY="http://127.0.0.1:$PORT" https_proxy="http://127.0.0.1:$PORT" NO_PROXY= no_proxy= \
      SSL_CERT_FILE="$FAKEDIR/ca.pem" SSL_CERT_DIR=/nonexistent TMPDIR="$TOOLTMP" \
      "$BIN" "$@" </dev/null >"$WORK/stdout" 2>"$WORK/stderr" )
  RC=$?
  return 0
}
