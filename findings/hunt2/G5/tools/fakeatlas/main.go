// fakeatlas: a fake Atlas API for exercising the real anonymongo binary.
//
// It starts (1) an HTTPS server with a certificate for cloud.mongodb.com signed by a
// throw-away CA and (2) a plain HTTP proxy that tunnels every CONNECT to that server.
// Run the tool with HTTPS_PROXY=http://127.0.0.1:<port> SSL_CERT_FILE=<dir>/ca.pem.
//
// Files written into -dir: ca.pem, port (proxy port), requests.log (one line per request:
// METHOD URL auth=<yes|no> | header dump), ready (created when listening).
package main

import (
	"crypto/ecdsa"
	"crypto/elliptic"
	"crypto/rand"
	"crypto/tls"
	"crypto/x509"
	"crypto/x509/pkix"
	"encoding/json"
	"encoding/pem"
	"flag"
	"fmt"
	"io"
	"log"
	"math/big"
	"net"
	"net/http"
	"os"
	"path/filepath"
	"sort"
	"strings"
	"sync"
	"time"
)

type hostCfg struct {
	Status          int    `json:"status"`          // default 200
	BodyFile        string `json:"bodyFile"`        // payload served for the host
	ContentEncoding string `json:"contentEncoding"` // optional Content-Encoding header
	CutAfter        int    `json:"cutAfter"`        // >0: declare full length, send that many bytes, close
	Challenge       string `json:"challenge"`       // override WWW-Authenticate for this host's 401
}

type config struct {
	Standard string             `json:"standard"`
	Hosts    map[string]hostCfg `json:"hosts"`
}

var (
	cfg   config
	mu    sync.Mutex
	logF  *os.File
	nonce = "dcd98b7102dd2f0e8b11d0f600bfb0c093"
)

func logReq(r *http.Request) {
	mu.Lock()
	defer mu.Unlock()
	keys := make([]string, 0, len(r.Header))
	for k := range r.Header {
		keys = append(keys, k)
	}
	sort.Strings(keys)
	var hs []string
	for _, k := range keys {
		hs = append(hs, k+": "+strings.Join(r.Header[k], ","))
	}
	auth := "no"
	if r.Header.Get("Authorization") != "" {
		auth = "yes"
	}
	fmt.Fprintf(logF, "%s %s auth=%s | %s\n", r.Method, r.URL.String(), auth, strings.Join(hs, " ; "))
}

func handler(w http.ResponseWriter, r *http.Request) {
	logReq(r)
	parts := strings.Split(strings.Trim(r.URL.Path, "/"), "/")
	// api/atlas/v2/groups/{p}/clusters/{name}[/logs/mongodb.gz]
	isLog := len(parts) >= 9 && parts[7] == "logs"
	name := ""
	if len(parts) >= 7 {
		name = parts[6]
	}
	var hc hostCfg
	if isLog {
		hc = cfg.Hosts[name]
	}
	if r.Header.Get("Authorization") == "" {
		ch := fmt.Sprintf(`Digest realm="MMS Public API", domain="", nonce="%s", algorithm=MD5, qop="auth", stale=false`, nonce)
		if hc.Challenge != "" {
			ch = hc.Challenge
		}
		w.Header().Set("WWW-Authenticate", ch)
		w.WriteHeader(401)
		io.WriteString(w, `{"error":401}`)
		return
	}
	if !isLog {
		w.Header().Set("Content-Type", "application/json")
		json.NewEncoder(w).Encode(map[string]any{"connectionStrings": map[string]any{"standard": cfg.Standard}})
		return
	}
	if hc.Status != 0 && hc.Status != 200 {
		w.WriteHeader(hc.Status)
		io.WriteString(w, `{"error":"boom"}`)
		return
	}
	body, err := os.ReadFile(hc.BodyFile)
	if err != nil {
		w.WriteHeader(500)
		return
	}
	if hc.ContentEncoding != "" {
		w.Header().Set("Content-Encoding", hc.ContentEncoding)
	}
	w.Header().Set("Content-Type", "application/gzip")
	w.Header().Set("Content-Length", fmt.Sprint(len(body)))
	if hc.CutAfter > 0 && hc.CutAfter < len(body) {
		w.WriteHeader(200)
		w.Write(body[:hc.CutAfter])
		if f, ok := w.(http.Flusher); ok {
			f.Flush()
		}
		if hj, ok := w.(http.Hijacker); ok {
			c, _, _ := hj.Hijack()
			c.Close()
		}
		return
	}
	w.WriteHeader(200)
	w.Write(body)
}

func main() {
	dir := flag.String("dir", "", "work dir")
	cfgPath := flag.String("config", "", "config json")
	flag.Parse()
	b, err := os.ReadFile(*cfgPath)
	if err != nil {
		log.Fatal(err)
	}
	if err := json.Unmarshal(b, &cfg); err != nil {
		log.Fatal(err)
	}
	logF, err = os.Create(filepath.Join(*dir, "requests.log"))
	if err != nil {
		log.Fatal(err)
	}

	// CA + leaf
	caKey, _ := ecdsa.GenerateKey(elliptic.P256(), rand.Reader)
	caTpl := &x509.Certificate{SerialNumber: big.NewInt(1), Subject: pkix.Name{CommonName: "fake CA"},
		NotBefore: time.Now().Add(-time.Hour), NotAfter: time.Now().Add(24 * time.Hour),
		IsCA: true, KeyUsage: x509.KeyUsageCertSign | x509.KeyUsageDigitalSignature, BasicConstraintsValid: true}
	caDER, _ := x509.CreateCertificate(rand.Reader, caTpl, caTpl, &caKey.PublicKey, caKey)
	caCert, _ := x509.ParseCertificate(caDER)
	leafKey, _ := ecdsa.GenerateKey(elliptic.P256(), rand.Reader)
	leafTpl := &x509.Certificate{SerialNumber: big.NewInt(2), Subject: pkix.Name{CommonName: "cloud.mongodb.com"},
		DNSNames: []string{"cloud.mongodb.com"}, NotBefore: time.Now().Add(-time.Hour), NotAfter: time.Now().Add(24 * time.Hour),
		KeyUsage: x509.KeyUsageDigitalSignature, ExtKeyUsage: []x509.ExtKeyUsage{x509.ExtKeyUsageServerAuth}}
	leafDER, _ := x509.CreateCertificate(rand.Reader, leafTpl, caCert, &leafKey.PublicKey, caKey)
	os.WriteFile(filepath.Join(*dir, "ca.pem"), pem.EncodeToMemory(&pem.Block{Type: "CERTIFICATE", Bytes: caDER}), 0o644)

	tlsLn, err := tls.Listen("tcp", "127.0.0.1:0", &tls.Config{
		Certificates: []tls.Certificate{{Certificate: [][]byte{leafDER}, PrivateKey: leafKey}},
		NextProtos:   []string{"http/1.1"},
	})
	if err != nil {
		log.Fatal(err)
	}
	go http.Serve(tlsLn, http.HandlerFunc(handler))

	proxyLn, err := net.Listen("tcp", "127.0.0.1:0")
	if err != nil {
		log.Fatal(err)
	}
	os.WriteFile(filepath.Join(*dir, "port"), []byte(fmt.Sprint(proxyLn.Addr().(*net.TCPAddr).Port)), 0o644)
	os.WriteFile(filepath.Join(*dir, "ready"), []byte("ok"), 0o644)
	for {
		c, err := proxyLn.Accept()
		if err != nil {
			return
		}
		go func(c net.Conn) {
			defer c.Close()
			// read the CONNECT request head
			buf := make([]byte, 0, 4096)
			tmp := make([]byte, 1)
			for !strings.HasSuffix(string(buf), "\r\n\r\n") {
				if _, err := c.Read(tmp); err != nil {
					return
				}
				buf = append(buf, tmp[0])
			}
			mu.Lock()
			fmt.Fprintf(logF, "PROXY %s\n", strings.SplitN(string(buf), "\r\n", 2)[0])
			mu.Unlock()
			up, err := net.Dial("tcp", tlsLn.Addr().String())
			if err != nil {
				return
			}
			defer up.Close()
			io.WriteString(c, "HTTP/1.1 200 Connection established\r\n\r\n")
			go io.Copy(up, c)
			io.Copy(c, up)
		}(c)
	}
}
