module fakeatlas

go 1.24.3
