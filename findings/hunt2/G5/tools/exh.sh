#!/bin/bash
WT="$1"
. "$(dirname "$0")/lib.sh"
L='{"t":{"$date":"2020-01-01T00:00:00.000Z"},"c":"COMMAND","msg":"Slow query","attr":{"ns":"a.b","command":{"find":"b","filter":{"x":"secret"}}}}'
printf '%s\n' "$L" | gzip > "$WORK/h1.gz"
printf '%s\n' "$L" > "$WORK/in.log"
cat > "$WORK/cfg.json" <<J
{"standard":"mongodb://h1.example.net:27017/?ssl=true","hosts":{"h1.example.net":{"bodyFile":"$WORK/h1.gz"}}}
J
start_fake "$WORK/cfg.json"
export WORK BIN PORT
python3 - <<'PY'
import os, subprocess, itertools, shutil
W=os.environ['WORK']; BIN=os.environ['BIN']; PORT=os.environ['PORT']; FD=os.environ['FAKEDIR']
names=['F','S','O','E','R','N','P','C','PUB','PRIV','SD','ED','ENV']
bad=[]
def reqcount():
    return sum(1 for _ in open(FD+'/requests.log'))
n=0
for bits in itertools.product([0,1],repeat=13):
    v=dict(zip(names,bits))
    cwd=W+'/cwd'; shutil.rmtree(cwd,ignore_errors=True); os.mkdir(cwd)
    args=[BIN,'redact']
    if v['F']: args.append(W+'/in.log')
    if v['O']: args+=['-o',cwd+'/out.log']
    if v['E']: args.append('--encrypt')
    if v['R']: args+=['--redactFieldsRegexp','^x$']
    if v['N']: args+=['--redactFieldNames','a.b']
    if v['P']: args+=['--atlasProjectId','5f5f']
    if v['C']: args+=['--atlasClusterName','C0']
    if v['PUB']: args+=['--atlasPublicKey','pub']
    if v['PRIV']: args+=['--atlasPrivateKey','priv']
    if v['SD']: args+=['--atlasLogStartDate','1700000000']
    if v['ED']: args+=['--atlasLogEndDate','1700003600']
    env={k:val for k,val in os.environ.items() if k not in('ATLAS_PUBLIC_KEY','ATLAS_PRIVATE_KEY')}
    env.update(HTTPS_PROXY='http://127.0.0.1:'+PORT, SSL_CERT_FILE=FD+'/ca.pem', TMPDIR=os.environ['TOOLTMP'])
    if v['ENV']: env.update(ATLAS_PUBLIC_KEY='epub',ATLAS_PRIVATE_KEY='epriv')
    before=reqcount()
    if v['S']:
        p=subprocess.run(args,input=open(W+'/in.log','rb').read(),capture_output=True,cwd=cwd,env=env)
    else:
        p=subprocess.run(args,stdin=open('/dev/null'),capture_output=True,cwd=cwd,env=env)
    after=reqcount()
    atlas=any(v[k] for k in ['P','C','PUB','PRIV','SD','ED'])
    ok=True
    if v['R'] and v['N']: ok=False
    if v['SD']!=v['ED']: ok=False
    if atlas:
        if not(v['P'] and v['C'] and v['O'] and not v['F'] and not v['S'] and (v['PUB'] or v['ENV']) and (v['PRIV'] or v['ENV'])): ok=False
    else:
        if v['F']+v['S']!=1: ok=False
        if v['E'] and not (v['F'] and v['O']): ok=False
    files=sorted(os.listdir(cwd))
    prob=None
    if ok and p.returncode!=0: prob='expected accept, rc=%d %s'%(p.returncode,p.stderr[:200])
    if not ok:
        if p.returncode==0: prob='expected reject, rc=0'
        elif files: prob='reject left files %s'%files
        elif after!=before: prob='reject sent requests'
        elif not p.stderr.strip(): prob='reject without message'
    if ok and p.returncode==0 and atlas and os.listdir(os.environ['TOOLTMP']): prob='tmp leftover'
    if prob: bad.append((v,prob))
    n+=1
print('runs',n,'problems',len(bad))
for v,pr in bad[:20]: print([k for k in names if v[k]],pr)
PY
