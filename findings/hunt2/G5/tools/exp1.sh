#!/bin/bash
WT="$1"
. "$(dirname "$0")/lib.sh"
L='{"t":{"$date":"2020-01-01T00:00:00.000Z"},"c":"COMMAND","msg":"Slow query","attr":{"ns":"a.b","command":{"find":"b","filter":{"x":"secret"}}}}'
printf '%s\n%s\n' "$L" "$L" | gzip > "$WORK/h1.gz"
printf '%s\n' "$L" | gzip > "$WORK/h2.gz"
show() { echo "RC=$RC"; echo "--stdout"; cat "$WORK/stdout" | tr '\r' '\n' | grep -v Redacting; echo "--stderr"; head -c 1500 "$WORK/stderr"; echo; echo "--requests"; cut -c1-200 "$FAKEDIR/requests.log"; echo "--out"; ls -la "$WORK/out"; echo "--tmp"; ls -la "$TOOLTMP"; }
echo "===== A: malformed digest challenge on host 2"
cat > "$WORK/cfg.json" <<J
{"standard":"mongodb://h1.example.net:27017,h2.example.net:27017/?ssl=true&authSource=admin&replicaSet=rs0",
 "hosts":{"h1.example.net":{"bodyFile":"$WORK/h1.gz"},"h2.example.net":{"bodyFile":"$WORK/h2.gz","challenge":"Digest realm"}}}
J
start_fake "$WORK/cfg.json"
run_tool redact --atlasProjectId 5f5f5f5f5f5f5f5f5f5f5f5f --atlasClusterName Cluster0 --atlasPublicKey pubkey --atlasPrivateKey SECRETPRIV -o "$WORK/out/red.log"
show
stop_fake; rm -rf "$TOOLTMP"/* "$WORK/out"/*
echo "===== B: Content-Encoding gzip"
cat > "$WORK/cfg.json" <<J
{"standard":"mongodb://h1.example.net:27017/?ssl=true",
 "hosts":{"h1.example.net":{"bodyFile":"$WORK/h1.gz","contentEncoding":"gzip"}}}
J
start_fake "$WORK/cfg.json"
run_tool redact --atlasProjectId 5f5f5f5f5f5f5f5f5f5f5f5f --atlasClusterName Cluster0 --atlasPublicKey pubkey --atlasPrivateKey SECRETPRIV -o "$WORK/out/red.log"
show
stop_fake; rm -rf "$TOOLTMP"/* "$WORK/out"/*
echo "===== C: empty gzip / zero bytes"
printf '' | gzip > "$WORK/e.gz"; : > "$WORK/z.gz"
cat > "$WORK/cfg.json" <<J
{"standard":"mongodb://h1.example.net:27017,h2.example.net/?ssl=true",
 "hosts":{"h1.example.net":{"bodyFile":"$WORK/e.gz"},"h2.example.net":{"bodyFile":"$WORK/z.gz"}}}
J
start_fake "$WORK/cfg.json"
run_tool redact --atlasProjectId 5f5f5f5f5f5f5f5f5f5f5f5f --atlasClusterName Cluster0 --atlasPublicKey pubkey --atlasPrivateKey SECRETPRIV -o "$WORK/out/red.log"
show
stop_fake; rm -rf "$TOOLTMP"/* "$WORK/out"/*
echo "===== D: -s 0 -e N"
start_fake "$WORK/cfg.json"
run_tool redact --atlasProjectId 5f5f5f5f5f5f5f5f5f5f5f5f --atlasClusterName Cluster0 --atlasPublicKey pubkey --atlasPrivateKey SECRETPRIV -o "$WORK/out/red.log" --atlasLogStartDate 0 --atlasLogEndDate 1700000000
show
