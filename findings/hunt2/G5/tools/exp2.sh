#!/bin/bash
WT="$1"
. "$(dirname "$0")/lib.sh"
L='{"t":{"$date":"2020-01-01T00:00:00.000Z"},"c":"COMMAND","msg":"Slow query","attr":{"ns":"a.b","command":{"find":"b","filter":{"x":"secret"}}}}'
for i in $(seq 1 200); do printf '%s\n' "$L"; done | gzip > "$WORK/ok.gz"
head -c 5000 /dev/urandom > "$WORK/notgz.gz"
python3 -c "print('{\"a\":\"'+'x'*70000+'\"}')" | gzip > "$WORK/long.gz"
( printf '%s\n' "$L"; python3 -c "print('{\"a\":\"'+'x'*70000+'\"}')" ) | gzip > "$WORK/long2.gz"
head -c 100 "$WORK/ok.gz" > "$WORK/trunc.gz"
run_case() { # name, h1cfg, h2cfg, h3cfg, extra setup
  name="$1"
  cat > "$WORK/cfg.json" <<J
{"standard":"mongodb://h1:27017,h2:27017,h3:27017/?ssl=true","hosts":{"h1":$2,"h2":$3,"h3":$4}}
J
  rm -rf "$TOOLTMP"/* "$WORK/out"/*
  eval "$5"
  start_fake "$WORK/cfg.json"
  run_tool redact --atlasProjectId 5f5f --atlasClusterName C0 --atlasPublicKey pub --atlasPrivateKey SECRETPRIV -o "$WORK/out/red.log"
  stop_fake
  echo "[$name] rc=$RC tmp=[$(ls -A "$TOOLTMP" | tr '\n' ' ')] out=[$(cd "$WORK/out"; for f in *; do printf '%s:%s ' "$f" "$(wc -l < "$f" 2>/dev/null)"; done)] err=$(head -c 200 "$WORK/stderr" | tr '\n' ' ')"
  grep -l SECRETPRIV "$WORK/stdout" "$WORK/stderr" "$FAKEDIR/requests.log" "$WORK/out"/* 2>/dev/null | sed 's/^/   KEY LEAK in /'
}
OK="{\"bodyFile\":\"$WORK/ok.gz\"}"
run_case ok "$OK" "$OK" "$OK"
for st in 401 404 500 302; do run_case "h2-$st" "$OK" "{\"status\":$st}" "$OK"; run_case "h3-$st" "$OK" "$OK" "{\"status\":$st}"; done
run_case h2-cut "$OK" "{\"bodyFile\":\"$WORK/ok.gz\",\"cutAfter\":50}" "$OK"
run_case h3-cut1 "$OK" "$OK" "{\"bodyFile\":\"$WORK/ok.gz\",\"cutAfter\":1}"
run_case h2-notgz "$OK" "{\"bodyFile\":\"$WORK/notgz.gz\"}" "$OK"
run_case h2-long "$OK" "{\"bodyFile\":\"$WORK/long.gz\"}" "$OK"
run_case h3-long2 "$OK" "$OK" "{\"bodyFile\":\"$WORK/long2.gz\"}"
run_case h2-trunc "$OK" "{\"bodyFile\":\"$WORK/trunc.gz\"}" "$OK"
run_case out1-dir "$OK" "$OK" "$OK" "mkdir -p $WORK/out/red.log.1"
run_case basic-ch "$OK" "{\"bodyFile\":\"$WORK/ok.gz\",\"challenge\":\"Basic realm=\\\"x\\\"\"}" "$OK"
run_case sess-ch "$OK" "{\"bodyFile\":\"$WORK/ok.gz\",\"challenge\":\"Digest realm=\\\"x\\\", nonce=\\\"n\\\", algorithm=MD5-sess, qop=\\\"auth\\\"\"}" "$OK"
run_case authint "$OK" "{\"bodyFile\":\"$WORK/ok.gz\",\"challenge\":\"Digest realm=\\\"x\\\", nonce=\\\"n\\\", qop=\\\"auth,auth-int\\\"\"}" "$OK"
