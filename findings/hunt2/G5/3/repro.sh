#!/bin/bash
# C18: the Atlas flags are recognised by VALUE (!= 0 / != "") instead of by presence, so a flag
# that is given with its zero value counts as "not given":
#  (a) a complete Atlas job with --atlasLogStartDate 0 --atlasLogEndDate 1700000000 (both dates
#      given, window = epoch .. end) is rejected with "Both ... must be set together";
#  (b) a file job that ALSO carries Atlas flags (--atlasLogStartDate 0 --atlasLogEndDate 0, or
#      --atlasProjectId "" --atlasClusterName "") is accepted and runs as a plain file job
#      instead of being rejected for naming two input sources.
# usage: repro.sh <worktree>   -> exits 1 when the violation shows
WT="${1:?worktree path}"
. "$(cd "$(dirname "$0")" && pwd)/../tools/lib.sh"
L='{"t":{"$date":"2020-01-01T00:00:00.000Z"},"c":"COMMAND","msg":"Slow query","attr":{"ns":"a.b","command":{"find":"b","filter":{"x":"secret"}}}}'
printf '%s\n' "$L" > "$WORK/in.log"
gzip -c "$WORK/in.log" > "$WORK/h1.gz"
cat > "$WORK/cfg.json" <<J
{"standard":"mongodb://h1.example.net:27017/?ssl=true","hosts":{"h1.example.net":{"bodyFile":"$WORK/h1.gz"}}}
J
start_fake "$WORK/cfg.json"
bad=0
echo "== control: the same Atlas job with start=1 is accepted"
run_tool redact --atlasProjectId 5f5f --atlasClusterName C0 --atlasPublicKey pub --atlasPrivateKey priv -o "$WORK/out/ctl.log" --atlasLogStartDate 1 --atlasLogEndDate 1700000000
echo "exit=$RC"; grep -c 'startDate=1 ' "$FAKEDIR/requests.log" | sed 's/^/requests with startDate=1: /'
[ "$RC" -eq 0 ] || { echo "control failed, harness problem"; exit 99; }
echo "== (a) both dates given, start = 0"
run_tool redact --atlasProjectId 5f5f --atlasClusterName C0 --atlasPublicKey pub --atlasPrivateKey priv -o "$WORK/out/a.log" --atlasLogStartDate 0 --atlasLogEndDate 1700000000
echo "exit=$RC"; cat "$WORK/stderr"
if [ "$RC" -ne 0 ]; then echo "VIOLATION (a): well-defined Atlas job rejected, and the message claims a date is missing"; bad=1; fi
echo "== (b1) file input + both Atlas date flags (value 0)"
run_tool redact "$WORK/in.log" --atlasLogStartDate 0 --atlasLogEndDate 0
echo "exit=$RC"; cat "$WORK/stderr"
if [ "$RC" -eq 0 ]; then echo "VIOLATION (b1): file + Atlas flags accepted"; bad=1; fi
echo "== (b2) file input + --atlasProjectId '' --atlasClusterName ''"
run_tool redact "$WORK/in.log" --atlasProjectId "" --atlasClusterName ""
echo "exit=$RC"; cat "$WORK/stderr"
if [ "$RC" -eq 0 ]; then echo "VIOLATION (b2): file + Atlas flags accepted"; bad=1; fi
echo "== control: file input + Atlas date flags with non-zero values is rejected"
run_tool redact "$WORK/in.log" --atlasLogStartDate 5 --atlasLogEndDate 6
echo "exit=$RC"; cat "$WORK/stderr"
exit $bad
