#!/bin/bash
# C16: when the log endpoint labels the gzip payload with "Content-Encoding: gzip", Go's
# transport (which adds "Accept-Encoding: gzip" on its own because the tool does not set the
# header itself) inflates the body transparently. The bytes stored in mongod_*.log.gz are the
# INFLATED text, not the downloaded bytes, the ".gz" reader then refuses the file and
# <outputFile>.0 stays empty instead of holding the redaction of the host's log.
# usage: repro.sh <worktree>   -> exits 1 when the violation shows
WT="${1:?worktree path}"
. "$(cd "$(dirname "$0")" && pwd)/../tools/lib.sh"
L='{"t":{"$date":"2020-01-01T00:00:00.000Z"},"c":"COMMAND","msg":"Slow query","attr":{"ns":"a.b","command":{"find":"b","filter":{"x":"secret"}}}}'
printf '%s\n%s\n' "$L" "$L" > "$WORK/h1.log"
gzip -c "$WORK/h1.log" > "$WORK/h1.gz"
cat > "$WORK/cfg.json" <<J
{"standard":"mongodb://h1.example.net:27017/?ssl=true&authSource=admin&replicaSet=rs0",
 "hosts":{"h1.example.net":{"bodyFile":"$WORK/h1.gz","contentEncoding":"gzip"}}}
J
start_fake "$WORK/cfg.json"
# expected content of <outputFile>.0: the redaction of the host's log (file mode on the same bytes)
( cd "$WORK" && "$BIN" redact "$WORK/h1.gz" </dev/null > "$WORK/expected.0" )
run_tool redact --atlasProjectId 5f5f5f5f5f5f5f5f5f5f5f5f --atlasClusterName Cluster0 \
  --atlasPublicKey pubkey --atlasPrivateKey privkey -o "$WORK/out/red.log"
echo "tool exit status: $RC"
cat "$WORK/stderr"
echo "request headers seen by the API for the log download:"
grep 'logs/mongodb.gz' "$FAKEDIR/requests.log" | grep 'auth=yes' | sed 's/Authorization: [^;]*;//' | cut -c1-260
if [ "$RC" -ne 0 ] || ! cmp -s "$WORK/expected.0" "$WORK/out/red.log.0"; then
  echo "VIOLATION: <outputFile>.0 is not the redaction of host 0's log"
  echo "expected $(wc -l < "$WORK/expected.0") redacted lines, got $(wc -l < "$WORK/out/red.log.0" 2>/dev/null || echo none)"
  exit 1
fi
echo "output matches (no violation)"
exit 0
