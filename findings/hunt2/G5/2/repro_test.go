package main

import (
	"bytes"
	"compress/gzip"
	"context"
	"net/http"
	"net/http/httptest"
	"os"
	"testing"
)

// C16 "The downloaded bytes are stored verbatim": the log endpoint answers with the gzip
// payload and the header "Content-Encoding: gzip". The tool never sets Accept-Encoding, so
// Go's transport asks for gzip itself and inflates the body behind the tool's back: the temp
// file mongod_*.log.gz holds the inflated text instead of the bytes the server sent, and
// ProcessMongoLogFile (which goes by the .gz extension) refuses it.
func TestHuntContentEncodingGzipNotStoredVerbatim(t *testing.T) {
	line := `{"t":{"$date":"2020-01-01T00:00:00.000Z"},"c":"COMMAND","msg":"Slow query","attr":{"ns":"a.b","command":{"find":"b","filter":{"x":"secret"}}}}` + "\n"
	var payload bytes.Buffer
	zw := gzip.NewWriter(&payload)
	zw.Write([]byte(line))
	zw.Close()

	srv := httptest.NewServer(http.HandlerFunc(func(w http.ResponseWriter, r *http.Request) {
		w.Header().Set("Content-Type", "application/vnd.atlas.2023-02-01+gzip")
		w.Header().Set("Content-Encoding", "gzip")
		w.Write(payload.Bytes())
	}))
	defer srv.Close()

	t.Setenv("TMPDIR", t.TempDir())
	c := &AtlasClient{BaseURL: srv.URL, HTTPClient: &http.Client{}}
	file, err := c.downloadClusterLogsForHost(context.Background(), "pub", "priv", "p1", "h1.example.net", 1700000000, 1700003600)
	if err != nil {
		t.Fatalf("download failed: %v", err)
	}
	defer os.Remove(file)
	stored, err := os.ReadFile(file)
	if err != nil {
		t.Fatal(err)
	}
	if !bytes.Equal(stored, payload.Bytes()) {
		t.Errorf("stored file differs from the downloaded bytes: server sent %d bytes (gzip magic %x), file holds %d bytes starting with %q",
			payload.Len(), payload.Bytes()[:2], len(stored), stored[:20])
	}
	var out bytes.Buffer
	if err := ProcessMongoLogFile(&DefaultFileReader{}, file, &out, nil); err != nil {
		t.Errorf("redaction of the downloaded log failed: %v", err)
	}
}
