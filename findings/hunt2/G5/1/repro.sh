#!/bin/bash
# C17: a 401 whose Digest challenge is malformed ("Digest realm") on the 2nd host makes the
# digest transport panic inside DownloadClusterLogs; the raw log already downloaded for the
# 1st host stays in the temporary directory.
# usage: repro.sh <worktree>   -> exits 1 when the violation shows
WT="${1:?worktree path}"
. "$(cd "$(dirname "$0")" && pwd)/../tools/lib.sh"
L='{"t":{"$date":"2020-01-01T00:00:00.000Z"},"c":"COMMAND","msg":"Slow query","attr":{"ns":"a.b","command":{"find":"b","filter":{"x":"RAW-SECRET-VALUE"}}}}'
printf '%s\n%s\n' "$L" "$L" | gzip > "$WORK/h1.gz"
printf '%s\n' "$L" | gzip > "$WORK/h2.gz"
cat > "$WORK/cfg.json" <<J
{"standard":"mongodb://h1.example.net:27017,h2.example.net:27017/?ssl=true&authSource=admin&replicaSet=rs0",
 "hosts":{"h1.example.net":{"bodyFile":"$WORK/h1.gz"},
          "h2.example.net":{"bodyFile":"$WORK/h2.gz","challenge":"Digest realm"}}}
J
start_fake "$WORK/cfg.json"
run_tool redact --atlasProjectId 5f5f5f5f5f5f5f5f5f5f5f5f --atlasClusterName Cluster0 \
  --atlasPublicKey pubkey --atlasPrivateKey privkey -o "$WORK/out/red.log"
echo "tool exit status: $RC"
head -n 3 "$WORK/stderr"
left=$(ls -A "$TOOLTMP")
if [ -n "$left" ]; then
  echo "VIOLATION: raw downloaded log(s) left in the temporary directory after the tool exited:"
  ls -l "$TOOLTMP"
  for f in "$TOOLTMP"/*; do zcat "$f" 2>/dev/null | grep -c RAW-SECRET-VALUE | sed 's/^/  unredacted lines in file: /'; done
  exit 1
fi
echo "temporary directory is empty (no violation)"
exit 0
