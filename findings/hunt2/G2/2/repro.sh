#!/usr/bin/env bash
# C06: with --outputFile the progress bar is written to os.Stdout. When the output path IS stdout
# (-o /dev/stdout, /dev/fd/1, /proc/self/fd/1 - the usual idiom for tools that want an output-file
# argument) the bar text / ANSI escapes are mixed into (or overwrite) the redacted lines; exit status 0.
# usage: repro.sh <worktree>   -> exits 1 when the violation shows
set -u
WT=${1:?worktree path}
export GOFLAGS=-mod=mod GOPROXY=off; unset GOWORK GOSUMDB GOTOOLCHAIN
TMP=$(mktemp -d); trap 'rm -rf "$TMP"' EXIT
(cd "$WT" && go build -o "$TMP/anonymongo" ./src) || { echo "build failed"; exit 2; }
L='{"t":{"$date":"2024-01-01T00:00:00.000Z"},"s":"I","c":"COMMAND","id":51803,"ctx":"conn1","msg":"Slow query","attr":{"type":"command","ns":"db.coll","command":{"find":"coll","filter":{"name":"alice"},"$db":"db"},"planSummary":"IXSCAN { name: 1 }"}}'
for i in 1 2 3 4 5 6 7 8; do echo "$L"; done > "$TMP/in.log"
cd "$TMP"
# reference: same file, output on stdout (no bar). `script` gives the tool a terminal on stdin so that the file argument is accepted.
script -qec "./anonymongo redact in.log > ref.out" /dev/null >/dev/null; rc0=$?
# output file given as /dev/stdout, stdout redirected to a file ...
script -qec "./anonymongo redact in.log -o /dev/stdout > viafile.out" /dev/null >/dev/null; rc1=$?
# ... and to a pipe
script -qec "./anonymongo redact in.log -o /dev/stdout | cat > viapipe.out" /dev/null >/dev/null; rc2=$?
echo "exit statuses: ref=$rc0 file=$rc1 pipe=$rc2"
echo "reference: $(wc -l < ref.out) lines, $(stat -c %s ref.out) bytes"
bad=0
for f in viafile.out viapipe.out; do
  if ! cmp -s "$f" ref.out; then
    echo "VIOLATION: $f differs from the stdout output ($(stat -c %s "$f") bytes); lines that are not the redacted form of an input line: $(grep -c -v -x -F -f ref.out "$f")"
    grep -a -m1 -o 'Redacting MongoDB logs[^[]*' "$f" | head -1
    bad=1
  fi
done
[ "$bad" -eq 1 ] && [ "$rc1" -eq 0 ] && echo "(and the run reported success)"
exit $bad
