#!/usr/bin/env bash
# C06: the reader's line limit counts the '\r' of a CRLF line end, so the SAME line (65535 bytes of
# content) is redacted when the file uses LF (or has no final newline) and aborts the whole run
# ("token too long", exit 1, every later line lost) when the file uses CRLF.
# usage: repro.sh <worktree>   -> exits 1 when the violation shows
set -u
WT=${1:?worktree path}
export GOFLAGS=-mod=mod GOPROXY=off; unset GOWORK GOSUMDB GOTOOLCHAIN
TMP=$(mktemp -d); trap 'rm -rf "$TMP"' EXIT
(cd "$WT" && go build -o "$TMP/anonymongo" ./src) || { echo "build failed"; exit 2; }
cd "$TMP"
python3 - <<'PY'
head = '{"t":{"$date":"2024-01-01T00:00:00.000Z"},"s":"I","c":"COMMAND","msg":"Slow query","attr":{"ns":"db.c","command":{"find":"c","filter":{"name":"'
tail = '"}}}}'
big = head + "a" * (65535 - len(head) - len(tail)) + tail
assert len(big) == 65535
small = '{"c":"NETWORK","msg":"after","attr":{"x":1}}'
open("lf.log", "wb").write((big + "\n" + small + "\n").encode())
open("crlf.log", "wb").write((big + "\r\n" + small + "\r\n").encode())
PY
./anonymongo redact < lf.log > lf.out 2> lf.err;     rc_lf=$?
./anonymongo redact < crlf.log > crlf.out 2> crlf.err; rc_crlf=$?
echo "LF  : exit $rc_lf, $(wc -l < lf.out) output lines, $(stat -c %s lf.out) bytes"
echo "CRLF: exit $rc_crlf, $(wc -l < crlf.out) output lines, $(stat -c %s crlf.out) bytes; stderr: $(cat crlf.err)"
if [ "$rc_lf" -eq 0 ] && ! cmp -s lf.out crlf.out; then
  echo "VIOLATION: same lines, LF vs CRLF line ends, different output bytes / exit status"
  exit 1
fi
echo "no violation"
exit 0
