package main

import (
	"bytes"
	"errors"
	"strings"
	"testing"
)

// huntShortWriter behaves like a real file on a full disk: the failing write transfers
// part of the data and returns n < len(p) together with an error (io.Writer contract kept).
type huntShortWriter struct {
	buf    bytes.Buffer
	budget int
}

func (w *huntShortWriter) Write(p []byte) (int, error) {
	if len(p) <= w.budget {
		w.budget -= len(p)
		return w.buf.Write(p)
	}
	n := w.budget
	w.buf.Write(p[:n])
	w.budget = 0
	return n, errors.New("no space left on device")
}

func TestHuntTornLineOnShortWrite(t *testing.T) {
	line := `{"c":"COMMAND","msg":"Slow query","attr":{"ns":"db.c","command":{"find":"c","filter":{"name":"alice"}}}}`
	in := strings.Repeat(line+"\n", 8)
	var ref bytes.Buffer
	if err := ProcessMongoLogFileFromReader(strings.NewReader(in), &ref, nil); err != nil {
		t.Fatal(err)
	}
	w := &huntShortWriter{budget: ref.Len()/2 + 7} // the failing write lands inside a line
	err := ProcessMongoLogFileFromReader(strings.NewReader(in), w, nil)
	if err == nil {
		t.Fatalf("write failure not reported")
	}
	got := w.buf.String()
	if !strings.HasPrefix(ref.String(), got) {
		t.Fatalf("output is not a prefix of the fault-free output")
	}
	if got != "" && !strings.HasSuffix(got, "\n") {
		t.Fatalf("output written before the failure is not made of whole lines: it ends in the torn fragment %q", got[strings.LastIndex(got, "\n")+1:])
	}
}
