#!/usr/bin/env bash
# C08: a write that fails after a PARTIAL transfer (real ENOSPC / EFBIG behaviour) leaves a torn,
# half-written line at the end of the output. The run does report failure, but what was written is
# not "whole, correctly redacted lines".
# usage: repro.sh <worktree>   -> exits 1 when the violation shows
set -u
WT=${1:?worktree path}
export GOFLAGS=-mod=mod GOPROXY=off; unset GOWORK GOSUMDB GOTOOLCHAIN
TMP=$(mktemp -d); trap 'rm -rf "$TMP"' EXIT
(cd "$WT" && go build -o "$TMP/anonymongo" ./src) || { echo "build failed"; exit 2; }
L='{"t":{"$date":"2024-01-01T00:00:00.000Z"},"s":"I","c":"COMMAND","id":51803,"ctx":"conn1","msg":"Slow query","attr":{"type":"command","ns":"db.coll","command":{"find":"coll","filter":{"name":"alice"},"$db":"db"},"planSummary":"IXSCAN { name: 1 }"}}'
for i in 1 2 3 4 5 6 7 8; do echo "$L"; done > "$TMP/in.log"
"$TMP/anonymongo" redact < "$TMP/in.log" > "$TMP/ref.out" || { echo "reference run failed"; exit 2; }
# the output file may grow to 1024 bytes only: the write of line 5 (251 bytes each) is cut short by the kernel
( ulimit -f 1; "$TMP/anonymongo" redact -o "$TMP/torn.out" < "$TMP/in.log" >/dev/null 2>"$TMP/err" ); rc=$?
echo "exit status: $rc; stderr: $(cat "$TMP/err")"
size=$(stat -c %s "$TMP/torn.out")
echo "bytes in output file: $size (fault-free output: $(stat -c %s "$TMP/ref.out"))"
if [ "$rc" -eq 0 ]; then echo "run reported success?!"; exit 1; fi
if [ "$size" -eq 0 ]; then echo "nothing written - cannot judge"; exit 2; fi
last=$(tail -c 1 "$TMP/torn.out" | od -An -c | tr -d ' ')
echo "last line of the output file: $(tail -n 1 "$TMP/torn.out")"
if [ "$last" != '\n' ]; then
  echo "VIOLATION: output ends in a torn (partial) line, not in whole redacted lines"
  exit 1
fi
echo "no violation: output ends on a line boundary"
exit 0
