#!/bin/bash
# C15: user fields named if / then / else are never renamed (and no longer line up with the plan summary)
# sourced by repro.sh: builds the tool from the worktree given as $1 into a temp dir
export GOFLAGS=-mod=mod GOPROXY=off; unset GOWORK GOSUMDB GOTOOLCHAIN
WT="${1:?usage: repro.sh <worktree>}"
TMPD="$(mktemp -d)"
trap 'rm -rf "$TMPD"' EXIT
( cd "$WT" && go build -o "$TMPD/anonymongo" ./src ) || { echo "build failed"; exit 2; }
BIN="$TMPD/anonymongo"
LINE='{"t":{"$date":"2024-01-01T00:00:00.000Z"},"s":"I","c":"COMMAND","id":51803,"ctx":"conn1","msg":"Slow query","attr":{"type":"command","ns":"shop.orders","command":{"find":"orders","filter":{"then":"2024-05-01","status":"open","else":{"$gt":5}},"sort":{"then":-1},"$db":"shop"},"planSummary":"IXSCAN { then: 1, status: 1 }"}}'
OUT=$(printf '%s\n' "$LINE" | "$BIN" redact --redactFieldNames shop.orders)
echo "$OUT"
LINE2='{"t":{"$date":"2024-01-01T00:00:00.000Z"},"s":"I","c":"COMMAND","id":51803,"ctx":"conn1","msg":"Slow query","attr":{"type":"command","ns":"shop.orders","command":{"aggregate":"orders","pipeline":[{"$match":{"if":"x","status":"open"}},{"$sort":{"else":1}}],"$db":"shop"}}}'
OUT2=$(printf '%s\n' "$LINE2" | "$BIN" redact --redactFieldNames shop.orders)
echo "$OUT2"
rc=0
python3 - "$OUT" "$OUT2" <<'PY' || rc=1
import json,sys
d=json.loads(sys.argv[1]); c=d["attr"]["command"]
bad=[]
for k in c["filter"]:
    if k in ("then","else","status"): bad.append("filter key %r left in clear"%k)
for k in c["sort"]:
    if k=="then": bad.append("sort key 'then' left in clear")
ps=d["attr"]["planSummary"]
fk=list(c["filter"].keys())
if fk[0] not in ps: bad.append("plan summary %r no longer names the filter key %r"%(ps,fk[0]))
d2=json.loads(sys.argv[2]); p=d2["attr"]["command"]["pipeline"]
if "if" in p[0]["$match"]: bad.append("$match key 'if' left in clear")
if "else" in p[1]["$sort"]: bad.append("$sort key 'else' left in clear")
for b in bad: print("VIOLATION:",b)
sys.exit(1 if bad else 0)
PY
exit $rc
