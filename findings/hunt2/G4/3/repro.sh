#!/bin/bash
# C15: '$field' references whose field name equals an operator / stage name ($date, $type, $size, $count, $position ...) are not renamed
# sourced by repro.sh: builds the tool from the worktree given as $1 into a temp dir
export GOFLAGS=-mod=mod GOPROXY=off; unset GOWORK GOSUMDB GOTOOLCHAIN
WT="${1:?usage: repro.sh <worktree>}"
TMPD="$(mktemp -d)"
trap 'rm -rf "$TMPD"' EXIT
( cd "$WT" && go build -o "$TMPD/anonymongo" ./src ) || { echo "build failed"; exit 2; }
BIN="$TMPD/anonymongo"
LINE='{"t":{"$date":"2024-01-01T00:00:00.000Z"},"s":"I","c":"COMMAND","id":51803,"ctx":"conn1","msg":"Slow query","attr":{"type":"command","ns":"shop.orders","command":{"aggregate":"orders","pipeline":[{"$match":{"type":"x","date":{"$gt":5},"$expr":{"$gt":["$size","$other"]}}},{"$group":{"_id":"$type","latest":{"$max":"$date"},"n":{"$sum":"$size"}}},{"$unwind":"$position"},{"$sortByCount":"$count"}],"$db":"shop"},"planSummary":"IXSCAN { type: 1, date: -1 }"}}'
OUT=$(printf '%s\n' "$LINE" | "$BIN" redact --redactFieldNames shop.orders)
echo "$OUT"
LINE2='{"t":{"$date":"2024-01-01T00:00:00.000Z"},"s":"I","c":"COMMAND","id":51803,"ctx":"conn1","msg":"Slow query","attr":{"type":"command","ns":"shop.orders","command":{"find":"orders","filter":{"date":{"$gt":5},"$expr":{"$lt":["$date","$other"]}},"$db":"shop"}}}'
OUT2=$(printf '%s\n' "$LINE2" | "$BIN" redact --redactFieldNames shop.orders)
echo "$OUT2"
rc=0
for ref in '"$type"' '"$date"' '"$size"' '"$position"' '"$count"'; do
  if printf '%s' "$OUT" | grep -qF -- "$ref"; then echo "VIOLATION: reference $ref left in clear in the aggregate line (the key of the same field was renamed)"; rc=1; fi
done
if printf '%s' "$OUT2" | grep -qF -- '["$date",'; then echo 'VIOLATION: reference "$date" left in clear in the find filter ($expr) while the key date was renamed'; rc=1; fi
# control: an ordinary reference is renamed
printf '%s' "$OUT" | grep -qF '"$other"' && { echo "unexpected: \$other also in clear"; }
exit $rc
