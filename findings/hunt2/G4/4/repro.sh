#!/bin/bash
# C15: system variables ($$ROOT, $$NOW, $$REMOVE, $$KEEP ...) are rewritten as if they were user field names
# sourced by repro.sh: builds the tool from the worktree given as $1 into a temp dir
export GOFLAGS=-mod=mod GOPROXY=off; unset GOWORK GOSUMDB GOTOOLCHAIN
WT="${1:?usage: repro.sh <worktree>}"
TMPD="$(mktemp -d)"
trap 'rm -rf "$TMPD"' EXIT
( cd "$WT" && go build -o "$TMPD/anonymongo" ./src ) || { echo "build failed"; exit 2; }
BIN="$TMPD/anonymongo"
LINE='{"t":{"$date":"2024-01-01T00:00:00.000Z"},"s":"I","c":"COMMAND","id":51803,"ctx":"conn1","msg":"Slow query","attr":{"type":"command","ns":"shop.orders","command":{"aggregate":"orders","pipeline":[{"$match":{"$expr":{"$lt":["$due","$$NOW"]}}},{"$group":{"_id":"$cust","docs":{"$push":"$$ROOT"}}},{"$project":{"cust":1,"tmp":"$$REMOVE"}},{"$redact":{"$cond":[{"$eq":["$lvl",1]},"$$KEEP","$$PRUNE"]}}],"$db":"shop"}}}'
WITH=$(printf '%s\n' "$LINE" | "$BIN" redact --redactFieldNames shop.orders)
WITHOUT=$(printf '%s\n' "$LINE" | "$BIN" redact)
echo "without flag: $WITHOUT"
echo "with flag   : $WITH"
rc=0
for v in '$$NOW' '$$ROOT' '$$REMOVE' '$$KEEP' '$$PRUNE'; do
  if printf '%s' "$WITHOUT" | grep -qF -- "\"$v\"" && ! printf '%s' "$WITH" | grep -qF -- "\"$v\""; then
    echo "VIOLATION: system variable $v (not a user field, kept without the flag) was replaced by a field pseudonym"; rc=1
  fi
done
exit $rc
