#!/bin/bash
# C14: a literal whose key path has no matching name is redacted because a SIBLING array element is the string "$ssn"
# sourced by repro.sh: builds the tool from the worktree given as $1 into a temp dir
export GOFLAGS=-mod=mod GOPROXY=off; unset GOWORK GOSUMDB GOTOOLCHAIN
WT="${1:?usage: repro.sh <worktree>}"
TMPD="$(mktemp -d)"
trap 'rm -rf "$TMPD"' EXIT
( cd "$WT" && go build -o "$TMPD/anonymongo" ./src ) || { echo "build failed"; exit 2; }
BIN="$TMPD/anonymongo"
mk() { printf '{"t":{"$date":"2024-01-01T00:00:00.000Z"},"s":"I","c":"COMMAND","id":51803,"ctx":"conn1","msg":"Slow query","attr":{"type":"command","ns":"shop.orders","command":{"insert":"orders","documents":[{"note":["%s","hello"],"qty":["%s",{"unit":["%s","kg"]}]}],"$db":"shop"}}}\n' "$1" "$1" "$1"; }
A=$(mk '$ssn' | "$BIN" redact --redactFieldsRegexp '^ssn$')
B=$(mk '$foo' | "$BIN" redact --redactFieldsRegexp '^ssn$')
echo "sibling \"\$ssn\": $A"
echo "sibling \"\$foo\": $B"
rc=0
if ! printf '%s' "$A" | grep -q '"hello"'; then
  echo 'VIOLATION: literal "hello" under the non-matching name note was redacted; with the sibling value "$foo" it is kept - the choice depends on a value, not on the names of the path'
  rc=1
fi
exit $rc
