#!/bin/bash
# C12: '$cmd' gets two different pseudonyms inside one line (attr.ns vs getMore.collection)
# sourced by repro.sh: builds the tool from the worktree given as $1 into a temp dir
export GOFLAGS=-mod=mod GOPROXY=off; unset GOWORK GOSUMDB GOTOOLCHAIN
WT="${1:?usage: repro.sh <worktree>}"
TMPD="$(mktemp -d)"
trap 'rm -rf "$TMPD"' EXIT
( cd "$WT" && go build -o "$TMPD/anonymongo" ./src ) || { echo "build failed"; exit 2; }
BIN="$TMPD/anonymongo"
LINE='{"t":{"$date":"2024-01-01T00:00:00.000Z"},"s":"I","c":"COMMAND","id":51803,"ctx":"conn1","msg":"Slow query","attr":{"type":"command","ns":"shop.$cmd.aggregate","command":{"getMore":123456,"collection":"$cmd.aggregate","batchSize":100,"$db":"shop"},"originatingCommand":{"aggregate":1,"pipeline":[{"$currentOp":{"allUsers":true}},{"$match":{"a":"x"}}],"cursor":{},"$db":"shop"},"nreturned":5}}'
OUT=$(printf '%s\n' "$LINE" | "$BIN" redact --redactNamespaces)
echo "$OUT"
NS=$(printf '%s' "$OUT" | python3 -c 'import json,sys; d=json.load(sys.stdin); print(d["attr"]["ns"])')
COLL=$(printf '%s' "$OUT" | python3 -c 'import json,sys; d=json.load(sys.stdin); print(d["attr"]["command"]["collection"])')
DB=$(printf '%s' "$OUT" | python3 -c 'import json,sys; d=json.load(sys.stdin); print(d["attr"]["command"]["$db"])')
echo "attr.ns            = $NS"
echo "\$db + collection   = $DB.$COLL"
if [ "$NS" != "$DB.$COLL" ]; then
  echo "VIOLATION: attr.ns is not P(\$db).P(collection): the '\$cmd' component has two different pseudonyms in one line"
  exit 1
fi
exit 0
