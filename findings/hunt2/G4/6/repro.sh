#!/bin/bash
# C14: literals in the index bounds (min / max) of a find command are never redacted, also under a name that matches R
# sourced by repro.sh: builds the tool from the worktree given as $1 into a temp dir
export GOFLAGS=-mod=mod GOPROXY=off; unset GOWORK GOSUMDB GOTOOLCHAIN
WT="${1:?usage: repro.sh <worktree>}"
TMPD="$(mktemp -d)"
trap 'rm -rf "$TMPD"' EXIT
( cd "$WT" && go build -o "$TMPD/anonymongo" ./src ) || { echo "build failed"; exit 2; }
BIN="$TMPD/anonymongo"
LINE='{"t":{"$date":"2024-01-01T00:00:00.000Z"},"s":"I","c":"COMMAND","id":51803,"ctx":"conn1","msg":"Slow query","attr":{"type":"command","ns":"shop.patients","command":{"find":"patients","filter":{"ssn":{"$gte":"100-00-0000"}},"min":{"ssn":"100-00-0000"},"max":{"ssn":"199-99-9999"},"hint":{"ssn":1},"$db":"shop"},"planSummary":"IXSCAN { ssn: 1 }"}}'
OUT=$(printf '%s\n' "$LINE" | "$BIN" redact --redactFieldsRegexp '^ssn$')
echo "$OUT"
rc=0
if printf '%s' "$OUT" | grep -q '100-00-0000'; then echo 'VIOLATION: literal "100-00-0000" under the matching name ssn (command.min) is emitted in clear text'; rc=1; fi
if printf '%s' "$OUT" | grep -q '199-99-9999'; then echo 'VIOLATION: literal "199-99-9999" under the matching name ssn (command.max) is emitted in clear text'; rc=1; fi
exit $rc
