#!/bin/bash
# usage: run.sh '<json line>' flags...
line="$1"; shift
printf '%s\n' "$line" | /tmp/hunt2/G4.out/anonymongo redact "$@"
