package main

import (
	"math/rand"
	"regexp"
	"strings"
	"testing"
)

func TestHuntC12Fuzz(t *testing.T) {
	SetRedactedString("REDACTED")
	SetRedactNumbers(false)
	SetRedactBooleans(false)
	SetRedactIPs(false)
	SetShouldEncrypt(false)
	SetRedactedFieldsRegexp("")
	SetEagerRedactionPaths(nil)
	defer SetRedactNamespaces(false)
	names := []string{"dbQ", "collQ", "otherQ", "tgtQ"}
	fuzzRe = regexp.MustCompile("^ssn$")
	defer func() { fuzzRe = nil }()
	bad := 0
	for seed := 0; seed < 6000; seed++ {
		g := &gen{r: rand.New(rand.NewSource(int64(seed)))}
		_, cmd := g.command()
		cmd = strings.NewReplacer(`:"c"`, `:"collQ"`, `"$db":"d"`, `"$db":"dbQ"`, `"other"`, `"otherQ"`, `"tgt"`, `"tgtQ"`).Replace(cmd)
		where := []string{"command", "cmd", "originatingCommand", "commandArgs"}[g.r.Intn(4)]
		line := `{"t":{"$date":"2024-01-01T00:00:00.000Z"},"s":"I","c":"COMMAND","id":51803,"ctx":"conn1","msg":"Slow query","attr":{"type":"command","ns":"dbQ.collQ","` + where + `":` + cmd + `}}`
		SetRedactNamespaces(false)
		a, _ := RedactMongoLog(line)
		ao, _ := MarshalOrdered(a)
		SetRedactNamespaces(true)
		b, _ := RedactMongoLog(line)
		bo, _ := MarshalOrdered(b)
		bs := string(bo)
		for _, n := range names {
			bs = strings.ReplaceAll(bs, `"`+HashName(n)+`"`, `"`+n+`"`)
		}
		bs = strings.ReplaceAll(bs, `"`+HashName("dbQ.collQ")+`"`, `"dbQ.collQ"`)
		if bs != string(ao) {
			bad++
			if bad < 4 {
				t.Errorf("seed %d differs\nIN : %s\nA  : %s\nB  : %s", seed, line, ao, bs)
			}
		}
		for _, n := range []string{`otherQ`, `tgtQ`, `dbQ`, `collQ`} {
			if strings.Contains(string(bo), n) {
				bad++
				if bad < 4 {
					t.Errorf("seed %d name %s remains\nIN : %s\nB  : %s", seed, n, line, bo)
				}
			}
		}
	}
}
