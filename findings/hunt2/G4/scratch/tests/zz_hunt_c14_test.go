package main

import (
	"fmt"
	"math/rand"
	"regexp"
	"strings"
	"testing"
)

type lit struct {
	text   string
	redact bool
	ctx    string
}

type gen struct {
	refs []string
	r    *rand.Rand
	n    int
	lits []lit
}

var matchNames = []string{"ssn", "a.ssn", "ssn.b", "x.ssn.y"}
var plainNames = []string{"foo", "bar.baz", "ssnx", "xssn", "qq"}

var fuzzRe *regexp.Regexp

func nameMatches(nm string) bool {
	if fuzzRe.MatchString(nm) {
		return true
	}
	for _, c := range strings.Split(nm, ".") {
		if fuzzRe.MatchString(c) {
			return true
		}
	}
	return false
}

func (g *gen) name() (string, bool) {
	var nm string
	if g.r.Intn(3) == 0 {
		nm = matchNames[g.r.Intn(len(matchNames))]
	} else {
		nm = plainNames[g.r.Intn(len(plainNames))]
	}
	if fuzzRe == nil {
		return nm, false
	}
	return nm, nameMatches(nm)
}

func (g *gen) uniq() string {
	g.n++
	return fmt.Sprintf("%06d", g.n)
}

// literal returns a JSON literal text; m says whether the path contains a matching name
func (g *gen) literal(m bool, ctx string) string {
	id := g.uniq()
	var text, js string
	switch g.r.Intn(9) {
	case 0, 1, 2:
		text = "LIT" + id
		js = `"` + text + `"`
	case 3:
		text = "65a0000000000000aa" + id
		js = `{"$oid":"` + text + `"}`
	case 4:
		text = "2024-01-01T00:00:00." + id[3:] + "Z"
		js = `{"$date":"` + text + `"}`
	case 5:
		text = "QUJD" + id + "=="
		js = `{"$binary":{"base64":"` + text + `","subType":"00"}}`
	case 6:
		text = "9" + id + "1.5"
		js = `{"$numberDecimal":"` + text + `"}`
	case 7:
		text = "u" + id + "@example.com"
		js = `"` + text + `"`
	case 8:
		text = "PAT" + id
		js = `{"$regularExpression":{"pattern":"` + text + `","options":""}}`
	}
	g.lits = append(g.lits, lit{text, m, ctx})
	return js
}

func (g *gen) value(m bool, d int, ctx string) string {
	switch g.r.Intn(6) {
	case 0:
		if d > 0 {
			return g.doc(m, d-1, ctx)
		}
	case 1:
		if d > 0 {
			n := 1 + g.r.Intn(3)
			parts := make([]string, n)
			for i := range parts {
				parts[i] = g.value(m, d-1, ctx)
			}
			return "[" + strings.Join(parts, ",") + "]"
		}
	}
	return g.literal(m, ctx)
}

func (g *gen) doc(m bool, d int, ctx string) string {
	n := 1 + g.r.Intn(3)
	parts := []string{}
	used := map[string]bool{}
	for i := 0; i < n; i++ {
		nm, mm := g.name()
		if used[nm] {
			continue
		}
		used[nm] = true
		parts = append(parts, `"`+nm+`":`+g.value(m || mm, d, ctx))
	}
	return "{" + strings.Join(parts, ",") + "}"
}

func (g *gen) opExpr(m bool, d int, ctx string) string {
	// operator document applied to a field
	switch g.r.Intn(12) {
	case 0:
		return `{"$eq":` + g.value(m, d, ctx) + `}`
	case 1:
		return `{"$ne":` + g.literal(m, ctx) + `}`
	case 2:
		return `{"$gt":` + g.literal(m, ctx) + `,"$lte":` + g.literal(m, ctx) + `}`
	case 3:
		return `{"$in":[` + g.value(m, d, ctx) + `,` + g.literal(m, ctx) + `]}`
	case 4:
		return `{"$nin":[` + g.literal(m, ctx) + `]}`
	case 5:
		return `{"$all":[` + g.literal(m, ctx) + `,[` + g.literal(m, ctx) + `]]}`
	case 6:
		if d > 0 {
			return `{"$elemMatch":` + g.query(m, d-1, ctx) + `}`
		}
	case 7:
		if d > 0 {
			return `{"$elemMatch":` + g.opExpr(m, d-1, ctx) + `}`
		}
	case 8:
		if d > 0 {
			return `{"$not":` + g.opExpr(m, d-1, ctx) + `}`
		}
	case 9:
		return `{"$regex":` + g.strLit(m, ctx) + `,"$options":"i"}`
	case 10:
		return `{"$all":[{"$elemMatch":` + g.query(m, 0, ctx) + `}]}`
	}
	return `{"$gte":` + g.literal(m, ctx) + `}`
}

func (g *gen) strLit(m bool, ctx string) string {
	text := "STR" + g.uniq()
	g.lits = append(g.lits, lit{text, m, ctx})
	return `"` + text + `"`
}

func (g *gen) query(m bool, d int, ctx string) string {
	n := 1 + g.r.Intn(3)
	parts := []string{}
	used := map[string]bool{}
	for i := 0; i < n; i++ {
		k := g.r.Intn(10)
		switch {
		case k == 0 && d > 0 && !used["$and"]:
			used["$and"] = true
			parts = append(parts, `"$and":[`+g.query(m, d-1, ctx)+`,`+g.query(m, d-1, ctx)+`]`)
		case k == 1 && d > 0 && !used["$or"]:
			used["$or"] = true
			parts = append(parts, `"$or":[`+g.query(m, d-1, ctx)+`]`)
		case k == 2 && d > 0 && !used["$nor"]:
			used["$nor"] = true
			parts = append(parts, `"$nor":[`+g.query(m, d-1, ctx)+`]`)
		case k == 3 && d > 0 && !used["$expr"]:
			used["$expr"] = true
			parts = append(parts, `"$expr":`+g.aggExpr(m, d-1, ctx))
		default:
			nm, mm := g.name()
			if used[nm] {
				continue
			}
			used[nm] = true
			if g.r.Intn(2) == 0 {
				parts = append(parts, `"`+nm+`":`+g.value(m || mm, d, ctx))
			} else {
				parts = append(parts, `"`+nm+`":`+g.opExpr(m || mm, d, ctx))
			}
		}
	}
	if len(parts) == 0 {
		parts = append(parts, `"foo":`+g.literal(m, ctx))
	}
	return "{" + strings.Join(parts, ",") + "}"
}

// aggregation expression (no names on the path unless inside an object expression)
func (g *gen) aggExpr(m bool, d int, ctx string) string {
	if d <= 0 {
		if g.r.Intn(2) == 0 {
			return g.ref()
		}
		return g.strLit(m, ctx)
	}
	switch g.r.Intn(14) {
	case 0:
		return `{"$eq":[` + g.ref() + `,` + g.aggExpr(m, d-1, ctx) + `]}`
	case 1:
		return `{"$cond":{"if":` + g.aggExpr(m, d-1, ctx) + `,"then":` + g.aggExpr(m, d-1, ctx) + `,"else":` + g.aggExpr(m, d-1, ctx) + `}}`
	case 2:
		return `{"$cond":[` + g.aggExpr(m, d-1, ctx) + `,` + g.aggExpr(m, d-1, ctx) + `,` + g.aggExpr(m, d-1, ctx) + `]}`
	case 3:
		return `{"$concat":[` + g.ref() + `,` + g.strLit(m, ctx) + `,` + g.aggExpr(m, d-1, ctx) + `]}`
	case 4:
		return `{"$literal":` + g.value(m, d-1, ctx) + `}`
	case 5:
		return `{"$in":[` + g.aggExpr(m, d-1, ctx) + `,[` + g.strLit(m, ctx) + `,` + g.strLit(m, ctx) + `]]}`
	case 6:
		return `{"$let":{"vars":{"v1":` + g.aggExpr(m, d-1, ctx) + `},"in":` + g.aggExpr(m, d-1, ctx) + `}}`
	case 7:
		return `{"$map":{"input":` + g.ref() + `,"as":"it","in":` + g.aggExpr(m, d-1, ctx) + `}}`
	case 8:
		return `{"$filter":{"input":[` + g.strLit(m, ctx) + `],"as":"it","cond":` + g.aggExpr(m, d-1, ctx) + `}}`
	case 9:
		return `{"$switch":{"branches":[{"case":` + g.aggExpr(m, d-1, ctx) + `,"then":` + g.aggExpr(m, d-1, ctx) + `}],"default":` + g.aggExpr(m, d-1, ctx) + `}}`
	case 10:
		return `{"$ifNull":[` + g.ref() + `,` + g.aggExpr(m, d-1, ctx) + `]}`
	case 11:
		return `{"$dateToString":{"format":` + g.strLit(m, ctx) + `,"date":` + g.ref() + `}}`
	case 12:
		return `{"$mergeObjects":[` + g.exprDoc(m, d-1, ctx) + `,` + g.ref() + `]}`
	case 13:
		return `{"$toUpper":` + g.aggExpr(m, d-1, ctx) + `}`
	}
	return g.strLit(m, ctx)
}

// object whose keys are field names and whose values are expressions
func (g *gen) exprDoc(m bool, d int, ctx string) string {
	n := 1 + g.r.Intn(3)
	parts := []string{}
	used := map[string]bool{}
	for i := 0; i < n; i++ {
		nm, mm := g.name()
		if used[nm] {
			continue
		}
		used[nm] = true
		parts = append(parts, `"`+nm+`":`+g.aggExpr(m || mm, d, ctx))
	}
	return "{" + strings.Join(parts, ",") + "}"
}

func (g *gen) updateSpec(d int, ctx string) string {
	parts := []string{}
	used := map[string]bool{}
	n := 1 + g.r.Intn(3)
	ops := []string{"$set", "$setOnInsert", "$push", "$addToSet", "$pull", "$pullAll", "$min", "$push", "$pull"}
	for i := 0; i < n; i++ {
		nm, mm := g.name()
		k := g.r.Intn(9)
		op := ops[k]
		if used[op] {
			continue
		}
		used[op] = true
		var body string
		switch k {
		case 0:
			body = `{"` + nm + `":` + g.value(mm, d, ctx) + `}`
		case 1:
			body = `{"` + nm + `":` + g.value(mm, d, ctx) + `}`
		case 2:
			body = `{"` + nm + `":{"$each":[` + g.value(mm, d, ctx) + `,` + g.literal(mm, ctx) + `],"$position":0,"$sort":{"foo":1}}}`
		case 3:
			body = `{"` + nm + `":{"$each":[` + g.literal(mm, ctx) + `]}}`
		case 4:
			body = `{"` + nm + `":` + g.opExpr(mm, d, ctx) + `}`
		case 5:
			body = `{"` + nm + `":[` + g.literal(mm, ctx) + `,` + g.literal(mm, ctx) + `]}`
		case 6:
			body = `{"` + nm + `":` + g.literal(mm, ctx) + `}`
		case 7:
			body = `{"` + nm + `":` + g.value(mm, d, ctx) + `}`
		case 8:
			body = `{"` + nm + `":` + g.query(mm, d, ctx) + `}`
		}
		parts = append(parts, `"`+op+`":`+body)
	}
	return "{" + strings.Join(parts, ",") + "}"
}

func (g *gen) stage(d int, ctx string) string {
	switch g.r.Intn(22) {
	case 0:
		return `{"$match":` + g.query(false, d, ctx+"/$match") + `}`
	case 1:
		return `{"$addFields":` + g.exprDoc(false, d, ctx+"/$addFields") + `}`
	case 2:
		return `{"$set":` + g.exprDoc(false, d, ctx+"/$set") + `}`
	case 3:
		return `{"$project":` + g.exprDoc(false, d, ctx+"/$project") + `}`
	case 4:
		return `{"$group":{"_id":` + g.aggExpr(false, d, ctx+"/$group._id") + `,"foo":{"$push":` + g.exprDoc(nameMatches("foo"), d, ctx+"/$group.push") + `},"ssn":{"$max":` + g.aggExpr(nameMatches("ssn"), d, ctx+"/$group.max") + `}}}`
	case 5:
		return `{"$lookup":{"from":"other","let":` + g.exprDoc(false, d, ctx+"/$lookup.let") + `,"pipeline":[` + g.stage(d-1, ctx+"/$lookup.pipeline") + `],"as":"joined"}}`
	case 6:
		return `{"$facet":{"f1":[` + g.stage(d-1, ctx+"/$facet") + `],"f2":[` + g.stage(d-1, ctx+"/$facet") + `]}}`
	case 7:
		return `{"$bucket":{"groupBy":` + g.aggExpr(false, d, ctx+"/$bucket.groupBy") + `,"boundaries":[` + g.strLit(false, ctx+"/$bucket.boundaries") + `,` + g.strLit(false, ctx+"/$bucket.boundaries") + `],"default":` + g.strLit(false, ctx+"/$bucket.default") + `,"output":` + g.exprDoc(false, d, ctx+"/$bucket.output") + `}}`
	case 8:
		return `{"$replaceRoot":{"newRoot":` + g.exprDoc(false, d, ctx+"/$replaceRoot") + `}}`
	case 9:
		return `{"$replaceWith":` + g.exprDoc(false, d, ctx+"/$replaceWith") + `}`
	case 10:
		return `{"$redact":` + g.aggExpr(false, d, ctx+"/$redact") + `}`
	case 11:
		return `{"$geoNear":{"near":{"type":"Point","coordinates":[1,2]},"distanceField":"dist","query":` + g.query(false, d, ctx+"/$geoNear.query") + `}}`
	case 12:
		return `{"$graphLookup":{"from":"other","startWith":"$foo","connectFromField":"foo","connectToField":"qq","as":"chain","restrictSearchWithMatch":` + g.query(false, d, ctx+"/$graphLookup.restrict") + `}}`
	case 13:
		return `{"$unionWith":{"coll":"other","pipeline":[` + g.stage(d-1, ctx+"/$unionWith.pipeline") + `]}}`
	case 14:
		return `{"$sortByCount":` + g.aggExpr(false, d, ctx+"/$sortByCount") + `}`
	case 15:
		return `{"$documents":[` + g.doc(false, d, ctx+"/$documents") + `]}`
	case 16:
		return `{"$merge":{"into":"tgt","on":"_id","let":` + g.exprDoc(false, d, ctx+"/$merge.let") + `,"whenMatched":[{"$set":` + g.exprDoc(false, d, ctx+"/$merge.whenMatched") + `}]}}`
	case 17:
		return `{"$setWindowFields":{"partitionBy":` + g.aggExpr(false, d, ctx+"/$swf.partitionBy") + `,"sortBy":{"foo":1},"output":` + g.exprDoc(false, d, ctx+"/$swf.output") + `}}`
	case 18:
		return `{"$fill":{"sortBy":{"foo":1},"output":{"ssn":{"value":` + g.strLit(nameMatches("ssn"), ctx+"/$fill.output") + `},"foo":{"value":` + g.strLit(false, ctx+"/$fill.output") + `}}}}`
	case 19:
		return `{"$bucketAuto":{"groupBy":` + g.aggExpr(false, d, ctx+"/$bucketAuto.groupBy") + `,"buckets":4,"output":` + g.exprDoc(false, d, ctx+"/$bucketAuto.output") + `}}`
	case 20:
		return `{"$densify":{"field":"foo","partitionByFields":["qq"],"range":{"step":1,"unit":"hour","bounds":[` + g.literal(false, ctx+"/$densify.bounds") + `,` + g.literal(false, ctx+"/$densify.bounds") + `]}}}`
	case 21:
		return `{"$unwind":{"path":"$foo","includeArrayIndex":"idx"}}`
	}
	return `{"$limit":5}`
}

func (g *gen) command() (string, string) {
	d := 2
	switch g.r.Intn(9) {
	case 0:
		return "find", `{"find":"c","filter":` + g.query(false, d, "find.filter") + `,"sort":{"foo":1},"$db":"d"}`
	case 1:
		return "update", `{"update":"c","updates":[{"q":` + g.query(false, d, "update.q") + `,"u":` + g.updateSpec(d, "update.u") + `,"multi":false,"upsert":true,"arrayFilters":[` + g.query(false, 1, "update.arrayFilters") + `]}],"$db":"d"}`
	case 2:
		return "update-repl", `{"update":"c","updates":[{"q":` + g.query(false, d, "update.q") + `,"u":` + g.doc(false, d, "update.urepl") + `}],"$db":"d"}`
	case 3:
		return "update-pipe", `{"update":"c","updates":[{"q":` + g.query(false, d, "update.q") + `,"u":[{"$set":` + g.exprDoc(false, d, "update.upipe.$set") + `},{"$replaceWith":` + g.exprDoc(false, d, "update.upipe.$replaceWith") + `}]}],"$db":"d"}`
	case 4:
		return "delete", `{"delete":"c","deletes":[{"q":` + g.query(false, d, "delete.q") + `,"limit":1}],"$db":"d"}`
	case 5:
		return "insert", `{"insert":"c","documents":[` + g.doc(false, d, "insert.documents") + `,` + g.doc(false, d, "insert.documents") + `],"$db":"d"}`
	case 6:
		n := 1 + g.r.Intn(3)
		st := make([]string, n)
		for i := range st {
			st[i] = g.stage(d, "aggregate")
		}
		return "aggregate", `{"aggregate":"c","pipeline":[` + strings.Join(st, ",") + `],"$db":"d"}`
	case 7:
		return "findAndModify", `{"findAndModify":"c","query":` + g.query(false, d, "fam.query") + `,"update":` + g.updateSpec(d, "fam.update") + `,"arrayFilters":[` + g.query(false, 1, "fam.arrayFilters") + `],"$db":"d"}`
	case 8:
		return "count", `{"count":"c","query":` + g.query(false, d, "count.query") + `,"$db":"d"}`
	}
	return "", ""
}

func TestHuntC14Fuzz(t *testing.T) {
	SetRedactedString("REDACTED")
	SetRedactNumbers(false)
	SetRedactBooleans(false)
	SetRedactIPs(false)
	SetEagerRedactionPaths(nil)
	SetRedactNamespaces(false)
	SetShouldEncrypt(false)
	res := []string{`^(ssn)$`, `(?i)SSN`, `ssn$`, `^ssn`, `^(bar|qq)$`, `z$`}
	seen := map[string]int{}
	defer SetRedactedFieldsRegexp("")
	defer func() { fuzzRe = nil }()
	for seed := 0; seed < 12000; seed++ {
		SetRedactedFieldsRegexp(res[seed%len(res)])
		fuzzRe = regexp.MustCompile(res[seed%len(res)])
		g := &gen{r: rand.New(rand.NewSource(int64(seed)))}
		kind, cmd := g.command()
		where := []string{"command", "cmd", "originatingCommand"}[g.r.Intn(3)]
		line := `{"t":{"$date":"2024-01-01T00:00:00.000Z"},"s":"I","c":"COMMAND","id":51803,"ctx":"conn1","msg":"Slow query","attr":{"type":"command","ns":"d.c","` + where + `":` + cmd + `}}`
		res, err := RedactMongoLog(line)
		if err != nil {
			t.Fatalf("seed %d: %v\n%s", seed, err, line)
		}
		outB, err := MarshalOrdered(res)
		if err != nil {
			t.Fatal(err)
		}
		out := string(outB)
		for _, l := range g.lits {
			present := strings.Contains(out, l.text)
			if l.redact && present {
				key := "LEAK " + kind + " " + l.ctx
				seen[key]++
				if seen[key] <= 1 {
					t.Errorf("seed %d %s: literal %s should be redacted\nIN : %s\nOUT: %s", seed, key, l.text, line, out)
				}
			}
			if !l.redact && !present {
				key := "OVER " + kind + " " + l.ctx
				seen[key]++
				if seen[key] <= 1 {
					t.Errorf("seed %d %s: literal %s should be kept\nIN : %s\nOUT: %s", seed, key, l.text, line, out)
				}
			}
		}
	}
	for k, v := range seen {
		t.Logf("%s: %d", k, v)
	}
}

func (g *gen) ref() string {
	if len(g.refs) == 0 {
		return `"$foo"`
	}
	return `"$` + g.refs[g.r.Intn(len(g.refs))] + `"`
}
