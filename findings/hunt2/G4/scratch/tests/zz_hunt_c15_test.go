package main

import (
	"fmt"
	"math/rand"
	"regexp"
	"strings"
	"testing"

	"github.com/elliotchance/orderedmap/v3"
)

var pseudoRe = regexp.MustCompile(`^REDACTED_[0-9a-f]{16}(\\.REDACTED_[0-9a-f]{16})*$`)

var planted = []string{"fA1", "ix", "SCAN", "IXSCAN", "deadbeef", "a", "ab", "abc", "k9", "n", "X", "IX", "c0ffee", "zebra_stripes_long_nm", "foo", "ssn", "qq"}

func isPlanted(name string) bool {
	name = strings.TrimLeft(name, "$")
	if name == "" {
		return false
	}
	for _, c := range strings.Split(name, ".") {
		ok := false
		for _, p := range planted {
			if p == c {
				ok = true
			}
		}
		if !ok {
			return false
		}
	}
	return true
}

type c15rep struct {
	t    *testing.T
	seen map[string]int
	seed int
	in   string
	out  string
}

func (r *c15rep) report(kind string, path []string, msg string) {
	// generalise the path: drop planted names and indexes
	gp := []string{}
	for _, p := range path {
		if isPlanted(p) || strings.HasPrefix(p, "[") {
			continue
		}
		gp = append(gp, p)
	}
	key := kind + " @ " + strings.Join(gp, "/")
	r.seen[key]++
	if r.seen[key] == 1 {
		r.t.Errorf("seed %d: %s: %s (path %v)\nIN : %s\nOUT: %s", r.seed, key, msg, path, r.in, r.out)
	}
}

func (r *c15rep) walk(a, b any, path []string) {
	switch av := a.(type) {
	case *orderedmap.OrderedMap[string, any]:
		bv, ok := b.(*orderedmap.OrderedMap[string, any])
		if !ok {
			r.report("TYPE", path, fmt.Sprintf("%T vs %T", a, b))
			return
		}
		if av.Len() != bv.Len() {
			r.report("SIBLINGS", path, fmt.Sprintf("%d keys vs %d keys", av.Len(), bv.Len()))
			return
		}
		ea, eb := av.Front(), bv.Front()
		for ea != nil {
			ka, kb := ea.Key, eb.Key
			if kb != ka && kb != HashName(ka) {
				r.report("KEYORDER", path, fmt.Sprintf("key %q became %q", ka, kb))
			} else if kb == ka && isPlanted(ka) && !strings.HasPrefix(ka, "$") {
				r.report("KEYREMAINS", append(path, ka), fmt.Sprintf("key %q not renamed", ka))
			}
			r.walk(ea.Value, eb.Value, append(path, ka))
			ea, eb = ea.Next(), eb.Next()
		}
	case []any:
		bv, ok := b.([]any)
		if !ok || len(av) != len(bv) {
			r.report("ARRAY", path, fmt.Sprintf("%v vs %v", a, b))
			return
		}
		for i := range av {
			r.walk(av[i], bv[i], append(path, fmt.Sprintf("[%d]", i)))
		}
	default:
		as, aok := a.(string)
		if aok && strings.HasPrefix(as, "$") {
			bs, _ := b.(string)
			if bs == HashName(as) {
				return
			}
			if bs == as && isPlanted(as) {
				r.report("REFREMAINS", path, fmt.Sprintf("reference %q not renamed", as))
				return
			}
		}
		if bs, ok := b.(string); ok && aok && pseudoRe.MatchString(bs) {
			return // field-name position or reference redacted without the flag: noise
		}
		if fmt.Sprint(a) != fmt.Sprint(b) {
			r.report("VALUE", path, fmt.Sprintf("%v vs %v", a, b))
		}
	}
}

func TestHuntC15Fuzz(t *testing.T) {
	SetRedactedString("REDACTED")
	SetRedactNumbers(false)
	SetRedactBooleans(false)
	SetRedactIPs(false)
	SetRedactNamespaces(false)
	SetShouldEncrypt(false)
	SetRedactedFieldsRegexp("")
	oldM, oldP := matchNames, plainNames
	defer func() { matchNames, plainNames = oldM, oldP; SetEagerRedactionPaths(nil) }()
	matchNames = []string{"fA1", "ix", "SCAN", "IXSCAN", "deadbeef", "a", "ab.abc", "k9.n"}
	plainNames = []string{"ab", "abc", "X", "IX", "c0ffee", "zebra_stripes_long_nm", "a.ab", "n"}
	rep := &c15rep{t: t, seen: map[string]int{}}
	for seed := 0; seed < 6000; seed++ {
		g := &gen{r: rand.New(rand.NewSource(int64(seed))), refs: []string{"fA1", "ix", "SCAN", "a.ab", "deadbeef", "X", "n"}}
		_, cmd := g.command()
		where := []string{"command", "cmd", "originatingCommand"}[g.r.Intn(3)]
		ps := fmt.Sprintf("IXSCAN { %s: 1, %s: -1 }", planted[g.r.Intn(len(planted))], planted[g.r.Intn(len(planted))])
		line := `{"t":{"$date":"2024-01-01T00:00:00.000Z"},"s":"I","c":"COMMAND","id":51803,"ctx":"conn1","msg":"Slow query","attr":{"type":"command","ns":"d.c","` + where + `":` + cmd + `,"planSummary":"` + ps + `"}}`
		SetEagerRedactionPaths(nil)
		resA, err := RedactMongoLog(line)
		if err != nil {
			t.Fatalf("seed %d: %v\n%s", seed, err, line)
		}
		SetEagerRedactionPaths([]string{"d.c"})
		resB, err := RedactMongoLog(line)
		if err != nil {
			t.Fatal(err)
		}
		outB, _ := MarshalOrdered(resB)
		rep.seed, rep.in, rep.out = seed, line, string(outB)
		attrA, _ := resA.Get("attr")
		attrB, _ := resB.Get("attr")
		ca, _ := attrA.(*orderedmap.OrderedMap[string, any]).Get(where)
		cb, _ := attrB.(*orderedmap.OrderedMap[string, any]).Get(where)
		rep.walk(ca, cb, []string{})
		// other namespace: identical
		SetEagerRedactionPaths([]string{"d.other"})
		resC, _ := RedactMongoLog(line)
		oa, _ := MarshalOrdered(resA)
		oc, _ := MarshalOrdered(resC)
		if string(oa) != string(oc) {
			rep.report("OTHERNS", nil, "differs")
		}
	}
	for k, v := range rep.seen {
		t.Logf("%s: %d", k, v)
	}
}
