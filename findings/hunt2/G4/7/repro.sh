#!/bin/bash
# C12: the operation's database / collection names survive --redactNamespaces in attr members other than ns and the command copies:
#   (a) attr.db of the error report "Assertion while executing command" (the line whose command copy is attr.commandArgs)
#   (b) attr.resolvedViews (viewNamespace / dependencyChain) of a slow query on a view
# sourced by repro.sh: builds the tool from the worktree given as $1 into a temp dir
export GOFLAGS=-mod=mod GOPROXY=off; unset GOWORK GOSUMDB GOTOOLCHAIN
WT="${1:?usage: repro.sh <worktree>}"
TMPD="$(mktemp -d)"
trap 'rm -rf "$TMPD"' EXIT
( cd "$WT" && go build -o "$TMPD/anonymongo" ./src ) || { echo "build failed"; exit 2; }
BIN="$TMPD/anonymongo"
A='{"t":{"$date":"2024-01-01T00:00:00.000Z"},"s":"W","c":"COMMAND","id":21962,"ctx":"conn1","msg":"Assertion while executing command","attr":{"command":"find","db":"shopdb","commandArgs":{"find":"orders","filter":{"a":"x"},"$db":"shopdb"},"error":"BadValue: unknown operator"}}'
B='{"t":{"$date":"2024-01-01T00:00:00.000Z"},"s":"I","c":"COMMAND","id":51803,"ctx":"conn1","msg":"Slow query","attr":{"type":"command","ns":"shopdb.vOpenOrders","command":{"find":"vOpenOrders","filter":{"a":"x"},"$db":"shopdb"},"resolvedViews":[{"viewNamespace":"shopdb.vOpenOrders","dependencyChain":["vOpenOrders","orders"],"resolvedPipeline":[{"$match":{"status":"open"}}]}],"planSummary":"COLLSCAN"}}'
OA=$(printf '%s\n' "$A" | "$BIN" redact --redactNamespaces)
OB=$(printf '%s\n' "$B" | "$BIN" redact --redactNamespaces)
echo "$OA"; echo "$OB"
rc=0
if printf '%s' "$OA" | grep -q 'shopdb'; then echo 'VIOLATION (a): database name "shopdb" still present in attr.db of the error-report line (its $db copy in commandArgs was pseudonymised)'; rc=1; fi
if printf '%s' "$OB" | grep -q 'shopdb\|vOpenOrders\|"orders"'; then echo 'VIOLATION (b): database / view / collection names still present in attr.resolvedViews'; rc=1; fi
exit $rc
