#!/usr/bin/env bash
# CLI variant of repro_test.go: a gzip stream cut at byte offset k. usage: repro.sh <worktree>; exits 1 when the violation shows
set -u
WT=${1:?worktree path}
export GOFLAGS=-mod=mod GOPROXY=off; unset GOWORK GOSUMDB GOTOOLCHAIN
T=$(mktemp -d); trap 'rm -rf "$T"' EXIT
(cd "$WT" && go build -o "$T/anonymongo" ./src) || exit 2
python3 - "$T" <<'PY'
import zlib, sys
T = sys.argv[1]
part1 = b'{"ok":1}\n{"a":"secret"}'
part2 = b'{"b":2}\n{"ok":2}\n'
c = zlib.compressobj(6, zlib.DEFLATED, 31)
head = c.compress(part1) + c.flush(zlib.Z_FULL_FLUSH)
full = head + c.compress(part2) + c.flush()
open(T + '/full.log.gz', 'wb').write(full)
open(T + '/cut.log.gz', 'wb').write(full[:len(head)])   # stream cut at offset k = len(head)
print("gzip length", len(full), "cut at", len(head))
PY
script -qc "'$T/anonymongo' redact '$T/full.log.gz' > '$T/full.out' 2>/dev/null; echo \$? > '$T/rc_full'; '$T/anonymongo' redact '$T/cut.log.gz' > '$T/cut.out' 2>'$T/cut.err'; echo \$? > '$T/rc_cut'" /dev/null >/dev/null
tr -d '\r' < "$T/full.out" > "$T/full.txt"; tr -d '\r' < "$T/cut.out" > "$T/cut.txt"
echo "fault-free (rc=$(tr -d '\r\n' < "$T/rc_full")):"; sed 's/^/  /' "$T/full.txt"
echo "cut stream (rc=$(tr -d '\r\n' < "$T/rc_cut"), $(tr -d '\r' < "$T/cut.err")):"; sed 's/^/  /' "$T/cut.txt"
N=$(wc -c < "$T/cut.txt")
if ! cmp -s <(head -c "$N" "$T/full.txt") "$T/cut.txt"; then
  echo "VIOLATION: output written before the failure is not a prefix of the fault-free output (an unterminated line fragment was emitted as a line)"
  exit 1
fi
exit 0
