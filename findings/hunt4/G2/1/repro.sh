#!/usr/bin/env bash
# usage: repro.sh <worktree>; exits non-zero when the violation is present
set -u
WT="${1:?worktree path}"
export GOFLAGS=-mod=mod GOPROXY=off; unset GOWORK GOSUMDB GOTOOLCHAIN
TMP="$(mktemp -d)"; trap 'rm -rf "$TMP"' EXIT
(cd "$WT" && go build -o "$TMP/anonymongo" ./src) || { echo "build failed"; exit 2; }
BIN="$TMP/anonymongo"
LINE='{"t":{"$date":"2020-01-01T00:00:00.000Z"},"s":"I","c":"COMMAND","id":51803,"ctx":"conn1","msg":"Slow query","attr":{"ns":"db.c","command":{"find":"c","filter":{"a":"secret"},"$db":"db"}}}'
printf '%s\n%s\n%s\n' "$LINE" "$LINE" "$LINE" > "$TMP/in.log"

# reference: the same input path (a pipe named by path), output on stdout
"$BIN" redact <(cat "$TMP/in.log") </dev/null > "$TMP/ref.out" 2>"$TMP/ref.err"; rc_ref=$?
# same input, output to --outputFile
"$BIN" redact <(cat "$TMP/in.log") -o "$TMP/file.out" </dev/null >/dev/null 2>"$TMP/file.err"; rc_file=$?

echo "stdout channel : rc=$rc_ref lines=$(wc -l < "$TMP/ref.out")"
echo "--outputFile   : rc=$rc_file lines=$(wc -l < "$TMP/file.out")"
if [ "$rc_ref" -eq 0 ] && [ "$(wc -l < "$TMP/ref.out")" -eq 3 ] && [ "$rc_file" -eq 0 ] && ! cmp -s "$TMP/ref.out" "$TMP/file.out"; then
  echo "VIOLATION: --outputFile run reported success (exit 0) but wrote $(wc -l < "$TMP/file.out") of 3 lines; stdout run wrote all 3"
  exit 1
fi
echo "no violation"
exit 0
