#!/bin/bash
# exits non-zero when the violation is present
set -u
WT="${1:?usage: repro.sh <worktree>}"
export GOFLAGS=-mod=mod GOPROXY=off; unset GOWORK GOSUMDB GOTOOLCHAIN
TMP=$(mktemp -d); trap 'rm -rf "$TMP"' EXIT
(cd "$WT" && go build -o "$TMP/anonymongo" ./src) || { echo "build failed"; exit 2; }
cat > "$TMP/in.log" <<'LINE'
{"t":{"$date":"2024-05-01T10:00:00.000+00:00"},"s":"I","c":"COMMAND","id":51803,"ctx":"conn12","msg":"Slow query","attr":{"type":"command","ns":"shop.events","command":{"insert":"events","documents":[{"_id":1,"name":"ok-redacted","$limit":"secret-in-dollar-field","$skip":555001234,"payload":{"$count":"secret-in-dollar-field"}}],"ordered":true,"$db":"shop"},"durationMillis":120}}
{"t":{"$date":"2024-05-01T10:00:01.000+00:00"},"s":"I","c":"COMMAND","id":51803,"ctx":"conn12","msg":"Slow query","attr":{"type":"command","ns":"shop.events","command":{"aggregate":"events","pipeline":[{"$project":{"tag":{"$literal":{"$limit":"secret-in-literal","$unset":"secret-in-literal"}}}}],"cursor":{},"$db":"shop"},"durationMillis":120}}
LINE
OUT=$("$TMP/anonymongo" redact --redactNumbers < "$TMP/in.log")
echo "$OUT"
if echo "$OUT" | grep -E -q 'secret-in-dollar-field|secret-in-literal|555001234'; then
  echo "VIOLATION: client literal survived redaction: $(echo "$OUT" | grep -E -o 'secret-in-dollar-field|secret-in-literal|555001234' | sort -u | tr '\n' ' ')"
  exit 1
fi
[ -n "$OUT" ] || { echo "no output"; exit 2; }
echo "no violation"
exit 0
