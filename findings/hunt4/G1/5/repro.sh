#!/bin/bash
# exits non-zero when the violation is present
set -u
WT="${1:?usage: repro.sh <worktree>}"
export GOFLAGS=-mod=mod GOPROXY=off; unset GOWORK GOSUMDB GOTOOLCHAIN
TMP=$(mktemp -d); trap 'rm -rf "$TMP"' EXIT
(cd "$WT" && go build -o "$TMP/anonymongo" ./src) || { echo "build failed"; exit 2; }
cat > "$TMP/in.log" <<'LINE'
{"t":{"$date":"2024-05-01T10:00:00.000+00:00"},"s":"I","c":"COMMAND","id":51803,"ctx":"conn12","msg":"Slow query","attr":{"type":"command","ns":"admin.$cmd.aggregate","command":{"aggregate":1,"pipeline":[{"$queryStats":{"transformIdentifiers":{"algorithm":"hmac-sha-256","hmacKey":{"$binary":{"base64":"c2VjcmV0LWhtYWMta2V5LXNlY3JldC1obWFjLWtleS0wMDE=","subType":"08"}}}}},{"$match":{"key.queryShape.cmdNs.coll":"this-one-is-redacted"}}],"cursor":{},"$db":"admin"},"durationMillis":120}}
LINE
OUT=$("$TMP/anonymongo" redact  < "$TMP/in.log")
echo "$OUT"
if echo "$OUT" | grep -E -q 'c2VjcmV0LWhtYWMta2V5LXNlY3JldC1obWFjLWtleS0wMDE'; then
  echo "VIOLATION: client literal survived redaction: $(echo "$OUT" | grep -E -o 'c2VjcmV0LWhtYWMta2V5LXNlY3JldC1obWFjLWtleS0wMDE' | sort -u | tr '\n' ' ')"
  exit 1
fi
[ -n "$OUT" ] || { echo "no output"; exit 2; }
echo "no violation"
exit 0
