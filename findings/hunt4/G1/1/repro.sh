#!/bin/bash
# exits non-zero when the violation is present
set -u
WT="${1:?usage: repro.sh <worktree>}"
export GOFLAGS=-mod=mod GOPROXY=off; unset GOWORK GOSUMDB GOTOOLCHAIN
TMP=$(mktemp -d); trap 'rm -rf "$TMP"' EXIT
(cd "$WT" && go build -o "$TMP/anonymongo" ./src) || { echo "build failed"; exit 2; }
cat > "$TMP/in.log" <<'LINE'
{"t":{"$date":"2024-05-01T10:00:00.000+00:00"},"s":"I","c":"COMMAND","id":51803,"ctx":"conn12","msg":"Slow query","attr":{"type":"command","ns":"shop.customers","command":{"aggregate":"customers","pipeline":[{"$search":{"index":"default","compound":{"must":{"text":{"query":"jane-doe-secret","path":"name"}},"should":{"phrase":{"query":"acme-confidential","path":"employer"}},"mustNot":{"equals":{"path":"status","value":"top-secret-term"}},"filter":{"text":{"query":"this-one-is-redacted","path":"notes"}}}}}],"cursor":{},"$db":"shop"},"durationMillis":120}}
LINE
OUT=$("$TMP/anonymongo" redact --redactNumbers --redactBooleans < "$TMP/in.log")
echo "$OUT"
if echo "$OUT" | grep -E -q 'jane-doe-secret|acme-confidential|top-secret-term'; then
  echo "VIOLATION: client literal survived redaction: $(echo "$OUT" | grep -E -o 'jane-doe-secret|acme-confidential|top-secret-term' | sort -u | tr '\n' ' ')"
  exit 1
fi
[ -n "$OUT" ] || { echo "no output"; exit 2; }
echo "no violation"
exit 0
