#!/bin/sh
# C14: a literal string that starts with '$' is never redacted in selective mode,
# even under a matching field name (the choice depends on the value).
W="$1"; [ -n "$W" ] || { echo "usage: $0 <worktree>"; exit 2; }
export GOFLAGS=-mod=mod GOPROXY=off; unset GOWORK GOSUMDB GOTOOLCHAIN
T=$(mktemp -d); trap 'rm -rf "$T"' EXIT
(cd "$W" && go build -o "$T/anonymongo" ./src) || exit 2
cat > "$T/in.log" <<'LOG'
{"t":{"$date":"2024-01-01T00:00:00.000Z"},"s":"I","c":"COMMAND","id":51803,"ctx":"conn1","msg":"Slow query","attr":{"type":"command","ns":"shop.orders","command":{"find":"orders","filter":{"ssn":"$ecret-123","name":"bob"},"$db":"shop"}}}
{"t":{"$date":"2024-01-01T00:00:00.000Z"},"s":"I","c":"COMMAND","id":51803,"ctx":"conn1","msg":"Slow query","attr":{"type":"command","ns":"shop.orders","command":{"find":"orders","filter":{"ssn":"Secret-123","name":"bob"},"$db":"shop"}}}
{"t":{"$date":"2024-01-01T00:00:00.000Z"},"s":"I","c":"COMMAND","id":51803,"ctx":"conn1","msg":"Slow query","attr":{"type":"command","ns":"shop.orders","command":{"insert":"orders","documents":[{"ssn":"$9.99 paid","name":"bob"}],"$db":"shop"}}}
{"t":{"$date":"2024-01-01T00:00:00.000Z"},"s":"I","c":"COMMAND","id":51803,"ctx":"conn1","msg":"Slow query","attr":{"type":"command","ns":"shop.orders","command":{"update":"orders","updates":[{"q":{"ssn":{"$in":["$x1-planted","x2"]}},"u":{"$set":{"ssn":"$tr0ng-planted"}}}],"$db":"shop"}}}
{"t":{"$date":"2024-01-01T00:00:00.000Z"},"s":"I","c":"COMMAND","id":51803,"ctx":"conn1","msg":"Slow query","attr":{"type":"command","ns":"shop.orders","command":{"find":"orders","filter":{"tags":{"$in":["$ssn","vip-planted"]}},"$db":"shop"}}}
LOG
"$T/anonymongo" redact --redactFieldsRegexp '^ssn$' < "$T/in.log" > "$T/out.log" || exit 2
bad=0
# control: the same query with a value that does not start with '$' is redacted
grep -q 'Secret-123' "$T/out.log" && { echo "control failed: plain value under ssn kept"; exit 2; }
for v in '$ecret-123' '$9.99 paid' '$x1-planted' '$tr0ng-planted'; do
  if grep -qF "$v" "$T/out.log"; then echo "VIOLATION: literal '$v' under field ssn (matches R) emitted unchanged"; bad=1; fi
done
# the reverse: a literal under a non-matching name (tags) is redacted because a sibling literal looks like '$ssn'
if ! grep -qF 'vip-planted' "$T/out.log"; then echo "VIOLATION: literal 'vip-planted' under non-matching field tags was redacted (sibling value '\$ssn')"; bad=1; fi
cat "$T/out.log" | sed 's/.*"command"://'
exit $bad
