#!/bin/sh
# C13: with a replacement string that contains '.', pseudonymised dotted paths / namespaces
# do not keep their depth: every component contributes extra separators.
W="$1"; [ -n "$W" ] || { echo "usage: $0 <worktree>"; exit 2; }
export GOFLAGS=-mod=mod GOPROXY=off; unset GOWORK GOSUMDB GOTOOLCHAIN
T=$(mktemp -d); trap 'rm -rf "$T"' EXIT
(cd "$W" && go build -o "$T/anonymongo" ./src) || exit 2
cat > "$T/in.log" <<'LOG'
{"t":{"$date":"2024-01-01T00:00:00.000Z"},"s":"I","c":"COMMAND","id":51803,"ctx":"conn1","msg":"Slow query","attr":{"type":"command","ns":"shop.orders","command":{"find":"orders","filter":{"address.city":"Gdansk"},"$db":"shop"},"planSummary":"IXSCAN { address.city: 1 }","durationMillis":120}}
LOG
bad=0
for R in 'REDACTED' 'acme.corp' 'v1.2'; do
  "$T/anonymongo" redact -r "$R" --redactNamespaces --redactFieldNames shop.orders < "$T/in.log" > "$T/out.log" || exit 2
  ns=$(sed 's/.*"ns":"\([^"]*\)".*/\1/' "$T/out.log")
  key=$(sed 's/.*"filter":{"\([^"]*\)".*/\1/' "$T/out.log")
  dn=$(printf '%s' "$ns" | tr -cd '.' | wc -c); dk=$(printf '%s' "$key" | tr -cd '.' | wc -c)
  echo "replacement '$R': ns -> $ns ; filter key -> $key"
  if [ "$dn" -ne 1 ]; then echo "VIOLATION: namespace 'shop.orders' (2 components) became a path with $((dn+1)) components"; bad=1; fi
  if [ "$dk" -ne 1 ]; then echo "VIOLATION: field path 'address.city' (2 components) became a path with $((dk+1)) components"; bad=1; fi
done
exit $bad
