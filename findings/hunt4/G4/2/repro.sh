#!/bin/sh
# C15: the output-field names of a $facet stage are not renamed under --redactFieldNames,
# so a field name that is pseudonymised in $match / $sort / '$field' references stays in the line.
W="$1"; [ -n "$W" ] || { echo "usage: $0 <worktree>"; exit 2; }
export GOFLAGS=-mod=mod GOPROXY=off; unset GOWORK GOSUMDB GOTOOLCHAIN
T=$(mktemp -d); trap 'rm -rf "$T"' EXIT
(cd "$W" && go build -o "$T/anonymongo" ./src) || exit 2
cat > "$T/in.log" <<'LOG'
{"t":{"$date":"2024-01-01T00:00:00.000Z"},"s":"I","c":"COMMAND","id":51803,"ctx":"conn1","msg":"Slow query","attr":{"type":"command","ns":"shop.orders","command":{"aggregate":"orders","pipeline":[{"$match":{"patientDiagnosis":"flu"}},{"$facet":{"patientDiagnosis":[{"$sortByCount":"$patientDiagnosis"}],"insuranceTier":[{"$match":{"insuranceTier":{"$gt":2}}},{"$count":"n"}]}},{"$match":{"patientDiagnosis":{"$ne":[]}}},{"$sort":{"insuranceTier":1}},{"$project":{"top":{"$arrayElemAt":["$patientDiagnosis",0]}}}],"cursor":{},"$db":"shop"},"planSummary":"IXSCAN { patientDiagnosis: 1 }","durationMillis":120}}
LOG
"$T/anonymongo" redact --redactFieldNames shop.orders < "$T/in.log" > "$T/out.log" || exit 2
cat "$T/out.log"
bad=0
# control: the names are renamed in $match, $sort, references and the plan summary
n=$(grep -o 'REDACTED_[0-9a-f]\{16\}' "$T/out.log" | sort -u | wc -l)
[ "$n" -ge 2 ] || { echo "control failed: no pseudonyms in the output"; exit 2; }
for name in patientDiagnosis insuranceTier; do
  if grep -q "$name" "$T/out.log"; then echo "VIOLATION: field name '$name' remains in the emitted line"; bad=1; fi
done
exit $bad
