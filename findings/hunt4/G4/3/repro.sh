#!/bin/sh
# C15: an index-key name that contains a space is only partly rewritten in planSummary:
# the words before the last one stay in clear and the pseudonym differs from the filter's.
W="$1"; [ -n "$W" ] || { echo "usage: $0 <worktree>"; exit 2; }
export GOFLAGS=-mod=mod GOPROXY=off; unset GOWORK GOSUMDB GOTOOLCHAIN
T=$(mktemp -d); trap 'rm -rf "$T"' EXIT
(cd "$W" && go build -o "$T/anonymongo" ./src) || exit 2
cat > "$T/in.log" <<'LOG'
{"t":{"$date":"2024-01-01T00:00:00.000Z"},"s":"I","c":"COMMAND","id":51803,"ctx":"conn1","msg":"Slow query","attr":{"type":"command","ns":"shop.orders","command":{"find":"orders","filter":{"Maiden Surname":"Kowalski","address.Home Town":"Gdansk"},"sort":{"Maiden Surname":1},"$db":"shop"},"planSummary":"IXSCAN { Maiden Surname: 1, address.Home Town: 1 }","keysExamined":10,"docsExamined":10,"durationMillis":120}}
LOG
"$T/anonymongo" redact --redactFieldNames shop.orders < "$T/in.log" > "$T/out.log" || exit 2
cat "$T/out.log"
bad=0
for w in Maiden Home Surname Town; do
  if grep -q "$w" "$T/out.log"; then echo "VIOLATION: '$w' (part of an index-key / filter field name) remains in the emitted line"; bad=1; fi
done
# the pseudonym of the filter key must re-appear in the plan summary
fk=$(sed 's/.*"filter":{"\(REDACTED_[0-9a-f]*\)".*/\1/' "$T/out.log")
ps=$(sed 's/.*"planSummary":"\([^"]*\)".*/\1/' "$T/out.log")
case "$ps" in *"$fk:"*) ;; *) echo "VIOLATION: filter key pseudonym $fk does not occur in planSummary '$ps'"; bad=1;; esac
exit $bad
