package main

import (
	"bytes"
	"compress/gzip"
	"context"
	"fmt"
	"net/http"
	"net/http/httptest"
	"os"
	"strings"
	"sync"
	"testing"
)

// TestHuntG5AuthenticatedDownloadRepeated: C16 demands exactly one authenticated log
// download per host (preceded at most by the unauthenticated challenge round). When the
// server drops the kept-alive connection on which the authenticated request for host k
// arrived without answering it, the HTTP transport silently re-sends the authenticated
// request; the run succeeds and the request log holds two authenticated downloads for host k.
func TestHuntG5AuthenticatedDownloadRepeated(t *testing.T) {
	tmp := t.TempDir()
	t.Setenv("TMPDIR", tmp)

	var gz bytes.Buffer
	zw := gzip.NewWriter(&gz)
	zw.Write([]byte(`{"t":{"$date":"2025-01-01T00:00:00.000+00:00"},"s":"I","c":"NETWORK","id":1,"ctx":"c","msg":"m","attr":{}}` + "\n"))
	zw.Close()

	var mu sync.Mutex
	authed := map[string]int{} // path -> number of authenticated requests seen
	dropped := false

	srv := httptest.NewServer(http.HandlerFunc(func(w http.ResponseWriter, r *http.Request) {
		if !strings.HasPrefix(r.Header.Get("Authorization"), "Digest ") {
			w.Header().Set("WWW-Authenticate", `Digest realm="MMS Public API", domain="", nonce="abc", algorithm=MD5, qop="auth", stale=false`)
			w.WriteHeader(http.StatusUnauthorized)
			return
		}
		mu.Lock()
		authed[r.URL.Path]++
		dropNow := strings.Contains(r.URL.Path, "/clusters/h1.example.net/logs/") && !dropped
		if dropNow {
			dropped = true
		}
		mu.Unlock()
		if dropNow {
			// the request was received (and counted), the connection goes away before any answer
			c, _, err := w.(http.Hijacker).Hijack()
			if err == nil {
				c.Close()
			}
			return
		}
		if strings.HasSuffix(r.URL.Path, "/logs/mongodb.gz") {
			w.Header().Set("Content-Type", "application/gzip")
			w.Write(gz.Bytes())
			return
		}
		fmt.Fprint(w, `{"connectionStrings":{"standard":"mongodb://h0.example.net:27017,h1.example.net:27017,h2.example.net:27017/?ssl=true&authSource=admin&replicaSet=rs0"}}`)
	}))
	defer srv.Close()

	client := NewAtlasClient(srv.Client())
	client.BaseURL = srv.URL
	files, err := client.DownloadClusterLogs(context.Background(), "pub", "priv", "proj1", "clu1", 100, 200)
	for _, f := range files {
		os.Remove(f)
	}
	if err != nil {
		t.Logf("run failed (%v); the duplicate check below still applies", err)
	}
	mu.Lock()
	defer mu.Unlock()
	for path, n := range authed {
		if n != 1 {
			t.Errorf("%d authenticated requests for %s, want exactly 1 (run error: %v)", n, path, err)
		}
	}
}
