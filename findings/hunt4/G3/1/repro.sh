#!/bin/sh
# usage: repro.sh <worktree>
# exits non-zero when `decrypt` with a DIFFERENT key accepts a ciphertext (of the empty string)
set -u
WT=${1:?worktree path}
export GOFLAGS=-mod=mod GOPROXY=off; unset GOWORK GOSUMDB GOTOOLCHAIN
T=$(mktemp -d) || exit 99
trap 'rm -rf "$T"' EXIT
(cd "$WT" && go build -o "$T/anonymongo" ./src) || { echo "build failed"; exit 99; }
cd "$T" || exit 99
cat > in.log <<'EOL'
{"t":{"$date":"2024-01-01T00:00:00.000Z"},"s":"I","c":"COMMAND","id":51803,"ctx":"conn1","msg":"Slow query","attr":{"type":"command","ns":"db.coll","command":{"find":"coll","filter":{"nickname":"","name":"alice"},"$db":"db"}}}
EOL
./anonymongo redact in.log -o out.log --encrypt -q key </dev/null >/dev/null 2>&1 || { echo "redact failed"; exit 99; }
# ciphertexts of "" (nickname) and "alice" (name)
CT_EMPTY=$(sed -n 's/.*"nickname":"\([^"]*\)".*/\1/p' out.log)
CT_ALICE=$(sed -n 's/.*"name":"\([^"]*\)".*/\1/p' out.log)
[ -n "$CT_EMPTY" ] && [ "$CT_EMPTY" != "REDACTED" ] || { echo "no ciphertext for the empty string"; exit 99; }
# a different 64-byte key: same first 32 bytes, other 32 bytes replaced
python3 - <<'EOP' || exit 99
import base64
k = bytearray(base64.b64decode(open('key').read()))
assert len(k) == 64
k2 = bytes(k[:32]) + bytes((b ^ 0xA5) for b in k[32:])
assert k2 != bytes(k)
open('otherkey', 'w').write(base64.b64encode(k2).decode())
EOP
# sanity: the right key works, the other key is refused for a non-empty plaintext
./anonymongo decrypt "$CT_EMPTY" --decryptionKeyFile key >/dev/null 2>&1 || { echo "right key refused"; exit 99; }
if ./anonymongo decrypt "$CT_ALICE" --decryptionKeyFile otherkey >/dev/null 2>&1; then echo "VIOLATION: other key accepted for non-empty plaintext"; exit 1; fi
# the probe: ciphertext of "" under a different key must fail with an error
if ./anonymongo decrypt "$CT_EMPTY" --decryptionKeyFile otherkey >out.txt 2>err.txt; then
  echo "VIOLATION: decrypt with a different key file exited 0 and printed:"; tail -1 out.txt
  exit 1
fi
echo "ok: different key refused"
exit 0
