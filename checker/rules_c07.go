package main

import (
	"encoding/json"
	"fmt"
	"go/token"
	"go/types"
	"os"
	"path/filepath"
	"regexp"
	"sort"
	"strings"

	"golang.org/x/tools/go/ssa"
)

func init() {
	register(&propDef{
		ID:          "C07",
		Run:         ruleC07,
		Explanation: "Decides that every potentially panicking instruction on the per-line path is discharged by a local guard and that the scan loop never stops early (structural necessary conditions of C07): (R1) every unchecked type assertion is dominated by a successful comma-ok assertion of the same value to the same type or is a listed exception; every index/slice expression with a non-constant bound is the loop index of a range over the same slice, is implied by dominating len comparisons (small linear reasoning on len(x)+c), or indexes a key-path parameter that is non-empty at every call site; no integer division by a non-constant, no explicit panic, constant regexps compile; (R2) the only exits from inside the scan loop are returns of a non-nil error; no os.Exit/log.Fatal/panic in the loop; the scanner's split function is not replaced (an over-long line stops the run through scanner.Err, never truncated). (R3, argument) recursion depth of parser/walkers/serialiser is bounded by nesting depth <= line length <= bufio.MaxScanTokenSize. NOT decided: panics inside encoding/json, orderedmap, regexp, Tink.",
		RuleText:    "obligations = every TypeAssert without comma-ok, every Index/IndexAddr/Slice/Lookup with a non-constant or unproven bound, every division, panic and MustCompile in the functions reachable from the scan loop; each discharged by guard facts (dominating branch edges) or an inter-procedural non-emptiness summary",
	})
}

type exceptionEntry struct {
	Rule      string `json:"rule"`
	Construct string `json:"construct"`
	Reason    string `json:"reason"`
}

func loadExceptions() []exceptionEntry {
	b, err := os.ReadFile(filepath.Join(rulesDir, "exceptions.json"))
	if err != nil {
		return nil
	}
	var x struct {
		Exceptions []exceptionEntry `json:"exceptions"`
	}
	_ = json.Unmarshal(b, &x)
	return x.Exceptions
}

// canon normalises a value for identity comparison: loads of a parameter spill slot
// (alloc stored once, at entry, from a parameter) are the parameter itself.
func canon(v ssa.Value) ssa.Value {
	if u, ok := v.(*ssa.UnOp); ok && u.Op == token.MUL {
		if al, ok := u.X.(*ssa.Alloc); ok {
			var stores []*ssa.Store
			for _, rr := range referrers(al) {
				if st, ok := rr.(*ssa.Store); ok && st.Addr == ssa.Value(al) {
					stores = append(stores, st)
				}
			}
			if len(stores) == 1 {
				return canon(stores[0].Val)
			}
			return al
		}
	}
	return v
}

// lin: v = base + off  (base nil => constant). len(x) is represented as base = lenOf{x}.
type linExpr struct {
	base  ssa.Value // canonical
	isLen bool      // base is "len(base)"
	off   int64
	ok    bool
}

func linOf(v ssa.Value) linExpr {
	if n, ok := constInt(v); ok {
		return linExpr{off: n, ok: true}
	}
	switch x := v.(type) {
	case *ssa.BinOp:
		if x.Op == token.ADD || x.Op == token.SUB {
			if n, ok := constInt(x.Y); ok {
				l := linOf(x.X)
				if l.ok {
					if x.Op == token.ADD {
						l.off += n
					} else {
						l.off -= n
					}
					return l
				}
			}
			if n, ok := constInt(x.X); ok && x.Op == token.ADD {
				l := linOf(x.Y)
				if l.ok {
					l.off += n
					return l
				}
			}
		}
	case *ssa.Call:
		if calleeKey(&x.Call) == "builtin len" {
			return linExpr{base: canon(x.Call.Args[0]), isLen: true, ok: true}
		}
	case *ssa.Convert:
		return linOf(x.X)
	case *ssa.ChangeType:
		if isIntegerType(x.Type()) && isIntegerType(x.X.Type()) {
			return linOf(x.X)
		}
	}
	return linExpr{base: canon(v), ok: true}
}

// ltFact: L < R established.
type ltFact struct{ L, R linExpr }

func ltFacts(fs []Fact) []ltFact {
	var out []ltFact
	add := func(l, r linExpr) {
		if l.ok && r.ok {
			out = append(out, ltFact{l, r})
		}
	}
	plus := func(e linExpr, k int64) linExpr { e.off += k; return e }
	for _, f := range fs {
		b, ok := f.Cond.(*ssa.BinOp)
		if !ok {
			continue
		}
		x, y := linOf(b.X), linOf(b.Y)
		switch b.Op {
		case token.LSS: // x < y
			if f.Pol {
				add(x, y)
			} else {
				add(y, plus(x, 1)) // y <= x
			}
		case token.GTR: // x > y
			if f.Pol {
				add(y, x)
			} else {
				add(x, plus(y, 1))
			}
		case token.LEQ: // x <= y
			if f.Pol {
				add(x, plus(y, 1))
			} else {
				add(y, x)
			}
		case token.GEQ: // x >= y
			if f.Pol {
				add(y, plus(x, 1))
			} else {
				add(x, y)
			}
		case token.EQL, token.NEQ:
			// len(x) == 0 false / len(x) != 0 true  =>  0 < len(x)
			eq := (b.Op == token.EQL) == f.Pol
			if !eq {
				if x.isLen && y.base == nil && y.off == 0 {
					add(y, x)
				}
				if y.isLen && x.base == nil && x.off == 0 {
					add(x, y)
				}
			}
		}
	}
	return out
}

// impliesLess: do the facts imply  idx < len(X)+slack ?  (slack 0: index; 1: slice bound)
func impliesLess(idx linExpr, X ssa.Value, slack int64, facts []ltFact) bool {
	cx := canon(X)
	for _, f := range facts {
		if !f.R.isLen || f.R.base != cx {
			continue
		}
		// f: L + lo < len(X) + ro
		if f.L.isLen != idx.isLen || f.L.base != idx.base {
			continue
		}
		// idx.off <= L.off - R.off + slack  => idx < len(X)+slack
		if idx.off <= f.L.off-f.R.off+slack {
			return true
		}
	}
	return false
}

type panicOb struct {
	fn        *ssa.Function
	instr     ssa.Instruction
	construct string
	ok        bool
	how       string
}

func ruleC07(c *Ctx, r *Report) {
	an := c.anchors()
	if !requireAnchors(r, an, "C07-anchor", "stream") {
		return
	}
	p := c.prov()
	tableNilMapRule(c, r, "C07-R1")
	scope := c.pkgReach(an.StreamFn)
	// the progress bar helper is not line-content dependent but is on the path: keep it
	var fns []*ssa.Function
	for f := range scope {
		fns = append(fns, f)
	}
	sort.Slice(fns, func(i, j int) bool { return fns[i].Name() < fns[j].Name() })
	resultAfterErrorCheckRule(c, r, fns, "C07-R1")
	var names []string
	for _, f := range fns {
		names = append(names, f.Name())
	}
	r.Analysed["per_line_functions"] = names
	exc := loadExceptions()
	isException := func(rule, construct string) (string, bool) {
		for _, e := range exc {
			if e.Rule == rule && (e.Construct == construct || e.Construct == c.roleConstruct(construct)) {
				return e.Reason, true
			}
		}
		return "", false
	}
	// ---- R5: "at most one well-formed output line": keys and string leaves are written by
	// encoding/json alone - a hand-written quoting shortcut lets a control character or a
	// backslash through and the line is no longer JSON (a raw newline even splits it in two)
	c03Serialiser(c, r, p, "C07-R5")
	r.Floor("C07-R1", 20, "panic obligations on the per-line path (about 40 today)")
	nonEmptyCache := map[*ssa.Parameter]int{}
	for _, f := range fns {
		loops := iterLoops(f)
		for _, b := range f.Blocks {
			var facts []Fact
			factsDone := false
			getFacts := func() []Fact {
				if !factsDone {
					facts = allFacts(b)
					factsDone = true
				}
				return facts
			}
			for _, in := range b.Instrs {
				switch x := in.(type) {
				case *ssa.TypeAssert:
					if x.CommaOk {
						// `v, _ := x.(*T)` / `v, ok := x.(*T)` used without the test: v is nil when the
						// input has another kind, and a method call or field access through it panics
						if _, isPtr := x.AssertedType.Underlying().(*types.Pointer); isPtr {
							c07NilAssertUses(c, r, f, x)
						}
						continue
					}
					construct := fmt.Sprintf("%s:assert(%s)", f.Name(), typeName(x.AssertedType))
					// D1
					d1 := false
					for _, fc := range getFacts() {
						if ex, ok := fc.Cond.(*ssa.Extract); ok && fc.Pol && ex.Index == 1 {
							if ta, ok := ex.Tuple.(*ssa.TypeAssert); ok && ta.X == x.X && types.Identical(ta.AssertedType, x.AssertedType) {
								d1 = true
							}
						}
					}
					if d1 {
						r.OK("C07-R1", construct, c.InstrPos(in), "D1: dominated by a successful comma-ok assertion of the same value to the same type")
					} else if why, ok := isException("C07-R1", construct); ok {
						r.OK("C07-R1", construct, c.InstrPos(in), "listed exception: "+why)
					} else {
						r.Bad("C07-R1", construct, c.InstrPos(in), "unchecked type assertion on the per-line path: an input of another kind panics and the rest of the log is lost")
					}
				case *ssa.Index:
					c07Index(c, r, p, f, in, x.X, x.Index, loops, getFacts, nonEmptyCache)
				case *ssa.IndexAddr:
					c07Index(c, r, p, f, in, x.X, x.Index, loops, getFacts, nonEmptyCache)
				case *ssa.Lookup:
					if isStringType(x.X.Type()) {
						c07Index(c, r, p, f, in, x.X, x.Index, loops, getFacts, nonEmptyCache)
					}
				case *ssa.Slice:
					c07Slice(c, r, f, x, getFacts)
				case *ssa.BinOp:
					if (x.Op == token.QUO || x.Op == token.REM) && isIntegerType(x.Type()) {
						if n, ok := constInt(x.Y); !ok || n == 0 {
							r.Bad("C07-R1", fmt.Sprintf("%s:divide", f.Name()), c.InstrPos(in), "integer division by a non-constant on the per-line path")
						}
					}
				case *ssa.Panic:
					r.Bad("C07-R1", fmt.Sprintf("%s:panic", f.Name()), c.InstrPos(in), "explicit panic on the per-line path")
				case *ssa.Call:
					k := calleeKey(&x.Call)
					if k == "regexp.MustCompile" {
						pat, ok := constString(x.Call.Args[0])
						construct := fmt.Sprintf("%s:MustCompile", f.Name())
						if !ok {
							r.Bad("C07-R1", construct, c.InstrPos(in), "regexp.MustCompile of a non-constant pattern on the per-line path can panic")
						} else if _, err := regexp.Compile(pat); err != nil {
							r.Bad("C07-R1", construct, c.InstrPos(in), "constant pattern does not compile: "+err.Error())
						} else {
							r.OK("C07-R1", construct, c.InstrPos(in), "constant pattern compiles (evaluated by the checker)")
						}
					}
					if k == "os.Exit" || strings.HasPrefix(k, "log.Fatal") || strings.HasPrefix(k, "log.Panic") {
						r.Bad("C07-R1", fmt.Sprintf("%s:%s", f.Name(), shortKey(k)), c.InstrPos(in), "process exit on the per-line path")
					}
				}
			}
		}
	}

	// ---- R2 the scan loop never stops early
	r.Floor("C07-R2", 2, "scan loop exits + split function")
	sf := an.StreamFn
	var scanLoop *Loop
	for _, l := range naturalLoops(sf) {
		for _, in := range l.Header.Instrs {
			if isCallTo(in, "(*bufio.Scanner).Scan") {
				scanLoop = l
			}
		}
	}
	if scanLoop == nil {
		r.Undecided("C07-R2", sf.Name()+":scan-loop", c.Pos(sf.Pos()), "scan loop not recognised (header does not call Scanner.Scan)")
	} else {
		region := scanLoop.Region()
		var bad []string
		for b := range region {
			last := b.Instrs[len(b.Instrs)-1]
			switch t := last.(type) {
			case *ssa.Return:
				okRet := false
				for _, res := range t.Results {
					if isErrorType(res.Type()) && provablyNonNilErr(res, b, 0) {
						okRet = true
					}
				}
				if !okRet {
					bad = append(bad, "return without a non-nil error at "+c.InstrPos(last))
				}
			case *ssa.Panic:
				bad = append(bad, "panic at "+c.InstrPos(last))
			}
			for _, s := range b.Succs {
				if !region[s] && s != scanLoop.Header && b != scanLoop.Header {
					bad = append(bad, "break out of the loop at "+c.InstrPos(last))
				}
			}
			for _, in := range b.Instrs {
				if k, ok := stdEnds(in); ok && k == "exit" {
					bad = append(bad, "process exit at "+c.InstrPos(in))
				}
			}
		}
		sort.Strings(bad)
		r.Check(len(bad) == 0, "C07-R2", sf.Name()+":scan-loop-exits", c.Pos(scanLoop.Header.Instrs[0].Pos()), "the only exits from inside an iteration are returns of a non-nil error", "the run can stop early on line content: "+strings.Join(bad, "; "))
	}
	splitCalls := callsIn(sf, func(k string, _ *ssa.Call) bool { return k == "(*bufio.Scanner).Split" })
	r.Check(len(splitCalls) == 0, "C07-R2", sf.Name()+":default-split", c.Pos(sf.Pos()), "default line splitting: an over-long line ends the run through scanner.Err(), it is never truncated or passed through", "custom split function installed: over-long lines may be truncated or passed through")
	// ---- R4 no state survives a failed line
	{
		line := c.pkgReach(c.Fn("RedactMongoLog"), c.Fn("MarshalOrdered"), sf)
		crossLineStateRule(c, r, line, "C07-R4", "a line that fails part-way (error return, skipped line) can leave it in a state that makes every later line fail or be skipped")
	}
	// ---- R3 premise of the recursion bound: the token limit is not raised
	r.Floor("C07-R3", 1, "scanner token limit")
	bufCalls := callsIn(sf, func(k string, _ *ssa.Call) bool { return k == "(*bufio.Scanner).Buffer" })
	if len(bufCalls) == 0 {
		r.OK("C07-R3", sf.Name()+":token-limit", c.Pos(sf.Pos()), "the scanner keeps its default 64 KiB token limit: nesting depth of a line - and with it the recursion depth of parser, walkers and serialiser - is bounded far below the stack limit; a longer line ends the run through scanner.Err()")
	}
	for _, bc := range bufCalls {
		max, isC := constInt(bc.Call.Args[2])
		r.Check(isC && max <= 64*1024, "C07-R3", sf.Name()+":token-limit", c.InstrPos(bc),
			fmt.Sprintf("scanner token limit is the constant %d (<= 64 KiB)", max),
			"the scanner's token limit is raised beyond 64 KiB (or is not a constant): parser, walkers and serialiser recurse once per nesting level without a depth limit, so a deeply nested line can exhaust the stack - a fatal error that ends the run and loses the remaining lines")
	}
	r.Extra["recursion_bound_argument"] = "parser, walkers and serialiser recurse only on nesting; nesting depth <= line length <= bufio.MaxScanTokenSize (64 KiB, default scanner buffer, not enlarged), far below Go's 1 GB stack limit"
}

func isIntegerType(t types.Type) bool {
	b, ok := t.Underlying().(*types.Basic)
	return ok && b.Info()&types.IsInteger != 0
}

func c07Index(c *Ctx, r *Report, p *Prov, f *ssa.Function, in ssa.Instruction, X, idx ssa.Value, loops []*IterLoop, getFacts func() []Fact, cache map[*ssa.Parameter]int) {
	// static: constant index into an array (or pointer to array) within bounds
	if n, ok := constInt(idx); ok {
		var arr *types.Array
		switch t := X.Type().Underlying().(type) {
		case *types.Array:
			arr = t
		case *types.Pointer:
			arr, _ = t.Elem().Underlying().(*types.Array)
		}
		if arr != nil && n >= 0 && n < arr.Len() {
			return // trivially safe (varargs / literal backing arrays)
		}
	}
	if _, isMap := X.Type().Underlying().(*types.Map); isMap {
		return
	}
	li := linOf(idx)
	construct := fmt.Sprintf("%s:index(%s[%s])", f.Name(), valueName(X), linString(li))
	// D3: loop index of a range over the same collection
	for _, l := range loops {
		if l.Kind == "slice" && l.Idx == idx && canon(l.Coll) == canon(X) && l.Loop.Body[in.Block()] {
			r.OK("C07-R1", construct, c.InstrPos(in), "D3: loop index of a range over the same slice")
			return
		}
	}
	// D3': loop index into a fresh output slice made with len(ranged input)
	for _, l := range loops {
		if l.Kind == "slice" && l.Idx == idx && l.Loop.Body[in.Block()] {
			if _, lv, ok := freshSlice(X); ok && lv != nil {
				if lc, ok := lv.(*ssa.Call); ok && calleeKey(&lc.Call) == "builtin len" && canon(lc.Call.Args[0]) == canon(l.Coll) {
					r.OK("C07-R1", construct, c.InstrPos(in), "D3: loop index into make([]T, len(ranged slice))")
					return
				}
			}
		}
	}
	lf := ltFacts(getFacts())
	// x[len(x)-c]: safe iff c >= 1 and c-1 < len(x) is established
	if li.ok && li.isLen && li.base == canon(X) && li.off <= -1 {
		cMinus1 := -li.off - 1
		for _, f := range lf {
			if f.R.isLen && f.R.base == canon(X) && f.L.base == nil && f.L.off-f.R.off >= cMinus1 {
				r.OK("C07-R1", construct, c.InstrPos(in), "D2: len(x) > c-1 established by a dominating comparison")
				return
			}
		}
	}
	if li.ok && impliesLess(li, X, 0, lf) {
		r.OK("C07-R1", construct, c.InstrPos(in), "D2: bound implied by dominating len comparisons")
		return
	}
	// D2 for arrays: the length is a constant of the type; idx < N and idx >= 0 from dominating comparisons with constants
	{
		var arr *types.Array
		switch t := X.Type().Underlying().(type) {
		case *types.Array:
			arr = t
		case *types.Pointer:
			arr, _ = t.Elem().Underlying().(*types.Array)
		}
		if arr != nil && li.ok && li.base != nil {
			upper, lower := false, false
			if b, ok := li.base.Type().Underlying().(*types.Basic); ok && b.Info()&types.IsUnsigned != 0 && li.off >= 0 {
				lower = true
			}
			for _, f := range lf {
				// base + L.off < R.off
				if f.R.base == nil && f.L.base == li.base && f.L.isLen == li.isLen && f.R.off-f.L.off+li.off <= arr.Len() {
					upper = true
				}
				// L.off < base + R.off
				if f.L.base == nil && f.R.base == li.base && f.R.isLen == li.isLen && f.L.off-f.R.off+1+li.off >= 0 {
					lower = true
				}
			}
			if li.isLen && li.off >= 0 {
				lower = true
			}
			if upper && lower {
				r.OK("C07-R1", construct, c.InstrPos(in), fmt.Sprintf("D2: index into an array of %d elements, bounds implied by dominating comparisons with constants", arr.Len()))
				return
			}
		}
	}
	// D2 trim idiom: idx = len(x) - len(Trim*(x, ...)) lies in [0, len(x)] (the trimmed value is a
	// sub-slice of x); with idx != len(x) established it is a valid index
	if sub, ok := idx.(*ssa.BinOp); ok && sub.Op == token.SUB {
		l1, l2 := linOf(sub.X), linOf(sub.Y)
		if l1.ok && l1.isLen && l1.off == 0 && l1.base == canon(X) && l2.ok && l2.isLen && l2.off == 0 {
			if tc, ok := l2.base.(*ssa.Call); ok && len(tc.Call.Args) > 0 && canon(tc.Call.Args[0]) == canon(X) {
				k := calleeKey(&tc.Call)
				if (strings.HasPrefix(k, "bytes.Trim") || strings.HasPrefix(k, "strings.Trim")) && !strings.HasSuffix(k, "Func") {
					for _, f := range getFacts() {
						b, ok := f.Cond.(*ssa.BinOp)
						if !ok || !((b.Op == token.EQL && !f.Pol) || (b.Op == token.NEQ && f.Pol)) {
							continue
						}
						other := b.Y
						if b.Y == idx {
							other = b.X
						} else if b.X != idx {
							continue
						}
						if lo := linOf(other); lo.ok && lo.isLen && lo.off == 0 && lo.base == canon(X) {
							r.OK("C07-R1", construct, c.InstrPos(in), "D2: the index is the length of the trimmed prefix (0 <= idx <= len(x)) and idx != len(x) is established")
							return
						}
					}
				}
			}
		}
	}
	// D4: x[len(x)-1] on a parameter that is non-empty at every call site
	if li.ok && li.isLen && li.base == canon(X) && li.off == -1 {
		if prm, ok := canon(X).(*ssa.Parameter); ok {
			if nonEmptyParam(c, prm, cache, 0) {
				r.OK("C07-R1", construct, c.InstrPos(in), "D4: the slice parameter is non-empty at every call site (append(_, x) / literal with >= 1 element)")
				return
			}
		}
	}
	r.Bad("C07-R1", construct, c.InstrPos(in), "index not proven in range by a dominating guard: some input shape panics here")
}

func c07Slice(c *Ctx, r *Report, f *ssa.Function, x *ssa.Slice, getFacts func() []Fact) {
	// constant bounds on arrays
	var arr *types.Array
	if pt, ok := x.X.Type().Underlying().(*types.Pointer); ok {
		arr, _ = pt.Elem().Underlying().(*types.Array)
	}
	check := func(b ssa.Value, which string) {
		if b == nil {
			return
		}
		if n, ok := constInt(b); ok {
			if arr != nil && n >= 0 && n <= arr.Len() {
				return
			}
			if n == 0 {
				return
			}
		}
		li := linOf(b)
		construct := fmt.Sprintf("%s:slice-%s(%s[%s])", f.Name(), which, valueName(x.X), linString(li))
		if li.ok && impliesLess(li, x.X, 1, ltFacts(getFacts())) {
			r.OK("C07-R1", construct, c.InstrPos(x), "D2: bound implied by dominating len comparisons")
			return
		}
		r.Bad("C07-R1", construct, c.InstrPos(x), "slice bound not proven <= len by a dominating guard")
	}
	check(x.Low, "low")
	check(x.High, "high")
}

func valueName(v ssa.Value) string {
	v = canon(v)
	switch x := v.(type) {
	case *ssa.Parameter:
		return x.Name()
	case *ssa.Extract:
		if call, ok := x.Tuple.(*ssa.Call); ok {
			return shortKey(calleeKey(&call.Call)) + "()"
		}
		if ta, ok := x.Tuple.(*ssa.TypeAssert); ok {
			return "(" + typeName(ta.AssertedType) + ")"
		}
	case *ssa.Call:
		return shortKey(calleeKey(&x.Call)) + "()"
	case *ssa.Alloc:
		return x.Comment
	case *ssa.Phi:
		return x.Comment
	case *ssa.UnOp:
		if g, ok := x.X.(*ssa.Global); ok {
			return g.Name()
		}
	}
	return typeName(v.Type())
}

func linString(l linExpr) string {
	if !l.ok {
		return "?"
	}
	s := ""
	if l.base != nil {
		s = valueName(l.base)
		if l.isLen {
			s = "len(" + s + ")"
		}
	}
	switch {
	case l.base == nil:
		return fmt.Sprintf("%d", l.off)
	case l.off > 0:
		return fmt.Sprintf("%s+%d", s, l.off)
	case l.off < 0:
		return fmt.Sprintf("%s%d", s, l.off)
	}
	return s
}

// nonEmptyParam: at every call site in the package the argument bound to prm has >= 1 element.
func nonEmptyParam(c *Ctx, prm *ssa.Parameter, cache map[*ssa.Parameter]int, depth int) bool {
	if v, ok := cache[prm]; ok {
		return v == 1
	}
	cache[prm] = 1 // optimistic for recursion (a recursive call passing the same parameter)
	fn := prm.Parent()
	idx := -1
	for i, q := range fn.Params {
		if q == prm {
			idx = i
		}
	}
	sites := c.callersOf(fn)
	res := len(sites) > 0 && idx >= 0 && depth < 6
	for _, call := range sites {
		if idx >= len(call.Call.Args) {
			res = false
			continue
		}
		if !nonEmptyValue(c, call.Call.Args[idx], cache, depth) && !nonEmptyAt(call.Block(), call.Call.Args[idx]) {
			res = false
		}
	}
	if res {
		cache[prm] = 1
	} else {
		cache[prm] = 0
	}
	return res
}

func nonEmptyValue(c *Ctx, v ssa.Value, cache map[*ssa.Parameter]int, depth int) bool {
	v = canon(v)
	switch x := v.(type) {
	case *ssa.Call:
		if calleeKey(&x.Call) == "builtin append" {
			if vals := varargValues(x.Call.Args[1]); len(vals) >= 1 {
				return true
			}
			return nonEmptyValue(c, x.Call.Args[0], cache, depth+1)
		}
	case *ssa.Slice:
		// slice literal: slice of a fresh array with >= 1 element, whole
		if al, ok := x.X.(*ssa.Alloc); ok && x.Low == nil && x.High == nil {
			if pt, ok := al.Type().Underlying().(*types.Pointer); ok {
				if arr, ok := pt.Elem().Underlying().(*types.Array); ok && arr.Len() >= 1 {
					return true
				}
			}
		}
	case *ssa.Parameter:
		return nonEmptyParam(c, x, cache, depth+1)
	case *ssa.Phi:
		for i, e := range x.Edges {
			if nonEmptyValue(c, e, cache, depth+1) {
				continue
			}
			// path-sensitive: the edge is taken only where 0 < len(e) has been established
			pred := x.Block().Preds[i]
			fs := allFacts(pred)
			if ifi, ok := pred.Instrs[len(pred.Instrs)-1].(*ssa.If); ok && pred.Succs[0] != pred.Succs[1] {
				fs = append(fs, expandFacts([]Fact{{ifi.Cond, pred.Succs[0] == x.Block(), ifi}})...)
			}
			if !impliesLess(linExpr{ok: true}, e, 0, ltFacts(fs)) {
				return false
			}
		}
		return true
	}
	return false
}

// nonEmptyAt: the facts holding at block b establish len(v) != 0 (the call sits behind an
// `if len(path) == 0 { return ... }` guard).
func nonEmptyAt(b *ssa.BasicBlock, v ssa.Value) bool {
	cv := canon(v)
	fs := allFacts(b)
	for _, f := range fs {
		bo, ok := f.Cond.(*ssa.BinOp)
		if !ok {
			continue
		}
		for _, pair := range [][2]ssa.Value{{bo.X, bo.Y}, {bo.Y, bo.X}} {
			lc, ok := pair[0].(*ssa.Call)
			if !ok || calleeKey(&lc.Call) != "builtin len" || canon(lc.Call.Args[0]) != cv {
				continue
			}
			n, ok := constInt(pair[1])
			if !ok || n != 0 {
				continue
			}
			switch bo.Op {
			case token.EQL:
				if !f.Pol {
					return true
				}
			case token.NEQ:
				if f.Pol {
					return true
				}
			case token.GTR:
				if f.Pol && pair[0] == bo.X {
					return true
				}
			}
		}
	}
	return impliesLess(linExpr{ok: true}, v, 0, ltFacts(fs))
}


// c07NilAssertUses: every dereferencing use of the pointer delivered by a comma-ok assertion
// (receiver of a method call, field access, load) lies under `ok` being true or the pointer
// being non-nil.
func c07NilAssertUses(c *Ctx, r *Report, f *ssa.Function, ta *ssa.TypeAssert) {
	var val, okv ssa.Value
	if ta.Referrers() == nil {
		return
	}
	for _, u := range *ta.Referrers() {
		if ex, isEx := u.(*ssa.Extract); isEx {
			if ex.Index == 0 {
				val = ex
			} else {
				okv = ex
			}
		}
	}
	if val == nil || val.Referrers() == nil {
		return
	}
	n := 0
	var visit func(v ssa.Value, depth int)
	seen := map[ssa.Value]bool{}
	visit = func(v ssa.Value, depth int) {
		if depth > 4 || seen[v] || v.Referrers() == nil {
			return
		}
		seen[v] = true
		for _, u := range *v.Referrers() {
			deref := false
			switch x := u.(type) {
			case *ssa.Phi:
				// the pointer travels on only along edges where the assertion was not tested
				follow := false
				for i, e := range x.Edges {
					if e != v || i >= len(x.Block().Preds) {
						continue
					}
					pred := x.Block().Preds[i]
					fs := allFacts(pred)
					if ifi, isIf := pred.Instrs[len(pred.Instrs)-1].(*ssa.If); isIf && len(pred.Succs) == 2 && pred.Succs[0] != pred.Succs[1] {
						fs = append(fs, expandFacts([]Fact{{ifi.Cond, pred.Succs[0] == x.Block(), ifi}})...)
					}
					tested := false
					for _, fc := range fs {
						if okv != nil && fc.Cond == okv && fc.Pol {
							tested = true
						}
						if y, neq, isNil := nilCompare(fc.Cond); isNil && (y == v || y == val) && neq == fc.Pol {
							tested = true
						}
					}
					if !tested {
						follow = true
					}
				}
				if follow {
					visit(x, depth+1)
				}
				continue
			case *ssa.Call:
				if x.Call.IsInvoke() {
					continue
				}
				if callee := x.Call.StaticCallee(); callee != nil && callee.Signature.Recv() != nil && len(x.Call.Args) > 0 && x.Call.Args[0] == v {
					deref = true // a method of *T: the library's methods read through the receiver
				}
			case *ssa.FieldAddr:
				deref = x.X == v
			case *ssa.UnOp:
				deref = x.Op == token.MUL && x.X == v
			}
			if !deref {
				continue
			}
			n++
			guarded := false
			for _, fc := range allFacts(u.Block()) {
				if okv != nil && fc.Cond == okv && fc.Pol {
					guarded = true
				}
				if x, neq, isNil := nilCompare(fc.Cond); isNil && (x == v || x == val) && neq == fc.Pol {
					guarded = true
				}
			}
			construct := fmt.Sprintf("%s:nil-after-assert(%s)", f.Name(), typeName(ta.AssertedType))
			r.Check(guarded, "C07-R1", construct, c.InstrPos(u),
				"the asserted pointer is used only where the assertion succeeded",
				"the pointer delivered by a comma-ok assertion is dereferenced without the assertion having been tested: for an input of another kind it is nil and the run panics (the rest of the log is lost)")
		}
	}
	visit(val, 0)
	_ = n
}
