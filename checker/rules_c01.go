package main

import (
	"slices"
	"fmt"
	"go/token"
	"sort"
	"strings"

	"golang.org/x/tools/go/ssa"
)

func init() {
	register(&propDef{
		ID:          "C01",
		Run:         ruleC01,
		Explanation: "Decides that the code has no place through which a zone literal can reach the output unmodified other than the exemptions the property names (structural necessary condition of C01): (R1) the line gate covers COMMAND/QUERY/WRITE/'Slow query', the three command documents are dispatched under lookup/type guards only, and the command walker dispatches every zone key to a walker whose result is stored back under the same key; (R2) every store into an output container and every return of a walker is either sanitised or a raw pass-through justified by one of the guard classes J1-J10 (exempt table entry, field-name position holding a non-document, namespace position, '$'-prefixed string, shape mismatch, nil, selective mode, number/boolean with the flag off, in-place array fully overwritten); (R3) every walker loop covers the whole input container and never leaves an iteration early or without a store; (R4) Exempt/FieldName/Namespace typed table positions are confined to a reviewed allow-list, reconstructed by abstract interpretation of the initialisers; (R5) each redaction flag's variable is the argument of its setter, the setter stores into the global the walkers read, before any processing call; (R6) the remote address is replaced by a constant. R4 also: a table asked about the last key alone has only '$'-prefixed keys or is consulted under a stage-kind parameter, and the search-stage positions holding user-shaped documents ($vectorSearch.filter, moreLikeThis.like) are typed so that every type dispatch of the stage walker has an arm for them that passes constant false for that parameter. NOT decided: that the lookup routes every grammar position to the intended table entry, JSON escaping, the grammar coverage of the tables.",
		RuleText:    "obligations = gate disjuncts, dispatch sites, zone keys, every sink instruction of the walker functions (guards computed from dominating branch edges, short-circuit phis and disjunctive joins), walker loops (path enumeration with store counting), table entries, flag->setter->global chains",
	})
}

var allowedDispatchAtoms = map[string]bool{"ok": true, "typeis": true, "nil": true}

func ruleC01(c *Ctx, r *Report) {
	p := c.prov()
	for _, pr := range p.Problems {
		r.Undecided("C01-anchor", "prov", "-", pr)
	}
	if len(p.Problems) > 0 {
		return
	}
	an := c.anchors()
	if !requireAnchors(r, an, "C01-anchor", "redact") {
		return
	}
	var zn []string
	for f := range p.Zone {
		zn = append(zn, f.Name())
	}
	sort.Strings(zn)
	r.Analysed["zone_functions"] = zn

	c01Dispatch(c, r, p, []string{"query", "filter", "update", "updates", "deletes", "q", "u", "c", "documents", "pipeline", "ops", "arrayFilters"}, "C01-R1")
	c01Explain(c, r, p, "C01-R1")
	c01Sinks(c, r, p)
	c01Loops(c, r, p)
	tablePolicyRule(c, r, "C01-R4")
	lastKeyLookupRule(c, r, "C01-R4")
	operatorMapDescentRule(c, r, "C01-R4")
	lookupFaithfulRule(c, r, "C01-R4")
	lookupRecursionRule(c, r, p, c.lookupFunctions(p), "C01-R4")
	c01FlagWiring(c, r, an)
	c01Remote(c, r, p)
}

// cmdWalker: the zone root that stores into its parameter under constant keys.
func (p *Prov) cmdWalker() *ssa.Function {
	for _, f := range p.ZoneRoots {
		if len(f.Params) == 0 {
			continue
		}
		n := 0
		allInstrs(f, func(i ssa.Instruction) {
			call, ok := i.(*ssa.Call)
			if !ok || calleeKey(&call.Call) != omMethod("Set") || call.Call.Args[0] != ssa.Value(f.Params[0]) {
				return
			}
			if vc, ok := peel(call.Call.Args[2]).(*ssa.Call); ok {
				if callee := p.c.staticPkgCallee(&vc.Call); callee != nil && !p.Sanitizers[callee] {
					n++
				}
			}
		})
		if n >= 2 {
			return f
		}
	}
	return nil
}

func c01Dispatch(c *Ctx, r *Report, p *Prov, zoneKeys []string, rule string) {
	cmdFn := p.cmdWalker()
	if cmdFn == nil {
		r.Undecided(rule, "command-walker", "-", "no function stores walker results back into the command document")
		return
	}
	r.Analysed["command_walker"] = cmdFn.Name()
	r.Floor(rule, 4+len(zoneKeys)+1, "4 dispatch sites + zone keys + gate")
	// dispatch sites
	found := map[string]*ssa.Call{}
	allInstrs(p.Root, func(i ssa.Instruction) {
		call, ok := i.(*ssa.Call)
		if !ok || call.Call.StaticCallee() != cmdFn {
			return
		}
		if k, ok := getKeyOfValue(call.Call.Args[0]); ok {
			found[k] = call
		} else {
			r.Undecided(rule, p.Root.Name()+":dispatch(?)", c.InstrPos(i), "command walker called on a value that is not attr[<constant key>]")
		}
	})
	gateChecked := false
	for _, k := range []string{"originatingCommand", "cmd", "command", "commandArgs"} {
		call := found[k]
		construct := fmt.Sprintf("%s:dispatch(%s)", p.Root.Name(), k)
		if call == nil {
			r.Bad(rule, construct, c.Pos(p.Root.Pos()), "the command document under attr."+k+" is not passed to the command walker: its literals are emitted unredacted")
			continue
		}
		var bad []string
		var gate *Atom
		for _, a := range p.atomsAt(call.Block()) {
			a := a
			switch {
			case allowedDispatchAtoms[a.Kind] && (a.Pol || a.Kind == "nil"):
			case allowedDispatchAtoms[a.Kind]:
				// a lookup that did NOT find, a type test that did NOT hold: the document is walked
				// only on lines that lack some other member (a loop over the names that stops at
				// the first one present, an else-if chain) - the error report that carries the
				// command's name under one key and its copy under another skips the copy
				bad = append(bad, "a failed lookup / type test of another member ("+a.String()+")")
			case a.Kind == "strconst":
				bad = append(bad, "conjunctive string test "+a.String())
			case a.Kind == "or":
				allStr := true
				for _, d := range a.Or {
					if d.Kind != "strconst" {
						allStr = false
					}
				}
				if allStr {
					gate = &a
				} else {
					bad = append(bad, a.String())
				}
			default:
				bad = append(bad, a.String())
			}
		}
		r.Check(len(bad) == 0, rule, construct, c.InstrPos(call),
			"dispatched under lookup/type guards (and the line gate) only", fmt.Sprintf("dispatch additionally depends on %v: some lines skip redaction of this command document", bad))
		if gate != nil && !gateChecked {
			gateChecked = true
			have := map[string]bool{}
			for _, d := range gate.Or {
				if !d.Pol {
					continue
				}
				key, _ := getKeyOfValue(d.X)
				have[key+"=="+d.Name] = true
			}
			var missing []string
			for _, w := range []string{"c==COMMAND", "c==QUERY", "c==WRITE", "msg==Slow query"} {
				if !have[w] {
					missing = append(missing, w)
				}
			}
			r.Check(len(missing) == 0, rule, p.Root.Name()+":line-gate", c.InstrPos(call), fmt.Sprintf("gate disjuncts %v", keysOf(have)), fmt.Sprintf("line gate lost disjunct(s) %v: such lines are emitted unredacted", missing))
		}
	}
	if !gateChecked {
		// no gate at all: every line is walked - more redaction, fine
		r.Trivial(rule, p.Root.Name()+":line-gate", c.Pos(p.Root.Pos()), "no disjunctive line gate dominates the dispatch (all lines are walked)")
	}
	// zone keys inside the command walker, per JSON form the grammar allows
	sets := p.zoneSets(cmdFn)
	for _, k := range zoneKeys {
		forms := zoneForms[k]
		if len(forms) == 0 {
			forms = []string{"any"}
		}
		for _, form := range forms {
			construct := fmt.Sprintf("%s:zone(%s)", cmdFn.Name(), k)
			if form != "any" && len(zoneForms[k]) > 1 {
				construct = fmt.Sprintf("%s:zone(%s:%s)", cmdFn.Name(), k, form)
			}
			var zs *zoneSet
			for i := range sets[k] {
				if form == "any" || sets[k][i].form == form {
					zs = &sets[k][i]
				}
			}
			if zs == nil {
				what := "zone key " + k
				if form != "any" {
					what += " in its " + form + " form"
				}
				r.Bad(rule, construct, c.Pos(cmdFn.Pos()), what+" is not rewritten by the command walker: its literals are emitted unredacted")
				continue
			}
			r.Check(zs.srcOK && len(zs.extra) == 0, rule, construct, c.InstrPos(zs.call),
				"cmd["+k+"] ("+form+") is replaced by the walker's result for cmd["+k+"], under lookup/type guards only"+zs.via,
				fmt.Sprintf("zone key %s: sourceIsSameKey=%v extraConditions=%v", k, zs.srcOK, zs.extra))
		}
	}
}

// c01Explain: a command wrapped in explain ({explain: {find: ..., filter: ...}}) carries the
// same query-bearing members one level down: the command walker must walk cmd[explain]
// with itself.
// commandWrappers: members of a command document whose value is a command document itself
// (explain; the representative query of the query-settings commands, hunt 4 F-59)
var commandWrappers = []string{"explain", "setQuerySettings", "removeQuerySettings"}

func c01Explain(c *Ctx, r *Report, p *Prov, rule string) {
	for _, w := range commandWrappers {
		c01Wrapper(c, r, p, rule, w)
	}
}

func c01Wrapper(c *Ctx, r *Report, p *Prov, rule string, wrapper string) {
	cmdFn := p.cmdWalker()
	if cmdFn == nil {
		return
	}
	var site *ssa.Call
	iterSite := false
	for _, call := range callsIn(cmdFn, func(k string, cc *ssa.Call) bool { return cc.Call.StaticCallee() == cmdFn }) {
		if rv, kv, ok := getKeyValueOf(call.Call.Args[0]); ok && peel(rv) == ssa.Value(cmdFn.Params[0]) {
			if s, isC := constString(kv); isC && s == wrapper {
				site = call
			}
		}
		// the member-iteration form: el.Value under `el.Key == "explain"`
		if m, e, ok := memberOfIteration(cmdFn, call.Call.Args[0]); ok && peel(m) == ssa.Value(cmdFn.Params[0]) {
			for _, in := range *e.Referrers() {
				if fa, isFA := in.(*ssa.FieldAddr); isFA {
					if name, okN := elemFieldName(fa); okN && name == "Key" {
						for _, ld := range *fa.Referrers() {
							if lv, isV := ld.(ssa.Value); isV {
								// (a case with several labels - `case "setQuerySettings", "removeQuerySettings":` - serves each of them)
								if ks := p.keysAt(lv, call.Block()); len(ks) >= 1 && slices.Contains(ks, wrapper) && allIn(ks, commandWrappers) {
									site, iterSite = call, true
								}
							}
						}
					}
				}
			}
		}
	}
	construct := cmdFn.Name() + ":zone(" + wrapper + ")"
	if site == nil {
		r.Bad(rule, construct, c.Pos(cmdFn.Pos()), "a command wrapped in "+wrapper+" is not walked: the command walker never applies itself to cmd["+wrapper+"], so every literal of the wrapped find / aggregate / update is emitted unredacted")
		return
	}
	var bad []string
	for _, a := range p.atomsAt(site.Block()) {
		if !allowedDispatchAtoms[a.Kind] {
			if iterSite && (a.Kind == "strconst" || a.Kind == "inset" || a.Kind == "or") {
				if _, name, isLoad := elemFieldLoad(peel(a.X)); a.Kind == "or" || (isLoad && name == "Key") {
					continue // the tests of the member's name that select this case
				}
			}
			bad = append(bad, a.String())
		}
	}
	r.Check(len(bad) == 0, rule, construct, c.InstrPos(site), "cmd["+wrapper+"] is walked by the command walker itself, under lookup/type guards only", fmt.Sprintf("the "+wrapper+" wrapper is walked only under %v", bad))
}

// zoneSet: one rewrite `Set(cmd, K, walker(Get(cmd, K)))` of the command walker, found
// directly in its body or one call level down in a helper that receives the command
// document and the constant key (`redactMember(cmd, "filter", ...)`).
type zoneSet struct {
	call  *ssa.Call // the Set call
	form  string    // doc | array | ?
	srcOK bool      // the stored value is a walker result / rebuilt slice for the same key
	extra []string  // guard atoms other than lookup / type tests
	via   string
}

// getKeyValueOf: v is (a type assertion of) the value result of Get(m, key) -> (m, key).
func getKeyValueOf(v ssa.Value) (recv, key ssa.Value, ok bool) {
	for depth := 0; depth < 6; depth++ {
		switch x := v.(type) {
		case *ssa.Extract:
			switch tp := x.Tuple.(type) {
			case *ssa.TypeAssert:
				v = tp.X
				continue
			case *ssa.Call:
				if calleeKey(&tp.Call) == omMethod("Get") && x.Index == 0 {
					return tp.Call.Args[0], tp.Call.Args[1], true
				}
			}
			return nil, nil, false
		case *ssa.TypeAssert:
			v = x.X
		case *ssa.Phi:
			a := phiAlias[x]
			if a == nil {
				a = phiModuloZero(x)
			}
			if a == nil {
				return nil, nil, false
			}
			v = a
		case *ssa.MakeInterface:
			v = x.X
		case *ssa.ChangeInterface:
			v = x.X
		default:
			return nil, nil, false
		}
	}
	return nil, nil, false
}

func (p *Prov) zoneSets(cmdFn *ssa.Function) map[string][]zoneSet {
	c := p.c
	out := map[string][]zoneSet{}
	// analyse the Set calls of fn whose receiver is recvV and whose key is keyV (a constant
	// in the walker itself, a parameter in a helper); outer = guard atoms of the helper call
	collect := func(fn *ssa.Function, recvV ssa.Value, keyConst string, keyV ssa.Value, outer []Atom, via string) {
		sameKey := func(v ssa.Value) bool {
			rv, kv, ok := getKeyValueOf(v)
			if !ok || peel(rv) != recvV {
				return false
			}
			if keyV != nil {
				return kv == keyV
			}
			s, isC := constString(kv)
			return isC && s == keyConst
		}
		loops := p.walkerLoops(fn)
		allInstrs(fn, func(i ssa.Instruction) {
			call, ok := i.(*ssa.Call)
			if !ok || calleeKey(&call.Call) != omMethod("Set") || peel(call.Call.Args[0]) != recvV {
				return
			}
			k := keyConst
			var iterKeys []string // the member-iteration form: Set(cmd, el.Key, ...) under tests of el.Key
			var iterEl ssa.Value
			if keyV != nil {
				if call.Call.Args[1] != keyV {
					return
				}
			} else {
				s, isC := constString(call.Call.Args[1])
				if !isC {
					if e, name, isLoad := elemFieldLoad(peel(call.Call.Args[1])); isLoad && name == "Key" {
						for _, l := range iterLoops(fn) {
							if l.Kind == "omap" && l.Elem == e && peel(l.Coll) == recvV {
								iterKeys, iterEl = p.keysAt(call.Call.Args[1], call.Block()), e
							}
						}
					}
					if len(iterKeys) == 0 {
						return
					}
				}
				k = s
			}
			keyOf := func(v ssa.Value) bool {
				if iterEl != nil {
					m, e, ok := memberOfIteration(fn, v)
					return ok && e == iterEl && peel(m) == recvV
				}
				if keyV != nil {
					return sameKey(v)
				}
				rv, kv, ok := getKeyValueOf(v)
				if !ok || peel(rv) != recvV {
					return false
				}
				s, isC := constString(kv)
				return isC && s == k
			}
			zs := zoneSet{call: call, form: "?", via: via}
			atoms := p.atomsAt(call.Block())
			for _, a := range atoms {
				if a.Kind == "typeis" && a.Pol && keyOf(a.X) {
					switch {
					case isOrderedMapPtr(a.Type):
						zs.form = "doc"
					case isAnySlice(a.Type):
						zs.form = "array"
					}
				}
			}
			v := peel(call.Call.Args[2])
			if wc, ok := v.(*ssa.Call); ok && c.staticPkgCallee(&wc.Call) != nil {
				for _, a := range wc.Call.Args {
					if keyOf(a) {
						zs.srcOK = true
					}
				}
			}
			for _, ic := range loops {
				if ic.Out == v && keyOf(ic.Loop.Coll) {
					zs.srcOK = true
				}
			}
			for _, a := range append(append([]Atom{}, atoms...), outer...) {
				if allowedDispatchAtoms[a.Kind] {
					continue
				}
				if iterEl != nil {
					// tests of the member's own name (the `case` that selects this rewrite, the
					// cases before it) are the dispatch itself
					onKey := func(x ssa.Value) bool {
						e, name, ok := elemFieldLoad(peel(x))
						return ok && name == "Key" && e == iterEl
					}
					if (a.Kind == "strconst" || a.Kind == "inset") && a.X != nil && onKey(a.X) {
						continue
					}
					if a.Kind == "or" {
						all := len(a.Or) > 0
						for _, d := range a.Or {
							if !(d.Kind == "strconst" && d.X != nil && onKey(d.X)) {
								all = false
							}
						}
						if all {
							continue
						}
					}
				}
				zs.extra = append(zs.extra, a.String())
			}
			if iterEl != nil {
				zs.via = " (while passing over the members of the command document)"
				for _, ik := range iterKeys {
					out[ik] = append(out[ik], zs)
				}
				return
			}
			out[k] = append(out[k], zs)
		})
	}
	cmdParam := ssa.Value(cmdFn.Params[0])
	collect(cmdFn, cmdParam, "", nil, nil, "")
	// one level of helpers: h(cmd, "K", ...)
	allInstrs(cmdFn, func(i ssa.Instruction) {
		call, ok := i.(*ssa.Call)
		if !ok {
			return
		}
		h := c.staticPkgCallee(&call.Call)
		if h == nil || h == cmdFn || len(h.Params) != len(call.Call.Args) {
			return
		}
		ci, ki := -1, -1
		key := ""
		for ai, a := range call.Call.Args {
			if peel(a) == cmdParam {
				ci = ai
			}
			if s, isC := constString(a); isC && isStringType(h.Params[ai].Type()) {
				ki, key = ai, s
			}
		}
		if ci < 0 || ki < 0 {
			return
		}
		collect(h, h.Params[ci], key, h.Params[ki], p.atomsAt(call.Block()), " (through helper "+h.Name()+")")
	})
	return out
}

// zoneForms: the JSON forms in which each zone key occurs in the MongoDB command
// grammar (written from the property statement - query predicate, update
// specification incl. pipeline-style updates, delete specification, inserted
// documents, aggregation pipeline - and the server's command reference).
var zoneForms = map[string][]string{
	"query":     {"doc"},
	"filter":    {"doc"},
	"q":         {"doc"},
	"update":    {"doc", "array"}, // findAndModify: update document or aggregation pipeline
	"u":         {"doc", "array"}, // update statement: modifier document or pipeline
	"updates":   {"array"},
	"deletes":   {"array"},
	"documents": {"array"},
	"pipeline":  {"array"},
	"sort":      {"doc"},
	// bulkWrite (server 8.0): one entry per operation holding document / filter / updateMods
	"ops": {"array"},
	// findAndModify / update: filters for the positional-filtered operator
	"arrayFilters": {"array"},
	// update statement logged on its own (WRITE "Slow query" lines carry the UpdateOpEntry
	// {q, u, c, arrayFilters, multi, upsert} as attr.command): the constants document
	"c": {"doc"},
}

func keysOf(m map[string]bool) []string {
	var out []string
	for k := range m {
		out = append(out, k)
	}
	sort.Strings(out)
	return out
}

// c01EmptyPathCallers: the stage walker lets a bare scalar through when its key path is
// empty ("a scalar where a stage document is expected" - J5); that licence is sound only if
// an empty key path is handed to it for the elements of a pipeline alone - the command's
// pipeline and Pipeline-typed arguments. An operand position ($and / $or clauses, any other
// value) walked with an empty path would have its scalar literals emitted verbatim.
func c01EmptyPathCallers(c *Ctx, r *Report, p *Prov) {
	sw := c.stageWalkerFn()
	cmdFn := p.cmdWalker()
	if sw == nil || cmdFn == nil {
		return
	}
	pi := -1
	for i, prm := range sw.Params {
		if isStringSlice(prm.Type()) {
			pi = i
		}
	}
	if pi < 0 {
		return
	}
	n := 0
	for f := range p.Zone {
		for _, call := range callsIn(f, func(k string, cc *ssa.Call) bool { return cc.Call.StaticCallee() == sw }) {
			maybeEmpty := ""
			for _, vs := range sourcesAt(call.Call.Args[pi], call.Block()) {
				v := peel(vs.Val)
				if l, _, ok := freshSlice(v); ok && l == 0 {
					maybeEmpty = "an empty path literal"
				} else if isNilConst(v) {
					maybeEmpty = "a nil path"
				} else if prm, ok := v.(*ssa.Parameter); ok {
					nonEmpty := false
					for _, a := range p.atomsAt(call.Block()) {
						if a.Kind == "len" && a.X == ssa.Value(prm) && ((a.Pol && a.Name != "==0") || (!a.Pol && a.Name == "==0")) {
							nonEmpty = true
						}
					}
					if !nonEmpty {
						maybeEmpty = "the caller's own path parameter (possibly empty)"
					}
				}
			}
			if maybeEmpty == "" {
				continue
			}
			n++
			okCtx := f == cmdFn
			for _, a := range p.atomsAt(call.Block()) {
				if a.Kind == "tbl" && a.Pol && a.Name == "Pipeline" {
					okCtx = true
				}
			}
			construct := fmt.Sprintf("%s:empty-path-call", f.Name())
			r.Check(okCtx, "C01-R2", construct, c.InstrPos(call),
				"the stage walker gets "+maybeEmpty+" for the elements of a pipeline only",
				"the stage walker is given "+maybeEmpty+" at a position that is not a pipeline element: its rule 'a bare scalar with an empty key path is not a stage, return it unchanged' then emits scalar operands (literals) verbatim")
		}
	}
	r.Analysed["empty_path_calls"] = n
}

func c01Sinks(c *Ctx, r *Report, p *Prov) {
	c01EmptyPathCallers(c, r, p)
	ss := p.sinks(p.Zone)
	r.Floor("C01-R2", 60, "sink instructions in the walker functions (101 today)")
	raw := 0
	for _, s := range ss {
		if !s.Raw {
			r.Trivial("C01-R2", fmt.Sprintf("%s:%s(sanitised)", s.Fn.Name(), s.Kind), c.InstrPos(s.Instr), "value is a constant, a sanitiser/walker result or a table value")
			continue
		}
		raw++
		construct := p.sinkConstruct(s)
		if s.Just != "" {
			r.OK("C01-R2", construct, c.InstrPos(s.Instr), "raw pass-through justified by "+s.Just)
		} else {
			r.Bad("C01-R2", construct, c.InstrPos(s.Instr), "input value reaches the output unmodified and its guard ["+atomsString(s.Atoms)+"] matches none of the accepted justifications J1-J11")
		}
	}
	r.Analysed["sinks"] = len(ss)
	r.Analysed["raw_pass_throughs"] = raw
	if raw < 15 {
		r.Bad("C01-R2", "raw-floor", "-", fmt.Sprintf("only %d raw pass-throughs recognised (>=15 confirmed by hand): provenance anchor lost", raw))
	}
}

func c01Loops(c *Ctx, r *Report, p *Prov) {
	r.Floor("C01-R3", 8, "walker loops over input containers (9 today)")
	var fns []*ssa.Function
	for f := range p.Zone {
		fns = append(fns, f)
	}
	sort.Slice(fns, func(i, j int) bool { return fns[i].Name() < fns[j].Name() })
	for _, f := range fns {
		for _, ic := range p.walkerLoops(f) {
			if ic.Mode != "in-place" {
				// a skipped store into a fresh container drops data (judged by C03), it cannot leak
				r.Trivial("C01-R3", ic.construct(), c.Pos(ic.Loop.Loop.Header.Instrs[0].Pos()), "output is a fresh container: nothing of the input survives unless stored (stores are judged by C01-R2)")
				continue
			}
			var bad []string
			if !ic.Whole {
				bad = append(bad, "iterates over a sub-slice of the input")
			}
			if ic.EarlyExits > 0 {
				bad = append(bad, fmt.Sprintf("%d early exit(s) from inside an iteration", ic.EarlyExits))
			}
			for _, z := range ic.ZeroPaths {
				if !p.zeroPathJustified(ic, z) {
					bad = append(bad, "iteration path without a store under ["+zeroPathString(z)+"]")
				}
			}
			bad = dedupe(bad)
			r.Check(len(bad) == 0, "C01-R3", ic.construct(), c.Pos(ic.Loop.Loop.Header.Instrs[0].Pos()),
				fmt.Sprintf("covers the whole container; every iteration stores (%d store sites)", len(ic.Sinks)), strings.Join(bad, "; "))
		}
	}
}

type flagWire struct{ flag, setter, global string }

var redactionFlagWires = []flagWire{
	{"replacement", "SetRedactedString", "redactedString"},
	{"redactNumbers", "SetRedactNumbers", "redactNumbers"},
	{"redactBooleans", "SetRedactBooleans", "redactBooleans"},
	{"redactIPs", "SetRedactIPs", "redactIPs"},
	{"redactNamespaces", "SetRedactNamespaces", "redactNamespaces"},
	{"redactFieldNames", "SetEagerRedactionPaths", "eagerRedactionPaths"},
	{"redactFieldsRegexp", "SetRedactedFieldsRegexp", "redactedFieldsRegexp"},
}

func c01FlagWiring(c *Ctx, r *Report, an *Anchors) {
	r.Floor("C01-R5", len(redactionFlagWires), "flag->setter->global chains")
	flagWireRule(c, r, an, "C01-R5", redactionFlagWires)
}

// flagWireRule: flag variable -> setter argument (unmodified) -> global, before processing.
func flagWireRule(c *Ctx, r *Report, an *Anchors, rule string, wires []flagWire) {
	cl := an.RedactClosure
	procKeys := c.processingCallKeys()
	for _, w := range wires {
		construct := fmt.Sprintf("%s:wire(--%s->%s->%s)", cl.Name(), w.flag, w.setter, w.global)
		setter := c.Fn(w.setter)
		g := c.GlobalByRole(w.global)
		if setter == nil || g == nil {
			r.Undecided(rule, construct, "-", "setter or global not found")
			continue
		}
		calls := callsIn(cl, func(k string, _ *ssa.Call) bool { return k == fnFullName(setter) })
		if len(calls) == 0 {
			r.Bad(rule, construct, c.Pos(cl.Pos()), "the setter is never called by the redact command: the flag has no effect")
			continue
		}
		var bad []string
		for _, call := range calls {
			name, ok := an.flagOfValue(cl, call.Call.Args[0])
			if !ok || name != w.flag {
				bad = append(bad, fmt.Sprintf("argument is %s, not the --%s variable", map[bool]string{true: "flag --" + name, false: "not a flag variable"}[ok], w.flag))
			}
			// dominates processing: every path from entry to a processing call passes a call of this setter
		}
		q := &pathQuery{
			witness: func(i ssa.Instruction) bool {
				call, ok := i.(*ssa.Call)
				return ok && call.Call.StaticCallee() == setter
			},
			isEnd: func(i ssa.Instruction) (string, bool) {
				if call, ok := i.(*ssa.Call); ok && procKeys[calleeKey(&call.Call)] {
					return "processing", true
				}
				return "", false
			},
		}
		if ends := q.run(cl.Blocks[0], 0, false); len(ends) > 0 {
			bad = append(bad, fmt.Sprintf("a processing call at %s is reachable before the setter", c.InstrPos(ends[0].Instr)))
		}
		// setter stores (a function of) its parameter into the global
		stores := false
		allInstrs(setter, func(i ssa.Instruction) {
			if st, ok := i.(*ssa.Store); ok && st.Addr == ssa.Value(g) {
				v := st.Val
				if v == ssa.Value(setter.Params[0]) {
					stores = true
				}
				if ex, ok := v.(*ssa.Extract); ok {
					if cc, ok := ex.Tuple.(*ssa.Call); ok && (calleeKey(&cc.Call) == "regexp.Compile" || calleeKey(&cc.Call) == "regexp.MustCompile") && cc.Call.Args[0] == ssa.Value(setter.Params[0]) {
						stores = true
					}
				}
				if cc, ok := v.(*ssa.Call); ok && calleeKey(&cc.Call) == "regexp.MustCompile" && cc.Call.Args[0] == ssa.Value(setter.Params[0]) {
					stores = true
				}
			}
		})
		if !stores {
			bad = append(bad, "setter does not store its parameter into "+w.global)
		}
		r.Check(len(bad) == 0, rule, construct, c.InstrPos(calls[0]), "flag variable -> setter argument -> global read by the walkers, before processing", strings.Join(bad, "; "))
	}
}

func c01Remote(c *Ctx, r *Report, p *Prov) {
	r.Floor("C01-R6", 1, "remote address replacement")
	found := false
	allInstrs(p.Root, func(i ssa.Instruction) {
		call, ok := i.(*ssa.Call)
		if !ok || calleeKey(&call.Call) != omMethod("Set") {
			return
		}
		k, ok := constString(call.Call.Args[1])
		if !ok || k != "remote" {
			return
		}
		found = true
		_, isConst := constString(call.Call.Args[2])
		cfgOK := false
		var bad []string
		for _, a := range p.atomsAt(call.Block()) {
			switch {
			case a.Kind == "cfg" && a.Pol && a.Name == "redactIPs":
				cfgOK = true
			case allowedDispatchAtoms[a.Kind]:
			default:
				bad = append(bad, a.String())
			}
		}
		r.Check(isConst && cfgOK && len(bad) == 0, "C01-R6", p.Root.Name()+":set(remote)", c.InstrPos(i), "attr.remote replaced by a constant under redactIPs and lookup/type guards only", fmt.Sprintf("remote replacement: constant=%v underRedactIPs=%v extraConditions=%v", isConst, cfgOK, bad))
	})
	if !found {
		r.Bad("C01-R6", p.Root.Name()+":set(remote)", c.Pos(p.Root.Pos()), "attr.remote is never replaced")
	}
}

// userDocumentPositions: the positions inside the Atlas Search tables whose value is a
// document (or an array of documents) of the collection's own shape - keys are user field
// names, not search syntax. Confirmed against the Atlas Search / Vector Search reference:
// the MQL pre-filter of $vectorSearch and the example documents of moreLikeThis. (Every other
// document-valued position holds search operators, GeoJSON or option documents.)
var userDocumentPositions = [][]string{
	{"SearchAggregationOperators", "$vectorSearch", "filter"},
	{"SearchOperators", "moreLikeThis", "like"},
}

// lastKeyLookupRule: a table that is asked about the last key of the path alone - no
// parent context - classifies every key of that spelling, at any depth. Where such a
// vocabulary has keys without '$', a user field of the same name is taken for the operator
// (numBuckets -> Exempt; text / range / near -> their score, fuzzy, slop ... members Exempt).
// So the positions that hold user-shaped documents must be typed with an operator type
// whose arm in the stage walker leaves the vocabulary: every walker it calls receives the
// constant false for the parameter that enables the vocabulary lookup.
func lastKeyLookupRule(c *Ctx, r *Report, rule string) {
	p := c.prov()
	t := c.reconstructTables()
	if !t.requireResolved(r, rule) {
		return
	}
	var fns []*ssa.Function
	for f := range p.Zone {
		fns = append(fns, f)
	}
	sort.Slice(fns, func(i, j int) bool { return fns[i].Name() < fns[j].Name() })
	// 1. vocabulary lookups and the parameter that enables them
	flags := map[*ssa.Parameter]bool{}
	var vocab []string
	for _, f := range fns {
		for _, call := range callsIn(f, func(k string, _ *ssa.Call) bool { return k == omMethod("Get") }) {
			if len(call.Call.Args) < 2 || pathPosition(call.Call.Args[1]) != "last" {
				continue
			}
			ld, ok := call.Call.Args[0].(*ssa.UnOp)
			if !ok {
				continue
			}
			g, ok := ld.X.(*ssa.Global)
			if !ok {
				continue
			}
			obj := t.Globals[g.Name()]
			if obj == nil {
				r.Undecided(rule, fmt.Sprintf("%s:last-key-lookup(%s)", f.Name(), g.Name()), c.InstrPos(call), "table not reconstructed")
				continue
			}
			nBare := 0
			for _, k := range obj.Keys {
				if !strings.HasPrefix(k, "$") {
					nBare++
				}
			}
			if nBare == 0 {
				r.OK(rule, fmt.Sprintf("%s:last-key-lookup(%s)", f.Name(), g.Name()), c.InstrPos(call), fmt.Sprintf("%d top-level keys, all '$'-prefixed: no user field can have the spelling of one", len(obj.Keys)))
				continue
			}
			var en []*ssa.Parameter
			for _, a := range p.atomsAt(call.Block()) {
				if a.Kind == "param" && a.Pol {
					if prm, ok := a.Src.(*ssa.Parameter); ok {
						en = append(en, prm)
					}
				}
			}
			if len(en) == 0 {
				r.Bad(rule, fmt.Sprintf("%s:last-key-lookup(%s)", f.Name(), g.Name()), c.InstrPos(call),
					fmt.Sprintf("%s (%d keys without '$') is asked about the last key alone on every call, whatever the position: user fields of those names are taken for operators", g.Name(), nBare))
				continue
			}
			for _, prm := range en {
				flags[prm] = true
			}
			vocab = append(vocab, fmt.Sprintf("%s in %s under %s", g.Name(), f.Name(), en[0].Name()))
			r.OK(rule, fmt.Sprintf("%s:last-key-lookup(%s)", f.Name(), g.Name()), c.InstrPos(call), fmt.Sprintf("%d keys without '$'; consulted only under parameter %s", nBare, en[0].Name()))
		}
	}
	r.Analysed["vocabulary_lookups_by_last_key"] = vocab
	// 2. parameters that are handed on as such a parameter
	for changed := true; changed; {
		changed = false
		for _, f := range fns {
			allInstrs(f, func(i ssa.Instruction) {
				cc := callCommonOf(i)
				if cc == nil {
					return
				}
				g := c.staticPkgCallee(cc)
				if g == nil {
					return
				}
				for k, a := range cc.Args {
					if k < len(g.Params) && flags[g.Params[k]] {
						if q, ok := a.(*ssa.Parameter); ok && !flags[q] {
							flags[q] = true
							changed = true
						}
					}
				}
			})
		}
	}
	if len(flags) == 0 {
		return
	}
	sw := c.stageWalkerFn()
	if sw == nil {
		r.Undecided(rule, "<stage-walker>", "-", "stage walker not found")
		return
	}
	// 3. the listed positions
	for _, pos := range userDocumentPositions {
		name := pos[0] + ":" + strings.Join(pos[1:], ".")
		construct := "table:" + name + ":user-document-position"
		v, ok := t.Lookup(pos[0], pos[1:]...)
		if !ok || v.Kind != "leaf" {
			r.Trivial(rule, construct, "src/operators.go", "position absent from the tables (unknown keys below the stage are walked as data)")
			continue
		}
		typ := t.LeafName(v)
		// the arm of the stage walker for this type
		nCalls, nArm := 0, 0
		var bad []string
		for _, b := range sw.Blocks {
			inArm := false
			for _, a := range p.atomsAt(b) {
				if a.Kind == "tbl" && a.Pol && a.Name == typ {
					inArm = true
				}
			}
			if !inArm {
				continue
			}
			nArm++
			for _, in := range b.Instrs {
				cc := callCommonOf(in)
				if cc == nil {
					continue
				}
				g := c.staticPkgCallee(cc)
				if g == nil || !p.Zone[g] {
					continue
				}
				for k, a := range cc.Args {
					if k < len(g.Params) && flags[g.Params[k]] {
						nCalls++
						if cst, ok := a.(*ssa.Const); !ok || cst.Value == nil || cst.Value.String() != "false" {
							bad = append(bad, fmt.Sprintf("%s: %s receives %s for %s", c.InstrPos(in), g.Name(), describeArg(a), g.Params[k].Name()))
						}
					}
				}
			}
		}
		// every table-type dispatch of the stage walker (the typed entry of the key itself, the
		// typed members of a stage's own sub-map) needs the arm
		subjects := map[ssa.Value]map[string]bool{}
		for _, b := range sw.Blocks {
			for _, a := range p.atomsAt(b) {
				if a.Kind == "tbl" && a.Pol && a.X != nil {
					if subjects[a.X] == nil {
						subjects[a.X] = map[string]bool{}
					}
					subjects[a.X][a.Name] = true
				}
			}
		}
		nDispatch := 0
		for x, names := range subjects {
			if len(names) < 2 {
				continue
			}
			nDispatch++
			if !names[typ] {
				pos := "-"
				if in, ok := x.(ssa.Instruction); ok {
					pos = c.InstrPos(in)
				}
				bad = append(bad, fmt.Sprintf("the type dispatch on %s at %s has no arm for %s: there the document is walked with the search vocabulary", x.Name(), pos, typ))
			}
		}
		sort.Strings(bad)
		r.Analysed["stage_walker_type_dispatches"] = nDispatch
		switch {
		case nArm == 0:
			r.Bad(rule, construct, "src/operators.go", fmt.Sprintf("%s is typed %s, which has no arm of its own in the stage walker: the document is walked with the search vocabulary, so a user field called numBuckets, text, range, near ... is taken for that operator and its value (or its members score, fuzzy, slop ...) is kept in clear", name, typ))
		case len(bad) > 0:
			r.Bad(rule, construct, "src/operators.go", fmt.Sprintf("%s is typed %s, whose arm keeps the search vocabulary switched on: %s", name, typ, strings.Join(bad, "; ")))
		case nCalls == 0:
			r.Bad(rule, construct, "src/operators.go", fmt.Sprintf("%s is typed %s, whose arm calls no walker: the document is not redacted", name, typ))
		default:
			r.OK(rule, construct, "src/operators.go", fmt.Sprintf("typed %s: its arm hands the document to %d walker call(s) with the vocabulary parameter constant false", typ, nCalls))
		}
	}
}

// elemFieldLoad: v is a load of field `Key` / `Value` of an ordered-map element -> (element value, field name).
func elemFieldLoad(v ssa.Value) (ssa.Value, string, bool) {
	ld, ok := v.(*ssa.UnOp)
	if !ok || ld.Op != token.MUL {
		return nil, "", false
	}
	fa, ok := ld.X.(*ssa.FieldAddr)
	if !ok {
		return nil, "", false
	}
	name, ok := elemFieldName(fa)
	if !ok {
		return nil, "", false
	}
	return fa.X, name, true
}

// memberOfIteration: v is (a type assertion of) el.Value where el is the element of a
// Front / Next loop over document m: the member m[el.Key]. Returns m and the element.
func memberOfIteration(fn *ssa.Function, v ssa.Value) (m ssa.Value, el ssa.Value, ok bool) {
	for depth := 0; depth < 6; depth++ {
		switch x := v.(type) {
		case *ssa.Extract:
			ta, isTA := x.Tuple.(*ssa.TypeAssert)
			if !isTA {
				return nil, nil, false
			}
			v = ta.X
		case *ssa.TypeAssert:
			v = x.X
		case *ssa.MakeInterface:
			v = x.X
		case *ssa.ChangeInterface:
			v = x.X
		case *ssa.Phi:
			a := phiAlias[x]
			if a == nil {
				return nil, nil, false
			}
			v = a
		default:
			e, name, isLoad := elemFieldLoad(v)
			if !isLoad || name != "Value" {
				return nil, nil, false
			}
			for _, l := range iterLoops(fn) {
				if l.Kind == "omap" && l.Elem == e {
					return l.Coll, e, true
				}
			}
			return nil, nil, false
		}
	}
	return nil, nil, false
}

// keysAt: the constant keys that the key value kv is known to be one of at block b: a
// constant itself, or the Key of a loop element under `key == "a"` / `case "a", "b":` tests.
func (p *Prov) keysAt(kv ssa.Value, b *ssa.BasicBlock) []string {
	if s, ok := constString(kv); ok {
		return []string{s}
	}
	e, name, ok := elemFieldLoad(peel(kv))
	if !ok || name != "Key" {
		return nil
	}
	same := func(x ssa.Value) bool {
		e2, n2, ok2 := elemFieldLoad(peel(x))
		return ok2 && n2 == "Key" && e2 == e
	}
	var best []string
	for _, a := range p.atomsAt(b) {
		if !a.Pol || a.X == nil || !same(a.X) {
			continue
		}
		switch a.Kind {
		case "strconst":
			return []string{a.Name}
		case "inset":
			if best == nil || len(a.Set) < len(best) {
				best = a.Set
			}
		}
	}
	return best
}

// memberKeys: v is the member cmd[K] of document recv - read with Get(recv, "K"), or as
// el.Value while passing over recv's members under tests that fix el.Key to a set of names.
func (p *Prov) memberKeys(fn *ssa.Function, v ssa.Value, at *ssa.BasicBlock) (recv ssa.Value, keys []string, ok bool) {
	if rv, kv, okG := getKeyValueOf(v); okG {
		if s, isC := constString(kv); isC {
			return peel(rv), []string{s}, true
		}
	}
	m, e, okM := memberOfIteration(fn, v)
	if !okM || e.Referrers() == nil {
		return nil, nil, false
	}
	for _, in := range *e.Referrers() {
		fa, isFA := in.(*ssa.FieldAddr)
		if !isFA || fa.Referrers() == nil {
			continue
		}
		if name, okN := elemFieldName(fa); !okN || name != "Key" {
			continue
		}
		for _, ld := range *fa.Referrers() {
			if lv, isV := ld.(ssa.Value); isV {
				if ks := p.keysAt(lv, at); len(ks) > 0 {
					return peel(m), ks, true
				}
			}
		}
	}
	return nil, nil, false
}


// operatorMapDescentRule (C01-R4): an OperatorMap position (facet.facets, ...) holds a
// document keyed by names the client chooses; the table that describes one such member
// (OperatorMapDefs[...]: type, path, numBuckets ...) applies one level BELOW the chosen name.
// In the table lookup the descent into that definition table must therefore be conditional on
// a name really having been cut out of the path (the path minus the arbitrary key is shorter
// than the path). A guard on the remainder after the map key is no guard - that remainder is
// always shorter - and the definition table then answers for the map key itself: a facet the
// client called `type` or `numBuckets` is taken for that option and passed through verbatim.
func operatorMapDescentRule(c *Ctx, r *Report, rule string) {
	p := c.prov()
	// functions returning a suffix of their slice parameter (the "everything after the marker" helper)
	suffixFn := map[*ssa.Function]bool{}
	for _, f := range c.SortedFuncs() {
		if len(f.Params) == 0 || !isStringSlice(f.Params[0].Type()) {
			continue
		}
		allInstrs(f, func(i ssa.Instruction) {
			ret, ok := i.(*ssa.Return)
			if !ok {
				return
			}
			for _, res := range ret.Results {
				for _, vs := range sourcesAt(res, ret.Block()) {
					if sl, ok := peel(vs.Val).(*ssa.Slice); ok && peel(sl.X) == ssa.Value(f.Params[0]) && sl.Low != nil && sl.High == nil {
						suffixFn[f] = true
					}
				}
			}
		})
	}
	n := 0
	for _, f := range c.SortedFuncs() {
		if !p.Scope[f] && !p.Zone[f] {
			continue
		}
		for _, rc := range callsIn(f, func(k string, cc *ssa.Call) bool { return cc.Call.StaticCallee() == f }) {
			// a recursive lookup whose table argument is read from a definitions table by a key
			var defs *ssa.Global
			for _, a := range rc.Call.Args {
				if !isOrderedMapPtr(a.Type()) {
					continue
				}
				for _, vs := range sourcesAt(a, rc.Block()) {
					v := peel(vs.Val)
					if ex, ok := v.(*ssa.Extract); ok {
						if ta, ok := ex.Tuple.(*ssa.TypeAssert); ok {
							v = peel(ta.X)
						}
					}
					if ex, ok := v.(*ssa.Extract); ok {
						if gc, ok := ex.Tuple.(*ssa.Call); ok && calleeKey(&gc.Call) == omMethod("Get") {
							if ld, ok := gc.Call.Args[0].(*ssa.UnOp); ok {
								if g, ok := ld.X.(*ssa.Global); ok && g.Pkg == c.SPkg {
									defs = g
								}
							}
						}
					}
				}
			}
			if defs == nil {
				continue
			}
			n++
			// the guard: a length comparison against the path parameter
			var pathPrm *ssa.Parameter
			for _, prm := range f.Params {
				if isStringSlice(prm.Type()) {
					pathPrm = prm
				}
			}
			okGuard, why := false, "the descent into the definition table is not guarded by a length comparison with the path"
			for _, fc := range allFacts(rc.Block()) {
				bo, ok := fc.Cond.(*ssa.BinOp)
				if !ok {
					continue
				}
				// the index form: `at := slices.Index(path, marker); at+1 < len(path)` - an element
				// (the client-chosen name) follows the marker
				if fc.Pol && bo.Op == token.LSS {
					if add, isAdd := peel(bo.X).(*ssa.BinOp); isAdd && add.Op == token.ADD {
						if one, isC := constInt(add.Y); isC && one == 1 {
							if ic, isCall := peel(add.X).(*ssa.Call); isCall && strings.HasPrefix(calleeKey(&ic.Call), "slices.Index") && len(ic.Call.Args) == 2 && peel(ic.Call.Args[0]) == ssa.Value(pathPrm) {
								if lc, isLen := peel(bo.Y).(*ssa.Call); isLen && calleeKey(&lc.Call) == "builtin len" && peel(lc.Call.Args[0]) == ssa.Value(pathPrm) {
									okGuard = true
									continue
								}
							}
						}
					}
				}
				lenOf := func(v ssa.Value) ssa.Value {
					if lc, ok := v.(*ssa.Call); ok && calleeKey(&lc.Call) == "builtin len" {
						return lc.Call.Args[0]
					}
					return nil
				}
				a, b := lenOf(bo.X), lenOf(bo.Y)
				if a == nil || b == nil {
					continue
				}
				other := a
				pathOnLeft := false
				if peel(a) == ssa.Value(pathPrm) {
					other = b
					pathOnLeft = true
				} else if peel(b) != ssa.Value(pathPrm) {
					continue
				}
				// "shorter than the path", strictly: len(x) < len(path) (or len(path) > len(x)) holds
				op := bo.Op
				if !fc.Pol {
					switch op {
					case token.LSS:
						op = token.GEQ
					case token.GEQ:
						op = token.LSS
					case token.GTR:
						op = token.LEQ
					case token.LEQ:
						op = token.GTR
					}
				}
				strict := (!pathOnLeft && op == token.LSS) || (pathOnLeft && op == token.GTR) || op == token.NEQ
				if !strict {
					why = "the length comparison that guards the descent is not strict (it also holds when nothing was cut out of the path)"
					continue
				}
				vacuous := false
				for _, vs := range sourcesAt(other, rc.Block()) {
					if call, ok := peel(vs.Val).(*ssa.Call); ok {
						if g := c.staticPkgCallee(&call.Call); g != nil && suffixFn[g] {
							vacuous = true
						}
					}
				}
				if vacuous {
					why = "the guard compares the path with the remainder after the map key, which is always shorter: the definition table of the map's members answers for the map key itself, so a member the client named like one of its options (a facet called type / numBuckets) is passed through verbatim"
				} else {
					okGuard = true
				}
			}
			r.Check(okGuard, rule, fmt.Sprintf("%s:definition-table-applies-below-the-chosen-name(%s)", f.Name(), defs.Name()), c.InstrPos(rc),
				"the definition table of an OperatorMap position is entered only when a client-chosen name was cut out of the path", why)
		}
	}
	r.Analysed["operator_map_descents"] = n
}

func allIn(xs, set []string) bool {
	for _, x := range xs {
		if !slices.Contains(set, x) {
			return false
		}
	}
	return true
}

// lookupFaithfulRule (C01-R4): the table lookup - the function that takes a key path and
// answers (entry, found) - may only answer "found" with what the table holds at the END of the
// path it was given: the value of the last member read (or the answer of a lookup it delegates
// to). An answer made up inside the lookup (a classification constant, a package-level value),
// or the value read at a proper prefix of the path returned from inside the path loop, gives a
// position below a scalar table entry the classification of its ancestor: every operator the
// tables do not know below a FieldName / Exempt / Namespace position inherits "keep as it is",
// and its literal operands are emitted unredacted.
func lookupFaithfulRule(c *Ctx, r *Report, rule string) {
	p := c.prov()
	n := 0
	for _, f := range c.SortedFuncs() {
		if !p.Zone[f] && !p.Scope[f] {
			continue
		}
		res := f.Signature.Results()
		if res.Len() != 2 || !isEmptyInterface(res.At(0).Type()) || !isBoolType(res.At(1).Type()) {
			continue
		}
		var pathPrm, tablePrm *ssa.Parameter
		for _, prm := range f.Params {
			if isStringSliceT(prm.Type()) {
				pathPrm = prm
			}
			if isOrderedMapPtr(prm.Type()) {
				tablePrm = prm
			}
		}
		if pathPrm == nil {
			continue
		}
		inLoop := map[*ssa.BasicBlock]bool{}
		for _, l := range naturalLoops(f) {
			for b := range l.Region() {
				inLoop[b] = true
			}
		}
		allInstrs(f, func(i ssa.Instruction) {
			ret, ok := i.(*ssa.Return)
			if !ok || len(ret.Results) != 2 {
				return
			}
			if b, isC := constBool(ret.Results[1]); isC && !b {
				// "not found": must not carry an entry that a lookup did find
				for _, vs := range sourcesAt(ret.Results[0], ret.Block()) {
					v := peel(vs.Val)
					if ex, isEx := v.(*ssa.Extract); isEx && ex.Index == 0 {
						if call, isCall := ex.Tuple.(*ssa.Call); isCall {
							k := calleeKey(&call.Call)
							g := c.staticPkgCallee(&call.Call)
							if k == omMethod("Get") || (g != nil && g.Signature.Results().Len() == 2 && isBoolType(g.Signature.Results().At(1).Type())) {
								n++
								r.Bad(rule, fmt.Sprintf("%s:found-entry-dropped#%d", f.Name(), n), c.InstrPos(ret),
									"the lookup hands the entry it read back as \"not found\": the walkers then treat a classified position (Exempt, FieldName, Namespace, a search operator) as unknown - what the tables keep is redacted, what they redact by class is treated as user data")
							}
						}
					}
				}
				return
			}
			n++
			construct := fmt.Sprintf("%s:found-answer#%d", f.Name(), n)
			var problems []string
			kinds := map[string]bool{}
			for _, vs := range sourcesAt(ret.Results[0], ret.Block()) {
				v := peel(vs.Val)
				for {
					switch x := v.(type) {
					case *ssa.MakeInterface:
						v = peel(x.X)
						continue
					case *ssa.ChangeInterface:
						v = peel(x.X)
						continue
					}
					break
				}
				if isNilConst(v) {
					// "found" with nothing: only behind the `current != nil` test after the loop
					if fb, isC := constBool(ret.Results[1]); isC && fb {
						problems = append(problems, "answers \"found\" with a nil entry")
					}
					continue
				}
				if tablePrm != nil && v == ssa.Value(tablePrm) {
					kinds["the table itself (empty path)"] = true
					continue
				}
				if ex, isEx := v.(*ssa.Extract); isEx && ex.Index == 0 {
					if call, isCall := ex.Tuple.(*ssa.Call); isCall {
						// the value of a lookup counts only where that lookup said "found"
						if foundEx := extractOf(call, 1); foundEx != nil && vs.At != nil {
							saidNo := false
							fs := allFacts(vs.At)
							if vs.To != nil {
								if ifi, okI := vs.At.Instrs[len(vs.At.Instrs)-1].(*ssa.If); okI && vs.At.Succs[0] != vs.At.Succs[1] {
									fs = append(fs, Fact{ifi.Cond, vs.At.Succs[0] == vs.To, ifi})
								}
							}
							for _, ft := range fs {
								if peel(ft.Cond) == ssa.Value(foundEx) && !ft.Pol {
									saidNo = true
								}
							}
							if saidNo {
								problems = append(problems, "answers \"found\" with the value of a lookup that did not find")
							}
						}
						k := calleeKey(&call.Call)
						if k == omMethod("Get") {
							kinds["member read from the table"] = true
							cutAtMap := false
							for _, a := range p.atomsAt(ret.Block()) {
								if a.Kind == "tbl" && a.Pol && a.Name == "OperatorMap" {
									cutAtMap = true // the one position where the tables end a path early: a map of client-named members
								}
							}
							if inLoop[ret.Block()] && !cutAtMap {
								problems = append(problems, "the value read at a proper prefix of the path is returned from inside the path loop")
							}
							continue
						}
						if g := c.staticPkgCallee(&call.Call); g != nil {
							gr := g.Signature.Results()
							if gr.Len() == 2 && isEmptyInterface(gr.At(0).Type()) && isBoolType(gr.At(1).Type()) {
								kinds["answer of the lookup it delegates to"] = true
								continue
							}
						}
					}
				}
				if cst, isConst := v.(*ssa.Const); isConst {
					// a classification constant is the table's entry where the entry read was just
					// found equal to it (`if current == OperatorMap { ... return OperatorMap, true }`),
					// here or at every call site of this helper
					t := c.reconstructTables()
					name := ""
					if iv, okI := constInt(cst); okI {
						name = t.EnumName[iv]
					}
					holds := func(b *ssa.BasicBlock) bool {
						for _, a := range p.atomsAt(b) {
							if a.Kind == "tbl" && a.Pol && a.Name == name && name != "" {
								return true
							}
						}
						return false
					}
					okConst := holds(ret.Block())
					if !okConst {
						cs := c.callersOf(f)
						okConst = len(cs) > 0
						for _, cl := range cs {
							if !holds(cl.Block()) {
								okConst = false
							}
						}
					}
					// (inside the path loop only the OperatorMap cut ends a lookup early: a FieldName /
					// Exempt leaf met before the path is exhausted is "not found", whatever it equals)
					if okConst && (name == "OperatorMap" || !inLoop[ret.Block()]) {
						kinds["the classification the entry was just found to be ("+name+")"] = true
						continue
					}
					problems = append(problems, fmt.Sprintf("answers with the constant %s instead of the table's entry", cst.String()))
					continue
				}
				problems = append(problems, fmt.Sprintf("answers with %s, which is not read from the table at the path", v.String()))
			}
			var ks []string
			for k := range kinds {
				ks = append(ks, k)
			}
			sort.Strings(ks)
			r.Check(len(problems) == 0, rule, construct, c.InstrPos(ret),
				"a found answer is "+strings.Join(ks, " / "),
				"the table lookup makes up an answer: "+strings.Join(problems, "; ")+" - positions below a scalar table entry inherit its classification, so operators the tables do not list there are kept with their literal operands")
		})
	}
	r.Analysed["lookup_found_answers"] = n
	if n == 0 {
		r.Undecided(rule, "lookup:found-answers", "-", "no table lookup function (key path, table) -> (entry, found) with a found answer")
	}
}
