package main

import (
	"regexp/syntax"
	"fmt"
	"go/token"
	"go/types"
	"sort"
	"strings"

	"golang.org/x/tools/go/ssa"
)

func init() {
	register(&propDef{
		ID:          "C02",
		Run:         ruleC02,
		Explanation: "Decides absence of explicit and implicit flows from a sensitive leaf to the output in placeholder mode, inside the package (structural necessary condition of the two-run hyperproperty C02). Taint = every SSA value of the walker functions whose provenance is the parsed line (IN). (R1) every use of a tainted value is one of an enumerated set: type tests, nil tests, traversal of containers (iteration, element access, len of a container), the leading-'$' test (len compared with 0, byte 0 compared with '$'), handing the value on to a walker / the scalar step / the string choke point / the e-mail classifier, storing it into an output container or returning it (a raw pass-through, judged by C01-R2), pseudonymising or looking up a string that is a '$' field path or sits in a FieldName / Namespace position (not a sensitive literal by the statement), conversion to bytes only for the encryption call, and anything dominated by the selective-mode or encrypt-mode switch (outside C02). Any other use - length, slicing, indexing, hashing, formatting, comparison with a constant or with another value, use as a map key, storing into package state, appending to a key path - is reported with the instruction; because branch conditions are computed by such uses this also covers implicit flows; inside the e-mail classifier only length bounds against constants and the compiled constant pattern may look at the value, and its verdict is used only as a branch condition. (R2) the key-context classes take precedence: no call of the e-mail classifier can reach a return that yields a $date / $oid / $binary placeholder. (R3) every non-raw result of the scalar step is a constant, the replacement text, or the choke point applied to one of those. (R4) the pseudonym side table is write-only. NOT decided: flows through the standard library (that json.Marshal of a constant is constant), timing.",
		RuleText:    "obligations = (instruction, tainted operand) pairs of the walker functions classified against the allowed-use table with guard atoms; classifier body; class-precedence path query; non-raw returns of the scalar step; side-table uses",
	})
}

// stringLike: static type string or []byte.
func isByteSlice(t types.Type) bool {
	s, ok := t.Underlying().(*types.Slice)
	if !ok {
		return false
	}
	b, ok := s.Elem().Underlying().(*types.Basic)
	return ok && b.Kind() == types.Byte
}

func isStringSliceT(t types.Type) bool {
	s, ok := t.Underlying().(*types.Slice)
	if !ok {
		return false
	}
	return isStringType(s.Elem())
}

func ruleC02(c *Ctx, r *Report) {
	p := c.prov()
	for _, pr := range p.Problems {
		r.Undecided("C02-anchor", "prov", "-", pr)
	}
	if len(p.Problems) > 0 {
		return
	}
	ph := c.placeholders(p)
	hn := c.Fn("HashName")
	enc := c.Fn("Encrypt")
	emailFn := c.Fn("IsEmail")
	if ph.scalarFn == nil || ph.choke == nil || hn == nil || emailFn == nil {
		r.Undecided("C02-anchor", "scalar-step", "-", "scalar step / choke point / pseudonym function / e-mail classifier not found")
		return
	}
	var fns []*ssa.Function
	for f := range p.Zone {
		fns = append(fns, f)
	}
	sort.Slice(fns, func(i, j int) bool { return fnKey(fns[i]) < fnKey(fns[j]) })

	// table-lookup helpers (the operator lookup and what only it calls): they receive key
	// paths and return table entries; whether an input string may enter them is judged
	// at the call sites (only '$' field paths and FieldName / Namespace positions may)
	lookupFns := map[*ssa.Function]bool{}
	for f := range p.Zone {
		// by role: takes a key path ([]string), returns (table entry, found)
		res := f.Signature.Results()
		if res.Len() != 2 || !isEmptyInterface(res.At(0).Type()) || !isBoolType(res.At(1).Type()) {
			continue
		}
		hasPath := false
		for _, prm := range f.Params {
			if isStringSliceT(prm.Type()) {
				hasPath = true
			}
		}
		if hasPath {
			for g := range c.pkgReach(f) {
				lookupFns[g] = true
			}
		}
	}
	for g := range lookupFns {
		for idx := 0; idx < g.Signature.Results().Len(); idx++ {
			if outputCapable(g.Signature.Results().At(idx).Type()) && !isStringSliceT(g.Signature.Results().At(idx).Type()) {
				for _, b := range g.Blocks {
					if ret, ok := b.Instrs[len(b.Instrs)-1].(*ssa.Return); ok && idx < len(ret.Results) {
						if p.Of(ret.Results[idx])&oIN != 0 {
							r.Bad("C02-R1", g.Name()+":lookup-returns-input", c.InstrPos(ret), "a table-lookup helper hands an input value back to the walkers")
						}
					}
				}
			}
		}
	}

	// ---------------------------------------------------------------- R1 uses of tainted values
	r.Floor("C02-R1", 14, "accepted use kinds + classifier obligations (uses themselves are counted under tainted_uses, floor 120)")
	tainted := func(v ssa.Value) bool {
		if v == nil {
			return false
		}
		if _, isC := v.(*ssa.Const); isC {
			return false
		}
		return p.Org[v]&oIN != 0
	}
	nUses := 0
	kinds := map[string]int{}
	for _, f := range fns {
		if f == emailFn || p.Sanitizers[f] || lookupFns[f] {
			continue
		}
		allInstrs(f, func(i ssa.Instruction) {
			if _, isDbg := i.(*ssa.DebugRef); isDbg {
				return
			}
			for _, opp := range i.Operands(nil) {
				op := *opp
				if !tainted(op) {
					continue
				}
				nUses++
				kind, bad := classifyTaintUse(c, p, f, i, op, hn, enc, emailFn, ph, lookupFns)
				if bad == "" {
					kinds[kind]++
					continue
				}
				// outside C02: selective mode / encrypt mode
				out := ""
				for _, a := range p.atomsAt(i.Block()) {
					if a.Kind == "cfg" && a.Pol && (a.Name == "redactedFieldsRegexp!=nil" || a.Name == "shouldEncrypt") {
						out = a.String()
					}
				}
				if out != "" {
					kinds["outside-C02:"+out]++
					continue
				}
				construct := fmt.Sprintf("%s:use[%s]", f.Name(), kind)
				r.Bad("C02-R1", construct, c.InstrPos(i), bad)
			}
		})
	}
	var ks []string
	for k := range kinds {
		ks = append(ks, k)
	}
	sort.Strings(ks)
	for _, k := range ks {
		r.OK("C02-R1", "use-kind:"+k, "-", fmt.Sprintf("%d use(s) of input values of this accepted kind", kinds[k]))
	}
	r.Analysed["tainted_uses"] = nUses
	if nUses < 120 {
		r.Bad("C02-R1", "taint-floor", "-", fmt.Sprintf("only %d uses of input values found in the walkers (>=120 confirmed): provenance anchor lost", nUses))
	}

	// the e-mail classifier: only length bounds against constants and the compiled constant pattern
	{
		var bad []string
		prm := emailFn.Params[0]
		nClassUses := 0
		var visit func(v ssa.Value, depth int)
		visit = func(v ssa.Value, depth int) {
			for _, use := range referrers(v) {
				nClassUses++
				switch x := use.(type) {
				case *ssa.DebugRef:
				case *ssa.Call:
					k := calleeKey(&x.Call)
					switch {
					case k == "builtin len":
						for _, lu := range referrers(x) {
							bo, ok := lu.(*ssa.BinOp)
							if !ok {
								bad = append(bad, "len(value) used by "+lu.String())
								continue
							}
							other := bo.X
							if other == ssa.Value(x) {
								other = bo.Y
							}
							if _, isC := other.(*ssa.Const); !isC {
								bad = append(bad, "len(value) compared with a non-constant at "+c.InstrPos(lu))
							}
						}
					case k == "(*regexp.Regexp).MatchString":
						// receiver: a package-level regexp compiled from a constant pattern
						okRe := false
						if ld, ok := x.Call.Args[0].(*ssa.UnOp); ok {
							if g, ok := ld.X.(*ssa.Global); ok && g.Pkg == c.SPkg {
								okRe = true
							}
						}
						if !okRe {
							bad = append(bad, "matched against a pattern that is not a package-level constant regexp at "+c.InstrPos(use))
						}
					case requiredLiteralPrefilter(x, ph.emailPat):
						// `if strings.IndexByte(s, '@') < 0 { return false }`: a literal the pattern
						// cannot match without - the verdict is the pattern's
					default:
						bad = append(bad, "passed to "+shortKey(k)+" at "+c.InstrPos(use))
					}
				default:
					bad = append(bad, fmt.Sprintf("used by %T at %s", use, c.InstrPos(use)))
				}
			}
		}
		visit(prm, 0)
		sort.Strings(bad)
		r.Check(len(bad) == 0 && nClassUses > 0, "C02-R1", emailFn.Name()+":classifier-body", c.Pos(emailFn.Pos()),
			fmt.Sprintf("the e-mail classifier looks at the value only through length bounds against constants and the compiled pattern (%d uses)", nClassUses),
			"the class test derives more than the class from the value: "+strings.Join(bad, "; "))
		// its verdict is only a branch condition
		var vbad []string
		for _, call := range c.callersOf(emailFn) {
			for _, use := range referrers(call) {
				switch use.(type) {
				case *ssa.If, *ssa.DebugRef:
				default:
					vbad = append(vbad, fmt.Sprintf("verdict used by %T at %s", use, c.InstrPos(use)))
				}
			}
		}
		r.Check(len(vbad) == 0, "C02-R1", emailFn.Name()+":verdict-is-branch-only", c.Pos(emailFn.Pos()), "the classifier's verdict is used only as a branch condition", strings.Join(vbad, "; "))
	}

	// ---------------------------------------------------------------- R2 class precedence
	r.Floor("C02-R2", 1, "class precedence query")
	{
		wrapperConsts := map[string]bool{}
		for _, n := range []string{"RedactedISODate", "RedactedObjectId", "RedactedUUID"} {
			if s := ph.str(n); s != "" {
				wrapperConsts[s] = true
			}
		}
		var bad []string
		nWrapper := 0
		for _, call := range c.callersOf(emailFn) {
			if call.Parent() != ph.scalarFn {
				bad = append(bad, "the e-mail classifier is called outside the scalar step at "+c.InstrPos(call))
				continue
			}
			reach := reachableFrom(call.Block())
			allInstrs(ph.scalarFn, func(i ssa.Instruction) {
				ret, ok := i.(*ssa.Return)
				if !ok {
					return
				}
				v := peel(resolveLocal(ret.Results[0]))
				rc, ok := v.(*ssa.Call)
				if !ok || rc.Call.StaticCallee() != ph.choke {
					return
				}
				s, ok := constString(rc.Call.Args[1])
				if !ok || !wrapperConsts[s] {
					return
				}
				nWrapper++
				if reach[ret.Block()] {
					bad = append(bad, fmt.Sprintf("the return of the %q placeholder at %s can be reached after the e-mail test at %s", s, c.InstrPos(i), c.InstrPos(call)))
				}
			})
		}
		r.Check(len(bad) == 0 && nWrapper >= 3, "C02-R2", ph.scalarFn.Name()+":key-context-before-content", c.Pos(ph.scalarFn.Pos()),
			"the $date / $oid / $binary.base64 placeholders are chosen by key context before any test looks at the content: within those classes the output cannot depend on the secret",
			fmt.Sprintf("content-dependent choice inside a key-context class (wrapper returns found: %d): %s", nWrapper, strings.Join(bad, "; ")))
	}

	// ---------------------------------------------------------------- R3 constant placeholders
	constantPlaceholderRule(c, r, p, ph, "C02-R3")

	// ---------------------------------------------------------------- R4 write-only side table
	r.Floor("C02-R4", 1, "side table")
	if g := c.GlobalVar("RedactedFieldMapping"); g != nil {
		reads := c.sideTableReads(g)
		var where []string
		for _, rd := range reads {
			where = append(where, c.InstrPos(rd))
		}
		r.Check(len(reads) == 0, "C02-R4", "global:RedactedFieldMapping:write-only", "src/anonymizer.go", "the pseudonym side table is only written, never consulted", "the side table is read at "+strings.Join(where, ", ")+": earlier values can influence later output")
	} else {
		r.Trivial("C02-R4", "global:RedactedFieldMapping:absent", "-", "no pseudonym side table exists")
	}
}

// classifyTaintUse names the kind of use of tainted operand op by instruction i and
// returns a non-empty complaint when the use is not in the allowed table.
func classifyTaintUse(c *Ctx, p *Prov, f *ssa.Function, i ssa.Instruction, op ssa.Value, hn, enc, emailFn *ssa.Function, ph *placeholders, lookupFns map[*ssa.Function]bool) (string, string) {
	t := op.Type()
	isStr := isStringType(t)
	isContainer := isOrderedMapPtr(t) || isAnySlice(t) || isElementPtr(t)
	nonSensitiveString := func() (string, bool) {
		// a '$' field path, or a string in a FieldName / Namespace position
		root := rootOf(op)
		// a one-element path literal []string{s}: the subject is s
		roots := map[ssa.Value]bool{root: true, op: true}
		if isStringSliceT(op.Type()) {
			for _, e := range varargValues(op) {
				roots[e] = true
				roots[rootOf(e)] = true
			}
		}
		for _, a := range p.atomsAt(i.Block()) {
			switch {
			case a.Kind == "dollar" && a.Pol && (roots[rootOf(a.X)] || roots[a.X]):
				return "dollar", true
			case a.Kind == "tbl" && a.Pol && (a.Name == "FieldName" || a.Name == "Namespace"):
				return "tbl==" + a.Name, true
			}
		}
		return "", false
	}
	switch x := i.(type) {
	case *ssa.TypeAssert:
		return "type-test", ""
	case *ssa.MakeInterface, *ssa.ChangeInterface, *ssa.ChangeType, *ssa.Phi, *ssa.Extract:
		return "copy", ""
	case *ssa.FieldAddr, *ssa.Field:
		return "container-traversal", ""
	case *ssa.UnOp:
		if x.Op == token.MUL {
			return "load", ""
		}
		return "unop", fmt.Sprintf("input value is the operand of %s: its content decides a condition or a result", x.Op)
	case *ssa.Index:
		if isStr {
			if n, ok := constInt(x.Index); ok && n == 0 && onlyComparedWith(x, 36) {
				return "dollar-test", ""
			}
			return "string-index", "a byte of an input string is read for something other than the leading-'$' test"
		}
		return "container-traversal", ""
	case *ssa.IndexAddr:
		return "container-traversal", ""
	case *ssa.Lookup:
		if isStr {
			if n, ok := constInt(x.Index); ok && n == 0 && onlyComparedWith(x, 36) {
				return "dollar-test", ""
			}
			return "string-index", "a byte of an input string is read for something other than the leading-'$' test"
		}
		return "map-lookup", "an input value is used in a Go map lookup"
	case *ssa.Slice:
		if isStr || isByteSlice(t) {
			return "string-slice", "a substring of an input value is taken: a prefix / suffix of the secret can reach the output"
		}
		return "container-traversal", ""
	case *ssa.Range, *ssa.Next:
		if isStr {
			return "string-range", "an input string is iterated character by character"
		}
		return "container-traversal", ""
	case *ssa.Convert:
		if isStr && isByteSlice(x.Type()) {
			okAll := len(referrers(x)) > 0
			for _, u := range referrers(x) {
				if call, ok := u.(*ssa.Call); ok && (call.Call.StaticCallee() == enc || (enc == nil && false)) {
					continue
				}
				if _, ok := u.(*ssa.DebugRef); ok {
					continue
				}
				okAll = false
			}
			if okAll {
				return "bytes-for-encryption", ""
			}
		}
		return "convert", "an input value is converted (" + t.String() + " -> " + x.Type().String() + ") for something other than the encryption call"
	case *ssa.BinOp:
		if _, _, ok := nilCompare(x); ok {
			return "nil-test", ""
		}
		a := p.atomOf(x, true)
		if a.Kind == "dollar" {
			return "dollar-test", ""
		}
		// byte 0 compared with '$' through a temp
		if isStr || isEmptyInterface(t) {
			other := x.X
			if other == op {
				other = x.Y
			}
			if _, isC := other.(*ssa.Const); isC {
				return "compare-with-constant", "an input value is compared with a constant (" + x.String() + "): the outcome depends on the secret's content"
			}
			return "compare-values", "two values are compared (" + x.String() + "): whether two secrets are equal becomes observable"
		}
		if n, ok := constInt(x.Y); ok && n == 36 {
			return "dollar-test", ""
		}
		if n, ok := constInt(x.X); ok && n == 36 {
			return "dollar-test", ""
		}
		return "arithmetic", "an input value takes part in " + x.String()
	case *ssa.Store:
		if x.Val != op {
			return "store-address", ""
		}
		switch a := x.Addr.(type) {
		case *ssa.IndexAddr:
			if _, isArr := a.X.(*ssa.Alloc); isArr {
				return "literal-element", "" // flows on to the consumer of the literal / varargs
			}
			if isAnySlice(a.X.Type()) {
				return "output-store", ""
			}
		case *ssa.Alloc:
			return "local", ""
		}
		if g := globalRoot(x.Addr, 0); g != nil {
			return "global-store", "an input value is stored into package-level state (" + g.Name() + ")"
		}
		return "store", "an input value is stored somewhere other than an output container"
	case *ssa.MapUpdate:
		return "go-map-update", "an input value is used as key or value of a Go map (memoisation keyed by plaintext makes equality of secrets observable)"
	case *ssa.Return:
		return "return", ""
	case *ssa.If:
		return "branch-on-value", "an input value is itself a branch condition"
	case ssa.CallInstruction:
		cc := x.Common()
		k := calleeKey(cc)
		argIdx := -1
		for ai, a := range cc.Args {
			if a == op {
				argIdx = ai
			}
		}
		if k == "strings.HasPrefix" && argIdx == 0 {
			if s, ok := constString(cc.Args[1]); ok && s == "$" {
				return "dollar-test", ""
			}
		}
		switch k {
		case "builtin len", "builtin cap":
			if isStr {
				if call, ok := i.(*ssa.Call); ok && onlyComparedWith(call, 0) {
					return "non-empty-test", ""
				}
				return "string-length", "the length of an input string is used for more than the emptiness test guarding byte 0"
			}
			return "container-traversal", ""
		case "builtin append":
			if call, ok := i.(*ssa.Call); ok && isAnySlice(call.Type()) {
				return "output-store", ""
			}
			if call, ok := i.(*ssa.Call); ok && isStringSliceT(call.Type()) {
				if why, ok := nonSensitiveString(); ok {
					return "path-of-field-name(" + why + ")", ""
				}
				return "append-to-path", "an input string is appended to a key path (it then steers table lookups and the selective decision)"
			}
			return "append", "an input value is appended to " + i.(ssa.Value).Type().String()
		case omMethod("Set"):
			if argIdx == 1 {
				if why, ok := nonSensitiveString(); ok {
					return "key(" + why + ")", ""
				}
				return "value-as-key", "an input value becomes an object key of the output"
			}
			return "output-store", ""
		case omMethod("Get"), omMethod("Front"), omMethod("Back"), omMethod("Len"), omMethod("GetElement"), omMethod("Has"), omMethod("Keys"),
			omElemMethod("Next"), omElemMethod("Prev"):
			if argIdx == 0 {
				return "container-traversal", ""
			}
			if why, ok := nonSensitiveString(); ok {
				return "table-lookup(" + why + ")", ""
			}
			return "lookup-by-value", "an input value is used as a lookup key outside a '$' / field-name position"
		case omMethod("Delete"), omMethod("ReplaceKey"):
			return "container-mutation", "" // C04's concern
		}
		if callee := c.staticPkgCallee(cc); callee != nil {
			switch {
			case callee == hn:
				if why, ok := nonSensitiveString(); ok {
					return "pseudonymise(" + why + ")", ""
				}
				if why, ok := commandFieldNameValue(p, f, op, i.Block()); ok {
					return "pseudonymise(" + why + ")", ""
				}
				gs := renameGuards(p, p.atomsAt(i.Block()))
				if inh, all := p.fnGuards(f, 0); all {
					gs = append(gs, inh...)
				}
				for _, g := range gs {
					if g == "cfg(redactNamespaces)" {
						return "pseudonymise(namespace-bearing command key)", ""
					}
				}
				return "hash-of-value", "the pseudonym (a hash) of an input value that is neither a '$' field path nor in a FieldName / Namespace position is computed: a digest of the secret reaches the output"
			case callee == emailFn:
				return "class-test(e-mail)", ""
			case callee == ph.choke:
				if argIdx == 0 {
					return "to-choke-point", ""
				}
				return "value-as-placeholder", "an input value is passed as the placeholder operand of the string choke point"
			case lookupFns[callee]:
				if isStringSliceT(t) || isStr {
					if why, ok := nonSensitiveString(); ok {
						return "table-lookup(" + why + ")", ""
					}
					return "lookup-by-value", "an input value steers an operator-table lookup outside a '$' / field-name position"
				}
				return "to-walker", ""
			case p.Zone[callee]:
				if isStringSliceT(t) {
					if why, ok := nonSensitiveString(); ok {
						return "path-of-field-name(" + why + ")", ""
					}
					return "value-in-path", "a key path holding an input value is handed to " + callee.Name()
				}
				return "to-walker", ""
			case p.Scope[callee]:
				return "to-helper:" + callee.Name(), "an input value is handed to " + callee.Name() + ", which is not a walker, the scalar step, the choke point or a classifier"
			}
			return "to-package-fn:" + callee.Name(), "an input value is handed to " + callee.Name()
		}
		if isContainer && argIdx < 0 {
			return "container-traversal", ""
		}
		return "library:" + shortKey(k), "an input value is passed to " + shortKey(k) + ": a derivative of the secret (length, hash, formatted text, comparison result) becomes available"
	}
	return fmt.Sprintf("%T", i), fmt.Sprintf("unrecognised use of an input value by %T", i)
}

func isElementPtr(t types.Type) bool {
	pt, ok := t.Underlying().(*types.Pointer)
	if !ok {
		return false
	}
	n, ok := pt.Elem().(*types.Named)
	return ok && n.Obj().Pkg() != nil && n.Obj().Pkg().Path() == omPkg && n.Obj().Name() == "Element"
}

// onlyComparedWith: every use of v is a comparison with the integer constant n.
func onlyComparedWith(v ssa.Value, n int64) bool {
	refs := referrers(v)
	if len(refs) == 0 {
		return false
	}
	for _, u := range refs {
		if _, ok := u.(*ssa.DebugRef); ok {
			continue
		}
		bo, ok := u.(*ssa.BinOp)
		if !ok {
			return false
		}
		switch bo.Op {
		case token.EQL, token.NEQ, token.GTR, token.LSS, token.GEQ, token.LEQ:
		default:
			return false
		}
		other := bo.X
		if other == v {
			other = bo.Y
		}
		m, ok := constInt(other)
		if !ok || m != n {
			return false
		}
	}
	return true
}

// requiredLiteralPrefilter: call is strings.IndexByte / IndexRune / Index / Contains /
// ContainsRune(value, <constant needle>), the needle occurs in every string the pattern matches
// (a literal of every alternative at the top level of the parsed expression), and the only thing
// the result does is send the "needle absent" case to `return false`.
func requiredLiteralPrefilter(call *ssa.Call, pattern string) bool {
	k := calleeKey(&call.Call)
	if len(call.Call.Args) != 2 || pattern == "" {
		return false
	}
	needle := ""
	switch k {
	case "strings.IndexByte", "strings.IndexRune", "strings.ContainsRune":
		n, ok := constInt(call.Call.Args[1])
		if !ok {
			return false
		}
		needle = string(rune(n))
	case "strings.Index", "strings.Contains":
		sv, ok := constString(call.Call.Args[1])
		if !ok || sv == "" {
			return false
		}
		needle = sv
	default:
		return false
	}
	re, err := syntax.Parse(pattern, syntax.Perl)
	if err != nil || !patternRequires(re.Simplify(), needle) {
		return false
	}
	isBool := k == "strings.Contains" || k == "strings.ContainsRune"
	returnsFalse := func(b *ssa.BasicBlock) bool {
		if len(b.Instrs) == 0 {
			return false
		}
		ret, ok := b.Instrs[len(b.Instrs)-1].(*ssa.Return)
		if !ok || len(ret.Results) != 1 || len(b.Instrs) > 2 {
			return false
		}
		v, isC := constBool(ret.Results[0])
		return isC && !v
	}
	// absentOn: for a boolean value, which truth value means "needle absent"
	var okUse func(v ssa.Value, absentWhen bool) bool
	okUse = func(v ssa.Value, absentWhen bool) bool {
		for _, use := range referrers(v) {
			switch x := use.(type) {
			case *ssa.DebugRef:
			case *ssa.UnOp:
				if x.Op != token.NOT || !okUse(x, !absentWhen) {
					return false
				}
			case *ssa.If:
				succ := x.Block().Succs[0]
				if !absentWhen {
					succ = x.Block().Succs[1]
				}
				if !returnsFalse(succ) {
					return false
				}
			default:
				return false
			}
		}
		return true
	}
	if isBool {
		return okUse(call, false)
	}
	for _, use := range referrers(call) {
		if _, isDbg := use.(*ssa.DebugRef); isDbg {
			continue
		}
		bo, ok := use.(*ssa.BinOp)
		if !ok || bo.X != ssa.Value(call) {
			return false
		}
		n, isC := constInt(bo.Y)
		if !isC {
			return false
		}
		switch {
		case (bo.Op == token.LSS && n == 0) || (bo.Op == token.EQL && n == -1) || (bo.Op == token.LEQ && n == -1):
			if !okUse(bo, true) {
				return false
			}
		case (bo.Op == token.GEQ && n == 0) || (bo.Op == token.NEQ && n == -1) || (bo.Op == token.GTR && n == -1):
			if !okUse(bo, false) {
				return false
			}
		default:
			return false
		}
	}
	return true
}

// patternRequires: every match of re contains needle - decided on the top-level structure only:
// a literal containing it in a concatenation, in every branch of an alternation, under a
// capture, or under a repetition with a minimum of at least one.
func patternRequires(re *syntax.Regexp, needle string) bool {
	switch re.Op {
	case syntax.OpLiteral:
		if re.Flags&syntax.FoldCase != 0 {
			return false
		}
		return strings.Contains(string(re.Rune), needle)
	case syntax.OpConcat:
		for _, sub := range re.Sub {
			if patternRequires(sub, needle) {
				return true
			}
		}
		return false
	case syntax.OpAlternate:
		for _, sub := range re.Sub {
			if !patternRequires(sub, needle) {
				return false
			}
		}
		return len(re.Sub) > 0
	case syntax.OpCapture, syntax.OpPlus:
		return patternRequires(re.Sub[0], needle)
	case syntax.OpRepeat:
		return re.Min >= 1 && patternRequires(re.Sub[0], needle)
	}
	return false
}

// commandFieldNameValues: members of a command document whose string VALUE is a field name, and
// the verb the command must carry for that to be so (the grammar fixes it, like the FieldName
// positions of the stage tables): distinct.key.
var commandFieldNameValues = map[string]string{"key": "distinct"}

// commandFieldNameValue: v is cmd[<k>] read in the command walker for a k of the table above, at
// a block where cmd[<verb>] was found present.
func commandFieldNameValue(p *Prov, f *ssa.Function, v ssa.Value, at *ssa.BasicBlock) (string, bool) {
	cmdFn := p.cmdWalker()
	if cmdFn == nil || f != cmdFn {
		return "", false
	}
	rv, kv, ok := getKeyValueOf(peel(v))
	if !ok || peel(rv) != ssa.Value(cmdFn.Params[0]) {
		return "", false
	}
	k, isC := constString(kv)
	verb, has := commandFieldNameValues[k]
	if !isC || !has {
		return "", false
	}
	for _, ft := range allFacts(at) {
		ex, isEx := peel(ft.Cond).(*ssa.Extract)
		if !isEx || ex.Index != 1 || !ft.Pol {
			continue
		}
		gc, isCall := ex.Tuple.(*ssa.Call)
		if !isCall || calleeKey(&gc.Call) != omMethod("Get") || peel(gc.Call.Args[0]) != ssa.Value(cmdFn.Params[0]) {
			continue
		}
		if vk, isK := constString(gc.Call.Args[1]); isK && vk == verb {
			return "the field named by " + verb + "." + k, true
		}
	}
	return "", false
}
