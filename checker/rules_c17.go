package main

import (
	"fmt"
	"go/token"
	"strings"

	"golang.org/x/tools/go/ssa"
)

func init() {
	register(&propDef{
		ID:          "C17",
		Run:         ruleC17,
		Explanation: "Decides the acquire/release pairing of the downloaded temp files on every control-flow exit (structural necessary condition of C17): after a successful os.CreateTemp every error return of the per-host download removes that file; every error return of the host loop deletes the files downloaded so far; in the redact command every path from a successful download to the closure's return is covered by a registered defer that deletes the files and every path to os.Exit passes a direct delete call (defers do not run on os.Exit - modelled); the delete helper removes every element and never stops early; no other file-creating call is reachable from the download. a defer registered before the host loop deletes the files downloaded so far while a panic unwinds through the download function. NOT decided: signals/SIGKILL, panics that do not unwind through the download function or the command closure, OS temp-dir semantics.",
		RuleText:    "obligations = CreateTemp sites, error returns in the host loop, exits/returns reachable after the download's err==nil edge, the delete loop, file-creating calls reachable from the download; discharged by CFG must-pass-through queries with defer modelling",
	})
}

var fileCreators = map[string]bool{
	"os.Create": true, "os.OpenFile": true, "os.WriteFile": true, "os.CreateTemp": true, "os.MkdirTemp": true,
	"os.Mkdir": true, "os.MkdirAll": true, "os.Rename": true, "os.Link": true, "os.Symlink": true,
	"io/ioutil.WriteFile": true, "io/ioutil.TempFile": true, "io/ioutil.TempDir": true,
}

type atlasAnchors struct {
	perHost  *ssa.Function // calls os.CreateTemp
	download *ssa.Function // calls perHost in a loop
	del      *ssa.Function // loops over a []string parameter calling os.Remove
	info     *ssa.Function // other function doing client.Do
}

func (c *Ctx) atlasAnchors(r *Report, rule string) *atlasAnchors {
	a := &atlasAnchors{}
	for _, f := range c.SortedFuncs() {
		if hasCallTo(f, "os.CreateTemp") {
			if a.perHost != nil {
				r.Undecided(rule, "anchor:perHost", c.Pos(f.Pos()), "more than one function calls os.CreateTemp")
			}
			a.perHost = f
		}
	}
	if a.perHost == nil {
		r.Undecided(rule, "anchor:perHost", "-", "no function calls os.CreateTemp (download path restructured)")
		return nil
	}
	for _, call := range c.callersOf(a.perHost) {
		a.download = call.Parent()
	}
	if a.download == nil {
		r.Undecided(rule, "anchor:download", "-", "per-host download has no caller")
		return nil
	}
	for _, f := range c.SortedFuncs() {
		if f == a.perHost {
			continue
		}
		for _, call := range callsIn(f, func(k string, _ *ssa.Call) bool { return k == "os.Remove" }) {
			for _, l := range iterLoops(f) {
				if l.Kind == "slice" && l.Loop.Body[call.Block()] {
					if _, isParam := l.Coll.(*ssa.Parameter); isParam {
						a.del = f
					}
				}
			}
		}
	}
	if a.del == nil {
		r.Undecided(rule, "anchor:delete", "-", "no helper that ranges over a slice parameter calling os.Remove")
		return nil
	}
	for _, f := range c.SortedFuncs() {
		if f != a.perHost && hasCallTo(f, "(*net/http.Client).Do") {
			a.info = f
		}
	}
	return a
}

func ruleC17(c *Ctx, r *Report) {
	an := c.anchors()
	if !requireAnchors(r, an, "C17-anchor", "redact") {
		return
	}
	a := c.atlasAnchors(r, "C17-anchor")
	if a == nil {
		return
	}
	r.Analysed["per_host_fn"] = a.perHost.Name()
	r.Analysed["download_fn"] = a.download.Name()
	r.Analysed["delete_fn"] = a.del.Name()
	delKey := fnFullName(a.del)

	// ---- R1: partial file removed on every error return after CreateTemp succeeded
	r.Floor("C17-R1", 1, "one os.CreateTemp")
	for _, ct := range callsIn(a.perHost, func(k string, _ *ssa.Call) bool { return k == "os.CreateTemp" }) {
		construct := a.perHost.Name() + ":os.CreateTemp"
		fileVal := extractOf(ct, 0)
		tests := []errTest{}
		for _, ev := range errorResults(ct) {
			tests = append(tests, errTestsOf(ev)...)
		}
		if fileVal == nil || len(tests) == 0 {
			r.Bad("C17-R1", construct, c.InstrPos(ct), "CreateTemp result/error not inspected")
			continue
		}
		isRemoveOfFile := func(cc *ssa.CallCommon) bool {
			if calleeKey(cc) != "os.Remove" || len(cc.Args) != 1 {
				return false
			}
			// os.Remove(f.Name())
			if nc, ok := peel(cc.Args[0]).(*ssa.Call); ok && calleeKey(&nc.Call) == "(*os.File).Name" {
				return derivesFrom(nc.Call.Args[0], fileVal, 0)
			}
			return false
		}
		closureRemoves := func(v ssa.Value) bool {
			mc, ok := v.(*ssa.MakeClosure)
			if !ok {
				return false
			}
			found := false
			allInstrs(mc.Fn.(*ssa.Function), func(i ssa.Instruction) {
				if cc := callCommonOf(i); cc != nil && calleeKey(cc) == "os.Remove" {
					// a removal that runs only while a panic unwinds (behind recover() != nil)
					// does nothing for an ordinary error return
					for _, f := range factsAt(i.Block()) {
						if x, neq, ok := nilCompare(f.Cond); ok {
							if rc, ok := x.(*ssa.Call); ok && calleeKey(&rc.Call) == "builtin recover" && neq == f.Pol {
								return
							}
						}
					}
					found = true
				}
			})
			return found
		}
		q := &pathQuery{
			witness: func(i ssa.Instruction) bool {
				if call, ok := i.(*ssa.Call); ok {
					return isRemoveOfFile(&call.Call)
				}
				return false
			},
			deferWitness: func(i ssa.Instruction) bool {
				if d, ok := i.(*ssa.Defer); ok {
					return isRemoveOfFile(&d.Call) || closureRemoves(d.Call.Value)
				}
				return false
			},
			isEnd: func(i ssa.Instruction) (string, bool) {
				if ret, ok := i.(*ssa.Return); ok {
					for _, res := range ret.Results {
						if isErrorType(res.Type()) && isNilConst(resolveLocal(res)) {
							return "", false // success return: the file is handed to the caller
						}
					}
					return "error-return", true
				}
				return stdEnds(i)
			},
		}
		var bad []string
		for _, t := range tests {
			for _, e := range q.run(t.NilSucc, 0, false) {
				bad = append(bad, fmt.Sprintf("%s at %s", e.Kind, c.InstrPos(e.Instr)))
			}
		}
		r.Check(len(bad) == 0, "C17-R1", construct, c.InstrPos(ct),
			"every error return after a successful CreateTemp passes os.Remove(file.Name()) (direct or deferred)",
			fmt.Sprintf("temp file survives these exits (partial download left behind): %v", bad))
		// unwinding: between CreateTemp and the return the body is copied through the HTTP
		// stack; a panic raised there unwinds through this function, and the file is not yet in
		// the caller's list - only a deferred call registered after CreateTemp can remove it
		okUnwind, whyUnwind := false, "no deferred removal of the temp file is registered after CreateTemp"
		allInstrs(a.perHost, func(i ssa.Instruction) {
			d, ok := i.(*ssa.Defer)
			if !ok || okUnwind {
				return
			}
			if !ct.Block().Dominates(d.Block()) {
				return
			}
			if isRemoveOfFile(&d.Call) {
				okUnwind, whyUnwind = true, "defer os.Remove(file.Name())"
				return
			}
			mc, isMC := d.Call.Value.(*ssa.MakeClosure)
			if !isMC {
				return
			}
			cl := mc.Fn.(*ssa.Function)
			for _, blk := range cl.Blocks {
				for _, ci := range blk.Instrs {
					dc, isCall := ci.(*ssa.Call)
					if !isCall || calleeKey(&dc.Call) != "os.Remove" || len(dc.Call.Args) != 1 {
						continue
					}
					// os.Remove(<captured file>.Name())
					nc, isName := peel(dc.Call.Args[0]).(*ssa.Call)
					if !isName || calleeKey(&nc.Call) != "(*os.File).Name" {
						continue
					}
					captured := false
					recv := nc.Call.Args[0]
					if u, isLoad := recv.(*ssa.UnOp); isLoad {
						recv = u.X
					}
					if fv, isFV := recv.(*ssa.FreeVar); isFV {
						for bi, x := range cl.FreeVars {
							if x == fv {
								b := mc.Bindings[bi]
								if b == fileVal || derivesFrom(b, fileVal, 0) {
									captured = true
								}
								if al, isAl := b.(*ssa.Alloc); isAl {
									for _, rr := range referrers(al) {
										if st, isSt := rr.(*ssa.Store); isSt && st.Addr == ssa.Value(al) && (st.Val == fileVal || derivesFrom(st.Val, fileVal, 0)) {
											captured = true
										}
									}
								}
							}
						}
					}
					if !captured {
						whyUnwind = "the deferred removal does not name the file CreateTemp returned"
						continue
					}
					if g, _, okG := unwindGuardOK(a.perHost, mc, cl, blk); okG {
						okUnwind, whyUnwind = true, g
					} else {
						whyUnwind = g
					}
				}
			}
		})
		r.Check(okUnwind, "C17-R1", a.perHost.Name()+":panic-unwind-removes-the-partial-file", c.InstrPos(ct),
			"a defer registered after CreateTemp removes the file when a panic unwinds ("+whyUnwind+")",
			"a panic raised while the response body is copied (HTTP stack, decompression in the transport) unwinds through "+a.perHost.Name()+" and leaves the partial download in the temp directory - it is not yet in the caller's list: "+whyUnwind)
	}

	// ---- R2: error returns inside the host loop are dominated by the delete helper on the accumulator
	r.Floor("C17-R2", 1, "one error return in the host loop")
	loops := iterLoops(a.download)
	for _, call := range callsIn(a.download, func(k string, _ *ssa.Call) bool { return k == fnFullName(a.perHost) }) {
		l := innermostLoopOf(loops, call.Block())
		if l == nil {
			r.Undecided("C17-R2", a.download.Name()+":host-loop", c.InstrPos(call), "per-host download is not called inside a loop")
			continue
		}
		region := l.Loop.Region()
		for _, b := range a.download.Blocks {
			if !region[b] {
				continue
			}
			ret, ok := b.Instrs[len(b.Instrs)-1].(*ssa.Return)
			if !ok {
				continue
			}
			construct := a.download.Name() + ":error-return-in-host-loop"
			covered := false
			// a delete call in a block dominating the return (inside the loop), on the accumulator
			for bb := range region {
				if !bb.Dominates(b) {
					continue
				}
				for _, in := range bb.Instrs {
					if dc, ok := in.(*ssa.Call); ok && calleeKey(&dc.Call) == delKey {
						for _, arg := range dc.Call.Args {
							if isAccumulator(arg, l.Loop.Header, region) {
								covered = true
							}
						}
					}
				}
			}
			// ... or a deferred delete guarded only by a completion flag that this return leaves unset
			if !covered {
				if ok, _, flag := unwindCleanup(a.download, l.Loop.Header, region, delKey); ok && flag != nil {
					covered = true
					for _, in := range b.Instrs {
						if st, ok := in.(*ssa.Store); ok && st.Addr == flag {
							covered = false
						}
					}
				}
			}
			r.Check(covered, "C17-R2", construct, c.InstrPos(ret),
				"return inside the host loop is dominated by "+a.del.Name()+"(files so far)",
				"a return inside the host loop is not preceded by deleting the files downloaded so far")
		}
	}

	// ---- R2 (unwinding): a panic raised below the host loop (the HTTP stack parses what the
	// server sent) unwinds through the download function; only a deferred call runs then. A
	// defer registered before the loop must delete the files downloaded so far.
	for _, call := range callsIn(a.download, func(k string, _ *ssa.Call) bool { return k == fnFullName(a.perHost) }) {
		l := innermostLoopOf(loops, call.Block())
		if l == nil {
			continue
		}
		construct := a.download.Name() + ":panic-unwind-cleanup"
		ok, why, _ := unwindCleanup(a.download, l.Loop.Header, l.Loop.Region(), delKey)
		r.Check(ok, "C17-R2", construct, c.InstrPos(call),
			"a defer registered before the host loop deletes the files downloaded so far when a panic unwinds ("+why+")",
			"a panic below the host loop (HTTP stack, digest challenge parser) unwinds through "+a.download.Name()+" without deleting the files downloaded so far: "+why)
	}

	// ---- R3: CLI exits after a successful download
	r.Floor("C17-R3", 1, "one download call site in the CLI")
	dlKey := fnFullName(a.download)
	for _, f := range c.SortedFuncs() {
		for _, dl := range callsIn(f, func(k string, _ *ssa.Call) bool { return k == dlKey }) {
			construct := fmt.Sprintf("%s:after(%s)", f.Name(), a.download.Name())
			filesVal := extractOf(dl, 0)
			var tests []errTest
			for _, ev := range errorResults(dl) {
				tests = append(tests, errTestsOf(ev)...)
			}
			if filesVal == nil || len(tests) == 0 {
				r.Bad("C17-R3", construct, c.InstrPos(dl), "download result/error not inspected")
				continue
			}
			isDeleteCall := func(cc *ssa.CallCommon) bool {
				if calleeKey(cc) != delKey {
					return false
				}
				for _, arg := range cc.Args {
					if isWholeValue(arg, filesVal, 0) {
						return true
					}
				}
				return false
			}
			closureDeletes := func(v ssa.Value) bool {
				mc, ok := v.(*ssa.MakeClosure)
				if !ok {
					return false
				}
				cf := mc.Fn.(*ssa.Function)
				// the closure must call the delete helper on the captured files variable on all paths
				// from its entry (no early return before the call)
				var filesFree ssa.Value
				for i, b := range mc.Bindings {
					if al, ok := b.(*ssa.Alloc); ok {
						// the captured variable must hold the whole download result at all
						// times: every store into it is that value itself (never a sub-slice)
						nStores, whole := 0, true
						for _, rr := range referrers(al) {
							if st, ok := rr.(*ssa.Store); ok && st.Addr == ssa.Value(al) {
								nStores++
								if !isWholeValue(st.Val, filesVal, 0) {
									whole = false
								}
							}
						}
						if nStores > 0 && whole {
							filesFree = cf.FreeVars[i]
						}
					}
				}
				if filesFree == nil {
					return false
				}
				q := &pathQuery{
					witness: func(i ssa.Instruction) bool {
						if call, ok := i.(*ssa.Call); ok && calleeKey(&call.Call) == delKey {
							for _, arg := range call.Call.Args {
								if u, ok := arg.(*ssa.UnOp); ok && u.X == filesFree {
									return true
								}
							}
						}
						return false
					},
					isEnd: stdEnds,
				}
				return len(q.run(cf.Blocks[0], 0, false)) == 0
			}
			mayExit := c.mayExitFns()
			q := &pathQuery{
				witness: func(i ssa.Instruction) bool {
					if call, ok := i.(*ssa.Call); ok {
						return isDeleteCall(&call.Call) || closureDeletes(call.Call.Value)
					}
					return false
				},
				deferWitness: func(i ssa.Instruction) bool {
					if d, ok := i.(*ssa.Defer); ok {
						return isDeleteCall(&d.Call) || closureDeletes(d.Call.Value)
					}
					return false
				},
				isEnd: func(i ssa.Instruction) (string, bool) {
					if k, ok := stdEnds(i); ok {
						return k, true
					}
					// a call of a package function / nested closure that can end the process
					if call, ok := i.(*ssa.Call); ok {
						var callee *ssa.Function
						if sc := c.staticPkgCallee(&call.Call); sc != nil {
							callee = sc
						} else if mc, ok := call.Call.Value.(*ssa.MakeClosure); ok {
							callee, _ = mc.Fn.(*ssa.Function)
						}
						if callee != nil && mayExit[callee] {
							return "exit", true
						}
					}
					return "", false
				},
			}
			nEnds := 0
			for _, t := range tests {
				ends := q.run(t.NilSucc, 0, false)
				// one obligation per offending exit, keyed by kind and the call that fails before it
				for _, e := range ends {
					nEnds++
					r.Bad("C17-R3", fmt.Sprintf("%s:%s-without-cleanup(%s)", f.Name(), e.Kind, exitContext(c, e.Instr)), c.InstrPos(e.Instr),
						fmt.Sprintf("after a successful download this %s is reachable without %s(files): a deferred cleanup does not run on os.Exit", e.Kind, a.del.Name()))
				}
			}
			if nEnds == 0 {
				r.OK("C17-R3", construct, c.InstrPos(dl), "every return after the download is covered by a registered deferred delete and every os.Exit passes a direct delete")
			}
		}
	}

	// ---- R4: delete helper removes every element, never stops early
	r.Floor("C17-R4", 1, "delete loop")
	for _, l := range iterLoops(a.del) {
		rm := false
		for b := range l.Loop.Body {
			for _, in := range b.Instrs {
				if isCallTo(in, "os.Remove") {
					rm = true
				}
			}
		}
		if !rm {
			continue
		}
		construct := a.del.Name() + ":remove-loop"
		_, isParam := l.Coll.(*ssa.Parameter)
		early := l.Loop.earlyExits()
		// os.Remove must be executed on every iteration: its block dominates every latch
		everyIter := true
		var rmCall *ssa.Call
		for b := range l.Loop.Body {
			for _, in := range b.Instrs {
				if isCallTo(in, "os.Remove") {
					rmCall = in.(*ssa.Call)
				}
			}
		}
		for _, lt := range l.Loop.Latch {
			if rmCall == nil || !rmCall.Block().Dominates(lt) {
				everyIter = false
			}
		}
		argOK := false
		if rmCall != nil {
			if u, ok := rmCall.Call.Args[0].(*ssa.UnOp); ok {
				if ia, ok := u.X.(*ssa.IndexAddr); ok && ia.X == l.Coll && ia.Index == l.Idx {
					argOK = true
				}
			}
		}
		r.Check(l.Kind == "slice" && isParam && len(early) == 0 && everyIter && argOK, "C17-R4", construct, c.Pos(a.del.Pos()),
			"ranges over the whole slice parameter, os.Remove(elem) on every iteration, no early exit",
			fmt.Sprintf("delete helper may skip files: kind=%s wholeParam=%v earlyExits=%d everyIteration=%v argIsElem=%v", l.Kind, isParam, len(early), everyIter, argOK))
	}

	// ---- R5: no other file-creating call reachable from the download; body copied only into the temp file
	r.Floor("C17-R5", 1, "the one CreateTemp")
	for f := range c.pkgReach(a.download) {
		allInstrs(f, func(i ssa.Instruction) {
			cc := callCommonOf(i)
			if cc == nil {
				return
			}
			k := calleeKey(cc)
			if !fileCreators[k] {
				return
			}
			construct := fmt.Sprintf("%s:creates-file(%s)", f.Name(), k)
			r.Check(k == "os.CreateTemp" && f == a.perHost, "C17-R5", construct, c.InstrPos(i),
				"the only file-creating call on the download path is the tracked os.CreateTemp",
				"an additional file is created on the download path and is not tracked by the cleanup")
		})
	}
	// the response body may flow only to io.Copy(tmpFile, body), io.ReadAll (error text), Close
	allInstrs(a.perHost, func(i ssa.Instruction) {
		cc := callCommonOf(i)
		if cc == nil {
			return
		}
		k := calleeKey(cc)
		if k == "io.Copy" || k == "io.CopyN" || k == "io.CopyBuffer" {
			okDst := false
			// (the file may live in a variable that a deferred closure captures)
			if ex, ok := canon(peel(cc.Args[0])).(*ssa.Extract); ok {
				if ct, ok := ex.Tuple.(*ssa.Call); ok && calleeKey(&ct.Call) == "os.CreateTemp" {
					okDst = true
				}
			}
			r.Check(okDst, "C17-R5", a.perHost.Name()+":copy-destination", c.InstrPos(i), "response body is copied into the tracked temp file", "response body copied to a destination that is not the tracked temp file")
		}
	})
}

// isAccumulatorPhi: v is a phi in header h one of whose edges is append(v, ...).
func isAccumulatorPhi(v ssa.Value, h *ssa.BasicBlock) bool {
	phi, ok := v.(*ssa.Phi)
	if !ok || phi.Block() != h {
		return false
	}
	for _, e := range phi.Edges {
		if c, ok := e.(*ssa.Call); ok && calleeKey(&c.Call) == "builtin append" && c.Call.Args[0] == v {
			return true
		}
	}
	return false
}

// isAccumulator: v is the slice the loop appends to - a phi at the loop header fed by
// append(phi, ...), or a load of a local cell that the loop stores append(load cell, ...) into
// (the form the variable takes once a closure captures it).
func isAccumulator(v ssa.Value, h *ssa.BasicBlock, region map[*ssa.BasicBlock]bool) bool {
	if isAccumulatorPhi(v, h) {
		return true
	}
	if u, ok := v.(*ssa.UnOp); ok && u.Op == token.MUL {
		if al, ok := u.X.(*ssa.Alloc); ok {
			return isAccumulatorCell(al, region)
		}
	}
	return false
}

func isAccumulatorCell(al *ssa.Alloc, region map[*ssa.BasicBlock]bool) bool {
	for _, ref := range *al.Referrers() {
		st, ok := ref.(*ssa.Store)
		if !ok || st.Addr != al || !region[st.Block()] {
			continue
		}
		if c, ok := st.Val.(*ssa.Call); ok && calleeKey(&c.Call) == "builtin append" {
			if u, ok := c.Call.Args[0].(*ssa.UnOp); ok && u.Op == token.MUL && u.X == al {
				return true
			}
		}
	}
	return false
}

// unwindCleanup looks for `defer func(){ ... del(acc) ... }()` in fn, registered in a block
// that dominates the loop header, whose delete call runs while a panic unwinds: it is
// unconditional, or guarded by recover() != nil, or by a completion flag that is only set
// immediately before a return.
func unwindCleanup(fn *ssa.Function, header *ssa.BasicBlock, region map[*ssa.BasicBlock]bool, delKey string) (bool, string, *ssa.Alloc) {
	why := "no deferred call of the delete helper on the accumulated files"
	for _, b := range fn.Blocks {
		for _, in := range b.Instrs {
			d, ok := in.(*ssa.Defer)
			if !ok {
				continue
			}
			mc, ok := d.Call.Value.(*ssa.MakeClosure)
			if !ok {
				continue
			}
			cl := mc.Fn.(*ssa.Function)
			for _, blk := range cl.Blocks {
				for _, ci := range blk.Instrs {
					dc, ok := ci.(*ssa.Call)
					if !ok || calleeKey(&dc.Call) != delKey {
						continue
					}
					onAcc := false
					for _, arg := range dc.Call.Args {
						u, ok := arg.(*ssa.UnOp)
						if !ok || u.Op != token.MUL {
							continue
						}
						fv, ok := u.X.(*ssa.FreeVar)
						if !ok {
							continue
						}
						for i, x := range cl.FreeVars {
							if x == fv {
								if al, ok := mc.Bindings[i].(*ssa.Alloc); ok && isAccumulatorCell(al, region) {
									onAcc = true
								}
							}
						}
					}
					if !onAcc {
						why = "the deferred delete does not take the accumulated files"
						continue
					}
					if !(b.Dominates(header) && !region[b]) {
						why = "the defer is not registered before the host loop"
						continue
					}
					if g, flag, ok := unwindGuardOK(fn, mc, cl, blk); !ok {
						why = g
						continue
					} else {
						return true, g, flag
					}
				}
			}
		}
	}
	return false, why, nil
}

// unwindGuardOK: the returned cell is the completion flag when the delete is guarded by one
// and by nothing else (then the deferred delete also runs on ordinary error returns).
func unwindGuardOK(parent *ssa.Function, mc *ssa.MakeClosure, cl *ssa.Function, at *ssa.BasicBlock) (string, *ssa.Alloc, bool) {
	desc := "unconditional"
	var flag *ssa.Alloc
	byRecover := false
	for _, f := range factsAt(at) {
		// recover() != nil
		if x, neq, ok := nilCompare(f.Cond); ok {
			if rc, ok := x.(*ssa.Call); ok && calleeKey(&rc.Call) == "builtin recover" {
				if neq == f.Pol {
					desc = "guarded by recover() != nil"
					byRecover = true
					continue
				}
				return "the deferred delete runs only when recover() returns nil, i.e. not while unwinding", nil, false
			}
		}
		// completion flag: !*flag (or *flag == false)
		v, pol := f.Cond, f.Pol
		for {
			if u, ok := v.(*ssa.UnOp); ok && u.Op == token.NOT {
				v, pol = u.X, !pol
				continue
			}
			break
		}
		if u, ok := v.(*ssa.UnOp); ok && u.Op == token.MUL && !pol {
			if fv, ok := u.X.(*ssa.FreeVar); ok {
				for i, x := range cl.FreeVars {
					if x != fv {
						continue
					}
					al, ok := mc.Bindings[i].(*ssa.Alloc)
					if !ok {
						break
					}
					good := true
					for _, ref := range *al.Referrers() {
						st, ok := ref.(*ssa.Store)
						if !ok || st.Addr != al {
							continue
						}
						k, isConst := st.Val.(*ssa.Const)
						if !isConst {
							good = false
							continue
						}
						if k.Value != nil && k.Value.String() == "true" {
							// must be followed by a return in the same block, with no call in between
							idx := instrIndex(st)
							for _, later := range st.Block().Instrs[idx+1:] {
								switch later.(type) {
								case *ssa.Return, *ssa.UnOp, *ssa.RunDefers, *ssa.Store:
								default:
									good = false
								}
							}
							if _, isRet := st.Block().Instrs[len(st.Block().Instrs)-1].(*ssa.Return); !isRet {
								good = false
							}
						}
					}
					if good {
						desc = "guarded by a completion flag set only immediately before the successful return"
						flag = al
						goto next
					}
				}
			}
		}
		return "the deferred delete is behind a condition the analysis cannot show to hold while unwinding: " + f.Cond.String(), nil, false
	next:
	}
	if byRecover {
		flag = nil
	}
	return desc, flag, true
}

// exitContext names an exit by the last package/library call whose error guards it,
// giving a stable construct key that is not a line number.
func exitContext(c *Ctx, i ssa.Instruction) string {
	b := i.Block()
	for _, f := range allFacts(b) {
		x, _, ok := nilCompare(f.Cond)
		if !ok {
			continue
		}
		x = resolveLocal(x)
		if ex, ok := x.(*ssa.Extract); ok {
			if call, ok := ex.Tuple.(*ssa.Call); ok {
				return "err:" + shortKey(calleeKey(&call.Call))
			}
		}
		if call, ok := x.(*ssa.Call); ok {
			return "err:" + shortKey(calleeKey(&call.Call))
		}
	}
	// fall back to the message printed just before
	for k := instrIndex(i) - 1; k >= 0; k-- {
		if call, ok := b.Instrs[k].(*ssa.Call); ok && strings.HasPrefix(calleeKey(&call.Call), "fmt.Fprint") {
			for _, a := range call.Call.Args {
				if s, ok := constString(a); ok {
					if len(s) > 40 {
						s = s[:40]
					}
					return "msg:" + s
				}
			}
		}
	}
	return "unconditional"
}

// isWholeValue: v is src itself, seen through copies only (no slicing, no append): phis
// all of whose edges are src, loads of locals all of whose stores are src.
func isWholeValue(v, src ssa.Value, depth int) bool {
	if v == src {
		return true
	}
	if depth > 10 {
		return false
	}
	switch x := v.(type) {
	case *ssa.ChangeType:
		return isWholeValue(x.X, src, depth+1)
	case *ssa.Phi:
		for _, e := range x.Edges {
			if !isWholeValue(e, src, depth+1) {
				return false
			}
		}
		return len(x.Edges) > 0
	case *ssa.UnOp:
		if x.Op != token.MUL {
			return false
		}
		al, ok := x.X.(*ssa.Alloc)
		if !ok {
			return false
		}
		n := 0
		for _, rr := range referrers(al) {
			if st, ok := rr.(*ssa.Store); ok && st.Addr == ssa.Value(al) {
				n++
				if !isWholeValue(st.Val, src, depth+1) {
					return false
				}
			}
		}
		return n > 0
	}
	return false
}

// mayExitFns: package functions (and nested closures) that can end the process:
// they call os.Exit / log.Fatal*, or call a function that does.
func (c *Ctx) mayExitFns() map[*ssa.Function]bool {
	out := map[*ssa.Function]bool{}
	changed := true
	for changed {
		changed = false
		for _, f := range c.SortedFuncs() {
			if out[f] {
				continue
			}
			hit := false
			allInstrs(f, func(i ssa.Instruction) {
				call, ok := i.(*ssa.Call)
				if !ok {
					return
				}
				if k, ok := stdEnds(i); ok && k == "exit" {
					hit = true
					return
				}
				if sc := c.staticPkgCallee(&call.Call); sc != nil && out[sc] {
					hit = true
				}
				if mc, ok := call.Call.Value.(*ssa.MakeClosure); ok {
					if fn, ok := mc.Fn.(*ssa.Function); ok && out[fn] {
						hit = true
					}
				}
			})
			if hit {
				out[f] = true
				changed = true
			}
		}
	}
	return out
}
