package main

import (
	"go/token"

	"golang.org/x/tools/go/ssa"
)

// IterLoop is a recognised iteration idiom of the repository.
type IterLoop struct {
	Loop *Loop
	Kind string    // "slice" (range over slice), "omap" (Front/Next), "gomap" (range over Go map), "other"
	Coll ssa.Value // the container iterated
	Idx  ssa.Value // slice: the index value used in the body (t = phi+1)
	Elem ssa.Value // omap: the element phi
	Fn   *ssa.Function
}

func iterLoops(fn *ssa.Function) []*IterLoop {
	var out []*IterLoop
	for _, l := range naturalLoops(fn) {
		il := &IterLoop{Loop: l, Kind: "other", Fn: fn}
		h := l.Header
		ifi, _ := h.Instrs[len(h.Instrs)-1].(*ssa.If)
		for _, in := range h.Instrs {
			phi, ok := in.(*ssa.Phi)
			if !ok {
				continue
			}
			// slice range: phi [-1, phi+1]
			var inc *ssa.BinOp
			hasM1 := false
			for _, e := range phi.Edges {
				if n, ok := constInt(e); ok && n == -1 {
					hasM1 = true
				}
				if b, ok := e.(*ssa.BinOp); ok && b.Op == token.ADD && b.X == ssa.Value(phi) {
					if n, ok := constInt(b.Y); ok && n == 1 {
						inc = b
					}
				}
			}
			if hasM1 && inc != nil && ifi != nil {
				if cmp, ok := ifi.Cond.(*ssa.BinOp); ok && cmp.Op == token.LSS && cmp.X == ssa.Value(inc) {
					if lc, ok := cmp.Y.(*ssa.Call); ok && calleeKey(&lc.Call) == "builtin len" {
						il.Kind = "slice"
						il.Coll = lc.Call.Args[0]
						il.Idx = inc
					}
				}
			}
			// ordered map: phi [Front(m), Next(phi)]
			var front *ssa.Call
			nextOK := false
			for _, e := range phi.Edges {
				if c, ok := e.(*ssa.Call); ok {
					switch calleeKey(&c.Call) {
					case omMethod("Front"):
						front = c
					case omElemMethod("Next"):
						if c.Call.Args[0] == ssa.Value(phi) {
							nextOK = true
						}
					}
				}
			}
			if front != nil && nextOK && ifi != nil {
				if x, neq, ok := nilCompare(ifi.Cond); ok && x == ssa.Value(phi) && neq {
					il.Kind = "omap"
					il.Coll = front.Call.Args[0]
					il.Elem = phi
				}
			}
		}
		// Go map / string range: header has `next` on a `range` iterator
		for _, in := range h.Instrs {
			if nx, ok := in.(*ssa.Next); ok {
				if rg, ok := nx.Iter.(*ssa.Range); ok {
					il.Coll = rg.X
					if nx.IsString {
						il.Kind = "string"
					} else {
						il.Kind = "gomap"
					}
				}
			}
		}
		out = append(out, il)
	}
	return out
}

// loopExits lists edges leaving the loop body from blocks other than the header.
func (l *Loop) earlyExits() []*ssa.BasicBlock {
	var out []*ssa.BasicBlock
	for b := range l.Body {
		if b == l.Header {
			continue
		}
		if len(b.Succs) == 0 {
			out = append(out, b) // return / panic inside the loop
			continue
		}
		for _, s := range b.Succs {
			if !l.Body[s] {
				out = append(out, b)
			}
		}
	}
	return out
}

// innermostLoopOf returns the innermost recognised loop containing block b.
func innermostLoopOf(loops []*IterLoop, b *ssa.BasicBlock) *IterLoop {
	var best *IterLoop
	for _, l := range loops {
		if l.Loop.Body[b] {
			if best == nil || len(l.Loop.Body) < len(best.Loop.Body) {
				best = l
			}
		}
	}
	return best
}

// Region returns the blocks dominated by the loop's in-body successor(s) of the
// header: the natural-loop body plus the exit branches (returns, breaks) taken from
// inside an iteration.
func (l *Loop) Region() map[*ssa.BasicBlock]bool {
	out := map[*ssa.BasicBlock]bool{}
	fn := l.Header.Parent()
	for _, s := range l.Header.Succs {
		if !l.Body[s] {
			continue
		}
		for _, b := range fn.Blocks {
			if s.Dominates(b) {
				out[b] = true
			}
		}
	}
	return out
}
