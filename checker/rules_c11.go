package main

import (
	"fmt"
	"go/token"
	"strings"

	"golang.org/x/tools/go/ssa"
)

func init() {
	register(&propDef{
		ID:          "C11",
		Run:         ruleC11,
		Explanation: "Decides ordering and who-may-write for the key path (structural necessary conditions of C11): the only file-mutating calls that receive the --encryptionKeyFile path are inside the key writer, every call of the key writer is control dependent on the existence test of the same path being false, the existence test answers false only for not-exist / directory, the written bytes are the fresh CSPRNG key (make([]byte,64) filled by crypto/rand.Read, error tested) and are the bytes installed as the run's key, the reader rejects read/base64/length failures before any success return (constant 64 agrees in all four places), the write mode has no group/other bits, every key error exits non-zero, and no processing call can precede the key block. NOT decided: file-system semantics (umask, Stat on odd file types), randomness quality.",
		RuleText:    "obligations = mutating calls on the tainted key path, key-writer call sites, returns of the existence test, key generator shape, reader success returns, mode constants, error exits, ordering against processing calls",
	})
}

var fileMutators = map[string]int{ // callee -> index of the path argument
	"os.Create": 0, "os.OpenFile": 0, "os.WriteFile": 0, "os.Remove": 0, "os.RemoveAll": 0, "os.Rename": 1,
	"os.Truncate": 0, "os.Chmod": 0, "io/ioutil.WriteFile": 0, "os.Link": 1, "os.Symlink": 1,
}

func ruleC11(c *Ctx, r *Report) {
	an := c.anchors()
	if !requireAnchors(r, an, "C11-anchor", "redact") {
		return
	}
	cl := an.RedactClosure
	keyFlag := an.FlagAlloc["encryptionKeyFile"]
	if keyFlag == nil {
		r.Undecided("C11-anchor", "flag:encryptionKeyFile", "-", "flag --encryptionKeyFile is not bound")
		return
	}
	t := NewTaint(c)
	t.LibThrough = func(call *ssa.Call, key string) bool {
		// path manipulations keep the taint; everything else (Stat, ReadFile results) does not
		return strings.HasPrefix(key, "path/filepath.") || strings.HasPrefix(key, "strings.") || key == "fmt.Sprintf"
	}
	// do not propagate into the decrypt command's own flag
	t.Run(keyFlag)

	// ---- R1: who may write the key path
	r.Floor("C11-R1", 3, "1 mutating call, 1 writer call site, >=1 existence-test return")
	writers := map[*ssa.Function]bool{}
	for _, f := range c.SortedFuncs() {
		allInstrs(f, func(i ssa.Instruction) {
			cc := callCommonOf(i)
			if cc == nil {
				return
			}
			k := calleeKey(cc)
			idx, ok := fileMutators[k]
			if !ok || idx >= len(cc.Args) || !t.Has(cc.Args[idx]) {
				return
			}
			construct := fmt.Sprintf("%s:mutates-key-path(%s)", f.Name(), k)
			if f == cl || f.Parent() != nil {
				r.Bad("C11-R1", construct, c.InstrPos(i), "the key path is written directly in the command body, outside the guarded key writer")
				return
			}
			writers[f] = true
			r.Check(k == "os.WriteFile" || k == "os.OpenFile", "C11-R1", construct, c.InstrPos(i),
				"key path mutated only by the key writer's file write", "key path is removed/renamed/truncated: an existing key file can be destroyed")
			// R4 permissions
			var mode ssa.Value
			switch k {
			case "os.WriteFile":
				mode = cc.Args[2]
			case "os.OpenFile":
				mode = cc.Args[2]
			}
			if mode != nil {
				n, ok := constInt(mode)
				if !ok {
					r.Undecided("C11-R4", fmt.Sprintf("%s:mode(%s)", f.Name(), k), c.InstrPos(i), "file mode is not a constant")
				} else {
					r.Check(n&0o077 == 0 && n&0o400 != 0, "C11-R4", fmt.Sprintf("%s:mode(%s)", f.Name(), k), c.InstrPos(i),
						fmt.Sprintf("mode %#o: owner-only", n), fmt.Sprintf("mode %#o grants group/other access to the key file (or no owner read)", n))
				}
			}
		})
	}
	// existence test: package function calling os.Stat on a tainted param, returning bool
	var exists *ssa.Function
	for _, f := range c.SortedFuncs() {
		if f.Signature.Results().Len() == 1 && isBoolType(f.Signature.Results().At(0).Type()) {
			for _, sc := range callsIn(f, func(k string, _ *ssa.Call) bool { return k == "os.Stat" || k == "os.Lstat" }) {
				if t.Has(sc.Call.Args[0]) {
					exists = f
				}
			}
		}
	}
	if exists == nil {
		r.Undecided("C11-R1", "existence-test", "-", "no boolean existence test (os.Stat) applied to the key path")
		return
	}
	existsKey := fnFullName(exists)
	// every call site of a writer is guarded by exists(keypath)==false
	for _, f := range c.SortedFuncs() {
		for _, call := range callsIn(f, func(k string, cc *ssa.Call) bool {
			cal := c.staticPkgCallee(&cc.Call)
			return cal != nil && writers[cal]
		}) {
			callee := c.staticPkgCallee(&call.Call)
			construct := fmt.Sprintf("%s:calls-key-writer(%s)", f.Name(), callee.Name())
			// only call sites that pass the key path matter
			passes := false
			for _, a := range call.Call.Args {
				if t.Has(a) {
					passes = true
				}
			}
			if !passes {
				continue
			}
			guarded := false
			samePath := false
			for _, fct := range allFacts(call.Block()) {
				if ec, ok := fct.Cond.(*ssa.Call); ok && calleeKey(&ec.Call) == existsKey && !fct.Pol && t.Has(ec.Call.Args[0]) {
					guarded = true
					for _, a := range call.Call.Args {
						if t.Has(a) && samePathExpr(a, ec.Call.Args[0]) {
							samePath = true
						}
					}
				}
			}
			r.Check(guarded, "C11-R1", construct, c.InstrPos(call),
				"key writer called only where "+exists.Name()+"(keyPath) is false", "key writer reachable without the existence test of the key path having answered false: an existing key can be overwritten")
			if guarded {
				r.Check(samePath, "C11-R1", construct+":same-path-as-test", c.InstrPos(call),
					"the path that is written is the very path expression the existence test examined",
					"the existence test and the write use differently derived paths (one of them is expanded / rewritten): the test can answer 'absent' for a key file that exists at the path actually written, which is then overwritten")
			}
		}
	}
	// the load branch reads the very path that was tested
	if rk := c.Fn("ReadKeyFromFile"); rk != nil {
		for _, call := range c.callersOf(rk) {
			if call.Parent() != an.RedactClosure || len(call.Call.Args) == 0 || !t.Has(call.Call.Args[0]) {
				continue
			}
			same := false
			for _, fct := range allFacts(call.Block()) {
				if ec, ok := fct.Cond.(*ssa.Call); ok && calleeKey(&ec.Call) == existsKey && fct.Pol && samePathExpr(call.Call.Args[0], ec.Call.Args[0]) {
					same = true
				}
			}
			r.Check(same, "C11-R1", fmt.Sprintf("%s:reads-tested-path(%s)", call.Parent().Name(), rk.Name()), c.InstrPos(call),
				"the key is loaded from the very path expression the existence test found present",
				"the key is loaded from a path that is derived differently from the one the existence test examined: 'exists' and 'load' can disagree about which file is the key file")
		}
	}
	// returns of the existence test
	statCalls := callsIn(exists, func(k string, _ *ssa.Call) bool { return k == "os.Stat" || k == "os.Lstat" })
	allInstrs(exists, func(i ssa.Instruction) {
		ret, ok := i.(*ssa.Return)
		if !ok {
			return
		}
		res := resolveLocal(ret.Results[0])
		construct := exists.Name() + ":return"
		if b, ok := constBool(res); ok {
			if b {
				r.OK("C11-R1", construct+"(true)", c.InstrPos(i), "answering 'exists' never leads to a write")
				return
			}
			okGuard := false
			for _, fct := range allFacts(ret.Block()) {
				if ec, ok := fct.Cond.(*ssa.Call); ok && fct.Pol {
					k := calleeKey(&ec.Call)
					if (k == "os.IsNotExist" || k == "errors.Is") && len(statCalls) > 0 && derivesFrom(ec.Call.Args[0], extractOf(statCalls[0], 1), 0) {
						okGuard = true
					}
				}
			}
			r.Check(okGuard, "C11-R1", construct+"(false)", c.InstrPos(i), "'does not exist' answered only under os.IsNotExist(err)", "existence test answers false without os.IsNotExist(err): an existing (e.g. unreadable) key file would be regenerated and overwritten")
			return
		}
		// computed: must be !info.IsDir() / info.Mode().IsRegular()
		okShape := false
		if u, ok := res.(*ssa.UnOp); ok && u.Op == token.NOT {
			if mc, ok := u.X.(*ssa.Call); ok && strings.HasSuffix(calleeKey(&mc.Call), ".IsDir") {
				okShape = true
			}
		}
		if mc, ok := res.(*ssa.Call); ok && strings.HasSuffix(calleeKey(&mc.Call), ".IsRegular") {
			okShape = true
		}
		r.Check(okShape, "C11-R1", construct+"(computed)", c.InstrPos(i), "computed answer is !IsDir(): false only for a directory, which cannot be overwritten by WriteFile", "existence test computes its answer from something other than IsDir/IsRegular")
	})

	// ---- R2: fresh key
	r.Floor("C11-R2", 3, "generator shape, written bytes, installed bytes")
	var gen *ssa.Function
	for _, f := range c.SortedFuncs() {
		if hasCallTo(f, "crypto/rand.Read") || hasCallTo(f, "math/rand.Read") || hasCallTo(f, "math/rand/v2.Read") {
			gen = f
		}
	}
	if gen == nil {
		r.Bad("C11-R2", "key-generator", "-", "no function fills a key from crypto/rand.Read")
	} else {
		okGen := true
		detail := []string{}
		rc := callsIn(gen, func(k string, _ *ssa.Call) bool { return strings.HasSuffix(k, "rand.Read") })
		if len(rc) != 1 || calleeKey(&rc[0].Call) != "crypto/rand.Read" {
			okGen = false
			detail = append(detail, "randomness source is not crypto/rand.Read")
		} else {
			ms := rc[0].Call.Args[0]
			n, _, ok := freshSlice(ms)
			if !ok {
				okGen = false
				detail = append(detail, "buffer is not a fresh make([]byte, n)")
			} else if n != 64 {
				okGen = false
				detail = append(detail, "key length is not the constant 64")
			} else {
				// success return returns that slice, only under err==nil
				allInstrs(gen, func(i ssa.Instruction) {
					if ret, ok := i.(*ssa.Return); ok && len(ret.Results) == 2 && isNilConst(resolveLocal(ret.Results[1])) {
						if resolveLocal(ret.Results[0]) != ms {
							okGen = false
							detail = append(detail, "success return does not return the filled buffer")
						}
						ev := extractOf(rc[0], 1)
						_, isNil := factNil(allFacts(ret.Block()), ev)
						if ev == nil || !isNil {
							okGen = false
							detail = append(detail, "success return not dominated by rand.Read err==nil")
						}
					}
				})
			}
		}
		r.Check(okGen, "C11-R2", gen.Name()+":shape", c.Pos(gen.Pos()), "make([]byte,64) filled by crypto/rand.Read, error tested, buffer returned", strings.Join(detail, "; "))
		// in the closure: bytes written == generated == installed
		genKey := fnFullName(gen)
		for _, gc := range callsIn(cl, func(k string, _ *ssa.Call) bool { return k == genKey }) {
			keyVal := extractOf(gc, 0)
			wrote, installed := false, false
			reach := reachableFrom(gc.Block())
			allInstrs(cl, func(i ssa.Instruction) {
				call, ok := i.(*ssa.Call)
				if !ok || !reach[call.Block()] {
					return
				}
				if cal := c.staticPkgCallee(&call.Call); cal != nil && writers[cal] {
					for _, a := range call.Call.Args {
						if keyVal != nil && derivesFrom(a, keyVal, 0) {
							wrote = true
						}
					}
				}
				if calleeKey(&call.Call) == c.pkgFn("SetEncryptionKey") && keyVal != nil && derivesFrom(call.Call.Args[0], keyVal, 0) {
					installed = true
				}
			})
			r.Check(wrote, "C11-R2", cl.Name()+":written-bytes-are-generated-key", c.InstrPos(gc), "the key writer receives the generator's result", "the bytes written to the key file are not the freshly generated key")
			r.Check(installed, "C11-R2", cl.Name()+":installed-bytes-are-generated-key", c.InstrPos(gc), "SetEncryptionKey receives the same generated bytes", "the key installed for the run is not the key that was written")
		}
	}

	// ---- R3: reader validation
	r.Floor("C11-R3", 2, "reader success return + constant agreement")
	reader := c.Fn("ReadKeyFromFile")
	if reader == nil {
		r.Undecided("C11-R3", "ReadKeyFromFile", "-", "key reader not found")
	} else {
		allInstrs(reader, func(i ssa.Instruction) {
			ret, ok := i.(*ssa.Return)
			if !ok || len(ret.Results) != 2 || !isNilConst(resolveLocal(ret.Results[1])) {
				return
			}
			facts := allFacts(ret.Block())
			need := map[string]bool{"read": false, "base64": false, "len": false}
			for _, call := range callsIn(reader, func(k string, _ *ssa.Call) bool { return true }) {
				k := calleeKey(&call.Call)
				ev := extractOf(call, 1)
				if ev == nil {
					continue
				}
				_, isNil := factNil(facts, ev)
				if (k == "os.ReadFile" || k == "io/ioutil.ReadFile" || k == "io.ReadAll") && isNil {
					need["read"] = true
				}
				if strings.HasSuffix(k, ".DecodeString") && isNil {
					need["base64"] = true
				}
			}
			for _, f := range facts {
				if b, ok := f.Cond.(*ssa.BinOp); ok {
					if lc, ok := b.X.(*ssa.Call); ok && calleeKey(&lc.Call) == "builtin len" {
						if n, ok := constInt(b.Y); ok && n == 64 && ((b.Op == token.NEQ && !f.Pol) || (b.Op == token.EQL && f.Pol)) {
							need["len"] = true
						}
					}
				}
			}
			okAll := need["read"] && need["base64"] && need["len"]
			r.Check(okAll, "C11-R3", reader.Name()+":success-return", c.InstrPos(i), "dominated by read err==nil, base64 err==nil, len==64", fmt.Sprintf("a key is accepted without all validations: %v", need))
		})
		keyReaderShapeRule(c, r, reader, "C11-R3")
		// sibling agreement on the constant 64
		agree := true
		var where []string
		for _, fname := range []string{"WriteKeyToFile", "keysetHandleFromRawKey"} {
			f := c.Fn(fname)
			if f == nil {
				continue
			}
			found := false
			allInstrs(f, func(i ssa.Instruction) {
				if b, ok := i.(*ssa.BinOp); ok && (b.Op == token.NEQ || b.Op == token.EQL) {
					if lc, ok := b.X.(*ssa.Call); ok && calleeKey(&lc.Call) == "builtin len" {
						if n, ok := constInt(b.Y); ok {
							found = true
							if n != 64 {
								agree = false
								where = append(where, fmt.Sprintf("%s checks %d", fname, n))
							}
						}
					}
				}
			})
			if !found {
				agree = false
				where = append(where, fname+" has no length check")
			}
		}
		r.Check(agree, "C11-R3", "key-length-constant-agreement", c.Pos(reader.Pos()), "generator, reader, writer and keyset builder agree on 64 bytes", strings.Join(where, "; "))
	}

	// ---- R5: failures stop the run; key block precedes processing
	r.Floor("C11-R5", 3, "three key-related error tests in the command")
	keyFunctionsErrorDiscipline(c, r, "C11-R5")
	keyFns := map[string]bool{c.pkgFn("GenerateKey"): true, c.pkgFn("WriteKeyToFile"): true, c.pkgFn("ReadKeyFromFile"): true}
	if gen != nil {
		keyFns[fnFullName(gen)] = true
	}
	for w := range writers {
		keyFns[fnFullName(w)] = true
	}
	for _, call := range callsIn(cl, func(k string, _ *ssa.Call) bool { return keyFns[k] }) {
		construct := fmt.Sprintf("%s:key-error(%s)", cl.Name(), shortKey(calleeKey(&call.Call)))
		okh, detail := checkCallErrHandled(call, false, nil)
		r.Check(okh, "C11-R5", construct, c.InstrPos(call), detail, "a key error does not stop the run: "+detail)
	}
	procKeys := c.processingCallKeys()
	for _, pc := range callsIn(cl, func(k string, _ *ssa.Call) bool { return procKeys[k] }) {
		q := &pathQuery{isEnd: func(i ssa.Instruction) (string, bool) {
			if call, ok := i.(*ssa.Call); ok && (keyFns[calleeKey(&call.Call)] || calleeKey(&call.Call) == c.pkgFn("SetEncryptionKey")) {
				return "key-op", true
			}
			return "", false
		}}
		ends := q.run(pc.Block(), instrIndex(pc)+1, false)
		r.Check(len(ends) == 0, "C11-R5", fmt.Sprintf("%s:key-block-before(%s)", cl.Name(), shortKey(calleeKey(&pc.Call))), c.InstrPos(pc),
			"no key generation/loading is reachable after this processing call", "key generation/loading can happen after records were written")
	}
}

// processingCallKeys: calls that start producing output / network traffic.
func (c *Ctx) processingCallKeys() map[string]bool {
	m := map[string]bool{
		c.pkgFn("ProcessMongoLogFile"):                    true,
		c.pkgFn("ProcessMongoLogFileFromReader"):          true,
		c.pkgMethod("AtlasClient", "DownloadClusterLogs"): true,
	}
	a := c.anchors()
	if a.StreamFn != nil {
		m[fnFullName(a.StreamFn)] = true
		for _, call := range c.callersOf(a.StreamFn) {
			m[fnFullName(call.Parent())] = true
		}
	}
	return m
}

// keyFunctionsErrorDiscipline (C11-R5 / C10-R4): inside the key writer, the key reader and
// the key generator every call that can fail has its error tested and the failing branch
// returns a non-nil error - so "the key could not be stored / read / generated" always
// reaches the command, which exits (C11-R5), and a run can never encrypt under a key
// that did not reach the disk.
func keyFunctionsErrorDiscipline(c *Ctx, r *Report, rule string) {
	n := 0
	for _, name := range []string{"WriteKeyToFile", "ReadKeyFromFile", "GenerateKey"} {
		f := c.Fn(name)
		if f == nil {
			r.Undecided(rule, name+":error-discipline", "-", "key function not found")
			continue
		}
		allInstrs(f, func(i ssa.Instruction) {
			call, ok := i.(*ssa.Call)
			if !ok || !hasErrorResult(call) {
				return
			}
			k := calleeKey(&call.Call)
			if strings.HasPrefix(k, "fmt.Errorf") || strings.HasPrefix(k, "errors.") || k == "os.Remove" || k == "os.RemoveAll" {
				return // (removing a temporary file is best-effort cleanup, not part of storing / reading the key)
			}
			if strings.HasPrefix(k, "fmt.Fprint") && len(call.Call.Args) > 0 && isStderr(call.Call.Args[0]) {
				return // a diagnostic on stderr: its failure is not a failure of the key operation
			}
			n++
			okh, detail := checkCallErrHandled(call, true, nil)
			r.Check(okh, rule, fmt.Sprintf("%s:err(%s)", f.Name(), shortKey(k)), c.InstrPos(call), detail,
				"a failure of "+shortKey(k)+" inside "+f.Name()+" does not reach the caller as an error ("+detail+"): the run continues with a key that was not stored / read / generated")
		})
	}
	if n < 3 {
		r.Bad(rule, "key-functions:fallible-calls", "-", fmt.Sprintf("only %d fallible calls found in the key functions (4 confirmed by hand): anchor lost", n))
	}
}

// hasErrorResult: the callee's signature has an error among its results.
func hasErrorResult(call *ssa.Call) bool {
	res := call.Call.Signature().Results()
	for i := 0; i < res.Len(); i++ {
		if isErrorType(res.At(i).Type()) {
			return true
		}
	}
	return false
}

// keyReaderShapeRule (C11-R3 / C10-R4): the accepted key is the decoding of the WHOLE file
// content - success return = DecodeString(string(ReadFile(path))) (white-space trimming
// tolerated) - a fresh slice that nothing in the reader writes into afterwards.
func keyReaderShapeRule(c *Ctx, r *Report, reader *ssa.Function, rule string) {
	okShape := false
	detail := "no success return found"
	allInstrs(reader, func(i ssa.Instruction) {
		ret, ok := i.(*ssa.Return)
		if !ok || len(ret.Results) != 2 || !isNilConst(resolveLocal(ret.Results[1])) {
			return
		}
		v := resolveLocal(ret.Results[0])
		ex, ok := v.(*ssa.Extract)
		if !ok || ex.Index != 0 {
			detail = "the returned key is not the result of the base64 decoding call"
			return
		}
		dc, ok := ex.Tuple.(*ssa.Call)
		if !ok || !strings.HasSuffix(calleeKey(&dc.Call), "encoding/base64.Encoding).DecodeString") {
			detail = "the returned key is not the result of (*base64.Encoding).DecodeString"
			return
		}
		arg := dc.Call.Args[1]
		for depth := 0; depth < 4; depth++ {
			if tc, ok := arg.(*ssa.Call); ok && (calleeKey(&tc.Call) == "strings.TrimSpace" || calleeKey(&tc.Call) == "bytes.TrimSpace") {
				arg = tc.Call.Args[0]
				continue
			}
			if cv, ok := arg.(*ssa.Convert); ok {
				arg = cv.X
				continue
			}
			break
		}
		rx, ok := arg.(*ssa.Extract)
		if !ok || rx.Index != 0 {
			detail = "the decoded text is not the content returned by the file read"
			return
		}
		rc, ok := rx.Tuple.(*ssa.Call)
		if !ok || !(calleeKey(&rc.Call) == "os.ReadFile" || calleeKey(&rc.Call) == "io/ioutil.ReadFile") {
			detail = "the decoded text does not come from os.ReadFile of the key path (partial reads accept files with trailing content)"
			return
		}
		if _, isPrm := canon(peel(rc.Call.Args[0])).(*ssa.Parameter); !isPrm {
			detail = "the file read is not applied to the path parameter itself"
			return
		}
		okShape = true
		detail = "success return is DecodeString(string(os.ReadFile(path))): the whole file content is validated"
	})
	// nothing overwrites buffers in the reader
	var wipes []string
	allInstrs(reader, func(i ssa.Instruction) {
		if cc := callCommonOf(i); cc != nil {
			k := calleeKey(cc)
			if k == "builtin clear" || k == "builtin copy" {
				wipes = append(wipes, shortKey(k)+" at "+c.InstrPos(i))
			}
		}
		if st, ok := i.(*ssa.Store); ok {
			if ia, ok := st.Addr.(*ssa.IndexAddr); ok {
				if _, isArr := ia.X.(*ssa.Alloc); !isArr {
					wipes = append(wipes, "element store at "+c.InstrPos(i))
				}
			}
		}
	})
	if len(wipes) > 0 {
		okShape = false
		detail = "the key reader writes into a buffer (" + strings.Join(wipes, ", ") + "): the returned key can alias memory that is cleared or overwritten"
	}
	r.Check(okShape, rule, reader.Name()+":decodes-whole-file", c.Pos(reader.Pos()), detail, detail)
}

// samePathExpr: a and b are the same value, or loads of the same variable.
func samePathExpr(a, b ssa.Value) bool {
	// (conversions between string and a named string type - `KeyFile(path)`, `string(f)` - and
	// single-assignment locals do not make another path)
	a, b = canon(peel(a)), canon(peel(b))
	if a == b {
		return true
	}
	ua, ok1 := a.(*ssa.UnOp)
	ub, ok2 := b.(*ssa.UnOp)
	if ok1 && ok2 && ua.Op == token.MUL && ub.Op == token.MUL && ua.X == ub.X {
		return true
	}
	return false
}
