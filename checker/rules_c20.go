package main

import (
	"fmt"
	"go/token"
	"go/types"
	"strings"

	"golang.org/x/tools/go/ssa"
)

func init() {
	register(&propDef{
		ID:          "C20",
		Run:         ruleC20,
		Explanation: "Decides explicit flows of the Atlas private key inside the package (structural necessary condition of C20) by an inter-procedural taint analysis seeded at the --atlasPrivateKey flag variable and at os.Getenv(\"ATLAS_PRIVATE_KEY\"): a tainted value may only be compared with the empty string, copied between locals, passed to a package function, or stored into the Password field of a digest.Transport; every other use (formatting, concatenation, conversion, boxing, header/URL/request construction, storing in a global or another struct, returning to a library) is a violation naming the instruction. The digest.Transport object itself is used only as the Transport of an http.Client; the package sets no Authorization header and calls no SetBasicAuth. NOT decided: the digest fork's internals, what a malicious server can make the digest response reveal, process memory/core dumps.",
		RuleText:    "obligations = every instruction using a tainted value (classified by an allow-list of use kinds), every use of a digest.Transport object, every header-setting / basic-auth call in the package",
	})
}

func namedIs(t types.Type, pkgPath, name string) bool {
	if p, ok := t.Underlying().(*types.Pointer); ok && !isNamed(t) {
		t = p.Elem()
	}
	if p, ok := t.(*types.Pointer); ok {
		t = p.Elem()
	}
	n, ok := t.(*types.Named)
	return ok && n.Obj().Name() == name && n.Obj().Pkg() != nil && n.Obj().Pkg().Path() == pkgPath
}

func isNamed(t types.Type) bool { _, ok := t.(*types.Named); return ok }

func fieldOf(fa *ssa.FieldAddr) (*types.Named, *types.Var) {
	pt, ok := fa.X.Type().Underlying().(*types.Pointer)
	if !ok {
		return nil, nil
	}
	n, _ := pt.Elem().(*types.Named)
	st, ok := pt.Elem().Underlying().(*types.Struct)
	if !ok {
		return n, nil
	}
	return n, st.Field(fa.Field)
}

const digestPkg = "github.com/mongodb-forks/digest"

func ruleC20(c *Ctx, r *Report) {
	an := c.anchors()
	if !requireAnchors(r, an, "C20-anchor", "redact") {
		return
	}
	// a key is stored as given: no binder that interprets (and, on rejection, quotes) the value
	flagBinderRule(c, r, "C20-R1", "atlasPrivateKey", "atlasPublicKey")
	var seeds []ssa.Value
	var seedNames []string
	if al := an.FlagAlloc["atlasPrivateKey"]; al != nil {
		seeds = append(seeds, al)
		seedNames = append(seedNames, "flag --atlasPrivateKey")
	}
	for _, f := range c.SortedFuncs() {
		for _, call := range callsIn(f, func(k string, _ *ssa.Call) bool { return k == "os.Getenv" || k == "os.LookupEnv" }) {
			if s, ok := constString(call.Call.Args[0]); ok && s == "ATLAS_PRIVATE_KEY" {
				seeds = append(seeds, call)
				seedNames = append(seedNames, fmt.Sprintf("%s in %s", calleeKey(&call.Call), f.Name()))
			}
		}
	}
	// the raw command line carries the key when it is given by flag (both `--flag value`
	// and `--flag=value`): every read of os.Args in the package is a further source
	nArgs := 0
	for _, f := range c.SortedFuncs() {
		allInstrs(f, func(i ssa.Instruction) {
			if ld, ok := i.(*ssa.UnOp); ok && ld.Op == token.MUL {
				if g, ok := ld.X.(*ssa.Global); ok && g.Pkg != nil && g.Pkg.Pkg.Path() == "os" && g.Name() == "Args" {
					onlyProgName := len(referrers(ld)) > 0
					for _, u := range referrers(ld) {
						ia, ok := u.(*ssa.IndexAddr)
						if !ok {
							if _, isDbg := u.(*ssa.DebugRef); isDbg {
								continue
							}
							onlyProgName = false
							continue
						}
						if n, ok := constInt(ia.Index); !ok || n != 0 {
							onlyProgName = false
						}
					}
					if onlyProgName {
						return // os.Args[0]: the program name, not an argument
					}
					seeds = append(seeds, ld)
					nArgs++
				}
			}
		})
	}
	if nArgs > 0 {
		seedNames = append(seedNames, fmt.Sprintf("%d read(s) of os.Args", nArgs))
	}
	// the parsed flag set holds the key as well: a flag's Value read through the pflag API
	// (Visit / VisitAll callbacks, Lookup, the command's Flag) or GetString of the flag is a
	// further source, unless the flag is looked up by a constant name other than the key's
	nFlagAPI := 0
	otherConstFlag := func(v ssa.Value) bool {
		call, ok := peelToCall(v)
		if !ok {
			return false
		}
		k := calleeKey(&call.Call)
		if k != "(*github.com/spf13/pflag.FlagSet).Lookup" && k != "(*github.com/spf13/cobra.Command).Flag" {
			return false
		}
		name, isConst := constString(call.Call.Args[len(call.Call.Args)-1])
		return isConst && name != "atlasPrivateKey"
	}
	for _, f := range c.SortedFuncs() {
		allInstrs(f, func(i ssa.Instruction) {
			switch x := i.(type) {
			case *ssa.FieldAddr:
				n, fv := fieldOf(x)
				if n != nil && fv != nil && n.Obj().Pkg() != nil && n.Obj().Pkg().Path() == "github.com/spf13/pflag" && n.Obj().Name() == "Flag" && fv.Name() == "Value" {
					if otherConstFlag(x.X) {
						return
					}
					seeds = append(seeds, x)
					nFlagAPI++
				}
			case *ssa.Call:
				k := calleeKey(&x.Call)
				if k == "(*github.com/spf13/pflag.FlagSet).GetString" {
					if name, isConst := constString(x.Call.Args[len(x.Call.Args)-1]); !isConst || name == "atlasPrivateKey" {
						seeds = append(seeds, x)
						nFlagAPI++
					}
				}
			}
		})
	}
	if nFlagAPI > 0 {
		seedNames = append(seedNames, fmt.Sprintf("%d read(s) of flag values through the pflag API", nFlagAPI))
	}
	r.Floor("C20-R1", 6, "uses of the secret: compare, copies, parameter bindings, Password store")
	if len(seeds) < 2 {
		r.Bad("C20-R1", "seeds", "-", fmt.Sprintf("expected the flag variable and the environment lookup as sources of the private key, found %v", seedNames))
	}
	r.Analysed["taint_seeds"] = seedNames
	t := NewTaint(c)
	t.Run(seeds...)
	r.Analysed["tainted_values"] = len(t.Set)

	passwordStores := 0
	for _, in := range t.Uses() {
		f := in.Parent()
		construct := ""
		okUse := false
		why := ""
		switch x := in.(type) {
		case *ssa.Phi, *ssa.Extract:
			continue // pure propagation
		case *ssa.UnOp:
			if x.Op == token.MUL {
				continue // load
			}
		case *ssa.MakeClosure:
			continue // capture by the nested closure (binding)
		case *ssa.Store:
			switch a := x.Addr.(type) {
			case *ssa.Alloc:
				okUse, why = true, "copy into a local variable"
				construct = fmt.Sprintf("%s:store-local", f.Name())
			case *ssa.FieldAddr:
				n, fv := fieldOf(a)
				if n != nil && fv != nil && n.Obj().Pkg() != nil && n.Obj().Pkg().Path() == digestPkg && n.Obj().Name() == "Transport" && fv.Name() == "Password" {
					okUse, why = true, "stored into digest.Transport.Password"
					passwordStores++
				} else if t.Has(x.Val) {
					why = fmt.Sprintf("the secret is stored into field %v of %v", fieldName(fv), typeNameOf(n))
				} else {
					continue // storing an untainted value into a tainted struct's other field
				}
				construct = fmt.Sprintf("%s:store-field(%s.%s)", f.Name(), typeNameOf(n), fieldName(fv))
			case *ssa.Global:
				why = "the secret is stored into a package-level variable"
				construct = fmt.Sprintf("%s:store-global(%s)", f.Name(), a.Name())
			case *ssa.IndexAddr:
				why = "the secret is stored into a slice/array (typically the operand list of a formatting or printing call)"
				construct = fmt.Sprintf("%s:store-element", f.Name())
			case *ssa.FreeVar:
				okUse, why = true, "copy into a captured variable"
				construct = fmt.Sprintf("%s:store-captured", f.Name())
			default:
				if !t.Has(x.Val) {
					continue
				}
				why = "the secret is stored through an unrecognised address"
				construct = fmt.Sprintf("%s:store-other", f.Name())
			}
		case *ssa.BinOp:
			if (x.Op == token.EQL || x.Op == token.NEQ) && (isConstStr(x.X, "") || isConstStr(x.Y, "")) {
				okUse, why = true, "compared with the empty string"
			} else {
				why = "the secret is an operand of " + x.Op.String() + " (concatenation / comparison with a non-empty value)"
			}
			construct = fmt.Sprintf("%s:binop(%s)", f.Name(), x.Op)
		case *ssa.FieldAddr, *ssa.IndexAddr:
			continue // address computation inside a tainted composite
		case *ssa.Call, *ssa.Defer, *ssa.Go:
			cc := callCommonOf(in)
			k := calleeKey(cc)
			if cc.IsInvoke() && cc.Method.Name() == "String" && len(cc.Args) == 0 && namedIs(cc.Value.Type(), "github.com/spf13/pflag", "Value") {
				continue // reading the text of a flag value: propagation, the result is tracked
			}
			if callee := c.staticPkgCallee(cc); callee != nil {
				okUse, why = true, "passed to a package function (its parameter is then tracked)"
				construct = fmt.Sprintf("%s:pass-to(%s)", f.Name(), callee.Name())
			} else if strings.HasPrefix(k, "(*github.com/spf13/pflag.FlagSet).") && len(cc.Args) > 1 && cc.Args[1] == an.FlagAlloc["atlasPrivateKey"] {
				okUse, why = true, "the flag binding itself (the source of the secret)"
				construct = fmt.Sprintf("%s:flag-binding", f.Name())
				// ... but only the bound variable may carry the secret: a default value or usage
				// text taken from the environment is printed by every usage / help message
				for ai, a := range cc.Args {
					if ai != 1 && t.Has(a) {
						okUse, why = false, "the secret is handed to the flag definition as its default value / usage text: pflag prints non-empty defaults in every usage and help message"
						construct = fmt.Sprintf("%s:flag-default", f.Name())
					}
				}
			} else {
				why = "the secret (or a value derived from it) is passed to " + k
				construct = fmt.Sprintf("%s:lib-call(%s)", f.Name(), shortKey(k))
			}
		case *ssa.Return:
			okUse, why = true, "returned to a package caller (call result is tracked)"
			if f.Object() != nil && f.Object().Exported() && len(c.callersOf(f)) == 0 {
				okUse, why = false, "returned from an exported function without package callers"
			}
			construct = fmt.Sprintf("%s:return", f.Name())
		case *ssa.MakeInterface:
			why = "the secret is boxed into an interface value (operand of a formatting/printing/reflecting call)"
			construct = fmt.Sprintf("%s:box(%s)", f.Name(), typeName(x.X.Type()))
		case *ssa.Convert:
			why = "the secret is converted (e.g. to []byte) for further processing"
			construct = fmt.Sprintf("%s:convert(%s)", f.Name(), typeName(x.Type()))
		case *ssa.Slice, *ssa.Index, *ssa.Lookup:
			why = "the secret is sliced/indexed"
			construct = fmt.Sprintf("%s:slice", f.Name())
		case *ssa.If:
			continue
		default:
			why = fmt.Sprintf("unrecognised use %T", in)
			construct = fmt.Sprintf("%s:%T", f.Name(), in)
		}
		if construct == "" {
			construct = fmt.Sprintf("%s:%T", f.Name(), in)
		}
		r.Check(okUse, "C20-R1", construct, c.InstrPos(in), why, why)
	}
	r.Check(passwordStores >= 1, "C20-R1", "reaches-digest-password", "-", fmt.Sprintf("%d store(s) of the secret into digest.Transport.Password", passwordStores), "the private key never reaches the digest transport (wiring lost)")

	// ---- R2: digest.Transport objects are used only as the Transport of an http.Client
	r.Floor("C20-R2", 1, "digest.Transport composites (2 today)")
	for _, f := range c.SortedFuncs() {
		allInstrs(f, func(i ssa.Instruction) {
			al, ok := i.(*ssa.Alloc)
			if !ok || !namedIs(al.Type(), digestPkg, "Transport") {
				return
			}
			construct := fmt.Sprintf("%s:digest.Transport", f.Name())
			var bad []string
			for _, rr := range referrers(al) {
				switch x := rr.(type) {
				case *ssa.FieldAddr:
					for _, r2 := range referrers(x) {
						if st, ok := r2.(*ssa.Store); ok && st.Addr == ssa.Value(x) {
							continue
						}
						_, fv := fieldOf(x)
						if fn := fieldName(fv); fn != "Password" && fn != "Username" {
							// the inner round tripper and the other settings are not credentials
							continue
						}
						bad = append(bad, fmt.Sprintf("field %s read/escaped at %s", fieldName(fv), c.InstrPos(r2)))
					}
				case *ssa.MakeInterface:
					for _, r2 := range referrers(x) {
						okT := false
						if st, ok := r2.(*ssa.Store); ok {
							if fa, ok := st.Addr.(*ssa.FieldAddr); ok {
								n, fv := fieldOf(fa)
								if n != nil && n.Obj().Pkg() != nil && n.Obj().Pkg().Path() == "net/http" && n.Obj().Name() == "Client" && fv.Name() == "Transport" {
									okT = true
								}
							}
						}
						if !okT {
							bad = append(bad, fmt.Sprintf("used as %s at %s", r2.String(), c.InstrPos(r2)))
						}
					}
				case *ssa.DebugRef:
				default:
					bad = append(bad, fmt.Sprintf("%T at %s", rr, c.InstrPos(rr)))
				}
			}
			r.Check(len(bad) == 0, "C20-R2", construct, c.InstrPos(i), "credential-holding transport only configured and installed as http.Client.Transport", "the credential-holding transport escapes: "+strings.Join(bad, "; "))
		})
	}

	// ---- R3: no Authorization header, no SetBasicAuth
	nHdr := 0
	for _, f := range c.SortedFuncs() {
		allInstrs(f, func(i ssa.Instruction) {
			cc := callCommonOf(i)
			if cc == nil {
				return
			}
			k := calleeKey(cc)
			switch k {
			case "(*net/http.Request).SetBasicAuth":
				r.Bad("C20-R3", f.Name()+":SetBasicAuth", c.InstrPos(i), "credentials sent pre-emptively with Basic authentication")
			case "(net/http.Header).Set", "(net/http.Header).Add":
				nHdr++
				names, isC := possibleConstKeys(cc.Args[1])
				if !isC {
					r.Undecided("C20-R3", f.Name()+":header(non-constant)", c.InstrPos(i), "header name is not a constant (nor the key of a local map literal with constant keys)")
					return
				}
				for _, name := range names {
					low := strings.ToLower(name)
					construct := fmt.Sprintf("%s:header(%s)", f.Name(), name)
					r.Check(low != "authorization" && low != "proxy-authorization", "C20-R3", construct, c.InstrPos(i), "not a credential header", "the package sets a credential header itself: credentials leave without a digest challenge")
				}
			}
		})
	}
	r.Floor("C20-R3", 1, "header-setting calls inspected")
	noRedirectRule(c, r, "C20-R3")
	r.Analysed["header_calls"] = nHdr
}

func isConstStr(v ssa.Value, want string) bool {
	s, ok := constString(v)
	return ok && s == want
}

func fieldName(v *types.Var) string {
	if v == nil {
		return "?"
	}
	return v.Name()
}

func typeNameOf(n *types.Named) string {
	if n == nil {
		return "struct"
	}
	return n.Obj().Name()
}

// peelToCall looks through phis with one distinct operand, loads of single-store locals and
// extracts for the call that produced v.
func peelToCall(v ssa.Value) (*ssa.Call, bool) {
	for n := 0; n < 8 && v != nil; n++ {
		switch x := v.(type) {
		case *ssa.Call:
			return x, true
		case *ssa.Extract:
			v = x.Tuple
		case *ssa.UnOp:
			if x.Op != token.MUL {
				return nil, false
			}
			v = resolveLocal(x)
			if v == ssa.Value(x) {
				return nil, false
			}
		default:
			return nil, false
		}
	}
	return nil, false
}

// possibleConstKeys: the constant strings v can be - a constant, or the key delivered by a
// `range` over a local map all of whose updates have constant keys and which is used for
// nothing but updates, the range and len (a literal `map[string]string{"Accept": ...}` handed
// to a helper that sets each entry as a header).
func possibleConstKeys(v ssa.Value) ([]string, bool) {
	if s, ok := constString(v); ok {
		return []string{s}, true
	}
	ex, ok := peel(v).(*ssa.Extract)
	if !ok || ex.Index != 1 {
		return nil, false
	}
	nx, ok := ex.Tuple.(*ssa.Next)
	if !ok {
		return nil, false
	}
	rg, ok := nx.Iter.(*ssa.Range)
	if !ok {
		return nil, false
	}
	mm, ok := peel(rg.X).(*ssa.MakeMap)
	if !ok {
		return nil, false
	}
	var keys []string
	for _, u := range referrers(mm) {
		switch x := u.(type) {
		case *ssa.MapUpdate:
			k, isC := constString(x.Key)
			if !isC || x.Map != ssa.Value(mm) {
				return nil, false
			}
			keys = append(keys, k)
		case *ssa.Range, *ssa.DebugRef:
		case *ssa.Call:
			if calleeKey(&x.Call) != "builtin len" {
				return nil, false
			}
		case *ssa.Store:
			// the literal parked in a local that is only loaded for the range
			if x.Val != ssa.Value(mm) {
				return nil, false
			}
		default:
			return nil, false
		}
	}
	return keys, len(keys) > 0
}
