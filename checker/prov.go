package main

import (
	"slices"
	"fmt"
	"go/token"
	"go/types"
	"sort"
	"strings"

	"golang.org/x/tools/go/ssa"
)

// A2 - provenance of values in the per-line code and guard atoms.

type Origin uint8

const (
	oIN   Origin = 1 << iota // (part of) the parsed input line: values
	oKEY                     // object keys of the input
	oTBL                     // operator tables
	oCFG                     // option globals
	oSAN                     // constants, fresh containers, sanitiser results, library results without input operands
	oHTBL                    // a fresh container that holds references to operator-table nodes (a shallow copy of a table map)
)

func (o Origin) String() string {
	var p []string
	for _, x := range []struct {
		b Origin
		n string
	}{{oIN, "IN"}, {oKEY, "KEY"}, {oTBL, "TBL"}, {oCFG, "CFG"}, {oSAN, "SAN"}, {oHTBL, "HOLDS-TBL"}} {
		if o&x.b != 0 {
			p = append(p, x.n)
		}
	}
	if len(p) == 0 {
		return "-"
	}
	return strings.Join(p, "|")
}

type Prov struct {
	c          *Ctx
	Org        map[ssa.Value]Origin
	Scope      map[*ssa.Function]bool // functions reachable from RedactMongoLog
	Zone       map[*ssa.Function]bool // functions reachable from the command walkers (W)
	ZoneRoots  []*ssa.Function
	Sanitizers map[*ssa.Function]bool
	Tables     *Tables
	Root       *ssa.Function // RedactMongoLog
	Problems   []string
}

var provCache = map[*Ctx]*Prov{}

func (c *Ctx) prov() *Prov {
	if p, ok := provCache[c]; ok {
		return p
	}
	p := &Prov{c: c, Org: map[ssa.Value]Origin{}, Sanitizers: map[*ssa.Function]bool{}}
	provCache[c] = p
	p.Tables = c.reconstructTables()
	p.Root = c.Fn("RedactMongoLog")
	if p.Root == nil {
		p.Problems = append(p.Problems, "RedactMongoLog not found")
		return p
	}
	p.Scope = c.pkgReach(p.Root)
	for _, n := range []string{"HashName", "Encrypt"} {
		if f := c.Fn(n); f != nil {
			p.Sanitizers[f] = true
		}
	}
	p.solve()
	// zone roots: callees of the root that receive a command document (a value obtained
	// from attr by a constant key and asserted to a map)
	roots := map[*ssa.Function]bool{}
	allInstrs(p.Root, func(i ssa.Instruction) {
		call, ok := i.(*ssa.Call)
		if !ok {
			return
		}
		callee := c.staticPkgCallee(&call.Call)
		if callee == nil || len(call.Call.Args) == 0 {
			return
		}
		if k, ok := getKeyOfValue(call.Call.Args[0]); ok && commandDocKeys[k] {
			roots[callee] = true
		}
	})
	for f := range roots {
		p.ZoneRoots = append(p.ZoneRoots, f)
	}
	sort.Slice(p.ZoneRoots, func(i, j int) bool { return p.ZoneRoots[i].Name() < p.ZoneRoots[j].Name() })
	p.Zone = c.pkgReach(p.ZoneRoots...)
	// sanitisers (pseudonym, encryption) and what only they reach are not walkers
	for f := range p.Sanitizers {
		for g := range c.pkgReach(f) {
			onlyViaSan := true
			for _, call := range c.callersOf(g) {
				if !p.Sanitizers[call.Parent()] && p.Zone[call.Parent()] && !p.Sanitizers[g] {
					// reachable from a non-sanitiser zone function too
					inSanTree := false
					for s2 := range p.Sanitizers {
						if c.pkgReach(s2)[call.Parent()] {
							inSanTree = true
						}
					}
					if !inSanTree {
						onlyViaSan = false
					}
				}
			}
			if onlyViaSan {
				delete(p.Zone, g)
			}
		}
	}
	if len(p.ZoneRoots) == 0 {
		p.Problems = append(p.Problems, "no command-document walker is called from RedactMongoLog")
	}
	return p
}

// commandDocKeys: the attributes under which a log line carries a command document - the
// command itself, the originating command of a getMore, and the command copies attached to
// error reports / debug lines (attr.cmd, attr.commandArgs).
var commandDocKeys = map[string]bool{"command": true, "cmd": true, "originatingCommand": true, "commandArgs": true}

// getKeyOfValue: v is (a type assertion of) the value result of Get(m, "K") -> K.
func getKeyOfValue(v ssa.Value) (string, bool) {
	for depth := 0; depth < 6; depth++ {
		switch x := v.(type) {
		case *ssa.Extract:
			switch tp := x.Tuple.(type) {
			case *ssa.TypeAssert:
				v = tp.X
				continue
			case *ssa.Call:
				if calleeKey(&tp.Call) == omMethod("Get") && x.Index == 0 {
					return constString(tp.Call.Args[1])
				}
			}
			return "", false
		case *ssa.TypeAssert:
			v = x.X
		case *ssa.Phi:
			a := phiAlias[x]
			if a == nil {
				a = phiModuloZero(x)
			}
			if a == nil {
				return "", false
			}
			v = a
		case *ssa.MakeInterface:
			v = x.X
		case *ssa.ChangeInterface:
			v = x.X
		default:
			return "", false
		}
	}
	return "", false
}

func (p *Prov) isTableGlobal(g *ssa.Global) bool {
	if g.Pkg != p.c.SPkg {
		return false
	}
	if _, ok := p.Tables.Globals[g.Name()]; ok {
		return true
	}
	if _, ok := p.Tables.StringSets[g.Name()]; ok {
		return true
	}
	return false
}

func elemFieldName(fa *ssa.FieldAddr) (string, bool) {
	n, fv := fieldOf(fa)
	if n == nil || fv == nil || n.Obj().Pkg() == nil || n.Obj().Pkg().Path() != omPkg || n.Obj().Name() != "Element" {
		return "", false
	}
	return fv.Name(), true
}

func (p *Prov) solve() {
	var fns []*ssa.Function
	for f := range p.Scope {
		fns = append(fns, f)
	}
	sort.Slice(fns, func(i, j int) bool { return fns[i].Name() < fns[j].Name() })
	changed := true
	add := func(v ssa.Value, o Origin) {
		if v == nil || o == 0 {
			return
		}
		if p.Org[v]|o != p.Org[v] {
			p.Org[v] |= o
			changed = true
		}
	}
	get := func(v ssa.Value) Origin {
		if v == nil {
			return 0
		}
		if _, ok := v.(*ssa.Const); ok {
			return oSAN
		}
		if _, ok := v.(*ssa.Function); ok {
			return oSAN
		}
		return p.Org[v]
	}
	for iter := 0; changed && iter < 200; iter++ {
		changed = false
		for _, fn := range fns {
			for _, b := range fn.Blocks {
				for _, in := range b.Instrs {
					switch x := in.(type) {
					case *ssa.Phi:
						for _, e := range x.Edges {
							add(x, get(e))
						}
					case *ssa.MakeInterface:
						add(x, get(x.X))
					case *ssa.ChangeInterface:
						add(x, get(x.X))
					case *ssa.ChangeType:
						add(x, get(x.X))
					case *ssa.Convert:
						add(x, get(x.X))
					case *ssa.Slice:
						add(x, get(x.X))
					case *ssa.TypeAssert:
						add(x, get(x.X))
					case *ssa.Index:
						add(x, get(x.X))
					case *ssa.Lookup:
						add(x, get(x.X))
					case *ssa.IndexAddr:
						add(x, get(x.X))
					case *ssa.Field:
						add(x, get(x.X))
					case *ssa.MakeSlice, *ssa.MakeMap, *ssa.MakeChan:
						add(x.(ssa.Value), oSAN)
					case *ssa.Alloc:
						// origin accumulates from stores
					case *ssa.FieldAddr:
						if fname, ok := elemFieldName(x); ok {
							o := get(x.X)
							switch fname {
							case "Key":
								if o&oIN != 0 {
									add(x, oKEY)
								}
								add(x, o&^oIN)
							default:
								if o&oHTBL != 0 {
									// a member read out of a shallow table copy may be a table node
									o = o&^oHTBL | oTBL
								}
								add(x, o)
							}
						} else {
							add(x, get(x.X))
						}
					case *ssa.Extract:
						switch tp := x.Tuple.(type) {
						case *ssa.TypeAssert:
							if x.Index == 0 {
								add(x, get(tp.X))
							}
						case *ssa.Call:
							if callee := p.c.staticPkgCallee(&tp.Call); callee != nil && callee.Name() == "UnmarshalOrdered" {
								if x.Index == 0 {
									add(x, oIN)
								}
							} else if callee != nil && callee.Blocks != nil && p.Scope[callee] {
								add(x, p.resultOrigin(callee, x.Index))
							} else {
								if isBoolType(x.Type()) || isErrorType(x.Type()) {
									continue
								}
								add(x, get(tp))
							}
						default:
							add(x, get(x.Tuple))
						}
					case *ssa.BinOp:
						switch x.Op {
						case token.ADD:
							if isStringType(x.Type()) {
								add(x, get(x.X)|get(x.Y))
							} else {
								add(x, oSAN)
							}
						default:
							add(x, oSAN)
						}
					case *ssa.UnOp:
						if x.Op == token.MUL {
							if g, ok := x.X.(*ssa.Global); ok {
								if p.isTableGlobal(g) {
									add(x, oTBL)
								} else {
									add(x, oCFG)
								}
							} else {
								add(x, get(x.X))
							}
						} else {
							add(x, oSAN)
						}
					case *ssa.Store:
						o := get(x.Val)
						switch a := x.Addr.(type) {
						case *ssa.Alloc:
							add(a, o)
						case *ssa.IndexAddr:
							// array backing a varargs/slice literal: contents flow to the slice
							if al, ok := a.X.(*ssa.Alloc); ok {
								add(al, o)
							}
						}
					case *ssa.Call:
						p.transferCall(x, add, get)
					}
				}
			}
		}
	}
}

// resultOrigin: what a call to a package function yields. IN never crosses a return:
// each returned IN value is a sink judged at the return (justified pass-through or a
// violation), so at the call site the result counts as sanitised.
func (p *Prov) resultOrigin(callee *ssa.Function, idx int) Origin {
	if p.Sanitizers[callee] {
		return oSAN
	}
	var o Origin
	if idx < callee.Signature.Results().Len() && !outputCapable(callee.Signature.Results().At(idx).Type()) {
		// projection helpers (key-path slices, counters): their results cannot be output
		// values, so provenance simply flows through and no return sink is judged
		for _, b := range callee.Blocks {
			if ret, ok := b.Instrs[len(b.Instrs)-1].(*ssa.Return); ok && idx < len(ret.Results) {
				res := ret.Results[idx]
				if _, isC := res.(*ssa.Const); isC {
					o |= oSAN
				} else {
					o |= p.Org[res] | p.Org[resolveLocal(res)]
				}
			}
		}
		return o
	}
	for _, b := range callee.Blocks {
		if ret, ok := b.Instrs[len(b.Instrs)-1].(*ssa.Return); ok && idx < len(ret.Results) {
			res := ret.Results[idx]
			if _, isC := res.(*ssa.Const); isC {
				o |= oSAN
			} else {
				o |= p.Org[res] | p.Org[resolveLocal(res)]
			}
		}
	}
	if o&oIN != 0 {
		o = o&^oIN | oSAN
	}
	return o
}

func (p *Prov) transferCall(x *ssa.Call, add func(ssa.Value, Origin), get func(ssa.Value) Origin) {
	cc := &x.Call
	k := calleeKey(cc)
	switch k {
	case omMethod("Get"):
		o := get(cc.Args[0])
		if o&oHTBL != 0 {
			o |= oTBL
		}
		add(x, o&(oIN|oTBL|oSAN))
		return
	case omMethod("Front"), omMethod("Back"), omMethod("GetElement"):
		add(x, get(cc.Args[0]))
		return
	case omElemMethod("Next"), omElemMethod("Prev"):
		add(x, get(cc.Args[0]))
		return
	case omPkg + ".NewOrderedMap":
		add(x, oSAN)
		return
	case omMethod("Set"), omMethod("Delete"), omMethod("Len"):
		if k == omMethod("Set") && len(cc.Args) == 3 && get(cc.Args[2])&(oTBL|oHTBL) != 0 {
			add(cc.Args[0], oHTBL) // the receiver now holds a reference into the tables
		}
		add(x, oSAN)
		return
	case "builtin append":
		var o Origin
		for _, a := range cc.Args {
			o |= get(a)
		}
		add(x, o)
		return
	case "builtin len", "builtin cap":
		add(x, oSAN)
		return
	}
	if callee := p.c.staticPkgCallee(cc); callee != nil {
		if callee.Name() == "UnmarshalOrdered" {
			return // tuple: handled at Extract
		}
		if p.Scope[callee] {
			for i, a := range cc.Args {
				if i < len(callee.Params) {
					add(callee.Params[i], get(a))
				}
			}
			if callee.Signature.Results().Len() == 1 {
				add(x, p.resultOrigin(callee, 0))
			}
			return
		}
	}
	// library call: result derives from its operands
	if x.Type() != nil {
		if tup, ok := x.Type().(*types.Tuple); ok && tup.Len() == 0 {
			return
		}
	}
	if isBoolType(x.Type()) {
		add(x, oSAN)
		return
	}
	var o Origin = oSAN
	for _, a := range cc.Args {
		o |= get(a) & (oIN | oKEY)
	}
	if cc.IsInvoke() {
		o |= get(cc.Value) & (oIN | oKEY)
	}
	add(x, o)
}

func (p *Prov) Of(v ssa.Value) Origin {
	if v == nil {
		return 0
	}
	if _, ok := v.(*ssa.Const); ok {
		return oSAN
	}
	return p.Org[v]
}

// ---- atoms ----

type Atom struct {
	Kind string // tbl, typeis, dollar, nil, cfg, param, ok, err, strconst, or, other
	Pol  bool
	Name string     // tbl: enum name; cfg: global name; param: name; strconst: constant; ok: callee
	X    ssa.Value  // subject value (typeis/dollar/nil)
	Type types.Type // typeis
	Or   []Atom     // disjunction
	And  []Atom     // for a disjunct: what else holds when it does (its decomposition over boolean phis)
	Set  []string   // inset: the members of the constant set
	Src  ssa.Value
}

func (a Atom) String() string {
	neg := ""
	if !a.Pol {
		neg = "!"
	}
	switch a.Kind {
	case "tbl":
		return neg + "tbl==" + a.Name
	case "typeis":
		return neg + "is(" + typeName(a.Type) + ")"
	case "dollar":
		return neg + "dollar"
	case "nil":
		return neg + "nil"
	case "cfg":
		return neg + "cfg(" + a.Name + ")"
	case "param":
		return neg + "param(" + a.Name + ")"
	case "ok":
		return neg + "ok(" + a.Name + ")"
	case "strconst":
		return neg + "streq(" + a.Name + ")"
	case "len":
		return neg + "len" + a.Name
	case "hasprefix":
		return neg + "hasprefix"
	case "inset":
		return neg + "in(" + a.Name + ")"
	case "or":
		var ps []string
		for _, x := range a.Or {
			ps = append(ps, x.String())
		}
		return "(" + strings.Join(ps, "|") + ")"
	}
	return neg + "other(" + a.Name + ")"
}

func (p *Prov) enumConst(v ssa.Value) (string, bool) {
	c := constOf(v)
	if c == nil || c.Value == nil {
		return "", false
	}
	n, ok := c.Type().(*types.Named)
	if !ok || n.Obj().Name() != "OperatorType" {
		return "", false
	}
	i, ok := constInt(c)
	if !ok {
		return "", false
	}
	name, ok := p.Tables.EnumName[i]
	return name, ok
}

// atomOf classifies one branch condition.
func (p *Prov) atomOf(cond ssa.Value, pol bool) Atom {
	switch x := cond.(type) {
	case *ssa.Parameter:
		return Atom{Kind: "param", Pol: pol, Name: x.Name(), Src: cond}
	case *ssa.UnOp:
		if x.Op == token.MUL {
			if g, ok := x.X.(*ssa.Global); ok {
				return Atom{Kind: "cfg", Pol: pol, Name: p.c.roleName(g), Src: cond}
			}
		}
		if x.Op == token.NOT {
			return p.atomOf(x.X, !pol)
		}
	case *ssa.Extract:
		if x.Index == 1 {
			switch tp := x.Tuple.(type) {
			case *ssa.TypeAssert:
				return Atom{Kind: "typeis", Pol: pol, X: tp.X, Type: tp.AssertedType, Src: cond}
			case *ssa.Call:
				return Atom{Kind: "ok", Pol: pol, Name: shortKey(calleeKey(&tp.Call)), X: tp, Src: cond}
			}
		}
	case *ssa.Call:
		k := calleeKey(&x.Call)
		if k == "strings.HasPrefix" {
			if s, ok := constString(x.Call.Args[1]); ok && s == "$" {
				return Atom{Kind: "dollar", Pol: pol, X: x.Call.Args[0], Src: cond}
			}
		}
		if k == "strings.HasPrefix" {
			return Atom{Kind: "hasprefix", Pol: pol, X: x.Call.Args[0], Name: "HasPrefix", Src: cond}
		}
		// membership of a key in a constant string set of the package: slices.Contains(Set, key)
		if strings.HasPrefix(k, "slices.Contains") && len(x.Call.Args) == 2 {
			if ld, ok := x.Call.Args[0].(*ssa.UnOp); ok {
				if g, ok := ld.X.(*ssa.Global); ok && g.Pkg == p.c.SPkg {
					if _, isSet := p.Tables.StringSets[g.Name()]; isSet {
						return Atom{Kind: "inset", Pol: pol, Name: g.Name(), X: x.Call.Args[1], Set: append([]string{}, p.Tables.StringSets[g.Name()]...), Src: cond}
					}
				}
			}
		}
		return Atom{Kind: "other", Pol: pol, Name: "call " + shortKey(k), Src: cond}
	case *ssa.BinOp:
		if x.Op == token.EQL || x.Op == token.NEQ {
			eq := (x.Op == token.EQL) == pol
			// nil test
			if v, _, ok := nilCompare(x); ok {
				if ld, isLd := v.(*ssa.UnOp); isLd && ld.Op == token.MUL {
					if g, isG := ld.X.(*ssa.Global); isG {
						return Atom{Kind: "cfg", Pol: !eq, Name: p.c.roleName(g) + "!=nil", Src: cond}
					}
				}
				return Atom{Kind: "nil", Pol: eq, X: v, Src: cond}
			}
			// table comparison
			for _, pair := range [][2]ssa.Value{{x.X, x.Y}, {x.Y, x.X}} {
				if name, ok := p.enumConst(pair[1]); ok {
					o := p.Of(pair[0])
					if o&oTBL != 0 && o&oIN == 0 {
						return Atom{Kind: "tbl", Pol: eq, Name: name, X: pair[0], Src: cond}
					}
					return Atom{Kind: "other", Pol: pol, Name: "enum compare of a non-table value", Src: cond}
				}
			}
			// s[0] == '$'
			for _, pair := range [][2]ssa.Value{{x.X, x.Y}, {x.Y, x.X}} {
				if n, ok := constInt(pair[1]); ok && n == 36 {
					var sx, ix ssa.Value
					switch lk := pair[0].(type) {
					case *ssa.Lookup:
						sx, ix = lk.X, lk.Index
					case *ssa.Index:
						sx, ix = lk.X, lk.Index
					}
					if sx != nil && isStringType(sx.Type()) {
						if i, ok := constInt(ix); ok && i == 0 {
							return Atom{Kind: "dollar", Pol: eq, X: sx, Src: cond}
						}
					}
				}
			}
			// len(x) == c / != c
			for _, pair := range [][2]ssa.Value{{x.X, x.Y}, {x.Y, x.X}} {
				if lc, ok := pair[0].(*ssa.Call); ok && calleeKey(&lc.Call) == "builtin len" {
					if n, ok := constInt(pair[1]); ok {
						return Atom{Kind: "len", Pol: eq, X: lc.Call.Args[0], Name: fmt.Sprintf("==%d", n), Src: cond}
					}
				}
			}
			// string constant comparison
			for _, pair := range [][2]ssa.Value{{x.X, x.Y}, {x.Y, x.X}} {
				if s, ok := constString(pair[1]); ok {
					return Atom{Kind: "strconst", Pol: eq, Name: s, X: pair[0], Src: cond}
				}
			}
		}
		if x.Op == token.GTR || x.Op == token.LSS || x.Op == token.GEQ || x.Op == token.LEQ {
			// len(x) > c bounds tests
			for _, side := range []ssa.Value{x.X, x.Y} {
				if lc, ok := side.(*ssa.Call); ok && calleeKey(&lc.Call) == "builtin len" {
					return Atom{Kind: "len", Pol: pol, X: lc.Call.Args[0], Name: x.Op.String(), Src: cond}
				}
			}
		}
	}
	return Atom{Kind: "other", Pol: pol, Name: describeCond(cond), Src: cond}
}

// atomsAt: guard atoms that must hold at block b (including disjunctive join atoms).
func (p *Prov) atomsAt(b *ssa.BasicBlock) []Atom {
	var out []Atom
	hdr := loopHeaders(b.Parent())
	for _, f := range allFacts(b) {
		if ph, ok := f.Cond.(*ssa.Phi); ok && len(phiDisjunction(ph, f.Pol)) >= 1 {
			continue // represented by its decomposition (conjunctive facts or the disjunctive atom below)
		}
		a := p.atomOf(f.Cond, f.Pol)
		if a.Kind == "len" && f.If != nil && hdr[f.If.Block()] {
			continue // the exit test of a range loop: says only that the loop has finished
		}
		out = append(out, a)
	}
	// a boolean phi built by an || chain (`ok := a || b || c; if ok {`): its truth is the
	// disjunction of the conditions under which each edge delivers true
	for _, f := range allFacts(b) {
		if ph, ok := f.Cond.(*ssa.Phi); ok {
			if fs := phiDisjunction(ph, f.Pol); len(fs) >= 2 {
				a := Atom{Kind: "or", Pol: true}
				for _, x := range fs {
					a.Or = append(a.Or, p.disjunctAtom(x))
				}
				out = append(out, a)
			}
		}
	}
	for _, d := range disjunctiveJoins(b) {
		a := Atom{Kind: "or", Pol: true}
		for _, f := range d {
			a.Or = append(a.Or, p.disjunctAtom(f))
		}
		out = append(out, a)
	}
	// `x == "a" || x == "b" || ...` (also the written-out form of slices.Contains over a
	// constant table, and a multi-value `case`) is membership of x in a constant set
	for _, a := range out {
		if a.Kind != "or" || len(a.Or) < 2 {
			continue
		}
		var x ssa.Value
		var set []string
		for _, d := range a.Or {
			if d.Kind != "strconst" || !d.Pol || (x != nil && peel(d.X) != x) {
				x, set = nil, nil
				break
			}
			x = peel(d.X)
			set = append(set, d.Name)
		}
		if x != nil {
			out = append(out, Atom{Kind: "inset", Pol: true, X: x, Set: set, Name: strings.Join(set, "|")})
		}
	}
	return out
}

// disjunctAtom: the atom of one alternative of a disjunction, with the atoms of everything
// its truth implies (a boolean phi - `isRef` delivered by an inlined helper, an && chain -
// decomposes into the conditions under which it has that value).
func (p *Prov) disjunctAtom(f Fact) Atom {
	a := p.atomOf(f.Cond, f.Pol)
	ex := expandFacts([]Fact{f})
	for _, g := range ex[1:] {
		a.And = append(a.And, p.atomOf(g.Cond, g.Pol))
	}
	return a
}

// phiDisjunction: for a boolean phi and a required value, the alternative facts (one
// per edge that can deliver that value): the branch that led to a constant edge, or
// the edge value itself. Returns nil when some edge cannot be described.
func phiDisjunction(ph *ssa.Phi, want bool) []Fact {
	if !isBoolType(ph.Type()) {
		return nil
	}
	var out []Fact
	for i, e := range ph.Edges {
		pred := ph.Block().Preds[i]
		if cb, isC := constBool(e); isC {
			if cb != want {
				continue
			}
			rs := edgeReasons(pred, ph.Block(), 0)
			if rs == nil {
				return nil
			}
			out = append(out, rs...)
			continue
		}
		out = append(out, Fact{e, want, nil})
	}
	return out
}

// edgeReasons: the alternative branch facts under which control goes from block `from` to
// its successor `to`: the branch at the end of `from`, or - when `from` ends in a plain jump
// (the body of a multi-value `case`, the landing block of an inlined `return true`) - the
// reasons of the edges entering `from`. nil when some entering edge cannot be described.
func edgeReasons(from, to *ssa.BasicBlock, depth int) []Fact {
	if depth > 4 || len(from.Instrs) == 0 {
		return nil
	}
	switch last := from.Instrs[len(from.Instrs)-1].(type) {
	case *ssa.If:
		if from.Succs[0] == from.Succs[1] {
			return nil
		}
		return []Fact{{last.Cond, from.Succs[0] == to, last}}
	case *ssa.Jump:
		var out []Fact
		eps := effectivePreds(from)
		if len(eps) == 0 {
			return nil
		}
		for _, q := range eps {
			rs := edgeReasons(q, from, depth+1)
			if rs == nil {
				return nil
			}
			out = append(out, rs...)
		}
		return out
	}
	return nil
}

// disjunctiveJoins: for every block on the dominator path of b that has several
// effective predecessors, each of which enters it through one branch edge, the
// disjunction of those edge conditions holds (multi-type case, a||b||c gates).
func disjunctiveJoins(b *ssa.BasicBlock) [][]Fact {
	var out [][]Fact
	seen := map[*ssa.BasicBlock]bool{}
	cur := b
	for cur != nil && !seen[cur] {
		seen[cur] = true
		eps := effectivePreds(cur)
		if len(eps) == 1 {
			cur = eps[0]
			continue
		}
		if len(eps) > 1 {
			var fs []Fact
			okAll := true
			for _, pr := range eps {
				ifi, ok := pr.Instrs[len(pr.Instrs)-1].(*ssa.If)
				if !ok || pr.Succs[0] == pr.Succs[1] {
					okAll = false
					break
				}
				if pr.Succs[0] == cur {
					fs = append(fs, Fact{ifi.Cond, true, ifi})
				} else {
					fs = append(fs, Fact{ifi.Cond, false, ifi})
				}
			}
			if okAll {
				out = append(out, fs)
			}
		}
		cur = cur.Idom()
	}
	return out
}

// rootOf peels projections: the input node a value is a view of.
func rootOf(v ssa.Value) ssa.Value {
	for depth := 0; depth < 8; depth++ {
		switch x := v.(type) {
		case *ssa.Phi:
			a := phiAlias[x]
			if a == nil {
				return v
			}
			v = a
		case *ssa.MakeInterface:
			v = x.X
		case *ssa.ChangeInterface:
			v = x.X
		case *ssa.TypeAssert:
			v = x.X
		case *ssa.Extract:
			if ta, ok := x.Tuple.(*ssa.TypeAssert); ok && x.Index == 0 {
				v = ta.X
			} else {
				return v
			}
		default:
			return v
		}
	}
	return v
}

// ---- sinks ----

type Sink struct {
	Fn    *ssa.Function
	Instr ssa.Instruction
	Kind  string // set | store | return
	Val   ssa.Value
	Key   ssa.Value // set: key argument
	Recv  ssa.Value // set: receiver; store: slice
	Raw   bool
	Atoms []Atom
	Just  string // justification class, "" if none
}

func (p *Prov) sinks(fns map[*ssa.Function]bool) []*Sink {
	var out []*Sink
	var list []*ssa.Function
	for f := range fns {
		list = append(list, f)
	}
	sort.Slice(list, func(i, j int) bool { return list[i].Name() < list[j].Name() })
	for _, fn := range list {
		for _, b := range fn.Blocks {
			for _, in := range b.Instrs {
				switch x := in.(type) {
				case *ssa.Call:
					if calleeKey(&x.Call) == omMethod("Set") {
						out = append(out, &Sink{Fn: fn, Instr: in, Kind: "set", Val: x.Call.Args[2], Key: x.Call.Args[1], Recv: x.Call.Args[0]})
					}
					if calleeKey(&x.Call) == "builtin append" && isAnySlice(x.Type()) && len(x.Call.Args) == 2 {
						vals := varargValues(x.Call.Args[1])
						if len(vals) == 0 {
							vals = []ssa.Value{x.Call.Args[1]}
						}
						for _, v := range vals {
							if v != nil {
								out = append(out, &Sink{Fn: fn, Instr: in, Kind: "append", Val: v, Recv: x.Call.Args[0]})
							}
						}
					}
				case *ssa.Store:
					if ia, ok := x.Addr.(*ssa.IndexAddr); ok {
						if _, isArr := ia.X.(*ssa.Alloc); isArr {
							continue // varargs / literal backing arrays
						}
						if sl, ok := ia.X.Type().Underlying().(*types.Slice); ok && isEmptyInterface(sl.Elem()) {
							out = append(out, &Sink{Fn: fn, Instr: in, Kind: "store", Val: x.Val, Recv: ia.X, Key: ia.Index})
						}
					}
				case *ssa.Return:
					for _, res := range x.Results {
						if !outputCapable(res.Type()) {
							continue
						}
						out = append(out, &Sink{Fn: fn, Instr: in, Kind: "return", Val: res})
					}
				}
			}
		}
	}
	for _, s := range out {
		o := p.Of(s.Val) | p.Of(resolveLocal(s.Val))
		s.Raw = o&oIN != 0
		if s.Raw {
			s.Atoms = p.atomsAt(s.Instr.Block())
			s.Just = p.justify(s)
			if s.Just == "" {
				// a helper that is only ever called under a table classification inherits it
				// (one call level): e.g. a namespace-document helper called from the
				// Namespace arms only
				if inh := p.inheritedTblAtoms(s.Fn); len(inh) > 0 {
					s.Atoms = append(s.Atoms, inh...)
					s.Just = p.justify(s)
				}
			}
		}
	}
	return out
}

func isContainerType(t types.Type) bool { return isOrderedMapPtr(t) || isAnySlice(t) }

func isNumericKind(t types.Type) bool {
	if b, ok := t.Underlying().(*types.Basic); ok && b.Info()&types.IsNumeric != 0 {
		return true
	}
	if n, ok := t.(*types.Named); ok && n.Obj().Name() == "Number" && n.Obj().Pkg() != nil && n.Obj().Pkg().Path() == "encoding/json" {
		return true
	}
	return false
}

// justify returns the J-class that licenses a raw pass-through, or "". When the guard holds
// a disjunction the cases are tried one by one: the pass-through is licensed when it is in
// every case.
func (p *Prov) justify(s *Sink) string { return p.justifySplit(s, 0) }

func (p *Prov) justifySplit(s *Sink, depth int) string {
	if j := p.justify1(s); j != "" || depth >= 3 {
		return j
	}
	for i, a := range s.Atoms {
		if a.Kind != "or" || len(a.Or) < 2 || len(a.Or) > 6 {
			continue
		}
		var js []string
		for _, d := range a.Or {
			cs := *s
			cs.Atoms = append(append(append([]Atom{}, s.Atoms[:i]...), s.Atoms[i+1:]...), d)
			cs.Atoms = append(cs.Atoms, d.And...)
			j := p.justifySplit(&cs, depth+1)
			if j == "" {
				js = nil
				break
			}
			js = append(js, j)
		}
		if len(js) > 0 {
			sort.Strings(js)
			uniq := js[:1]
			for _, j := range js[1:] {
				if j != uniq[len(uniq)-1] {
					uniq = append(uniq, j)
				}
			}
			return strings.Join(uniq, "|")
		}
	}
	return ""
}

func (p *Prov) justify1(s *Sink) string {
	v := resolveLocal(s.Val)
	root := rootOf(v)
	has := func(pred func(a Atom) bool) bool {
		for _, a := range s.Atoms {
			if pred(a) {
				return true
			}
		}
		return false
	}
	sameSubject := func(x ssa.Value) bool {
		if x == nil {
			return false
		}
		rx := rootOf(x)
		if rx == root || rx == v || x == v {
			return true
		}
		// the same member read twice (`el.Value` tested, `el.Value` stored): two loads of one
		// field of the element of a parsed, read-only document
		return sameExpr(rx, root)
	}
	tbl := func(name string) bool {
		return has(func(a Atom) bool { return a.Kind == "tbl" && a.Pol && a.Name == name })
	}
	// J12: Set(m, "k", <the member read with Get(m, "k")>) - the member is stored back under its
	// own key: a no-op on the tree (position kept, same object). What the member holds is judged
	// where it is walked in place, not here.
	if s.Kind == "set" && s.Recv != nil && s.Key != nil {
		if rv, kv, ok := getKeyValueOf(peel(s.Val)); ok && peel(rv) == peel(s.Recv) {
			k1, c1 := constString(kv)
			k2, c2 := constString(s.Key)
			if c1 && c2 && k1 == k2 && slices.Contains(commandWrappers, k1) && isOrderedMapPtr(peel(s.Val).Type()) {
				// (only the wrapped command documents, which the command walker rewrites in
				// place - C01-R1 requires that; an array stored back is the raw array)
				return "J12:member-stored-back-under-its-own-key"
			}
		}
	}
	// J10: the in-place array walker returns its (fully overwritten) parameter
	if s.Kind == "return" {
		if _, isParam := v.(*ssa.Parameter); isParam && isAnySlice(v.Type()) && p.inPlaceSanitised(s.Fn, v, s.Instr.Block()) {
			return "J10:in-place-overwritten"
		}
	}
	// J1
	if tbl("Exempt") {
		return "J1:tbl==Exempt"
	}
	// J3
	if tbl("Namespace") {
		return "J3:tbl==Namespace"
	}
	// J3 (short form): the KEY is a member of a reviewed constant set of namespace-bearing
	// stages and the value is a string - {$out: "coll"}, {$unionWith: "coll"}, {$merge: "coll"}
	if has(func(a Atom) bool {
		if a.Kind != "inset" || !a.Pol || p.Of(a.X)&oKEY == 0 {
			return false
		}
		pol, err := loadTablePolicy()
		if err != nil {
			return false
		}
		for _, m := range a.Set {
			if _, ok := pol.NamespaceStageAllow[m]; !ok {
				return false
			}
		}
		return len(a.Set) > 0
	}) && (isStringType(peel(v).Type()) || has(func(a Atom) bool { return a.Kind == "typeis" && a.Pol && isStringType(a.Type) && sameSubject(a.X) })) {
		return "J3:namespace-stage-shorthand"
	}
	// J2: field-name position holding a string, or anything that is not a document
	// (field paths, arrays of field paths; documents are expressions and must be walked)
	if tbl("FieldName") {
		if isStringType(peel(v).Type()) {
			return "J2:tbl==FieldName&string"
		}
		if has(func(a Atom) bool { return a.Kind == "typeis" && !a.Pol && sameSubject(a.X) && isOrderedMapPtr(a.Type) }) {
			return "J2:tbl==FieldName&!document"
		}
	}
	// J4: '$'-prefixed string (field-path reference)
	if has(func(a Atom) bool { return a.Kind == "dollar" && a.Pol && sameSubject(a.X) }) {
		return "J4:dollar"
	}
	// J6: nil
	if has(func(a Atom) bool { return a.Kind == "nil" && a.Pol && sameSubject(a.X) }) {
		return "J6:nil"
	}
	// J5: shape mismatch under Pipeline / OperatorArray, or the scalar default of a stage switch
	negContainer := 0
	for _, a := range s.Atoms {
		if a.Kind == "typeis" && !a.Pol && sameSubject(a.X) && isContainerType(a.Type) {
			negContainer++
		}
	}
	// (only under Pipeline: the operand of an OperatorArray key that is not an array - a single
	// clause document where Atlas Search also accepts a list, a scalar - is a value like the
	// elements of the array would be, and has to be walked: hunt 4, F-57)
	if tbl("Pipeline") && negContainer >= 1 {
		return "J5:shape-mismatch"
	}
	if s.Kind == "return" && negContainer >= 2 {
		// a bare scalar in stage position (outside the grammar: a stage is a document) -
		// only at the root of a pipeline, i.e. with an empty key path; a scalar operand
		// further down (an element of $and / $or ...) is a value and must be redacted
		if has(func(a Atom) bool {
			return a.Kind == "len" && a.Pol && a.Name == "==0" && a.X != nil && isStringSlice(a.X.Type())
		}) {
			return "J5:scalar-stage(empty-path)"
		}
	}
	// J11: the BSON binary subtype - last path element "subType" directly under "$binary"
	// (an operational parameter the property names; decided on key context alone)
	if has(func(a Atom) bool {
		return a.Kind == "strconst" && a.Pol && a.Name == "subType" && pathPosition(a.X) == "last"
	}) &&
		has(func(a Atom) bool {
			return a.Kind == "strconst" && a.Pol && a.Name == "$binary" && pathPosition(a.X) == "second-to-last"
		}) {
		return "J11:binary-subtype"
	}
	// J7: selective mode
	if has(func(a Atom) bool { return a.Kind == "cfg" && a.Pol && a.Name == "redactedFieldsRegexp!=nil" }) {
		return "J7:selective-mode"
	}
	// J8 / J9: numbers / booleans kept unless their flag is on
	isKind := func(pred func(t types.Type) bool) bool {
		return has(func(a Atom) bool {
			if a.Kind == "typeis" && a.Pol && sameSubject(a.X) && pred(a.Type) {
				return true
			}
			if a.Kind == "or" {
				for _, d := range a.Or {
					if !(d.Kind == "typeis" && d.Pol && sameSubject(d.X) && pred(d.Type)) {
						return false
					}
				}
				return len(a.Or) > 0
			}
			return false
		})
	}
	cfgOff := func(name string) bool {
		return has(func(a Atom) bool { return a.Kind == "cfg" && !a.Pol && a.Name == name })
	}
	if isKind(isNumericKind) && cfgOff("redactNumbers") {
		return "J8:number&!redactNumbers"
	}
	if isKind(isBoolType) && cfgOff("redactBooleans") {
		return "J9:bool&!redactBooleans"
	}
	return ""
}

func atomsString(as []Atom) string {
	var ps []string
	seen := map[string]bool{}
	for _, a := range as {
		s := a.String()
		if !seen[s] {
			seen[s] = true
			ps = append(ps, s)
		}
	}
	return strings.Join(ps, "&")
}

// sinkConstruct gives a stable instance key: function, sink kind, guard atoms.
func (p *Prov) sinkConstruct(s *Sink) string {
	return fmt.Sprintf("%s:%s[%s]", s.Fn.Name(), s.Kind, atomsString(s.Atoms))
}

// outputCapable: a value of this type can become part of the emitted tree.
func outputCapable(t types.Type) bool {
	return isEmptyInterface(t) || isOrderedMapPtr(t) || isAnySlice(t) || isStringType(t)
}

var loopHdrCache = map[*ssa.Function]map[*ssa.BasicBlock]bool{}

func loopHeaders(fn *ssa.Function) map[*ssa.BasicBlock]bool {
	if m, ok := loopHdrCache[fn]; ok {
		return m
	}
	m := map[*ssa.BasicBlock]bool{}
	for _, l := range naturalLoops(fn) {
		m[l.Header] = true
	}
	loopHdrCache[fn] = m
	return m
}

// inheritedTblAtoms: the positive table-classification atoms that hold at EVERY call
// site of fn (one level; none when fn has no caller or is a walker called recursively).
func (p *Prov) inheritedTblAtoms(fn *ssa.Function) []Atom {
	sites := p.c.callersOf(fn)
	if len(sites) == 0 {
		return nil
	}
	var common map[string]Atom
	for _, call := range sites {
		if call.Parent() == fn {
			return nil
		}
		here := map[string]Atom{}
		for _, a := range p.atomsAt(call.Block()) {
			if a.Kind == "tbl" && a.Pol {
				here[a.String()] = a
			}
		}
		if common == nil {
			common = here
			continue
		}
		for k := range common {
			if _, ok := here[k]; !ok {
				delete(common, k)
			}
		}
	}
	var out []Atom
	for _, a := range common {
		out = append(out, a)
	}
	sort.Slice(out, func(i, j int) bool { return out[i].String() < out[j].String() })
	return out
}
