package main

// The shape of a request URL: a sequence of literal text and operands, whatever way the string
// was assembled - fmt.Sprintf with a constant format, string concatenation, a path format kept
// in a constant, a query string built with net/url.Values (Set + Encode: keys sorted, values
// escaped), strconv for the numbers, a helper that joins base URL, path and query. C16-R1 /
// C16-R4 (and the request rules of C20) read the operand that follows `groups/`, `clusters/`,
// `startDate=`, `endDate=` and the operand the URL starts with; how the text got there is not
// their business. Anything the evaluator cannot read yields an opaque operand, which no rule
// accepts in a judged position.

import (
	"go/token"
	"sort"
	"strings"

	"golang.org/x/tools/go/ssa"
)

type urlPart struct {
	Lit string    // literal text (when Val == nil)
	Val ssa.Value // an operand
	Esc bool      // the operand cannot change the structure of the URL: escaped (url.PathEscape / QueryEscape / Values.Encode) or a formatted number
}

type urlShape []urlPart

// text renders the shape with %v for operands (for messages and "contains" tests).
func (s urlShape) text() string {
	var b strings.Builder
	for _, p := range s {
		if p.Val == nil {
			b.WriteString(p.Lit)
		} else {
			b.WriteString("%v")
		}
	}
	return b.String()
}

// operands: every operand with the literal text that precedes it (back to the previous operand).
func (s urlShape) operands() (pre []string, ops []ssa.Value) {
	cur := ""
	for _, p := range s {
		if p.Val == nil {
			cur += p.Lit
			continue
		}
		pre = append(pre, cur)
		ops = append(ops, p.Val)
		cur = ""
	}
	return
}

// escaped: for every operand (in the order of operands()), whether it is structure-safe.
func (s urlShape) escaped() []bool {
	var out []bool
	for _, p := range s {
		if p.Val != nil {
			out = append(out, p.Esc)
		}
	}
	return out
}

func normShape(s urlShape) urlShape {
	var out urlShape
	for _, p := range s {
		if p.Val == nil {
			if p.Lit == "" {
				continue
			}
			if n := len(out); n > 0 && out[n-1].Val == nil {
				out[n-1].Lit += p.Lit
				continue
			}
		}
		out = append(out, p)
	}
	return out
}

// urlShapes evaluates string value v used at block `at`; several shapes come back when a phi
// cannot be decided (every one of them is judged).
func urlShapes(v ssa.Value, at *ssa.BasicBlock) []urlShape {
	shapes := evalShape(v, at, 0)
	var out []urlShape
	for _, s := range shapes {
		out = append(out, normShape(s))
	}
	return out
}

func cross(a, b []urlShape) []urlShape {
	var out []urlShape
	for _, x := range a {
		for _, y := range b {
			s := append(append(urlShape{}, x...), y...)
			out = append(out, s)
			if len(out) > 16 {
				return out
			}
		}
	}
	return out
}

func evalShape(v ssa.Value, at *ssa.BasicBlock, depth int) []urlShape {
	opaque := []urlShape{{urlPart{Val: v}}}
	if depth > 12 || v == nil {
		return opaque
	}
	v = canon(peel(v))
	if s, ok := constString(v); ok {
		return []urlShape{{urlPart{Lit: s}}}
	}
	switch x := v.(type) {
	case *ssa.BinOp:
		if x.Op == token.ADD {
			return cross(evalShape(x.X, at, depth+1), evalShape(x.Y, at, depth+1))
		}
	case *ssa.Phi:
		// `u := base + path; if len(q) > 0 { u += "?" + q.Encode() }`: decide the test where the
		// query is plainly empty (nil) or plainly not (Set was called on it)
		edges := map[int]bool{}
		for i := range x.Edges {
			edges[i] = true
		}
		inf := infeasibleEdges(x.Block(), at)
		for i := range x.Edges {
			if inf[i] || blockEndsProcess(x.Block().Preds[i]) {
				delete(edges, i)
			}
		}
		for i, pred := range x.Block().Preds {
			if !edges[i] {
				continue
			}
			// facts on the edge pred -> phi block
			fs := allFacts(pred)
			if ifi, ok := pred.Instrs[len(pred.Instrs)-1].(*ssa.If); ok && pred.Succs[0] != pred.Succs[1] {
				fs = append(fs, Fact{ifi.Cond, pred.Succs[0] == x.Block(), ifi})
			}
			for _, f := range fs {
				if truth, known := queryNonEmptyTest(f.Cond); known && truth != f.Pol {
					delete(edges, i)
				}
			}
		}
		var out []urlShape
		var idx []int
		for i := range edges {
			idx = append(idx, i)
		}
		sort.Ints(idx)
		for _, i := range idx {
			out = append(out, evalShape(x.Edges[i], x.Block().Preds[i], depth+1)...)
		}
		if len(out) == 0 || len(out) > 16 {
			return opaque
		}
		return out
	case *ssa.Call:
		k := calleeKey(&x.Call)
		switch k {
		case "fmt.Sprintf":
			format, okF := constString(canon(peel(x.Call.Args[0])))
			ops := varargValues(x.Call.Args[1])
			pre, verbs, tail := fmtSplit(format)
			if !okF || len(ops) != len(verbs) {
				return opaque
			}
			acc := []urlShape{{}}
			for i := range verbs {
				acc = cross(acc, []urlShape{{urlPart{Lit: pre[i]}}})
				if verbs[i] == "%s" || verbs[i] == "%v" {
					acc = cross(acc, evalShape(ops[i], x.Block(), depth+1))
				} else {
					acc = cross(acc, []urlShape{{urlPart{Val: peel(ops[i]), Esc: verbs[i] == "%d"}}})
				}
			}
			acc = cross(acc, []urlShape{{urlPart{Lit: tail}}})
			return acc
		case "strconv.Itoa", "strconv.FormatInt", "strconv.FormatUint", "net/url.PathEscape", "net/url.QueryEscape":
			return []urlShape{{urlPart{Val: peel(x.Call.Args[0]), Esc: true}}}
		case "(net/url.Values).Encode":
			if q, ok := queryMembers(x.Call.Args[0], x.Block()); ok {
				var names []string
				for n := range q {
					names = append(names, n)
				}
				sort.Strings(names) // Encode sorts by key
				var s urlShape
				for i, n := range names {
					if i > 0 {
						s = append(s, urlPart{Lit: "&"})
					}
					s = append(s, urlPart{Lit: n + "="}, urlPart{Val: q[n], Esc: true})
				}
				return []urlShape{s}
			}
		case "strings.Join":
			// not a shape the rules read
		}
	}
	return opaque
}

// queryMembers: the url.Values value q was made in this function (url.Values{} / make) and
// filled by Set / Add calls with constant names before the use; name -> value (strconv peeled).
func queryMembers(q ssa.Value, at *ssa.BasicBlock) (map[string]ssa.Value, bool) {
	q = canon(peel(q))
	if ct, ok := q.(*ssa.ChangeType); ok {
		q = canon(peel(ct.X))
	}
	mm, ok := q.(*ssa.MakeMap)
	if !ok {
		return nil, false
	}
	out := map[string]ssa.Value{}
	okAll := true
	var visit func(v ssa.Value)
	seen := map[ssa.Value]bool{}
	visit = func(v ssa.Value) {
		if seen[v] {
			return
		}
		seen[v] = true
		for _, use := range referrers(v) {
			switch x := use.(type) {
			case *ssa.ChangeType:
				visit(x)
			case *ssa.Store:
				if al, isAl := x.Addr.(*ssa.Alloc); isAl && x.Val == v {
					for _, r2 := range referrers(al) {
						if ld, isLd := r2.(*ssa.UnOp); isLd && ld.Op == token.MUL {
							visit(ld)
						}
					}
				}
			case *ssa.Call:
				k := calleeKey(&x.Call)
				switch k {
				case "(net/url.Values).Set", "(net/url.Values).Add":
					name, isC := constString(x.Call.Args[1])
					if !isC {
						okAll = false
						continue
					}
					if _, dup := out[name]; dup {
						okAll = false
					}
					val := canon(peel(x.Call.Args[2]))
					if vc, isCall := val.(*ssa.Call); isCall {
						switch calleeKey(&vc.Call) {
						case "strconv.Itoa", "strconv.FormatInt", "strconv.FormatUint":
							val = peel(vc.Call.Args[0])
						}
					}
					out[name] = val
				case "(net/url.Values).Encode", "builtin len", "(net/url.Values).Get", "(net/url.Values).Has":
				default:
					okAll = false
				}
			case *ssa.MapUpdate:
				okAll = false
			case *ssa.DebugRef, *ssa.Phi:
			}
		}
	}
	visit(mm)
	return out, okAll
}

// queryNonEmptyTest: cond is `len(q) > 0` / `len(q) != 0` / `len(q) == 0` / `q != nil` ... for a
// url.Values q that is plainly nil (truth of "non-empty" is false) or plainly filled by Set
// calls (true). Returns the truth of cond itself and whether it could be decided.
func queryNonEmptyTest(cond ssa.Value) (truth bool, known bool) {
	bo, ok := cond.(*ssa.BinOp)
	if !ok {
		return false, false
	}
	var q ssa.Value
	lenOf := func(v ssa.Value) ssa.Value {
		if call, ok := peel(v).(*ssa.Call); ok && calleeKey(&call.Call) == "builtin len" {
			return call.Call.Args[0]
		}
		return nil
	}
	op, y := bo.Op, bo.Y
	if q = lenOf(bo.X); q == nil {
		if q = lenOf(bo.Y); q == nil {
			return false, false
		}
		y = bo.X
		switch op {
		case token.LSS:
			op = token.GTR
		case token.GTR:
			op = token.LSS
		case token.LEQ:
			op = token.GEQ
		case token.GEQ:
			op = token.LEQ
		}
	}
	n, isC := constInt(y)
	if !isC {
		return false, false
	}
	nonEmpty, decided := false, false
	qq := canon(peel(q))
	if isNilConst(qq) {
		nonEmpty, decided = false, true
	} else if members, ok := queryMembers(qq, nil); ok && len(members) > 0 {
		nonEmpty, decided = true, true
	}
	if !decided {
		return false, false
	}
	switch {
	case (op == token.GTR && n == 0) || (op == token.NEQ && n == 0) || (op == token.GEQ && n == 1):
		return nonEmpty, true
	case (op == token.EQL && n == 0) || (op == token.LEQ && n == 0) || (op == token.LSS && n == 1):
		return !nonEmpty, true
	}
	return false, false
}

// fmtSplit: the literal text before each verb, the verbs, and the text after the last one
// ("%%" written as "%").
func fmtSplit(format string) (pre []string, verbs []string, tail string) {
	idx := fmtVerbRe.FindAllStringIndex(format, -1)
	last := 0
	cur := ""
	for _, m := range idx {
		v := format[m[0]:m[1]]
		if v == "%%" {
			cur += format[last:m[0]] + "%"
			last = m[1]
			continue
		}
		pre = append(pre, cur+format[last:m[0]])
		cur = ""
		verbs = append(verbs, v)
		last = m[1]
	}
	tail = cur + format[last:]
	return
}
