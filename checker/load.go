package main

import (
	"fmt"
	"go/ast"
	"go/token"
	"go/types"
	"os"
	"sort"
	"strings"

	"golang.org/x/tools/go/packages"
	"golang.org/x/tools/go/ssa"
	"golang.org/x/tools/go/ssa/ssautil"
)

// Ctx is the resolved program under analysis: typed syntax + SSA of /repo/src.
type Ctx struct {
	lineScopeCache map[*ssa.Function]bool
	memoCache      map[*ssa.Global]*memoInfo
	noGoroutines   int // 0 unknown, 1 none, 2 some
	RepoDir string
	Tier    string
	Fset    *token.FileSet
	Pkg     *packages.Package
	AllPkgs []*packages.Package
	Prog    *ssa.Program
	SPkg    *ssa.Package
	// all source functions of the main package, including closures (name -> fn)
	Funcs map[string]*ssa.Function
	// stats
	NumFiles, NumFuncs, NumInstrs int
	// what the source normalisation did (nil when switched off)
	Norm *inlineReport
}

var (
	noInline       bool
	dumpNormalised string
	dumpShapes     bool
)

// LoadRepo loads ./src of the repository from source (never cached between runs),
// type-checks it and builds SSA for the whole program.
func LoadRepo(repoDir, tier string, tags []string, goos string) (*Ctx, error) {
	env := os.Environ()
	var clean []string
	for _, e := range env {
		if strings.HasPrefix(e, "GOWORK=") || strings.HasPrefix(e, "GOSUMDB=") || strings.HasPrefix(e, "GOFLAGS=") || strings.HasPrefix(e, "GOPROXY=") || strings.HasPrefix(e, "GOOS=") {
			continue
		}
		clean = append(clean, e)
	}
	clean = append(clean, "GOWORK=off", "GOFLAGS=-mod=mod", "GOPROXY=off")
	if goos != "" {
		clean = append(clean, "GOOS="+goos, "CGO_ENABLED=0")
	}
	cfg := &packages.Config{
		Mode:  packages.LoadAllSyntax,
		Dir:   repoDir,
		Tests: false,
		Env:   clean,
	}
	if len(tags) > 0 {
		cfg.BuildFlags = []string{"-tags=" + strings.Join(tags, ",")}
	}
	// normalisation: calls to helpers that are not part of the reviewed decomposition are inlined
	var norm *inlineReport
	if !noInline {
		overlay, rep, nerr := normaliseSources(repoDir, clean, cfg.BuildFlags)
		if nerr != nil {
			return nil, fmt.Errorf("normalisation: %w", nerr)
		}
		norm = rep
		if dumpNormalised != "" {
			for _, k := range rep.Kept {
				fmt.Fprintln(os.Stderr, "normalise: kept:", k)
			}
		}
		if overlay != nil {
			cfg.Overlay = overlay
			if dumpNormalised != "" {
				for path, src := range overlay {
					_ = os.MkdirAll(dumpNormalised, 0o755)
					_ = os.WriteFile(dumpNormalised+"/"+path[strings.LastIndex(path, "/")+1:], src, 0o644)
				}
			}
		}
	}
	pkgs, err := packages.Load(cfg, "./src")
	if err != nil {
		return nil, fmt.Errorf("packages.Load: %w", err)
	}
	if len(pkgs) != 1 {
		return nil, fmt.Errorf("expected exactly 1 root package, got %d", len(pkgs))
	}
	var errs []string
	packages.Visit(pkgs, nil, func(p *packages.Package) {
		for _, e := range p.Errors {
			errs = append(errs, e.Error())
		}
	})
	if len(errs) > 0 {
		return nil, fmt.Errorf("type/load errors: %s", strings.Join(errs, "; "))
	}
	root := pkgs[0]
	if root.Name != "main" || len(root.Syntax) == 0 {
		return nil, fmt.Errorf("root package is %q with %d files", root.Name, len(root.Syntax))
	}
	prog, spkgs := ssautil.AllPackages(pkgs, ssa.InstantiateGenerics)
	if len(spkgs) != 1 || spkgs[0] == nil {
		return nil, fmt.Errorf("ssa package not built")
	}
	if tier == "thorough" {
		prog.Build()
	} else {
		spkgs[0].Build()
	}
	c := &Ctx{RepoDir: repoDir, Tier: tier, Fset: root.Fset, Pkg: root, AllPkgs: pkgs, Prog: prog, SPkg: spkgs[0], Funcs: map[string]*ssa.Function{}, Norm: norm}
	c.NumFiles = len(root.Syntax)
	var addFn func(f *ssa.Function)
	addFn = func(f *ssa.Function) {
		if f == nil || f.Blocks == nil {
			return
		}
		if _, dup := c.Funcs[f.Name()]; dup {
			return
		}
		c.Funcs[fnKey(f)] = f
		c.NumFuncs++
		for _, b := range f.Blocks {
			c.NumInstrs += len(b.Instrs)
		}
		for _, a := range f.AnonFuncs {
			addFn(a)
		}
	}
	for _, m := range c.SPkg.Members {
		switch m := m.(type) {
		case *ssa.Function:
			addFn(m)
		case *ssa.Type:
			// methods
			for _, t := range []types.Type{m.Type(), types.NewPointer(m.Type())} {
				ms := prog.MethodSets.MethodSet(t)
				for i := 0; i < ms.Len(); i++ {
					fn := prog.MethodValue(ms.At(i))
					if fn != nil && fn.Pkg == c.SPkg {
						addFn(fn)
					}
				}
			}
		}
	}
	computePhiAliases(c)
	computeSentinelErrors(c)
	return c, nil
}

// fnKey names a package function: "F", "(*T).M" -> "T.M", closures "main$1".
func fnKey(f *ssa.Function) string {
	if f.Signature.Recv() != nil {
		t := f.Signature.Recv().Type()
		if p, ok := t.(*types.Pointer); ok {
			t = p.Elem()
		}
		if n, ok := t.(*types.Named); ok {
			return n.Obj().Name() + "." + f.Name()
		}
	}
	return f.Name()
}

func (c *Ctx) Fn(name string) *ssa.Function { return c.Funcs[name] }

func (c *Ctx) SortedFuncs() []*ssa.Function {
	var names []string
	for n := range c.Funcs {
		names = append(names, n)
	}
	sort.Strings(names)
	var out []*ssa.Function
	for _, n := range names {
		out = append(out, c.Funcs[n])
	}
	return out
}

// Pos renders a position relative to the repo dir.
func (c *Ctx) Pos(p token.Pos) string {
	if !p.IsValid() {
		return "-"
	}
	pp := c.Fset.Position(p)
	fn := strings.TrimPrefix(pp.Filename, c.RepoDir+"/")
	return fmt.Sprintf("%s:%d:%d", fn, pp.Line, pp.Column)
}

func (c *Ctx) InstrPos(i ssa.Instruction) string {
	p := i.Pos()
	if !p.IsValid() {
		// fall back to any operand position, then to the function
		if v, ok := i.(ssa.Value); ok {
			_ = v
		}
		for _, op := range i.Operands(nil) {
			if *op != nil && (*op).Pos().IsValid() {
				p = (*op).Pos()
				break
			}
		}
	}
	if !p.IsValid() && i.Parent() != nil {
		p = i.Parent().Pos()
	}
	return c.Pos(p)
}

// FuncDecl finds the AST declaration of a top-level function by name.
func (c *Ctx) FuncDecl(name string) *ast.FuncDecl {
	for _, f := range c.Pkg.Syntax {
		for _, d := range f.Decls {
			if fd, ok := d.(*ast.FuncDecl); ok && fd.Name.Name == name && fd.Recv == nil {
				return fd
			}
		}
	}
	return nil
}

// GlobalVar returns the package-level variable object by name.
func (c *Ctx) GlobalVar(name string) *ssa.Global {
	if m, ok := c.SPkg.Members[name]; ok {
		if g, ok := m.(*ssa.Global); ok {
			return g
		}
	}
	return nil
}
