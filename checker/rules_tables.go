package main

import (
	"encoding/json"
	"fmt"
	"os"
	"path/filepath"
	"sort"
	"strings"
)

var rulesDir = "/verif/rules"

type tablePolicy struct {
	ExemptAllow    map[string]string `json:"exempt_allow"`
	FieldNameAllow map[string]string `json:"fieldname_allow"`
	NamespaceAllow map[string]string `json:"namespace_allow"`
	// positions typed Pipeline / OperatorArray / OperatorMap: a value that is NOT a
	// container passes through unchanged there (justification J5), so these positions
	// must be ones whose scalar form is not a client literal
	ShapePassAllow map[string]string `json:"shape_pass_allow"`
	// stage names whose whole argument, when a string, is a collection name
	NamespaceStageAllow map[string]string `json:"namespace_stage_allow"`
}

func loadTablePolicy() (*tablePolicy, error) {
	b, err := os.ReadFile(filepath.Join(rulesDir, "table_policy.json"))
	if err != nil {
		return nil, err
	}
	var p tablePolicy
	if err := json.Unmarshal(b, &p); err != nil {
		return nil, err
	}
	return &p, nil
}

// CanonEntries names every distinct (object, key) once: <table>:<first path reaching the object>.<key>.
type CEntry struct {
	Name string
	Val  TVal
}

func (t *Tables) CanonEntries() []CEntry {
	canon := map[int]string{}
	seen := map[string]bool{}
	var out []CEntry
	for _, e := range t.Entries() {
		parent := e.Table + ":"
		if len(e.Path) > 1 {
			parent = e.Table + ":" + strings.Join(e.Path[:len(e.Path)-1], ".")
		}
		if _, ok := canon[e.ObjID]; !ok {
			canon[e.ObjID] = parent
		}
		p := canon[e.ObjID]
		name := p + e.Path[len(e.Path)-1]
		if !strings.HasSuffix(p, ":") {
			name = p + "." + e.Path[len(e.Path)-1]
		}
		if seen[name] {
			continue
		}
		seen[name] = true
		out = append(out, CEntry{name, e.Val})
	}
	return out
}

// C01-R4: Exempt / FieldName / Namespace typed positions are confined to the reviewed allow-lists.
func tablePolicyRule(c *Ctx, r *Report, rule string) {
	t := c.reconstructTables()
	if !t.requireResolved(r, rule) {
		return
	}
	pol, err := loadTablePolicy()
	if err != nil {
		r.Undecided(rule, "table_policy.json", "-", err.Error())
		return
	}
	r.Analysed["table_set_calls"] = t.SetCalls
	r.Analysed["table_objects"] = t.Objects
	r.Analysed["tables"] = len(t.Globals)
	ces := t.CanonEntries()
	r.Analysed["table_entries_distinct"] = len(ces)
	r.Floor(rule, 100, "Exempt/FieldName/Namespace typed table positions (112 today)")
	for _, e := range ces {
		if e.Val.Kind != "leaf" {
			continue
		}
		ln := t.LeafName(e.Val)
		var allow map[string]string
		switch ln {
		case "Exempt":
			allow = pol.ExemptAllow
		case "FieldName":
			allow = pol.FieldNameAllow
		case "Namespace":
			allow = pol.NamespaceAllow
		case "Pipeline", "OperatorArray", "OperatorMap":
			allow = pol.ShapePassAllow
		default:
			continue
		}
		reason, ok := allow[e.Name]
		construct := fmt.Sprintf("table:%s=%s", e.Name, ln)
		if ok {
			r.OK(rule, construct, "src/operators.go", "reviewed: "+reason)
		} else {
			what := "values at this position reach the output unredacted"
			if ln == "Pipeline" || ln == "OperatorArray" || ln == "OperatorMap" {
				what = "a value at this position that is not a document / array (a plain string, number ...) reaches the output unredacted"
			}
			r.Bad(rule, construct, "src/operators.go", fmt.Sprintf("table position typed %s is not in the reviewed allow-list: %s", ln, what))
		}
	}
	// the operators the property names must never be typed pass-through
	sensitive := []string{"$eq", "$gt", "$gte", "$in", "$lt", "$lte", "$ne", "$nin", "$regex", "$where", "$text", "$expr", "$all", "$elemMatch", "$not", "$nor", "$mod",
		"$inc", "$min", "$max", "$mul", "$setOnInsert", "$addToSet", "$pull", "$push", "$pullAll", "$each", "$set", "$date", "$oid", "$match", "$group", "$addFields", "$project"}
	var badOps []string
	for _, op := range sensitive {
		if v, ok := t.Lookup("CoreOperators", op); ok && v.Kind == "leaf" {
			switch t.LeafName(v) {
			case "Exempt", "FieldName", "Namespace", "Pipeline", "OperatorArray", "OperatorMap":
				badOps = append(badOps, op+"="+t.LeafName(v))
			}
		}
	}
	if v, ok := t.Lookup("CoreOperators", "$binary", "base64"); ok && v.Kind == "leaf" && t.LeafName(v) != "Redactable" {
		badOps = append(badOps, "$binary.base64="+t.LeafName(v))
	}
	sort.Strings(badOps)
	r.Check(len(badOps) == 0, rule, "table:sensitive-operators-not-pass-through", "src/operators.go",
		fmt.Sprintf("%d value-bearing operators are never typed Exempt/FieldName/Namespace in the merged core table", len(sensitive)+1),
		fmt.Sprintf("value-bearing operators typed pass-through: %v", badOps))
	// positions that hold a LIST of search operators (the clauses of compound) are walked
	// element by element by the stage walker only when typed OperatorArray; typed Redactable
	// the list goes to the query walker, which knows neither the per-operator member types nor
	// the user-document positions (moreLikeThis.like) below it (hunt 4, F-58)
	for _, k := range []string{"must", "mustNot", "should", "filter"} {
		v, ok := t.Lookup("SearchOperators", "compound", k)
		got := "absent"
		if ok && v.Kind == "leaf" {
			got = t.LeafName(v)
		} else if ok {
			got = v.Kind
		}
		r.Check(got == "OperatorArray", rule, "table:SearchOperators:compound."+k+"=OperatorArray(clause-list)", "src/operators.go",
			"the clause list is walked clause by clause by the stage walker",
			"compound."+k+" is "+got+": its clauses are not walked by the stage walker, so the member types of the operators inside (Exempt options, user-document positions such as moreLikeThis.like) are decided by bare key names - a user field called numBuckets / score / fuzzy keeps its value")
	}
}

// C04-R4 / C05-R4: exemptions the statement requires.
func requiredExemptions(c *Ctx, r *Report, rule string, want [][]string) {
	t := c.reconstructTables()
	if !t.requireResolved(r, rule) {
		return
	}
	for _, w := range want {
		table, path := w[0], w[1:]
		v, ok := t.Lookup(table, path...)
		name := table + ":" + strings.Join(path, ".")
		r.Check(ok && v.Kind == "leaf" && t.LeafName(v) == "Exempt", rule, "table:"+name+"=Exempt", "src/operators.go",
			"kept as is (Exempt)", fmt.Sprintf("%s is %s, the statement requires it to be kept as is", name, map[bool]string{true: t.LeafName(v), false: "absent"}[ok]))
	}
}

// C12-R4 (table part): namespace-bearing stage arguments are typed Namespace.
func requiredNamespaces(c *Ctx, r *Report, rule string) {
	t := c.reconstructTables()
	if !t.requireResolved(r, rule) {
		return
	}
	for _, w := range [][]string{{"$lookup", "from"}, {"$graphLookup", "from"}, {"$unionWith", "coll"}, {"$merge", "into"}, {"$out", "db"}, {"$out", "coll"}} {
		for _, table := range []string{"AggregationOperators", "CoreOperators"} {
			v, ok := t.Lookup(table, w...)
			name := table + ":" + strings.Join(w, ".")
			r.Check(ok && v.Kind == "leaf" && t.LeafName(v) == "Namespace", rule, "table:"+name+"=Namespace", "src/operators.go",
				"typed Namespace", fmt.Sprintf("%s is %s: the collection name at this position is not pseudonymised", name, map[bool]string{true: t.LeafName(v), false: "absent"}[ok]))
		}
	}
}
