// anonverif: repository-specific static checker for yuvalherziger/anonymongo.
// Every verdict is computed from /repo's current source (typed AST, go/ssa, call graph,
// constants). No code of the repository is executed.
package main

import (
	"flag"
	"fmt"
	"os"
	"runtime/debug"
	"sort"
	"strconv"
	"strings"
	"time"
)

type ruleFn func(c *Ctx, r *Report)

type propDef struct {
	ID          string
	Run         ruleFn
	Explanation string
	RuleText    string
	Assumptions []string
}

var props = map[string]*propDef{}

func register(p *propDef) { props[p.ID] = p }

var commonAssumptions = []string{
	"Go type checker and golang.org/x/tools/go/ssa v0.29.0 build a faithful SSA of the source",
	"semantics of the Go standard library, orderedmap v3.1.0 (Set keeps position, no MarshalJSON), tink-go v2.4.0 daead, mongodb-forks/digest v1.1.0, cobra/pflag flag binding, as read from their sources",
	"value-level behaviour (JSON bytes, base64, AES-SIV, SHA-256, gzip, bufio.Scanner splitting, OS/file-system/HTTP semantics) is NOT decided by this check",
}

func main() {
	prop := flag.String("prop", "", "property id (C01..C20) or 'all'")
	tier := flag.String("tier", "quick", "quick|thorough")
	repo := flag.String("repo", "/repo", "repository root")
	evdir := flag.String("evidence", "/verif/evidence", "evidence directory")
	knownPath := flag.String("known", "/verif/known_findings.json", "known findings file (read-only)")
	dump := flag.String("dump", "", "debug: dump (tables|prov|sinks)")
	goosFlag := flag.String("goos", "", "analyse the package as built for this GOOS (thorough-tier configuration sweep)")
	noTag := flag.Bool("notag", false, "analyse without the hook build tag")
	flag.BoolVar(&noInline, "noinline", false, "debug: do not inline helpers that are not in rules/baseline_functions.json")
	flag.BoolVar(&dumpShapes, "dump-baseline-shapes", false, "maintenance: print the signature / vocabulary of every function of the package (the \"shapes\" member of rules/baseline_functions.json)")
	flag.StringVar(&dumpNormalised, "dump-normalised", "", "debug: write the normalised source files to this directory")
	flag.Parse()
	if *prop == "" {
		fmt.Println("usage: anonverif -prop Cnn [-tier quick|thorough]")
		os.Exit(2)
	}
	seed := 0
	if s := os.Getenv("VERIF_SEED"); s != "" {
		if n, err := strconv.Atoi(s); err == nil {
			seed = n
		}
	}
	var ids []string
	if *prop == "all" {
		for id := range props {
			ids = append(ids, id)
		}
		sort.Strings(ids)
	} else {
		for _, id := range strings.Split(*prop, ",") {
			if props[id] == nil {
				fmt.Printf("unknown property %q\n", id)
				os.Exit(2)
			}
			ids = append(ids, id)
		}
	}
	known, err := loadKnown(*knownPath)
	if err != nil {
		fmt.Printf("cannot read known findings: %v\n", err)
		os.Exit(2)
	}
	t0 := time.Now()
	tags := []string{"verif"}
	if *noTag {
		tags = nil
	}
	ctx, lerr := LoadRepo(*repo, *tier, tags, *goosFlag)
	if *dump != "" && lerr == nil {
		debugDump(ctx, *dump)
		return
	}
	exit := 0
	for _, id := range ids {
		p := props[id]
		tp := time.Now()
		r := NewReport(id, *tier, seed)
		r.Explanation = p.Explanation
		r.RuleText = p.RuleText
		r.Assumptions = append(append([]string{}, commonAssumptions...), p.Assumptions...)
		fmt.Printf("== %s (%s) ==\n", id, *tier)
		if lerr != nil {
			r.Undecided(id+"-load", "load", "-", lerr.Error())
		} else {
			r.Analysed["packages"] = 1
			r.Analysed["files"] = ctx.NumFiles
			r.Analysed["functions"] = ctx.NumFuncs
			r.Analysed["ssa_instructions"] = ctx.NumInstrs
			r.Analysed["load_s"] = tp.Sub(t0).Seconds()
			func() {
				defer func() {
					if e := recover(); e != nil {
						r.Undecided(id+"-panic", "checker", "-", fmt.Sprintf("checker panic: %v\n%s", e, debug.Stack()))
					}
				}()
				p.Run(ctx, r)
				if *tier == "thorough" {
					runThoroughExtras(ctx, r, p)
				}
			}()
		}
		start := tp
		if len(ids) == 1 {
			start = t0
		}
		if code := r.Finish(known, *evdir, start); code > exit {
			exit = code
		}
	}
	os.Exit(exit)
}
