package main

import (
	"fmt"
	"go/token"
	"go/types"
	"sort"
	"strings"

	"golang.org/x/tools/go/ssa"
)

func init() {
	register(&propDef{
		ID:          "C06",
		Run:         ruleC06,
		Explanation: "Decides the structural necessary conditions of 'order-preserving, line-local map' (C06): (R1) line-locality - in the code reachable from the per-line functions (redactor, serialiser, scan loop) no package-level state is both written and read, the shared operator tables are never mutated, there is no goroutine / channel / sync use, no time / randomness / environment / file source is called, and no Go-map iteration order can reach the output; (R2) the scan loop takes the scanned line only to the redactor and to comparisons with the empty string, performs at most one write per iteration whose payload is exactly string(MarshalOrdered(RedactMongoLog(line))), every iteration that writes nothing is on a path guarded by the redactor's error, the serialiser's error or line==\"\" (so no other state - in particular the progress bar - can suppress a record), and leaves the loop only by returning a non-nil error; (R3) one funnel - every input channel (plain file, gzip file, stdin, Atlas files) reaches the same scan loop with the caller's own writer, the output handle is used by nobody else, every success return of the channel wrappers comes from the scan loop, and a progress bar can only exist when records do not go to stdout. NOT decided: CRLF / final-newline handling and gzip member handling (bufio.ScanLines, compress/gzip - trusted library), byte equality across OS channels.",
		RuleText:    "obligations = package-level variables touched on the line path (mod/ref), ordered-map mutator calls (receiver provenance), concurrency/nondeterminism instructions (with positive controls), uses of the scanned line, write sites and write-free iteration paths of the scan loop (bounded path enumeration with edge facts), uses of the output handle in the redact command, calls of the scan loop and of its wrappers",
	})
}

// globalRoot: the package-level variable an address or loaded value is rooted at.
func globalRoot(v ssa.Value, depth int) *ssa.Global {
	if depth > 10 || v == nil {
		return nil
	}
	switch x := v.(type) {
	case *ssa.Global:
		return x
	case *ssa.FieldAddr:
		return globalRoot(x.X, depth+1)
	case *ssa.IndexAddr:
		return globalRoot(x.X, depth+1)
	case *ssa.Field:
		return globalRoot(x.X, depth+1)
	case *ssa.Index:
		return globalRoot(x.X, depth+1)
	case *ssa.Slice:
		return globalRoot(x.X, depth+1)
	case *ssa.UnOp:
		if x.Op == token.MUL {
			return globalRoot(x.X, depth+1)
		}
	case *ssa.ChangeType:
		return globalRoot(x.X, depth+1)
	}
	return nil
}

// onlyWriteBase: every use of v is as the base of a write (map update, element/field
// store), i.e. loading it does not read the stored contents.
func onlyWriteBase(v ssa.Value, depth int) bool {
	if depth > 6 {
		return false
	}
	refs := referrers(v)
	if len(refs) == 0 {
		return true
	}
	for _, rr := range refs {
		switch x := rr.(type) {
		case *ssa.MapUpdate:
			if x.Map != v {
				return false
			}
		case *ssa.Store:
			if x.Addr != v {
				return false
			}
		case *ssa.IndexAddr:
			if x.X != v || !onlyWriteBase(x, depth+1) {
				return false
			}
		case *ssa.FieldAddr:
			if x.X != v || !onlyWriteBase(x, depth+1) {
				return false
			}
		case *ssa.DebugRef:
		default:
			return false
		}
	}
	return true
}

type globalUse struct {
	reads, writes []ssa.Instruction
}

// modRef collects reads and writes of package-level variables of the analysed package
// in the given functions.
func (c *Ctx) modRef(fns map[*ssa.Function]bool) map[*ssa.Global]*globalUse {
	out := map[*ssa.Global]*globalUse{}
	get := func(g *ssa.Global) *globalUse {
		u := out[g]
		if u == nil {
			u = &globalUse{}
			out[g] = u
		}
		return u
	}
	mutators := map[string]bool{omMethod("Set"): true, omMethod("Delete"): true, omMethod("ReplaceKey"): true,
		"(*sync.Map).Store": true, "(*sync.Map).Delete": true, "(*sync.Map).LoadOrStore": true, "(*sync.Map).Swap": true}
	for f := range fns {
		allInstrs(f, func(i ssa.Instruction) {
			switch x := i.(type) {
			case *ssa.Store:
				if g := globalRoot(x.Addr, 0); g != nil && g.Pkg == c.SPkg {
					get(g).writes = append(get(g).writes, i)
				}
			case *ssa.MapUpdate:
				if g := globalRoot(x.Map, 0); g != nil && g.Pkg == c.SPkg {
					get(g).writes = append(get(g).writes, i)
				}
			case *ssa.UnOp:
				if x.Op != token.MUL {
					return
				}
				g := globalRoot(x.X, 0)
				if g == nil || g.Pkg != c.SPkg {
					return
				}
				if onlyWriteBase(x, 0) {
					return
				}
				if counterIncrement(x, g) {
					return // `g++` / `g += k`: the read is part of the write; nothing else sees it
				}
				get(g).reads = append(get(g).reads, i)
			case ssa.CallInstruction:
				cc := x.Common()
				if mutators[calleeKey(cc)] && len(cc.Args) > 0 {
					if g := globalRoot(cc.Args[0], 0); g != nil && g.Pkg == c.SPkg {
						get(g).writes = append(get(g).writes, i)
					}
				}
				// address of a package variable handed to a call: may be read and written
				for _, a := range cc.Args {
					if g, ok := a.(*ssa.Global); ok && g.Pkg == c.SPkg {
						get(g).reads = append(get(g).reads, i)
						get(g).writes = append(get(g).writes, i)
					}
				}
			}
		})
	}
	return out
}

// concurrencyUses: goroutines, channel operations, sync / atomic calls in fn.
func concurrencyUses(c *Ctx, fn *ssa.Function) []string {
	var out []string
	allInstrs(fn, func(i ssa.Instruction) {
		switch x := i.(type) {
		case *ssa.Go:
			out = append(out, "go statement at "+c.InstrPos(i))
		case *ssa.Send:
			out = append(out, "channel send at "+c.InstrPos(i))
		case *ssa.Select:
			out = append(out, "select at "+c.InstrPos(i))
		case *ssa.MakeChan:
			out = append(out, "channel creation at "+c.InstrPos(i))
		case *ssa.UnOp:
			if x.Op == token.ARROW {
				out = append(out, "channel receive at "+c.InstrPos(i))
			}
		}
		if cc := callCommonOf(i); cc != nil {
			k := calleeKey(cc)
			if mutexPairOK(c, fn, k) {
				return
			}
			for _, pfx := range []string{"sync.", "(*sync.", "(sync.", "sync/atomic.", "(*sync/atomic.", "golang.org/x/sync/", "(*golang.org/x/sync/"} {
				if strings.HasPrefix(k, pfx) {
					out = append(out, "call of "+shortKey(k)+" at "+c.InstrPos(i))
				}
			}
		}
	})
	return out
}

var nondetPrefixes = []string{
	"time.Now", "time.Since", "time.Until", "time.Tick", "time.After", "time.NewTimer", "time.NewTicker", "time.Sleep",
	"math/rand.", "(*math/rand.", "math/rand/v2.", "(*math/rand/v2.", "crypto/rand.",
	"os.Getenv", "os.LookupEnv", "os.Environ", "os.Getpid", "os.Getppid", "os.Hostname", "os.Getwd", "os.Getuid", "os.Executable",
	"os.ReadFile", "os.Open", "os.OpenFile", "os.Stat", "os.Lstat", "os.ReadDir",
	"runtime.NumGoroutine", "runtime.Caller", "runtime.Stack", "runtime.ReadMemStats",
	"net.", "(*net.", "net/http.", "(*net/http.",
	"github.com/google/uuid.",
}

// nondeterminismUses: calls of time / randomness / environment / file-reading / network sources in fn.
func nondeterminismUses(c *Ctx, fn *ssa.Function) []string {
	var out []string
	allInstrs(fn, func(i ssa.Instruction) {
		cc := callCommonOf(i)
		if cc == nil {
			return
		}
		k := calleeKey(cc)
		for _, pfx := range nondetPrefixes {
			if strings.HasPrefix(k, pfx) {
				// a clock / pid / environment read whose result only ever reaches a diagnostic on
				// stderr cannot change an output byte (diagonly.go)
				universe := []*ssa.Function{fn}
				if fn.Pkg == c.SPkg {
					universe = c.SortedFuncs()
				}
				if ok, _ := diagnosticOnlySourceCall(c, i, universe); ok {
					return
				}
				_, why := diagnosticOnlySourceCall(c, i, universe)
				out = append(out, "call of "+shortKey(k)+" at "+c.InstrPos(i)+" (its result "+why+")")
				return
			}
		}
	})
	return out
}

// mapRangeProblems: iteration over a Go map whose order can escape. Accepted shape:
// the extracted keys/values are only appended to a slice that is sorted by a sort.* /
// slices.Sort* call in the same function before the function returns.
func mapRangeProblems(c *Ctx, fn *ssa.Function) (n int, problems []string) {
	sorted := hasCallToPrefix(fn, "sort.", "slices.Sort")
	allInstrs(fn, func(i ssa.Instruction) {
		rg, ok := i.(*ssa.Range)
		if !ok {
			return
		}
		if _, isMap := rg.X.Type().Underlying().(*types.Map); !isMap {
			return
		}
		n++
		// uses of the iterator's tuples
		okShape := true
		for _, nx := range referrers(rg) {
			nxt, ok := nx.(*ssa.Next)
			if !ok {
				continue
			}
			for _, ex := range referrers(nxt) {
				e, ok := ex.(*ssa.Extract)
				if !ok || e.Index == 0 {
					continue
				}
				for _, use := range referrers(e) {
					if !flowsOnlyToAppend(use, e, 0) {
						okShape = false
					}
				}
			}
		}
		if !okShape || !sorted {
			problems = append(problems, fmt.Sprintf("range over a Go map at %s whose iteration order is not neutralised by a sort", c.InstrPos(i)))
		}
	})
	return
}

func flowsOnlyToAppend(use ssa.Instruction, v ssa.Value, depth int) bool {
	if depth > 6 {
		return false
	}
	switch x := use.(type) {
	case *ssa.DebugRef:
		return true
	case *ssa.Store:
		// element of a varargs array that is appended
		if ia, ok := x.Addr.(*ssa.IndexAddr); ok {
			if al, ok := ia.X.(*ssa.Alloc); ok {
				for _, rr := range referrers(al) {
					if sl, ok := rr.(*ssa.Slice); ok {
						for _, r2 := range referrers(sl) {
							if !isCallTo(r2, "builtin append") {
								return false
							}
						}
					}
				}
				return true
			}
		}
		return false
	case *ssa.MakeInterface:
		for _, rr := range referrers(x) {
			if !flowsOnlyToAppend(rr, x, depth+1) {
				return false
			}
		}
		return true
	case *ssa.Call:
		return isCallTo(x, "builtin append")
	}
	return false
}

func hasCallToPrefix(fn *ssa.Function, prefixes ...string) bool {
	found := false
	allInstrs(fn, func(i ssa.Instruction) {
		if cc := callCommonOf(i); cc != nil {
			k := calleeKey(cc)
			for _, p := range prefixes {
				if strings.HasPrefix(k, p) {
					found = true
				}
			}
		}
	})
	return found
}

const c06ControlSrc = `package ctl

import (
	"math/rand"
	"os"
	"sync"
	"time"
)

var mu sync.Mutex
var cache = map[string]string{}
var counter int

func clean(s string) string { return s + "x" }

func spawns(ch chan int) { go func() { ch <- 1 }(); <-ch }

func locks() { mu.Lock(); mu.Unlock() }

func clock() int64 { return time.Now().Unix() }

func dice() int { return rand.Intn(6) }

func env() string { return os.Getenv("X") }

func cached(k string) string {
	if v, ok := cache[k]; ok {
		return v
	}
	cache[k] = k
	return k
}

func counts() int { counter++; return counter }

func writeOnly(k string) { cache[k] = k }

func iterates(m map[string]int) []string {
	var out []string
	for k := range m {
		out = append(out, k)
	}
	return out
}
`

func ruleC06(c *Ctx, r *Report) {
	an := c.anchors()
	if !requireAnchors(r, an, "C06-anchor", "redact", "stream") {
		return
	}
	p := c.prov()
	for _, pr := range p.Problems {
		r.Undecided("C06-anchor", "prov", "-", pr)
	}
	ser := c.Fn("MarshalOrdered")
	if p.Root == nil || ser == nil {
		r.Undecided("C06-anchor", "line-functions", "-", "RedactMongoLog / MarshalOrdered not found")
		return
	}
	sf := an.StreamFn
	P := c.pkgReach(p.Root, ser)
	PS := map[*ssa.Function]bool{}
	for f := range P {
		PS[f] = true
	}
	for f := range c.pkgReach(sf) {
		PS[f] = true
	}
	var psList []*ssa.Function
	for f := range PS {
		psList = append(psList, f)
	}
	sort.Slice(psList, func(i, j int) bool { return fnKey(psList[i]) < fnKey(psList[j]) })
	r.Analysed["line_path_functions"] = len(psList)

	// ---------------------------------------------------------------- R1a mod/ref
	r.Floor("C06-R1a", 8, "package-level variables touched on the line path (option globals, tables, side table: 16 today)")
	mr := c.modRef(PS)
	var gs []*ssa.Global
	for g := range mr {
		gs = append(gs, g)
	}
	sort.Slice(gs, func(i, j int) bool { return gs[i].Name() < gs[j].Name() })
	for _, g := range gs {
		u := mr[g]
		construct := "global:" + g.Name()
		switch {
		case len(u.reads) > 0 && len(u.writes) > 0 && c.completeKeyMemo(g, u).ok:
			r.OK("C06-R1a", construct, c.InstrPos(u.writes[0]), "a single-entry memo: a hit needs the whole key to be equal, the stored value is computed from that key alone and stored together with a private copy of it - what one line leaves behind is what the next one would compute itself")
		case len(u.reads) > 0 && len(u.writes) > 0:
			r.Bad("C06-R1a", construct, c.InstrPos(u.writes[0]),
				fmt.Sprintf("package-level state is written (%s) and read (%s) while processing lines: what one line leaves behind can change what a later line yields", c.InstrPos(u.writes[0]), c.InstrPos(u.reads[0])))
		case len(u.writes) > 0:
			r.OK("C06-R1a", construct, c.InstrPos(u.writes[0]), fmt.Sprintf("write-only on the line path (%d write site(s), never read)", len(u.writes)))
		default:
			r.OK("C06-R1a", construct, c.InstrPos(u.reads[0]), fmt.Sprintf("read-only on the line path (%d load(s), no store)", len(u.reads)))
		}
	}
	c.control(r, "C06-R1a", "modref", c06ControlSrc, func(fn *ssa.Function) []string {
		var out []string
		for g, u := range controlModRef(fn) {
			if len(u.reads) > 0 && len(u.writes) > 0 {
				out = append(out, g.Name())
			}
		}
		return out
	}, "cached", "counts")

	// ---------------------------------------------------------------- R1b tables never mutated
	r.Floor("C06-R1b", 10, "ordered-map mutator calls on the line path (56 today)")
	for _, f := range psList {
		if !p.Scope[f] {
			continue
		}
		allInstrs(f, func(i ssa.Instruction) {
			cc := callCommonOf(i)
			if cc == nil {
				return
			}
			k := calleeKey(cc)
			if k != omMethod("Set") && k != omMethod("Delete") && k != omMethod("ReplaceKey") {
				return
			}
			recv := cc.Args[0]
			o := p.Of(recv) | p.Of(resolveLocal(recv))
			construct := fmt.Sprintf("%s:%s(recv=%s)", f.Name(), shortKey(k), o)
			if o&oTBL != 0 {
				r.Bad("C06-R1b", construct, c.InstrPos(i), "a shared operator table (or a map reached from one) is mutated while processing a line: later lines see a different policy")
			} else {
				r.Trivial("C06-R1b", construct, c.InstrPos(i), "receiver is a fresh map or (part of) the current line's tree")
			}
		})
		// direct stores into elements of a table map
		allInstrs(f, func(i ssa.Instruction) {
			st, ok := i.(*ssa.Store)
			if !ok {
				return
			}
			if fa, ok := st.Addr.(*ssa.FieldAddr); ok {
				if _, isEl := elemFieldName(fa); isEl && p.Of(fa.X)&oTBL != 0 {
					r.Bad("C06-R1b", fmt.Sprintf("%s:element-store", f.Name()), c.InstrPos(i), "an element of a shared operator table is overwritten in place")
				}
			}
		})
	}

	// ---------------------------------------------------------------- R1c no concurrency
	r.Floor("C06-R1c", 2, "summary + positive control")
	var conc []string
	for _, f := range psList {
		conc = append(conc, concurrencyUses(c, f)...)
	}
	r.Check(len(conc) == 0, "C06-R1c", "line-path:sequential", c.Pos(sf.Pos()),
		fmt.Sprintf("no go statement, channel operation or sync/atomic call in the %d functions of the line path: records are produced strictly in input order", len(psList)),
		"concurrency on the line path (output order / interleaving can depend on scheduling): "+strings.Join(conc, "; "))
	c.control(r, "C06-R1c", "concurrency", c06ControlSrc, func(fn *ssa.Function) []string { return concurrencyUses(c, fn) }, "spawns", "spawns$1", "locks")

	// ---------------------------------------------------------------- R1d no nondeterministic sources
	r.Floor("C06-R1d", 2, "summary + positive control")
	var nd []string
	for _, f := range psList {
		nd = append(nd, nondeterminismUses(c, f)...)
	}
	r.Check(len(nd) == 0, "C06-R1d", "line-path:deterministic", c.Pos(sf.Pos()),
		fmt.Sprintf("no time / randomness / environment / pid / file / network source is called from the %d functions of the line path", len(psList)),
		"a nondeterministic or run-dependent source is consulted while processing lines: "+strings.Join(nd, "; "))
	c.control(r, "C06-R1d", "nondeterminism", c06ControlSrc, func(fn *ssa.Function) []string { return nondeterminismUses(c, fn) }, "clock", "dice", "env")

	// ---------------------------------------------------------------- R1e map iteration order
	r.Floor("C06-R1e", 2, "summary + positive control")
	nRanges := 0
	var mrp []string
	for _, f := range psList {
		n, probs := mapRangeProblems(c, f)
		nRanges += n
		mrp = append(mrp, probs...)
	}
	r.Check(len(mrp) == 0, "C06-R1e", "line-path:map-order", c.Pos(sf.Pos()),
		fmt.Sprintf("%d iteration(s) over Go maps on the line path, each neutralised by a sort (ordered maps are iterated Front-to-Next)", nRanges),
		strings.Join(mrp, "; "))
	c.control(r, "C06-R1e", "map-order", c06ControlSrc, func(fn *ssa.Function) []string { _, pr := mapRangeProblems(c, fn); return pr }, "iterates")

	// ---------------------------------------------------------------- R2 loop shape
	c06LoopShape(c, r, an, p)

	// ---------------------------------------------------------------- R3 one funnel
	c06Funnel(c, r, an)

	// ---------------------------------------------------------------- R4 only whole JSON objects yield records
	parserStrictRule(c, r, "C06-R4")
}

// controlModRef is modRef for a control function (globals of the control package).
func controlModRef(fn *ssa.Function) map[*ssa.Global]*globalUse {
	out := map[*ssa.Global]*globalUse{}
	get := func(g *ssa.Global) *globalUse {
		if out[g] == nil {
			out[g] = &globalUse{}
		}
		return out[g]
	}
	allInstrs(fn, func(i ssa.Instruction) {
		switch x := i.(type) {
		case *ssa.Store:
			if g := globalRoot(x.Addr, 0); g != nil && g.Pkg == fn.Pkg {
				get(g).writes = append(get(g).writes, i)
			}
		case *ssa.MapUpdate:
			if g := globalRoot(x.Map, 0); g != nil && g.Pkg == fn.Pkg {
				get(g).writes = append(get(g).writes, i)
			}
		case *ssa.UnOp:
			if x.Op == token.MUL {
				if g := globalRoot(x.X, 0); g != nil && g.Pkg == fn.Pkg && !onlyWriteBase(x, 0) {
					get(g).reads = append(get(g).reads, i)
				}
			}
		}
	})
	return out
}

// scanLoopOf finds the loop of fn whose header calls Scanner.Scan.
func scanLoopOf(fn *ssa.Function) *Loop {
	var scanLoop *Loop
	for _, l := range naturalLoops(fn) {
		for _, in := range l.Header.Instrs {
			if isCallTo(in, "(*bufio.Scanner).Scan") {
				scanLoop = l
			}
		}
	}
	return scanLoop
}

// errNonNilOf: cond/pol states that the error result of a call to pkg function `name` is non-nil.
func (c *Ctx) errNonNilOf(cond ssa.Value, pol bool, name string) bool {
	b, ok := cond.(*ssa.BinOp)
	if !ok {
		return false
	}
	v, neq, ok := nilCompare(b)
	if !ok || neq != pol {
		return false
	}
	ex, ok := v.(*ssa.Extract)
	if !ok {
		return false
	}
	call, ok := ex.Tuple.(*ssa.Call)
	if !ok || calleeKey(&call.Call) != c.pkgFn(name) {
		return false
	}
	return isErrorType(ex.Type())
}

// errValNonNilOf: cond is a nil test that (with polarity pol) establishes non-nil, and the
// value the path delivered to the tested phi is the error result of the named function.
func (c *Ctx) errValNonNilOf(cond, val ssa.Value, pol bool, name string) bool {
	if val == nil {
		return false
	}
	b, ok := cond.(*ssa.BinOp)
	if !ok {
		return false
	}
	_, neq, ok := nilCompare(b)
	if !ok || neq != pol {
		return false
	}
	ex, ok := resolveLocal(val).(*ssa.Extract)
	if !ok {
		return false
	}
	call, ok := ex.Tuple.(*ssa.Call)
	if !ok || calleeKey(&call.Call) != c.pkgFn(name) {
		return false
	}
	return isErrorType(ex.Type())
}

func c06LoopShape(c *Ctx, r *Report, an *Anchors, p *Prov) {
	sf := an.StreamFn
	loop := scanLoopOf(sf)
	if loop == nil {
		r.Undecided("C06-R2", sf.Name()+":scan-loop", c.Pos(sf.Pos()), "scan loop not recognised (no loop header calling Scanner.Scan)")
		return
	}
	r.Floor("C06-R2", 6, "line uses, write count, payload, write-free paths, exits, scanner count")
	hdrPos := c.Pos(loop.Header.Instrs[0].Pos())
	region := loop.Region()

	// one scanner, one loop
	nScanners := len(callsIn(sf, func(k string, _ *ssa.Call) bool {
		return k == "bufio.NewScanner" || k == "bufio.NewReader" || k == "bufio.NewReaderSize"
	}))
	nLoops := 0
	for _, l := range naturalLoops(sf) {
		_ = l
		nLoops++
	}
	r.Check(nScanners == 1 && nLoops == 1, "C06-R2", sf.Name()+":one-sequential-loop", hdrPos,
		"one scanner, one loop: lines are consumed strictly in input order",
		fmt.Sprintf("%d reader(s)/scanner(s) and %d loop(s) in the stream function (expected one sequential scan loop)", nScanners, nLoops))

	// uses of the scanned line
	var lines []*ssa.Call
	allInstrs(sf, func(i ssa.Instruction) {
		if call, ok := i.(*ssa.Call); ok {
			k := calleeKey(&call.Call)
			if k == "(*bufio.Scanner).Text" || k == "(*bufio.Scanner).Bytes" {
				lines = append(lines, call)
			}
		}
	})
	if len(lines) == 0 {
		r.Undecided("C06-R2", sf.Name()+":line", hdrPos, "the scanned line (Scanner.Text) is not read in the stream function")
	}
	for _, ln := range lines {
		var bad []string
		nUses := 0
		var visit func(v ssa.Value, depth int)
		visit = func(v ssa.Value, depth int) {
			for _, use := range referrers(v) {
				nUses++
				switch x := use.(type) {
				case *ssa.DebugRef:
				case *ssa.BinOp:
					if (x.Op == token.EQL || x.Op == token.NEQ) && (isEmptyStringConst(x.X) || isEmptyStringConst(x.Y)) {
						continue
					}
					bad = append(bad, "used in "+x.String()+" at "+c.InstrPos(use))
				case *ssa.Call:
					if calleeKey(&x.Call) == c.pkgFn("RedactMongoLog") {
						continue
					}
					if g := c.staticPkgCallee(&x.Call); g != nil && len(g.Params) == 1 && isStringType(g.Params[0].Type()) && g.Signature.Results().Len() == 1 && isBoolType(g.Signature.Results().At(0).Type()) {
						// a pure predicate asked about the raw line (a pre-filter): admissible when it
						// never says yes to a JSON object - interpreted on probes, purepred.go
						if okP, whyP := prefilterNeverSkipsObjects(g); okP {
							onlyBranches := true
							for _, pu := range referrers(x) {
								switch pu.(type) {
								case *ssa.If, *ssa.DebugRef:
								case *ssa.UnOp:
								default:
									onlyBranches = false
								}
							}
							if onlyBranches {
								continue
							}
							bad = append(bad, "the verdict of "+g.Name()+" is used for more than a branch at "+c.InstrPos(use))
							continue
						} else {
							bad = append(bad, "passed to "+g.Name()+" at "+c.InstrPos(use)+" ("+whyP+")")
							continue
						}
					}
					if calleeKey(&x.Call) == "builtin len" {
						// len(line) may only feed tests of the line for emptiness
						okLen := true
						for _, lu := range referrers(x) {
							if _, isDbg := lu.(*ssa.DebugRef); isDbg {
								continue
							}
							bo, isBin := lu.(*ssa.BinOp)
							if !isBin {
								okLen = false
								continue
							}
							if _, isTest := emptyLineTest(bo); !isTest {
								okLen = false
							}
						}
						if okLen {
							continue
						}
						bad = append(bad, "its length is used for something else than a test for emptiness at "+c.InstrPos(use))
						continue
					}
					bad = append(bad, "passed to "+shortKey(calleeKey(&x.Call))+" at "+c.InstrPos(use))
				case *ssa.Convert:
					if depth < 3 {
						visit(x, depth+1)
						continue
					}
					bad = append(bad, "converted at "+c.InstrPos(use))
				case *ssa.Phi:
					bad = append(bad, "carried into the next iteration or merged with other values at "+c.InstrPos(use))
				default:
					bad = append(bad, fmt.Sprintf("used by %T at %s", use, c.InstrPos(use)))
				}
			}
		}
		visit(ln, 0)
		sort.Strings(bad)
		r.Check(len(bad) == 0, "C06-R2", sf.Name()+":line-uses", c.InstrPos(ln),
			fmt.Sprintf("the raw line flows only to the redactor and to comparisons with \"\" (%d uses): raw input text cannot be copied to the output", nUses),
			"the raw input line is used outside the redactor: "+strings.Join(bad, "; "))
	}

	// writes: at most one per iteration, inside the loop, payload = serialised record
	writes := streamWrites(c, sf)
	var wbad []string
	for _, w := range writes {
		if !region[w.Block()] {
			wbad = append(wbad, "write outside the scan loop at "+c.InstrPos(w))
		}
	}
	// w2 reachable from w1 within one iteration (not through the header)
	reachNoHeader := func(from ssa.Instruction) map[*ssa.BasicBlock]bool {
		seen := map[*ssa.BasicBlock]bool{}
		var w []*ssa.BasicBlock
		for _, s := range from.Block().Succs {
			w = append(w, s)
		}
		for len(w) > 0 {
			b := w[len(w)-1]
			w = w[:len(w)-1]
			if seen[b] || b == loop.Header || !region[b] {
				continue
			}
			seen[b] = true
			w = append(w, b.Succs...)
		}
		return seen
	}
	for _, w1 := range writes {
		after := reachNoHeader(w1)
		for _, w2 := range writes {
			if after[w2.Block()] || (w1 != w2 && w1.Block() == w2.Block() && instrIndex(w1) < instrIndex(w2)) {
				wbad = append(wbad, fmt.Sprintf("a second write (%s) can follow the write at %s in the same iteration", c.InstrPos(w2), c.InstrPos(w1)))
			}
		}
	}
	sort.Strings(wbad)
	r.Check(len(wbad) == 0 && len(writes) >= 1, "C06-R2", sf.Name()+":one-write-per-line", hdrPos,
		fmt.Sprintf("%d write site(s) on the output writer, at most one executes per input line", len(writes)),
		"records and input lines are no longer one-to-one: "+strings.Join(append(wbad, fmt.Sprintf("%d write site(s)", len(writes))), "; "))
	for _, w := range writes {
		okPayload, detail := payloadIsSerialisedRecord(c, w)
		r.Check(okPayload, "C06-R2", sf.Name()+":write-payload", c.InstrPos(w), detail+" - the record depends on its own line only", detail)
	}

	// write-free iteration paths
	writeBlocks := map[*ssa.BasicBlock]bool{}
	for _, w := range writes {
		writeBlocks[w.Block()] = true
	}
	type edgeFact struct {
		cond ssa.Value
		pol  bool
		val  ssa.Value // for a nil test of a phi of the branching block: the value the path delivered
	}
	var entry []*ssa.BasicBlock
	for _, s := range loop.Header.Succs {
		if loop.Body[s] {
			entry = append(entry, s)
		}
	}
	nPaths, nJustified := 0, 0
	var unjust []string
	justKinds := map[string]int{}
	var walk func(b, pred *ssa.BasicBlock, facts []edgeFact, onPath map[*ssa.BasicBlock]bool)
	budget := 20000
	// truthOnPath: the value of a branch condition that is a phi of the block just entered
	// (result temporaries of inlined helpers, && / || chains), given the edge taken and the
	// facts collected so far
	var truthOnPath func(cond ssa.Value, b, pred *ssa.BasicBlock, facts []edgeFact, depth int) (bool, bool)
	truthOnPath = func(cond ssa.Value, b, pred *ssa.BasicBlock, facts []edgeFact, depth int) (bool, bool) {
		if depth > 4 {
			return false, false
		}
		if u, ok := cond.(*ssa.UnOp); ok && u.Op == token.NOT {
			t, ok := truthOnPath(u.X, b, pred, facts, depth+1)
			return !t, ok
		}
		if cb, isC := constBool(cond); isC {
			return cb, true
		}
		for _, f := range facts {
			if f.cond == cond {
				return f.pol, true
			}
		}
		if ph, ok := cond.(*ssa.Phi); ok && ph.Block() == b && pred != nil {
			for i, pr := range b.Preds {
				if pr == pred {
					return truthOnPath(ph.Edges[i], nil, nil, facts, depth+1)
				}
			}
		}
		return false, false
	}
	walk = func(b, pred *ssa.BasicBlock, facts []edgeFact, onPath map[*ssa.BasicBlock]bool) {
		if budget <= 0 {
			return
		}
		budget--
		if writeBlocks[b] {
			return // this path writes
		}
		if b == loop.Header {
			nPaths++
			just := ""
			hasLineEmpty := false
			for _, f := range facts {
				if c.errNonNilOf(f.cond, f.pol, "RedactMongoLog") || c.errValNonNilOf(f.cond, f.val, f.pol, "RedactMongoLog") {
					just = "redactor-error"
				} else if c.errNonNilOf(f.cond, f.pol, "MarshalOrdered") || c.errValNonNilOf(f.cond, f.val, f.pol, "MarshalOrdered") {
					just = "serialiser-error"
				}
				// the redactor handed back no entry at all (a defensive test: there is nothing to
				// serialise; that the line function returns the parsed entry itself is C04-R1's rule)
				if x, _, isNil := nilCompare(f.cond); isNil && just == "" {
					if bo, ok := f.cond.(*ssa.BinOp); ok && ((bo.Op == token.EQL) == f.pol) {
						if ex, ok := peel(x).(*ssa.Extract); ok && ex.Index == 0 {
							if rc, ok := ex.Tuple.(*ssa.Call); ok && calleeKey(&rc.Call) == c.pkgFn("RedactMongoLog") {
								just = "redactor-returned-nothing"
							}
						}
					}
				}
				if bo, ok := f.cond.(*ssa.BinOp); ok {
					if isEmpty, decided := emptyLineTest(bo); decided && isEmpty == f.pol {
						hasLineEmpty = true
					}
				}
			}
			if just == "" && hasLineEmpty {
				just = "empty-line"
			}
			if just == "" {
				// skipped by a pre-filter that never says yes to a JSON object
				for _, f := range facts {
					if pc, ok := peel(f.cond).(*ssa.Call); ok && f.pol {
						if g := c.staticPkgCallee(&pc.Call); g != nil && len(g.Params) == 1 && isStringType(g.Params[0].Type()) && len(pc.Call.Args) == 1 && isScannedLine(pc.Call.Args[0]) {
							if okP, _ := prefilterNeverSkipsObjects(g); okP {
								just = "prefilter-not-a-json-object"
							}
						}
					}
				}
			}
			if just != "" {
				nJustified++
				justKinds[just]++
			} else {
				var fs []string
				for _, f := range facts {
					a := p.atomOf(f.cond, f.pol)
					fs = append(fs, a.String())
				}
				unjust = append(unjust, "["+strings.Join(fs, " & ")+"]")
			}
			return
		}
		if !region[b] || onPath[b] {
			return
		}
		onPath[b] = true
		defer delete(onPath, b)
		if len(b.Succs) == 2 {
			if ifi, ok := b.Instrs[len(b.Instrs)-1].(*ssa.If); ok {
				if t, known := truthOnPath(ifi.Cond, b, pred, facts, 0); known {
					// decided by the way this block was reached: one successor, no new fact
					if t {
						walk(b.Succs[0], b, facts, onPath)
					} else {
						walk(b.Succs[1], b, facts, onPath)
					}
					return
				}
				if only, decided := decidedSucc(b, pred); decided {
					walk(only, b, facts, onPath)
					return
				}
				// a nil test of a phi of this block (the error an inlined helper hands back): on
				// this path the phi is the value of the edge the path came in by
				var delivered ssa.Value
				if x, _, isNil := nilCompare(ifi.Cond); isNil && pred != nil {
					if ph, isPhi := resolveLocal(x).(*ssa.Phi); isPhi && ph.Block() == b {
						for pi, pb := range b.Preds {
							if pb == pred && pi < len(ph.Edges) {
								delivered = ph.Edges[pi]
							}
						}
					}
				}
				walk(b.Succs[0], b, append(append([]edgeFact{}, facts...), edgeFact{ifi.Cond, true, delivered}), onPath)
				walk(b.Succs[1], b, append(append([]edgeFact{}, facts...), edgeFact{ifi.Cond, false, delivered}), onPath)
				return
			}
		}
		for _, s := range b.Succs {
			walk(s, b, facts, onPath)
		}
	}
	for _, e := range entry {
		walk(e, loop.Header, nil, map[*ssa.BasicBlock]bool{})
	}
	if budget <= 0 {
		r.Undecided("C06-R2", sf.Name()+":write-free-paths", hdrPos, "path enumeration budget exhausted")
	} else {
		sort.Strings(unjust)
		unjust = dedupe(unjust)
		r.Check(len(unjust) == 0 && nPaths > 0, "C06-R2", sf.Name()+":write-free-paths", hdrPos,
			fmt.Sprintf("%d iteration path(s) emit nothing, each guarded by the redactor's error, the serialiser's error or line==\"\" (%v): a JSON-object line always yields its record, whatever the progress bar or earlier lines did", nPaths, justKinds),
			fmt.Sprintf("an iteration can skip its record for a reason other than 'not a JSON object' / 'empty line' (%d of %d write-free paths unjustified): %s", nPaths-nJustified, nPaths, strings.Join(unjust, "; ")))
	}

	// exits from inside an iteration
	bad := scanLoopExitProblems(c, loop)
	r.Check(len(bad) == 0, "C06-R2", sf.Name()+":loop-exits", hdrPos,
		"an iteration ends only by continuing or by returning a non-nil error: later lines are never dropped silently",
		"the loop can stop early: "+strings.Join(bad, "; "))
	splitCalls := callsIn(sf, func(k string, _ *ssa.Call) bool { return k == "(*bufio.Scanner).Split" })
	r.Check(len(splitCalls) == 0, "C06-R2", sf.Name()+":default-split", c.Pos(sf.Pos()),
		"default bufio.ScanLines splitting (LF / CRLF / missing final newline handled by the library)", "custom split function installed: line-end handling is no longer the library's")
}

func isEmptyStringConst(v ssa.Value) bool {
	s, ok := constString(v)
	return ok && s == ""
}

// isScannedLine: scanner.Text() / scanner.Bytes(), possibly under a string <-> []byte conversion.
func isScannedLine(v ssa.Value) bool {
	v = peel(v)
	if cv, ok := v.(*ssa.Convert); ok {
		v = peel(cv.X)
	}
	call, ok := v.(*ssa.Call)
	if !ok {
		return false
	}
	k := calleeKey(&call.Call)
	return k == "(*bufio.Scanner).Text" || k == "(*bufio.Scanner).Bytes"
}

// emptyLineTest: is the comparison a test of the scanned line for emptiness - `line == ""`,
// `line != ""`, `len(line) == 0`, `len(line) != 0`, `len(line) > 0`, `len(line) < 1` ...? It
// returns what the comparison's truth says about the line (true: empty) and whether it is one.
func emptyLineTest(bo *ssa.BinOp) (emptyWhenTrue bool, ok bool) {
	if bo.Op == token.EQL || bo.Op == token.NEQ {
		for _, pair := range [][2]ssa.Value{{bo.X, bo.Y}, {bo.Y, bo.X}} {
			if isEmptyStringConst(pair[1]) && isScannedLine(pair[0]) {
				return bo.Op == token.EQL, true
			}
		}
	}
	lenOfLine := func(v ssa.Value) bool {
		call, ok := peel(v).(*ssa.Call)
		return ok && calleeKey(&call.Call) == "builtin len" && len(call.Call.Args) == 1 && isScannedLine(call.Call.Args[0])
	}
	op, x, y := bo.Op, bo.X, bo.Y
	if !lenOfLine(x) {
		if !lenOfLine(y) {
			return false, false
		}
		x, y = y, x
		switch op {
		case token.LSS:
			op = token.GTR
		case token.GTR:
			op = token.LSS
		case token.LEQ:
			op = token.GEQ
		case token.GEQ:
			op = token.LEQ
		}
	}
	n, isC := constInt(y)
	if !isC {
		return false, false
	}
	switch {
	case op == token.EQL && n == 0, op == token.LEQ && n == 0, op == token.LSS && n == 1:
		return true, true
	case op == token.NEQ && n == 0, op == token.GTR && n == 0, op == token.GEQ && n == 1:
		return false, true
	}
	return false, false
}

// scanLoopExitProblems: exits from inside an iteration other than returning a non-nil error.
func scanLoopExitProblems(c *Ctx, scanLoop *Loop) []string {
	region := scanLoop.Region()
	var bad []string
	for b := range region {
		last := b.Instrs[len(b.Instrs)-1]
		switch t := last.(type) {
		case *ssa.Return:
			okRet := false
			for _, res := range t.Results {
				if isErrorType(res.Type()) && provablyNonNilErr(res, b, 0) {
					okRet = true
				}
			}
			if !okRet {
				bad = append(bad, "return without a non-nil error at "+c.InstrPos(last))
			}
		case *ssa.Panic:
			bad = append(bad, "panic at "+c.InstrPos(last))
		}
		for _, s := range b.Succs {
			if !region[s] && s != scanLoop.Header && b != scanLoop.Header {
				bad = append(bad, "break out of the loop at "+c.InstrPos(last))
			}
		}
		for _, in := range b.Instrs {
			if k, ok := stdEnds(in); ok && k == "exit" {
				bad = append(bad, "process exit at "+c.InstrPos(in))
			}
		}
	}
	sort.Strings(bad)
	return bad
}

// ---------------------------------------------------------------- R3

func isOsFileGlobalLoad(v ssa.Value, name string) bool {
	u, ok := peel(v).(*ssa.UnOp)
	if !ok || u.Op != token.MUL {
		return false
	}
	g, ok := u.X.(*ssa.Global)
	return ok && g.Pkg != nil && g.Pkg.Pkg.Path() == "os" && g.Name() == name
}

func c06Funnel(c *Ctx, r *Report, an *Anchors) {
	sf := an.StreamFn
	cl := an.RedactClosure
	r.Floor("C06-R3", 8, "stream calls, wrapper returns, output-handle uses, stdout uses, bar/stdout exclusion")

	// (a) every call of the scan loop passes the caller's own writer parameter and a reader
	// that is the caller's reader parameter, the opened file, or a gzip reader over it
	wIdx, rIdx, bIdx := -1, -1, -1
	for i, prm := range sf.Params {
		if it, ok := prm.Type().Underlying().(*types.Interface); ok {
			for m := 0; m < it.NumMethods(); m++ {
				switch it.Method(m).Name() {
				case "Write":
					wIdx = i
				case "Read":
					rIdx = i
				}
			}
		}
		if strings.Contains(prm.Type().String(), "progressbar") {
			bIdx = i
		}
	}
	if wIdx < 0 || rIdx < 0 {
		r.Undecided("C06-R3", sf.Name()+":signature", c.Pos(sf.Pos()), "the scan loop has no (io.Reader, io.Writer) parameter pair")
		return
	}
	streamCalls := c.callersOf(sf)
	wrappers := map[*ssa.Function]bool{}
	for _, call := range streamCalls {
		caller := call.Parent()
		wrappers[caller] = true
		construct := fmt.Sprintf("%s:call(%s)", caller.Name(), sf.Name())
		var bad []string
		wa := peel(call.Call.Args[wIdx])
		if prm, ok := wa.(*ssa.Parameter); !ok || prm.Parent() != caller {
			bad = append(bad, "the writer argument is not the caller's own writer parameter ("+describeArg(call.Call.Args[wIdx])+")")
		}
		ra := peel(call.Call.Args[rIdx])
		if ld, ok := ra.(*ssa.UnOp); ok && ld.Op == token.MUL {
			// a local variable holding exactly one value (captured by a deferred closure)
			if al, ok := ld.X.(*ssa.Alloc); ok {
				var vals []ssa.Value
				for _, r2 := range referrers(al) {
					if st, ok := r2.(*ssa.Store); ok && st.Addr == ssa.Value(al) {
						vals = append(vals, st.Val)
					}
				}
				if len(vals) == 1 {
					ra = peel(vals[0])
				}
			}
		}
		ra = peel(resolveAt(ra, call.Block()))
		okReader := false
		switch x := ra.(type) {
		case *ssa.Parameter:
			okReader = true
		case *ssa.Extract:
			if rc, ok := x.Tuple.(*ssa.Call); ok {
				k := calleeKey(&rc.Call)
				if k == "compress/gzip.NewReader" || strings.HasSuffix(k, ".Open") || k == "os.Open" {
					okReader = true
				}
			}
		}
		if !okReader {
			bad = append(bad, "the reader argument is not the caller's reader, the opened file or a gzip reader over it ("+describeArg(call.Call.Args[rIdx])+")")
		}
		if bIdx >= 0 {
			ba := peel(call.Call.Args[bIdx])
			if prm, ok := ba.(*ssa.Parameter); !ok || prm.Parent() != caller {
				bad = append(bad, "the progress-bar argument is not the caller's own parameter")
			}
		}
		r.Check(len(bad) == 0, "C06-R3", construct, c.InstrPos(call),
			"every input channel reaches the one scan loop with the caller's own writer: the same bytes are produced for plain, gzip and stdin input",
			strings.Join(bad, "; "))
	}
	if len(streamCalls) < 3 {
		r.Bad("C06-R3", sf.Name()+":channels", c.Pos(sf.Pos()), fmt.Sprintf("only %d call(s) of the scan loop (plain file, gzip file and reader channels expected)", len(streamCalls)))
	}

	gzipReaderRule(c, r, sf, "C06-R3")

	// (b) every success return of a wrapper is the scan loop's result
	var wl []*ssa.Function
	for w := range wrappers {
		wl = append(wl, w)
	}
	sort.Slice(wl, func(i, j int) bool { return wl[i].Name() < wl[j].Name() })
	for _, w := range wl {
		var bad []string
		nRet := 0
		allInstrs(w, func(i ssa.Instruction) {
			ret, ok := i.(*ssa.Return)
			if !ok || len(ret.Results) == 0 || i.Block() == w.Recover {
				return // (the recover block re-returns the named results after a panic)
			}
			nRet++
			res := resolveLocal(ret.Results[len(ret.Results)-1])
			if call, ok := res.(*ssa.Call); ok && call.Call.StaticCallee() == sf {
				return
			}
			if provablyNonNilErr(res, ret.Block(), 0) {
				return
			}
			bad = append(bad, "return at "+c.InstrPos(i)+" is neither the scan loop's result nor a non-nil error")
		})
		r.Check(len(bad) == 0 && nRet > 0, "C06-R3", w.Name()+":returns", c.Pos(w.Pos()),
			fmt.Sprintf("all %d returns hand back the scan loop's result or a non-nil error: no channel can succeed without streaming", nRet),
			strings.Join(bad, "; "))
	}

	// (c) the output handle in the redact command: os.Create results and os.Stdout
	// may only be closed, compared, merged, or passed as the writer of a channel wrapper
	wrapperOrStream := func(f *ssa.Function) bool { return f != nil && (wrappers[f] || f == sf) }
	clFns := c.pkgReach(cl)
	var handles []ssa.Value
	handlePos := map[ssa.Value]string{}
	for f := range clFns {
		if wrapperOrStream(f) || c.pkgReach(sf)[f] {
			continue
		}
		allInstrs(f, func(i ssa.Instruction) {
			if call, ok := i.(*ssa.Call); ok && calleeKey(&call.Call) == "os.Create" && f == cl {
				if ex := extractOf(call, 0); ex != nil {
					handles = append(handles, ex)
					handlePos[ex] = c.InstrPos(i)
				}
			}
		})
	}
	sort.Slice(handles, func(i, j int) bool { return handlePos[handles[i]] < handlePos[handles[j]] })
	for n, h := range handles {
		var bad []string
		nUses := 0
		seen := map[ssa.Value]bool{}
		var visit func(v ssa.Value)
		visit = func(v ssa.Value) {
			if seen[v] {
				return
			}
			seen[v] = true
			for _, use := range referrers(v) {
				nUses++
				switch x := use.(type) {
				case *ssa.DebugRef:
				case *ssa.Phi:
					visit(x)
				case *ssa.MakeInterface:
					visit(x)
				case *ssa.ChangeInterface:
					visit(x)
				case *ssa.BinOp:
					if _, _, ok := nilCompare(x); !ok {
						bad = append(bad, "used in "+x.String()+" at "+c.InstrPos(use))
					}
				case *ssa.Store:
					if al, ok := x.Addr.(*ssa.Alloc); ok && x.Val == v {
						for _, rr := range referrers(al) {
							if ld, ok := rr.(*ssa.UnOp); ok && ld.Op == token.MUL {
								visit(ld)
							}
						}
						continue
					}
					bad = append(bad, "stored at "+c.InstrPos(use))
				case ssa.CallInstruction:
					cc := x.Common()
					k := calleeKey(cc)
					if k == "(*os.File).Close" || k == "(*os.File).Sync" || k == "(*os.File).Name" {
						continue
					}
					if callee := c.staticPkgCallee(cc); wrapperOrStream(callee) {
						okArg := true
						for ai, a := range cc.Args {
							if a == v {
								if it, isW := callee.Params[ai].Type().Underlying().(*types.Interface); !isW || !hasMethod(it, "Write") {
									okArg = false
								}
							}
						}
						if okArg {
							continue
						}
					}
					bad = append(bad, "passed to "+shortKey(k)+" at "+c.InstrPos(use))
				default:
					bad = append(bad, fmt.Sprintf("used by %T at %s", use, c.InstrPos(use)))
				}
			}
		}
		visit(h)
		sort.Strings(bad)
		r.Check(len(bad) == 0, "C06-R3", fmt.Sprintf("%s:output-handle#%d", cl.Name(), n+1), handlePos[h],
			fmt.Sprintf("the created output file is only closed or handed to a channel wrapper as its writer (%d uses): nothing but the scan loop writes records", nUses),
			"the output handle is used outside the funnel: "+strings.Join(bad, "; "))
	}
	if len(handles) < 2 {
		r.Bad("C06-R3", cl.Name()+":output-handles", c.Pos(cl.Pos()), fmt.Sprintf("%d os.Create call(s) in the redact command (one for --outputFile, one per Atlas file expected)", len(handles)))
	}

	// (d) os.Stdout in code reachable from the redact command (outside the scan loop):
	// one source of the output handle, the progress bar's writer / completion message,
	// or informational text - the latter only in runs that cannot also write records
	// to stdout (no CFG path of the command holds both the emitting call and a channel
	// wrapper call whose writer may be os.Stdout)
	var cfl []*ssa.Function
	for f := range clFns {
		cfl = append(cfl, f)
	}
	sort.Slice(cfl, func(i, j int) bool { return fnKey(cfl[i]) < fnKey(cfl[j]) })
	var recordCalls []*ssa.Call // wrapper calls in the command whose writer may be os.Stdout
	for _, w := range wl {
		for _, call := range c.callersOf(w) {
			if call.Parent() != cl {
				continue
			}
			for ai, prm := range w.Params {
				if it, ok := prm.Type().Underlying().(*types.Interface); ok && hasMethod(it, "Write") {
					if mayBeStdout(call.Call.Args[ai]) {
						recordCalls = append(recordCalls, call)
					}
				}
			}
		}
	}
	// (d0) the channel wrappers called by the command read the chosen input and write the
	// output handle: a writer operand is an os.Create result or os.Stdout, a reader operand is
	// os.Stdin (a bufio wrapper around either is the same channel)
	var channelLeafOK func(v ssa.Value, want string, depth int) (bool, string)
	channelLeafOK = func(v ssa.Value, want string, depth int) (bool, string) {
		v = peel(v)
		if depth > 8 {
			return false, describeArg(v)
		}
		if ph, ok := v.(*ssa.Phi); ok {
			for _, e := range ph.Edges {
				if ok, why := channelLeafOK(e, want, depth+1); !ok {
					return false, why
				}
			}
			return true, ""
		}
		if want == "writer" {
			if isOsFileGlobalLoad(v, "Stdout") {
				return true, ""
			}
			if ex, ok := v.(*ssa.Extract); ok {
				if call, ok := ex.Tuple.(*ssa.Call); ok && calleeKey(&call.Call) == "os.Create" && ex.Index == 0 {
					return true, ""
				}
			}
		} else if isOsFileGlobalLoad(v, "Stdin") {
			return true, ""
		}
		if call, ok := v.(*ssa.Call); ok {
			k := calleeKey(&call.Call)
			if (want == "writer" && (k == "bufio.NewWriter" || k == "bufio.NewWriterSize")) || (want == "reader" && (k == "bufio.NewReader" || k == "bufio.NewReaderSize")) {
				return channelLeafOK(call.Call.Args[0], want, depth+1)
			}
		}
		return false, describeArg(v)
	}
	nChan := map[string]int{}
	for _, w := range wl {
		for _, call := range c.callersOf(w) {
			if call.Parent() != cl {
				continue
			}
			for ai, prm := range w.Params {
				it, ok := prm.Type().Underlying().(*types.Interface)
				if !ok || ai >= len(call.Call.Args) {
					continue
				}
				want := ""
				switch {
				case hasMethod(it, "Write"):
					want = "writer"
				case hasMethod(it, "Read"):
					want = "reader"
				default:
					continue
				}
				base := fmt.Sprintf("%s:call(%s):%s-operand", cl.Name(), w.Name(), want)
				nChan[base]++
				construct := base
				if nChan[base] > 1 {
					construct = fmt.Sprintf("%s#%d", base, nChan[base])
				}
				good, why := channelLeafOK(call.Call.Args[ai], want, 0)
				if want == "writer" {
					r.Check(good, "C06-R3", construct, c.InstrPos(call), "the records of this channel go to the output handle (an os.Create result or os.Stdout)",
						"the writer operand of this channel is not the output handle (an os.Create result or os.Stdout): "+why)
				} else {
					r.Check(good, "C06-R3", construct, c.InstrPos(call), "the stdin channel reads os.Stdin",
						"the reader operand of this channel is not os.Stdin: "+why)
				}
			}
		}
	}
	// sites in the command (its own blocks) from which function f may run
	sitesReaching := func(f *ssa.Function) []ssa.Instruction {
		var out []ssa.Instruction
		if f == cl {
			return nil
		}
		allInstrs(cl, func(i ssa.Instruction) {
			var callee *ssa.Function
			if cc := callCommonOf(i); cc != nil {
				callee = c.staticPkgCallee(cc)
			}
			if mc, ok := i.(*ssa.MakeClosure); ok {
				callee, _ = mc.Fn.(*ssa.Function)
			}
			if callee != nil && c.pkgReach(callee)[f] {
				out = append(out, i)
			}
		})
		return out
	}
	coexists := func(site ssa.Instruction) *ssa.Call {
		fromSite := reachableLive(site.Block())
		for _, rc := range recordCalls {
			if fromSite[rc.Block()] || reachableLive(rc.Block())[site.Block()] {
				return rc
			}
		}
		return nil
	}
	nStdout := 0
	for _, f := range cfl {
		if f == sf || c.pkgReach(sf)[f] {
			continue
		}
		judgeEmit := func(i ssa.Instruction, construct, what string) {
			var sites []ssa.Instruction
			if f == cl {
				sites = []ssa.Instruction{i}
			} else {
				sites = sitesReaching(f)
			}
			var bad []string
			for _, s := range sites {
				if rc := coexists(s); rc != nil {
					bad = append(bad, fmt.Sprintf("the text emitted via %s and the records written by the call at %s can both go to stdout in one run", c.InstrPos(s), c.InstrPos(rc)))
				}
			}
			if len(sites) == 0 {
				bad = append(bad, "cannot locate the call sites in the redact command that lead here")
			}
			r.Check(len(bad) == 0, "C06-R3", construct, c.InstrPos(i),
				fmt.Sprintf("%s, reached only from %d site(s) of the redact command that never share a run with a stdout-bound record channel (Atlas mode writes records to created files)", what, len(sites)),
				strings.Join(dedupe(bad), "; "))
		}
		allInstrs(f, func(i ssa.Instruction) {
			ld, ok := i.(*ssa.UnOp)
			if !ok || !isOsFileGlobalLoad(ld, "Stdout") {
				return
			}
			nStdout++
			role, direct, bad := stdoutRole(c, f, ld, wrapperOrStream)
			construct := fmt.Sprintf("%s:stdout(%s)", f.Name(), role)
			if bad != "" {
				r.Bad("C06-R3", construct, c.InstrPos(i), bad)
				return
			}
			if direct {
				judgeEmit(i, construct, "informational text on stdout")
				return
			}
			r.OK("C06-R3", construct, c.InstrPos(i), "os.Stdout is "+role)
		})
		// implicit stdout writers
		allInstrs(f, func(i ssa.Instruction) {
			if cc := callCommonOf(i); cc != nil {
				k := calleeKey(cc)
				if k == "fmt.Print" || k == "fmt.Println" || k == "fmt.Printf" || k == "builtin print" || k == "builtin println" {
					nStdout++
					judgeEmit(i, fmt.Sprintf("%s:%s", f.Name(), shortKey(k)), "text printed with "+shortKey(k))
				}
			}
		})
	}
	r.Analysed["stdout_uses_in_redact_command"] = nStdout
	r.Analysed["stdout_bound_record_calls"] = len(recordCalls)

	// (e) a progress bar exists only when records do not go to stdout
	for _, w := range wl {
		for _, call := range c.callersOf(w) {
			if call.Parent() != cl {
				continue
			}
			wi, bi := -1, -1
			for i, prm := range w.Params {
				if it, ok := prm.Type().Underlying().(*types.Interface); ok {
					for m := 0; m < it.NumMethods(); m++ {
						if it.Method(m).Name() == "Write" {
							wi = i
						}
					}
				}
				if strings.Contains(prm.Type().String(), "progressbar") {
					bi = i
				}
			}
			if wi < 0 || bi < 0 {
				continue
			}
			construct := fmt.Sprintf("%s:call(%s):bar-vs-stdout", cl.Name(), w.Name())
			ok, detail := barExcludesStdout(c, an, call.Call.Args[wi], call.Call.Args[bi])
			r.Check(ok, "C06-R3", construct, c.InstrPos(call), detail, detail)
		}
	}
}

// stdoutRole classifies one load of os.Stdout.
func stdoutRole(c *Ctx, f *ssa.Function, ld *ssa.UnOp, wrapperOrStream func(*ssa.Function) bool) (string, bool, string) {
	role := ""
	direct := false
	var bad []string
	seen := map[ssa.Value]bool{}
	var visit func(v ssa.Value)
	visit = func(v ssa.Value) {
		if seen[v] {
			return
		}
		seen[v] = true
		for _, use := range referrers(v) {
			switch x := use.(type) {
			case *ssa.DebugRef:
			case *ssa.Phi:
				role = "one source of the output handle (chosen when no --outputFile is given)"
				visit(x)
			case *ssa.MakeInterface:
				visit(x)
			case *ssa.ChangeInterface:
				visit(x)
			case *ssa.Store:
				// varargs slot of a print call
				if ia, ok := x.Addr.(*ssa.IndexAddr); ok {
					if _, isAl := ia.X.(*ssa.Alloc); isAl {
						bad = append(bad, "os.Stdout is an operand of a print at "+c.InstrPos(use))
						continue
					}
				}
				bad = append(bad, "stored at "+c.InstrPos(use))
			case ssa.CallInstruction:
				cc := x.Common()
				k := calleeKey(cc)
				switch {
				case k == "(*os.File).Close" || k == "(*os.File).Stat" || k == "(*os.File).Fd":
				case strings.HasSuffix(k, "progressbar/v3.OptionSetWriter"):
					if role == "" {
						role = "the progress bar's writer"
					}
				case strings.HasPrefix(k, "fmt.Fprint"):
					if f.Parent() != nil && isProgressCallback(f) {
						if role == "" {
							role = "the progress bar's completion message"
						}
					} else {
						direct = true
						if role == "" {
							role = "written with " + shortKey(k)
						}
					}
				default:
					if callee := c.staticPkgCallee(cc); wrapperOrStream(callee) {
						if role == "" {
							role = "passed to a channel wrapper as its writer"
						}
						continue
					}
					bad = append(bad, "passed to "+shortKey(k)+" at "+c.InstrPos(use))
				}
			default:
				bad = append(bad, fmt.Sprintf("used by %T at %s", use, c.InstrPos(use)))
			}
		}
	}
	visit(ld)
	if role == "" && len(bad) == 0 {
		role = "unused"
	}
	if len(bad) > 0 {
		sort.Strings(bad)
		return "misused", direct, "os.Stdout is used outside the funnel by the redact command: " + strings.Join(bad, "; ")
	}
	return role, direct, ""
}

func hasMethod(it *types.Interface, name string) bool {
	for m := 0; m < it.NumMethods(); m++ {
		if it.Method(m).Name() == name {
			return true
		}
	}
	return false
}

// mayBeStdout: some phi edge of the value is a load of os.Stdout.
func mayBeStdout(v ssa.Value) bool {
	seen := map[ssa.Value]bool{}
	var rec func(v ssa.Value) bool
	rec = func(v ssa.Value) bool {
		v = peel(v)
		if seen[v] {
			return false
		}
		seen[v] = true
		if ph, ok := v.(*ssa.Phi); ok {
			for _, e := range ph.Edges {
				if rec(e) {
					return true
				}
			}
			return false
		}
		if isOsFileGlobalLoad(v, "Stdout") {
			return true
		}
		if ex, ok := v.(*ssa.Extract); ok {
			if call, ok := ex.Tuple.(*ssa.Call); ok && calleeKey(&call.Call) == "os.Create" {
				return false
			}
		}
		if _, ok := v.(*ssa.Parameter); ok {
			return true
		}
		if u, ok := v.(*ssa.UnOp); ok && u.Op == token.MUL {
			return true // loaded from a variable: unknown
		}
		return false
	}
	return rec(v)
}

// reachableLive: blocks reachable from b, not following edges out of blocks that end
// the process (os.Exit).
func reachableLive(b *ssa.BasicBlock) map[*ssa.BasicBlock]bool {
	seen := map[*ssa.BasicBlock]bool{}
	w := []*ssa.BasicBlock{b}
	for len(w) > 0 {
		x := w[len(w)-1]
		w = w[:len(w)-1]
		if seen[x] {
			continue
		}
		seen[x] = true
		if noReturnBlock(x) {
			continue
		}
		w = append(w, x.Succs...)
	}
	return seen
}

// isProgressCallback: the anonymous function is only used as the argument of
// progressbar.OptionOnCompletion.
func isProgressCallback(f *ssa.Function) bool {
	parent := f.Parent()
	if parent == nil {
		return false
	}
	okAll, n := true, 0
	allInstrs(parent, func(i ssa.Instruction) {
		for _, op := range i.Operands(nil) {
			var fnv ssa.Value = f
			if *op != fnv {
				if mc, ok := (*op).(*ssa.MakeClosure); !ok || mc.Fn != fnv {
					continue
				}
			}
			if _, isMC := i.(*ssa.MakeClosure); isMC {
				continue
			}
			n++
			if cc := callCommonOf(i); cc == nil || !strings.HasSuffix(calleeKey(cc), "progressbar/v3.OptionOnCompletion") {
				okAll = false
			}
		}
	})
	return okAll && n > 0
}

// barExcludesStdout: at a wrapper call, a possibly non-nil progress bar and a writer
// that may be os.Stdout cannot coincide.
func barExcludesStdout(c *Ctx, an *Anchors, w, bar ssa.Value) (bool, string) {
	cl := an.RedactClosure
	// edges on which the bar is non-nil
	type edge struct {
		val  ssa.Value
		pred *ssa.BasicBlock
	}
	collect := func(v ssa.Value) []edge {
		var out []edge
		seen := map[ssa.Value]bool{}
		var rec func(v ssa.Value, pred *ssa.BasicBlock)
		rec = func(v ssa.Value, pred *ssa.BasicBlock) {
			v = peel(v)
			if ph, ok := v.(*ssa.Phi); ok && !seen[ph] {
				seen[ph] = true
				for i, e := range ph.Edges {
					rec(e, ph.Block().Preds[i])
				}
				return
			}
			out = append(out, edge{v, pred})
		}
		rec(v, nil)
		return out
	}
	var barEdges []edge
	for _, e := range collect(bar) {
		if isNilConst(e.val) {
			continue
		}
		barEdges = append(barEdges, e)
	}
	if len(barEdges) == 0 {
		return true, "no progress bar is ever passed at this call"
	}
	var stdoutEdges []edge
	for _, e := range collect(w) {
		if isOsFileGlobalLoad(e.val, "Stdout") {
			stdoutEdges = append(stdoutEdges, e)
		} else if ex, ok := e.val.(*ssa.Extract); ok {
			if call, ok := ex.Tuple.(*ssa.Call); ok && calleeKey(&call.Call) == "os.Create" {
				continue
			}
			return false, "the writer at this call is neither an os.Create result nor os.Stdout (" + describeArg(e.val) + "): cannot show that progress text and records use different channels"
		} else {
			return false, "the writer at this call is neither an os.Create result nor os.Stdout (" + describeArg(e.val) + ")"
		}
	}
	if len(stdoutEdges) == 0 {
		return true, "the writer at this call is always a created file: progress text (stdout) and records never share a channel"
	}
	// facts: flag variable emptiness
	flagFacts := func(b *ssa.BasicBlock, defBlock *ssa.BasicBlock) map[string]bool {
		out := map[string]bool{}
		add := func(fs []Fact) {
			for _, f := range fs {
				bo, ok := f.Cond.(*ssa.BinOp)
				if !ok || (bo.Op != token.EQL && bo.Op != token.NEQ) {
					continue
				}
				for _, pair := range [][2]ssa.Value{{bo.X, bo.Y}, {bo.Y, bo.X}} {
					if isEmptyStringConst(pair[1]) {
						if name, ok := an.flagOfValue(cl, pair[0]); ok {
							out[name] = (bo.Op == token.EQL) == f.Pol // true: flag is empty
						}
					}
				}
			}
		}
		if b != nil {
			add(allFacts(b))
		}
		if defBlock != nil {
			add(allFacts(defBlock))
		}
		return out
	}
	for _, be := range barEdges {
		var defB *ssa.BasicBlock
		if in, ok := be.val.(ssa.Instruction); ok {
			defB = in.Block()
		}
		bf := flagFacts(be.pred, defB)
		for _, se := range stdoutEdges {
			var sdef *ssa.BasicBlock
			if in, ok := se.val.(ssa.Instruction); ok {
				sdef = in.Block()
			}
			sfacts := flagFacts(se.pred, sdef)
			contradict := false
			for name, empty := range bf {
				if e2, ok := sfacts[name]; ok && e2 != empty {
					contradict = true
				}
			}
			if !contradict {
				return false, "a progress bar (which prints to stdout) can be active while records are also written to stdout: no flag test separates the two"
			}
		}
	}
	return true, "the progress bar exists only under --outputFile != \"\" while os.Stdout is the writer only under --outputFile == \"\": progress text and records never share stdout"
}

// parserStrictRule (C06-R4 / C08-R6): a line is accepted only if it is exactly one
// complete JSON value. (a) every token read of the parser has its error inspected and
// a non-nil error ends parsing with an error - in particular the closing '}' / ']' of a
// container, which is what distinguishes a complete document from one cut short by a
// read error or an over-eager split; (b) after the top-level value the entry point
// checks that the line holds nothing else before it reports success.
func parserStrictRule(c *Ctx, r *Report, rule string) {
	un := c.Fn("UnmarshalOrdered")
	pv := c.parserFn()
	if un == nil || pv == nil {
		r.Undecided(rule, "parser", "-", "parser entry / recursive parser not found")
		return
	}
	r.Floor(rule, 4, "token reads of the parser (4 today) + the trailing-data check")
	for _, f := range []*ssa.Function{pv, un} {
		for _, call := range callsIn(f, func(k string, _ *ssa.Call) bool { return k == "(*encoding/json.Decoder).Token" }) {
			construct := fmt.Sprintf("%s:token-error-checked", f.Name())
			if f == un {
				continue // judged below as the trailing-data check
			}
			okh, detail := checkCallErrHandled(call, true, nil)
			r.Check(okh, rule, construct, c.InstrPos(call),
				"the token read is followed by an error test that ends parsing: "+detail,
				"a token is read and its error is ignored ("+detail+"): a document cut short (read error, truncated gzip member) is completed silently and emitted as if it were whole")
		}
	}
	// (b) trailing data
	var pvCall *ssa.Call
	for _, call := range callsIn(un, func(k string, cc *ssa.Call) bool { return cc.Call.StaticCallee() == pv }) {
		pvCall = call
	}
	if pvCall == nil {
		r.Undecided(rule, un.Name()+":parse-call", c.Pos(un.Pos()), "the entry point does not call the recursive parser")
		return
	}
	isEndCheck := func(i ssa.Instruction) bool {
		call, ok := i.(*ssa.Call)
		if !ok {
			return false
		}
		k := calleeKey(&call.Call)
		// (Decoder.More is no such check: it also answers false before a stray `]` or `}`, so
		// `{...}}` would pass - seeded C06_N; the end of the input is what a further token read
		// reports as io.EOF)
		if k != "(*encoding/json.Decoder).Token" {
			return false
		}
		// the read's error is compared with io.EOF (== / != / errors.Is)
		cmpEOF := false
		isEOF := func(v ssa.Value) bool {
			ld, ok := peel(v).(*ssa.UnOp)
			if !ok {
				return false
			}
			g, ok := ld.X.(*ssa.Global)
			return ok && g.Pkg != nil && g.Pkg.Pkg.Path() == "io" && g.Name() == "EOF"
		}
		for _, u := range referrers(call) {
			ex, ok := u.(*ssa.Extract)
			if !ok || ex.Index != 1 {
				continue
			}
			for _, u2 := range referrers(ex) {
				switch x := u2.(type) {
				case *ssa.BinOp:
					if (x.Op == token.EQL || x.Op == token.NEQ) && (isEOF(x.X) || isEOF(x.Y)) {
						cmpEOF = true
					}
				case *ssa.Call:
					if calleeKey(&x.Call) == "errors.Is" && len(x.Call.Args) == 2 && isEOF(x.Call.Args[1]) {
						cmpEOF = true
					}
				}
			}
		}
		if !cmpEOF {
			return false
		}
		// its result must steer a branch one of whose sides returns a non-nil error
		steers := false
		var visit func(v ssa.Value, depth int)
		visit = func(v ssa.Value, depth int) {
			if depth > 4 {
				return
			}
			for _, u := range referrers(v) {
				switch x := u.(type) {
				case *ssa.If:
					for _, s := range x.Block().Succs {
						if len(failsLoudly(s, true, nil)) == 0 {
							steers = true
						}
					}
				case *ssa.Extract:
					visit(x, depth+1)
				case *ssa.BinOp:
					visit(x, depth+1)
				case *ssa.UnOp:
					visit(x, depth+1)
				case *ssa.Call:
					if calleeKey(&x.Call) == "errors.Is" {
						visit(x, depth+1)
					}
				}
			}
		}
		visit(call, 0)
		return steers
	}
	q := &pathQuery{
		witness: isEndCheck,
		isEnd: func(i ssa.Instruction) (string, bool) {
			if ret, ok := i.(*ssa.Return); ok {
				for _, res := range ret.Results {
					if isErrorType(res.Type()) && !isNilConst(resolveLocal(res)) {
						return "", false
					}
				}
				return "success-return", true
			}
			return "", false
		},
	}
	ends := q.run(pvCall.Block(), instrIndex(pvCall)+1, false)
	var where []string
	for _, e := range ends {
		where = append(where, c.InstrPos(e.Instr))
	}
	r.Check(len(ends) == 0, rule, un.Name()+":nothing-after-the-object", c.InstrPos(pvCall),
		"every success return of the entry point has checked (a further decoder Token whose error is compared with io.EOF, with an error branch) that nothing follows the top-level value",
		fmt.Sprintf("the entry point reports success at %v without checking what follows the first JSON value: a line that is not JSON (object followed by text or by a second object) still produces a record", where))
}

// gzipReaderRule (C06-R3 / C16-R6): see the comment in the body.
func gzipReaderRule(c *Ctx, r *Report, sf *ssa.Function, rule string) {
	// (a2) a gzip reader is only handed to the scan loop and closed: no reconfiguration
	// (Multistream(false) stops after the first member of a concatenated archive), no
	// reads outside the loop
	seenCaller := map[*ssa.Function]bool{}
	for _, call := range c.callersOf(sf) {
		caller := call.Parent()
		if seenCaller[caller] {
			continue
		}
		seenCaller[caller] = true
		for _, gz := range callsIn(caller, func(k string, _ *ssa.Call) bool { return k == "compress/gzip.NewReader" }) {
			rd := extractOf(gz, 0)
			if rd == nil {
				continue
			}
			var bad []string
			n := 0
			var visit func(v ssa.Value, depth int)
			visit = func(v ssa.Value, depth int) {
				for _, use := range referrers(v) {
					n++
					switch x := use.(type) {
					case *ssa.DebugRef:
					case *ssa.MakeInterface, *ssa.ChangeInterface:
						if depth < 3 {
							visit(x.(ssa.Value), depth+1)
						}
					case *ssa.Phi:
						// joined with nil on an error path (result temporary of an inlined helper): an alias
						if depth < 3 {
							visit(x, depth+1)
						}
					case *ssa.BinOp:
						if _, _, ok := nilCompare(x); !ok {
							bad = append(bad, "used in "+x.String())
						}
					case *ssa.Store:
						if _, isLocal := x.Addr.(*ssa.Alloc); isLocal && x.Val == v {
							continue // kept in a local variable: its loads are aliases, visited too
						}
						bad = append(bad, "stored at "+c.InstrPos(use))
					case ssa.CallInstruction:
						cc := x.Common()
						k := calleeKey(cc)
						if cc.StaticCallee() == sf || k == "(*compress/gzip.Reader).Close" {
							continue
						}
						bad = append(bad, shortKey(k)+" at "+c.InstrPos(use))
					default:
						bad = append(bad, fmt.Sprintf("%T at %s", use, c.InstrPos(use)))
					}
				}
			}
			for _, al := range aliasesOf(rd) {
				visit(al, 0)
			}
			sort.Strings(bad)
			r.Check(len(bad) == 0, rule, caller.Name()+":gzip-reader-uses", c.InstrPos(gz),
				fmt.Sprintf("the gzip reader is only handed to the scan loop and closed (%d uses): every member of the archive is streamed, as the plain file would be", n),
				"the gzip reader is reconfigured or consumed outside the scan loop, so a .gz input no longer yields what the same text yields as a plain file: "+strings.Join(bad, "; "))
		}
	}

}

// crossLineStateRule (C07-R4 / C14-R1, same analysis as C06-R1a): package-level state that
// is both written and read by the given functions survives from one line to the next.
func crossLineStateRule(c *Ctx, r *Report, fns map[*ssa.Function]bool, rule, consequence string) {
	mr := c.modRef(fns)
	var gs []*ssa.Global
	for g := range mr {
		gs = append(gs, g)
	}
	sort.Slice(gs, func(i, j int) bool { return gs[i].Name() < gs[j].Name() })
	n := 0
	for _, g := range gs {
		u := mr[g]
		if len(u.reads) > 0 && len(u.writes) > 0 && c.completeKeyMemo(g, u).ok {
			r.OK(rule, "global:"+g.Name(), c.InstrPos(u.writes[0]), "a single-entry memo with a complete key (memo.go): a hit yields what the miss path would compute")
			continue
		}
		if len(u.reads) > 0 && len(u.writes) > 0 {
			n++
			r.Bad(rule, "global:"+g.Name(), c.InstrPos(u.writes[0]),
				fmt.Sprintf("package-level state is written (%s) and read (%s) while processing lines: %s", c.InstrPos(u.writes[0]), c.InstrPos(u.reads[0]), consequence))
		}
	}
	if n == 0 {
		r.OK(rule, "no-cross-line-state", "-", fmt.Sprintf("%d package-level variables are touched, none is both written and read", len(gs)))
	}
}

// aliasesOf: v itself plus every load of a local variable (also one captured by a nested
// closure) that holds exactly v - the forms one value takes when the source spells it
// through a variable that a deferred closure captures.
func aliasesOf(v ssa.Value) []ssa.Value {
	out := []ssa.Value{v}
	for _, use := range referrers(v) {
		st, ok := use.(*ssa.Store)
		if !ok || st.Val != v {
			continue
		}
		al, ok := st.Addr.(*ssa.Alloc)
		if !ok {
			continue
		}
		single := true
		for _, r2 := range referrers(al) {
			if s2, ok := r2.(*ssa.Store); ok && s2.Addr == ssa.Value(al) && s2.Val != v {
				single = false
			}
		}
		if !single {
			continue
		}
		for _, r2 := range referrers(al) {
			switch x := r2.(type) {
			case *ssa.UnOp:
				if x.Op == token.MUL {
					out = append(out, x)
				}
			case *ssa.MakeClosure:
				fn, _ := x.Fn.(*ssa.Function)
				for bi, b := range x.Bindings {
					if b == ssa.Value(al) && fn != nil && bi < len(fn.FreeVars) {
						for _, r3 := range referrers(fn.FreeVars[bi]) {
							if ld, ok := r3.(*ssa.UnOp); ok && ld.Op == token.MUL {
								out = append(out, ld)
							}
						}
					}
				}
			}
		}
	}
	return out
}


// counterIncrement: the load ld of global g is used only to compute g's next value by adding
// a constant (`g++`, `g += 2`): a counter whose value nothing on this path looks at.
func counterIncrement(ld *ssa.UnOp, g *ssa.Global) bool {
	// the counter is the variable itself or a field of it (`stats.Lines++`)
	sameAddr := func(a ssa.Value) bool {
		if a == ld.X {
			return true
		}
		fa, ok1 := a.(*ssa.FieldAddr)
		fb, ok2 := ld.X.(*ssa.FieldAddr)
		return ok1 && ok2 && fa.Field == fb.Field && fa.X == fb.X
	}
	if ld.X != ssa.Value(g) {
		fa, ok := ld.X.(*ssa.FieldAddr)
		if !ok || fa.X != ssa.Value(g) {
			return false
		}
		if b, isB := ld.Type().Underlying().(*types.Basic); !isB || b.Info()&types.IsNumeric == 0 {
			return false
		}
	}
	var bo *ssa.BinOp
	for _, u := range referrers(ld) {
		switch x := u.(type) {
		case *ssa.DebugRef:
		case *ssa.BinOp:
			if bo != nil || (x.Op != token.ADD && x.Op != token.SUB) {
				return false
			}
			if _, isC := x.Y.(*ssa.Const); !isC || x.X != ssa.Value(ld) {
				return false
			}
			bo = x
		default:
			return false
		}
	}
	if bo == nil {
		return false
	}
	n := 0
	for _, u := range referrers(bo) {
		switch x := u.(type) {
		case *ssa.DebugRef:
		case *ssa.Store:
			if !sameAddr(x.Addr) || x.Val != ssa.Value(bo) {
				return false
			}
			n++
		default:
			return false
		}
	}
	return n == 1
}

// mutexPairOK: Lock / Unlock (RLock / RUnlock) calls on a sync.Mutex / RWMutex are no-ops in a
// program that never starts a goroutine - they cannot reorder or interleave anything. Accepted
// when no function of the analysed package contains a go statement and the function locks as
// often as it unlocks (call sites; a lock without its unlock would stop the second line dead).
func mutexPairOK(c *Ctx, fn *ssa.Function, k string) bool {
	switch k {
	case "(*sync.Mutex).Lock", "(*sync.Mutex).Unlock", "(*sync.RWMutex).Lock", "(*sync.RWMutex).Unlock", "(*sync.RWMutex).RLock", "(*sync.RWMutex).RUnlock":
	default:
		return false
	}
	if fn.Pkg != c.SPkg {
		return false
	}
	if c.noGoroutines == 0 {
		c.noGoroutines = 1
		var visit func(f *ssa.Function)
		visit = func(f *ssa.Function) {
			allInstrs(f, func(i ssa.Instruction) {
				if _, isGo := i.(*ssa.Go); isGo {
					c.noGoroutines = 2
				}
			})
			for _, a := range f.AnonFuncs {
				visit(a)
			}
		}
		for _, f := range c.SortedFuncs() {
			visit(f)
		}
		if init := c.SPkg.Func("init"); init != nil {
			visit(init)
		}
	}
	if c.noGoroutines != 1 {
		return false
	}
	locks, unlocks := 0, 0
	allInstrs(fn, func(i ssa.Instruction) {
		if cc := callCommonOf(i); cc != nil {
			switch calleeKey(cc) {
			case "(*sync.Mutex).Lock", "(*sync.RWMutex).Lock", "(*sync.RWMutex).RLock":
				locks++
			case "(*sync.Mutex).Unlock", "(*sync.RWMutex).Unlock", "(*sync.RWMutex).RUnlock":
				unlocks++
			}
		}
	})
	return locks > 0 && locks == unlocks
}
