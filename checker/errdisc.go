package main

import (
	"fmt"
	"go/token"

	"golang.org/x/tools/go/ssa"
)

// errTest describes one `if err != nil` (or == nil) test of an error value.
type errTest struct {
	If         *ssa.If
	NonNilSucc *ssa.BasicBlock
	NilSucc    *ssa.BasicBlock
	Val        ssa.Value // the value compared with nil (the error itself, or a phi / reload of it)
}

// errTestsOf finds the nil tests applied to an error value (following phis and
// loads/stores of local allocs, because `err` is often re-assigned).
func errTestsOf(errVal ssa.Value) []errTest {
	var out []errTest
	seen := map[ssa.Value]bool{}
	var visit func(v ssa.Value, depth int)
	visit = func(v ssa.Value, depth int) {
		if seen[v] || depth > 8 {
			return
		}
		seen[v] = true
		for _, r := range referrers(v) {
			switch x := r.(type) {
			case *ssa.BinOp:
				ev, neq, ok := nilCompare(x)
				if !ok || ev != v {
					continue
				}
				for _, rr := range referrers(x) {
					if ifi, ok := rr.(*ssa.If); ok {
						b := ifi.Block()
						t := errTest{If: ifi, Val: v}
						if neq {
							t.NonNilSucc, t.NilSucc = b.Succs[0], b.Succs[1]
						} else {
							t.NonNilSucc, t.NilSucc = b.Succs[1], b.Succs[0]
						}
						out = append(out, t)
					}
				}
			case *ssa.Phi:
				visit(x, depth+1)
			case *ssa.Store:
				// stored into a local alloc: follow loads
				if a, ok := x.Addr.(*ssa.Alloc); ok && x.Val == v {
					for _, ar := range referrers(a) {
						if ld, ok := ar.(*ssa.UnOp); ok && ld.Op == token.MUL {
							visit(ld, depth+1)
						}
					}
				}
			case *ssa.MakeInterface:
				visit(x, depth+1)
			}
		}
	}
	visit(errVal, 0)
	return out
}

// provablyNonNilErr: v, used in block b, is certainly a non-nil error.
func provablyNonNilErr(v ssa.Value, b *ssa.BasicBlock, depth int) bool {
	if depth > 6 {
		return false
	}
	v = resolveLocal(v)
	if isNilConst(v) {
		return false
	}
	if nn, _ := factNil(allFacts(b), v); nn {
		return true // a dominating test established v != nil (also for a phi of nil and an error)
	}
	// `if x.err != nil { return x.err }`: a second load of the location just tested, with
	// nothing but loads between the branch and this use
	if ld, ok := v.(*ssa.UnOp); ok && ld.Op == token.MUL && ld.Block() == b {
		quiet := true
		for _, in := range b.Instrs {
			if in == ssa.Instruction(ld) {
				break
			}
			switch in.(type) {
			case *ssa.UnOp, *ssa.FieldAddr, *ssa.IndexAddr, *ssa.DebugRef, *ssa.Phi:
			default:
				quiet = false
			}
		}
		if quiet && len(b.Preds) == 1 {
			if ifi, ok := b.Preds[0].Instrs[len(b.Preds[0].Instrs)-1].(*ssa.If); ok {
				if x, neq, ok := nilCompare(ifi.Cond); ok && sameExpr(x, v) {
					if (b.Preds[0].Succs[0] == b) == neq {
						return true
					}
				}
			}
		}
	}
	if ld, ok := v.(*ssa.UnOp); ok && ld.Op == token.MUL {
		if g, isG := ld.X.(*ssa.Global); isG && sentinelErrors[g] {
			return true // a package-level error value made once with errors.New / fmt.Errorf
		}
	}
	switch x := v.(type) {
	case *ssa.Call:
		switch calleeKey(&x.Call) {
		case "fmt.Errorf", "errors.New":
			return true
		}
	case *ssa.MakeInterface:
		// a concrete non-pointer error value, or address of composite
		return true
	case *ssa.Phi:
		for i, e := range x.Edges {
			if !provablyNonNilErr(e, x.Block().Preds[i], depth+1) {
				return false
			}
		}
		return true
	}
	nn, _ := factNil(allFacts(b), v)
	return nn
}

// nonZeroExit: instruction is os.Exit(c) with constant c != 0.
func nonZeroExit(i ssa.Instruction) bool {
	c, ok := i.(*ssa.Call)
	if !ok || calleeKey(&c.Call) != "os.Exit" {
		return false
	}
	if n, ok := constInt(c.Call.Args[0]); ok {
		return n != 0
	}
	// a computed status: non-zero when the branch facts at the call say so
	// (`if code != 0 { os.Exit(code) }`), or when every definition it can have is
	v := c.Call.Args[0]
	for _, f := range allFacts(c.Block()) {
		bo, ok := f.Cond.(*ssa.BinOp)
		if !ok || (bo.Op != token.NEQ && bo.Op != token.EQL) {
			continue
		}
		var k *ssa.Const
		switch {
		case bo.X == v:
			k, _ = bo.Y.(*ssa.Const)
		case bo.Y == v:
			k, _ = bo.X.(*ssa.Const)
		}
		if k == nil {
			continue
		}
		if n, isInt := constInt(k); isInt && n == 0 && ((bo.Op == token.NEQ) == f.Pol) {
			return true
		}
	}
	srcs := sourcesAt(v, c.Block())
	for _, vs := range srcs {
		n, ok := constInt(vs.Val)
		if !ok || n == 0 {
			return false
		}
	}
	return len(srcs) > 0
}

// failsLoudly checks that every path from the start of block `from` ends in a return
// of a provably non-nil error (errIdx = index of the error in the results) or a
// non-zero os.Exit, and that no `forbidden` instruction is passed first.
// Returns a list of offending path ends.
func failsLoudly(from *ssa.BasicBlock, allowReturnErr bool, forbidden func(ssa.Instruction) bool) []string {
	return failsLoudlyKnowing(from, allowReturnErr, forbidden, nil)
}

// failsLoudlyKnowing is failsLoudly with the knowledge that a particular error value is
// non-nil: at a later nil test of that very value only the non-nil successor is followed.
func failsLoudlyKnowing(from *ssa.BasicBlock, allowReturnErr bool, forbidden func(ssa.Instruction) bool, known []errTest) []string {
	var offending []string
	var q *pathQuery
	q = &pathQuery{
		blockEdge: func(b, to *ssa.BasicBlock) bool {
			for _, t := range known {
				if t.If.Block() == b && t.NonNilSucc != t.NilSucc {
					return to == t.NonNilSucc
				}
			}
			return true
		},
		witness: func(i ssa.Instruction) bool {
			if nonZeroExit(i) {
				return true
			}
			if r, ok := i.(*ssa.Return); ok && allowReturnErr {
				for _, res := range r.Results {
					if !isErrorType(res.Type()) {
						continue
					}
					if provablyNonNilErr(res, r.Block(), 0) {
						return true
					}
					// the returned phi as this path delivered it
					if v, from := q.onPath(res); from != nil && provablyNonNilErr(v, from, 0) {
						return true
					}
				}
			}
			return false
		},
		isEnd: func(i ssa.Instruction) (string, bool) {
			if forbidden != nil && forbidden(i) {
				return "forbidden", true
			}
			return stdEnds(i)
		},
	}
	for _, e := range q.run(from, 0, false) {
		offending = append(offending, fmt.Sprintf("%s at %s", e.Kind, e.Instr.String()))
	}
	return offending
}

// checkCallErrHandled: the call's error result is nil-tested and the non-nil branch
// fails loudly. Returns (ok, detail).
func checkCallErrHandled(call *ssa.Call, allowReturnErr bool, forbidden func(ssa.Instruction) bool) (bool, string) {
	evs := errorResults(call)
	if len(evs) == 0 {
		return false, "error result is discarded (never extracted)"
	}
	var tests []errTest
	for _, ev := range evs {
		// direct return of the error (propagation) counts as handled
		for _, r := range referrers(ev) {
			if _, ok := r.(*ssa.Return); ok && allowReturnErr {
				return true, "error result returned directly"
			}
			if st, ok := r.(*ssa.Store); ok && allowReturnErr && st.Val == ev {
				// defer-spilled result slot: `*t0 = err; rundefers; t = *t0; return t`
				for _, in := range st.Block().Instrs {
					if ret, ok := in.(*ssa.Return); ok {
						for _, res := range ret.Results {
							if resolveLocal(res) == ev {
								return true, "error result returned directly (through the result slot)"
							}
						}
					}
				}
			}
		}
		tests = append(tests, errTestsOf(ev)...)
	}
	if len(tests) == 0 {
		return false, "error result is never compared with nil"
	}
	for _, t := range tests {
		// tests of the very same SSA value (not of a phi / reload): there the error stays non-nil
		var same []errTest
		for _, t2 := range tests {
			if t2.Val == t.Val {
				same = append(same, t2)
			}
		}
		if off := failsLoudlyKnowing(t.NonNilSucc, allowReturnErr, forbidden, same); len(off) > 0 {
			return false, fmt.Sprintf("non-nil error branch does not fail on every path: %v", off)
		}
	}
	// ... and the error is not lost on the way to its test: from the call on, assuming the
	// error is non-nil, every path fails loudly (a later assignment to the same variable - the
	// result of a Close, say - must not stand in for it at the test)
	for _, ev := range evs {
		if off := errorLostOnSomePath(call, ev, allowReturnErr, forbidden); len(off) > 0 {
			return false, fmt.Sprintf("the error is overwritten or dropped before it is tested on some path: %v", off)
		}
	}
	return true, fmt.Sprintf("error tested (%d test(s)); non-nil branch returns a non-nil error / exits non-zero on all paths", len(tests))
}

// errorLostOnSomePath explores the paths from the call onwards under the assumption that its
// error result ev is non-nil: at a nil test of ev (directly, or of a phi that the path bound
// to ev) only the non-nil successor is followed; the path must end in a non-zero exit, or a
// return of ev itself / of a provably non-nil error. Returns the other ends.
func errorLostOnSomePath(call *ssa.Call, ev ssa.Value, allowReturnErr bool, forbidden func(ssa.Instruction) bool) []string {
	var q *pathQuery
	isEv := func(v ssa.Value) bool {
		v = resolveLocal(v)
		if v == ev {
			return true
		}
		if q != nil {
			if rv, from := q.onPath(v); from != nil && resolveLocal(rv) == ev {
				return true
			}
		}
		// a (possibly wrapped) copy: MakeInterface / ChangeInterface of ev
		return peel(v) == ev
	}
	// the edge filter needs the environment of the path *at the block of the test*: the query
	// sets q.cur before it looks at a block's instructions, and consults blockEdge afterwards
	q = &pathQuery{
		blockEdge: func(b, to *ssa.BasicBlock) bool {
			ifi, ok := b.Instrs[len(b.Instrs)-1].(*ssa.If)
			if !ok || len(b.Succs) != 2 || b.Succs[0] == b.Succs[1] {
				return true
			}
			x, neq, isNil := nilCompare(ifi.Cond)
			if !isNil || !isEv(x) {
				return true
			}
			nonNilSucc := b.Succs[1]
			if neq {
				nonNilSucc = b.Succs[0]
			}
			return to == nonNilSucc
		},
		witness: func(i ssa.Instruction) bool {
			if nonZeroExit(i) {
				return true
			}
			if r, ok := i.(*ssa.Return); ok && allowReturnErr {
				for _, res := range r.Results {
					if !isErrorType(res.Type()) {
						continue
					}
					if isEv(res) || provablyNonNilErr(res, r.Block(), 0) {
						return true
					}
					if v, from := q.onPath(res); from != nil && (isEv(v) || provablyNonNilErr(v, from, 0)) {
						return true
					}
				}
			}
			return false
		},
		isEnd: func(i ssa.Instruction) (string, bool) {
			if forbidden != nil && forbidden(i) {
				return "forbidden", true
			}
			return stdEnds(i)
		},
	}
	var out []string
	for _, e := range q.run(call.Block(), instrIndex(call)+1, false) {
		out = append(out, fmt.Sprintf("%s at %s", e.Kind, e.Instr.String()))
	}
	return out
}

// callsIn lists the Call instructions of fn whose callee key satisfies pred.
func callsIn(fn *ssa.Function, pred func(key string, c *ssa.Call) bool) []*ssa.Call {
	var out []*ssa.Call
	allInstrs(fn, func(i ssa.Instruction) {
		if c, ok := i.(*ssa.Call); ok {
			if pred(calleeKey(&c.Call), c) {
				out = append(out, c)
			}
		}
	})
	return out
}

func hasCallTo(fn *ssa.Function, keys ...string) bool {
	return len(callsIn(fn, func(k string, _ *ssa.Call) bool {
		for _, w := range keys {
			if k == w {
				return true
			}
		}
		return false
	})) > 0
}


// sentinelErrors: package-level error variables that are assigned exactly once, in the package
// initialiser, the result of errors.New / fmt.Errorf (`var errNotJSON = errors.New("...")`).
var sentinelErrors = map[*ssa.Global]bool{}

func computeSentinelErrors(c *Ctx) {
	sentinelErrors = map[*ssa.Global]bool{}
	stores := map[*ssa.Global]int{}
	good := map[*ssa.Global]bool{}
	for _, fn := range c.Funcs {
		for _, b := range fn.Blocks {
			for _, in := range b.Instrs {
				st, ok := in.(*ssa.Store)
				if !ok {
					continue
				}
				g, ok := st.Addr.(*ssa.Global)
				if !ok || g.Pkg != c.SPkg {
					continue
				}
				stores[g]++
				if call, isCall := st.Val.(*ssa.Call); isCall && fn.Name() == "init" {
					switch calleeKey(&call.Call) {
					case "fmt.Errorf", "errors.New":
						good[g] = true
					}
				}
			}
		}
	}
	for g := range good {
		if stores[g] == 1 {
			sentinelErrors[g] = true
		}
	}
}
