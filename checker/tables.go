package main

import (
	"fmt"
	"go/constant"
	"go/token"
	"go/types"
	"sort"
	"strings"

	"golang.org/x/tools/go/ssa"
)

// A1 - table reconstruction: abstract interpretation of the branch-free table
// initialisers (package init + the init$N closures) over an abstract heap. No code of
// the repository runs; the SSA instruction list is interpreted symbolically.

type TVal struct {
	Kind string // "leaf" (OperatorType constant), "nil", "map", "other"
	Leaf int64
	Obj  *TObj
}

type TObj struct {
	ID   int
	Keys []string
	Vals map[string]TVal
	Pos  token.Pos
}

func (o *TObj) set(k string, v TVal) {
	if _, ok := o.Vals[k]; !ok {
		o.Keys = append(o.Keys, k) // insertion order; Set on an existing key keeps its position
	}
	o.Vals[k] = v
}

type Tables struct {
	Globals    map[string]*TObj // table global -> object
	EnumName   map[int64]string // OperatorType value -> constant name
	EnumVal    map[string]int64 // constant name -> value
	Problems   []string         // anything that made a table unresolved
	SetCalls   int              // number of Set calls interpreted
	Objects    int
	StringSets map[string][]string // string-slice globals (e.g. TopLevelSearchOperators)
	nextID     int
}

type tableInterp struct {
	c        *Ctx
	t        *Tables
	mergeFns map[*ssa.Function]bool
}

func (c *Ctx) reconstructTables() *Tables {
	t := &Tables{Globals: map[string]*TObj{}, EnumName: map[int64]string{}, EnumVal: map[string]int64{}, StringSets: map[string][]string{}}
	// enum members by name
	scope := c.Pkg.Types.Scope()
	for _, name := range scope.Names() {
		if cst, ok := scope.Lookup(name).(*types.Const); ok {
			if n, ok := cst.Type().(*types.Named); ok && n.Obj().Name() == "OperatorType" {
				if v, ok := constant.Int64Val(cst.Val()); ok {
					t.EnumName[v] = name
					t.EnumVal[name] = v
				}
			}
		}
	}
	if len(t.EnumName) == 0 {
		t.Problems = append(t.Problems, "no constants of type OperatorType found")
		return t
	}
	ti := &tableInterp{c: c, t: t, mergeFns: map[*ssa.Function]bool{}}
	initFn := c.Fn("init")
	if initFn == nil {
		t.Problems = append(t.Problems, "package initialiser not found")
		return t
	}
	for _, b := range initFn.Blocks {
		for _, in := range b.Instrs {
			st, ok := in.(*ssa.Store)
			if !ok {
				continue
			}
			g, ok := st.Addr.(*ssa.Global)
			if !ok {
				continue
			}
			if isOrderedMapPtr(st.Val.Type()) {
				call, ok := st.Val.(*ssa.Call)
				if !ok {
					t.Problems = append(t.Problems, fmt.Sprintf("table %s is not initialised by a call", g.Name()))
					continue
				}
				callee := c.staticPkgCallee(&call.Call)
				if callee == nil {
					// direct NewOrderedMap()
					if calleeKey(&call.Call) == omPkg+".NewOrderedMap" {
						t.Globals[g.Name()] = ti.newObj(call.Pos())
						continue
					}
					t.Problems = append(t.Problems, fmt.Sprintf("table %s: initialiser callee unresolved", g.Name()))
					continue
				}
				v, err := ti.run(callee, nil, 0)
				if err != nil {
					t.Problems = append(t.Problems, fmt.Sprintf("table %s: %v", g.Name(), err))
					continue
				}
				if v.Kind != "map" {
					t.Problems = append(t.Problems, fmt.Sprintf("table %s: initialiser does not return a map", g.Name()))
					continue
				}
				t.Globals[g.Name()] = v.Obj
			}
			// string slice literals
			if sl, ok := st.Val.(*ssa.Slice); ok {
				if al, ok := sl.X.(*ssa.Alloc); ok {
					var elems []string
					okAll := true
					tmp := map[int64]string{}
					for _, rr := range referrers(al) {
						if ia, ok := rr.(*ssa.IndexAddr); ok {
							idx, _ := constInt(ia.Index)
							for _, r2 := range referrers(ia) {
								if s2, ok := r2.(*ssa.Store); ok {
									if s, ok := constString(s2.Val); ok {
										tmp[idx] = s
									} else {
										okAll = false
									}
								}
							}
						}
					}
					for i := int64(0); i < int64(len(tmp)); i++ {
						elems = append(elems, tmp[i])
					}
					if okAll && len(elems) > 0 {
						t.StringSets[g.Name()] = elems
					}
				}
			}
		}
	}
	t.Objects = t.nextID
	return t
}

func (ti *tableInterp) newObj(pos token.Pos) *TObj {
	ti.t.nextID++
	return &TObj{ID: ti.t.nextID, Vals: map[string]TVal{}, Pos: pos}
}

// run interprets a single-block function.
func (ti *tableInterp) run(fn *ssa.Function, args []TVal, depth int) (TVal, error) {
	if depth > 4 {
		return TVal{}, fmt.Errorf("%s: helper nesting too deep", fn.Name())
	}
	if len(fn.Blocks) != 1 {
		return TVal{}, fmt.Errorf("%s is not straight-line (%d blocks): table cannot be reconstructed", fn.Name(), len(fn.Blocks))
	}
	env := map[ssa.Value]TVal{}
	for i, p := range fn.Params {
		if i < len(args) {
			env[p] = args[i]
		}
	}
	val := func(v ssa.Value) (TVal, error) {
		if x, ok := env[v]; ok {
			return x, nil
		}
		if cst, ok := v.(*ssa.Const); ok {
			if cst.Value == nil {
				if _, isPtr := cst.Type().Underlying().(*types.Pointer); isPtr {
					// `var t OrderedMap` stored as an entry: not "no classification" (an untyped
					// nil) but a nil MAP - the lookup descends into it and calls Get on nil
					return TVal{Kind: "nilptr"}, nil
				}
				return TVal{Kind: "nil"}, nil
			}
			if n, ok := cst.Type().(*types.Named); ok && n.Obj().Name() == "OperatorType" {
				i, _ := constant.Int64Val(cst.Value)
				return TVal{Kind: "leaf", Leaf: i}, nil
			}
			return TVal{Kind: "other"}, nil
		}
		return TVal{}, fmt.Errorf("%s: value %s (%T) not resolvable", fn.Name(), v.Name(), v)
	}
	for _, in := range fn.Blocks[0].Instrs {
		switch x := in.(type) {
		case *ssa.DebugRef:
		case *ssa.MakeInterface:
			v, err := val(x.X)
			if err != nil {
				return TVal{}, err
			}
			env[x] = v
		case *ssa.ChangeType:
			v, err := val(x.X)
			if err != nil {
				return TVal{}, err
			}
			env[x] = v
		case *ssa.UnOp:
			if x.Op != token.MUL {
				return TVal{}, fmt.Errorf("%s: unsupported unary op at %s", fn.Name(), ti.c.InstrPos(in))
			}
			g, ok := x.X.(*ssa.Global)
			if !ok {
				return TVal{}, fmt.Errorf("%s: load of a non-global at %s", fn.Name(), ti.c.InstrPos(in))
			}
			o := ti.t.Globals[g.Name()]
			if o == nil {
				return TVal{}, fmt.Errorf("%s: global %s used before it is initialised (or not a table)", fn.Name(), g.Name())
			}
			env[x] = TVal{Kind: "map", Obj: o}
		case *ssa.Call:
			k := calleeKey(&x.Call)
			switch {
			case k == omPkg+".NewOrderedMap":
				env[x] = TVal{Kind: "map", Obj: ti.newObj(x.Pos())}
			case k == omMethod("Set"):
				recv, err := val(x.Call.Args[0])
				if err != nil {
					return TVal{}, err
				}
				if recv.Kind != "map" {
					return TVal{}, fmt.Errorf("%s: Set on a non-table at %s", fn.Name(), ti.c.InstrPos(in))
				}
				key, ok := constString(x.Call.Args[1])
				if !ok {
					return TVal{}, fmt.Errorf("%s: Set with a non-constant key at %s", fn.Name(), ti.c.InstrPos(in))
				}
				v, err := val(x.Call.Args[2])
				if err != nil {
					return TVal{}, err
				}
				if v.Kind == "other" {
					return TVal{}, fmt.Errorf("%s: Set(%q) with a value that is neither OperatorType, nil nor a table at %s", fn.Name(), key, ti.c.InstrPos(in))
				}
				recv.Obj.set(key, v)
				ti.t.SetCalls++
				env[x] = TVal{Kind: "other"}
			default:
				callee := ti.c.staticPkgCallee(&x.Call)
				if callee == nil {
					return TVal{}, fmt.Errorf("%s: call to %s in a table initialiser at %s", fn.Name(), k, ti.c.InstrPos(in))
				}
				var as []TVal
				for _, a := range x.Call.Args {
					v, err := val(a)
					if err != nil {
						return TVal{}, err
					}
					as = append(as, v)
				}
				if ti.isMerge(callee) {
					if len(as) != 2 || as[0].Kind != "map" || as[1].Kind != "map" {
						return TVal{}, fmt.Errorf("%s: merge helper called with non-table arguments", fn.Name())
					}
					for _, key := range as[1].Obj.Keys {
						as[0].Obj.set(key, as[1].Obj.Vals[key])
					}
					env[x] = TVal{Kind: "other"}
					continue
				}
				v, err := ti.run(callee, as, depth+1)
				if err != nil {
					return TVal{}, err
				}
				env[x] = v
			}
		case *ssa.Return:
			if len(x.Results) == 0 {
				return TVal{Kind: "other"}, nil
			}
			return val(x.Results[0])
		case *ssa.Alloc:
			// the backing array of a list of names (`[]string{"a", "b"}`: the argument of an
			// inlined helper whose loop over it was unrolled); never a table value
			if at, ok := x.Type().Underlying().(*types.Pointer); ok {
				if arr, ok := at.Elem().Underlying().(*types.Array); ok && isStringType(arr.Elem()) {
					env[x] = TVal{Kind: "other"}
					continue
				}
			}
			return TVal{}, fmt.Errorf("%s: unsupported allocation at %s (initialiser is not a plain sequence of Set calls)", fn.Name(), ti.c.InstrPos(in))
		case *ssa.IndexAddr:
			if v, ok := env[x.X]; ok && v.Kind == "other" {
				env[x] = TVal{Kind: "other"}
				continue
			}
			return TVal{}, fmt.Errorf("%s: unsupported element address at %s", fn.Name(), ti.c.InstrPos(in))
		case *ssa.Store:
			if v, ok := env[x.Addr]; ok && v.Kind == "other" {
				if _, isC := x.Val.(*ssa.Const); isC {
					continue
				}
			}
			return TVal{}, fmt.Errorf("%s: unsupported store at %s", fn.Name(), ti.c.InstrPos(in))
		case *ssa.Slice:
			if v, ok := env[x.X]; ok && v.Kind == "other" {
				env[x] = TVal{Kind: "other"}
				continue
			}
			return TVal{}, fmt.Errorf("%s: unsupported slice expression at %s", fn.Name(), ti.c.InstrPos(in))
		default:
			return TVal{}, fmt.Errorf("%s: unsupported instruction %T at %s (initialiser is not a plain sequence of Set calls)", fn.Name(), in, ti.c.InstrPos(in))
		}
	}
	return TVal{Kind: "other"}, nil
}

// isMerge verifies that fn(dst, src) is exactly "for each entry of src in order: dst.Set(k, v)".
func (ti *tableInterp) isMerge(fn *ssa.Function) bool {
	if v, ok := ti.mergeFns[fn]; ok {
		return v
	}
	ok := false
	defer func() { ti.mergeFns[fn] = ok }()
	if len(fn.Params) != 2 || fn.Signature.Results().Len() != 0 {
		return false
	}
	loops := iterLoops(fn)
	if len(loops) != 1 || loops[0].Kind != "omap" || loops[0].Coll != ssa.Value(fn.Params[1]) {
		return false
	}
	l := loops[0]
	nSets, other := 0, 0
	allInstrs(fn, func(i ssa.Instruction) {
		cc := callCommonOf(i)
		if cc == nil {
			return
		}
		switch calleeKey(cc) {
		case omMethod("Set"):
			keyOK, valOK := false, false
			if ld, isLd := cc.Args[1].(*ssa.UnOp); isLd {
				if fa, isFa := ld.X.(*ssa.FieldAddr); isFa && fa.X == l.Elem {
					_, fv := fieldOf(fa)
					keyOK = fv != nil && fv.Name() == "Key"
				}
			}
			if ld, isLd := cc.Args[2].(*ssa.UnOp); isLd {
				if fa, isFa := ld.X.(*ssa.FieldAddr); isFa && fa.X == l.Elem {
					_, fv := fieldOf(fa)
					valOK = fv != nil && fv.Name() == "Value"
				}
			}
			if cc.Args[0] == ssa.Value(fn.Params[0]) && keyOK && valOK && l.Loop.Body[i.Block()] {
				nSets++
			} else {
				other++
			}
		case omMethod("Front"), omElemMethod("Next"):
		default:
			other++
		}
	})
	ok = nSets == 1 && other == 0 && len(l.Loop.earlyExits()) == 0
	return ok
}

// ---- queries ----

type TEntry struct {
	Table string
	Path  []string
	Val   TVal
	ObjID int // id of the containing object (shared sub-tables are reported once)
}

func (e TEntry) Key() string { return e.Table + ":" + strings.Join(e.Path, ".") }

var tableOrder = []string{"AggregationOperators", "CoreOperators", "OperatorMapDefs", "geoJSON", "SearchOperators", "SearchAggregationOperators"}

// Entries enumerates every (table, path) -> value, visiting each object once per table
// root path (shared objects are expanded under every path that reaches them, because
// the walker reaches them through each of those paths).
func (t *Tables) Entries() []TEntry {
	var out []TEntry
	var names []string
	for n := range t.Globals {
		names = append(names, n)
	}
	sort.Slice(names, func(i, j int) bool {
		oi, oj := indexOf(tableOrder, names[i]), indexOf(tableOrder, names[j])
		if oi != oj {
			return oi < oj
		}
		return names[i] < names[j]
	})
	for _, n := range names {
		var walk func(o *TObj, path []string, depth int, seen map[int]bool)
		walk = func(o *TObj, path []string, depth int, seen map[int]bool) {
			if depth > 12 || seen[o.ID] {
				return
			}
			seen[o.ID] = true
			defer delete(seen, o.ID)
			for _, k := range o.Keys {
				v := o.Vals[k]
				p := append(append([]string{}, path...), k)
				out = append(out, TEntry{Table: n, Path: p, Val: v, ObjID: o.ID})
				if v.Kind == "map" {
					walk(v.Obj, p, depth+1, seen)
				}
			}
		}
		walk(t.Globals[n], nil, 0, map[int]bool{})
	}
	return out
}

func indexOf(xs []string, s string) int {
	for i, x := range xs {
		if x == s {
			return i
		}
	}
	return len(xs)
}

// Lookup returns the value at table:path.
func (t *Tables) Lookup(table string, path ...string) (TVal, bool) {
	o := t.Globals[table]
	if o == nil {
		return TVal{}, false
	}
	var v TVal
	for i, k := range path {
		x, ok := o.Vals[k]
		if !ok {
			return TVal{}, false
		}
		v = x
		if i < len(path)-1 {
			if x.Kind != "map" {
				return TVal{}, false
			}
			o = x.Obj
		}
	}
	return v, true
}

func (t *Tables) LeafName(v TVal) string {
	switch v.Kind {
	case "leaf":
		if n, ok := t.EnumName[v.Leaf]; ok {
			return n
		}
		return fmt.Sprintf("OperatorType(%d)", v.Leaf)
	case "nil":
		return "nil"
	case "nilptr":
		return "nil-map-pointer"
	case "map":
		return "submap"
	}
	return "?"
}

func (t *Tables) requireResolved(r *Report, rule string) bool {
	if len(t.Problems) == 0 && len(t.Globals) > 0 {
		return true
	}
	for _, p := range t.Problems {
		r.Undecided(rule, "tables", "-", p)
	}
	if len(t.Globals) == 0 {
		r.Undecided(rule, "tables", "-", "no operator table could be reconstructed")
	}
	return false
}
