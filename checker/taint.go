package main

import (
	"go/token"
	"go/types"

	"golang.org/x/tools/go/ssa"
)

// Taint is a small inter-procedural, flow-insensitive forward value-flow analysis over
// the package's SSA. A value is in the set when it may carry (a copy or a derivative
// of) a seed. Propagation through library calls is decided by LibThrough; package
// calls bind arguments to parameters and returns to call results; stores into local
// allocs, globals and struct fields taint the location (field-insensitive per alloc,
// field-sensitive for globals by name).
type Taint struct {
	c   *Ctx
	Set map[ssa.Value]bool
	// LibThrough(call, key): does a tainted argument taint the result of this library call?
	LibThrough func(call *ssa.Call, key string) bool
	// NoParamBinding: package functions whose parameters are not bound (treated as sanitisers)
	Stop map[*ssa.Function]bool
	// globals tainted by stores
	Globals map[*ssa.Global]bool
	// struct fields (by types.Var) tainted by stores
	Fields map[*types.Var]bool
	// NoArith: do not propagate through + (string concatenation / arithmetic)
	NoArith bool
	funcs   []*ssa.Function
}

func NewTaint(c *Ctx) *Taint {
	t := &Taint{c: c, Set: map[ssa.Value]bool{}, Stop: map[*ssa.Function]bool{}, Globals: map[*ssa.Global]bool{}, Fields: map[*types.Var]bool{}}
	t.funcs = c.SortedFuncs()
	t.LibThrough = func(call *ssa.Call, key string) bool { return true }
	return t
}

func (t *Taint) Has(v ssa.Value) bool { return v != nil && t.Set[v] }

func (t *Taint) Run(seeds ...ssa.Value) {
	for _, s := range seeds {
		if s != nil {
			t.Set[s] = true
		}
	}
	changed := true
	mark := func(v ssa.Value) {
		if v != nil && !t.Set[v] {
			t.Set[v] = true
			changed = true
		}
	}
	fieldVar := func(fa *ssa.FieldAddr) *types.Var {
		pt, ok := fa.X.Type().Underlying().(*types.Pointer)
		if !ok {
			return nil
		}
		st, ok := pt.Elem().Underlying().(*types.Struct)
		if !ok {
			return nil
		}
		return st.Field(fa.Field)
	}
	for iter := 0; changed && iter < 100; iter++ {
		changed = false
		for _, fn := range t.funcs {
			// closures: free vars bound from tainted values
			for _, b := range fn.Blocks {
				for _, in := range b.Instrs {
					switch x := in.(type) {
					case *ssa.Phi:
						for _, e := range x.Edges {
							if t.Set[e] {
								mark(x)
							}
						}
					case *ssa.MakeInterface:
						if t.Set[x.X] {
							mark(x)
						}
					case *ssa.ChangeInterface:
						if t.Set[x.X] {
							mark(x)
						}
					case *ssa.ChangeType:
						if t.Set[x.X] {
							mark(x)
						}
					case *ssa.Convert:
						if t.Set[x.X] {
							mark(x)
						}
					case *ssa.Slice:
						if t.Set[x.X] {
							mark(x)
						}
					case *ssa.TypeAssert:
						if t.Set[x.X] {
							mark(x)
						}
					case *ssa.Extract:
						if t.Set[x.Tuple] {
							mark(x)
						}
						// per-index precision for package callees with several results
						if call, ok := x.Tuple.(*ssa.Call); ok {
							if callee := t.c.staticPkgCallee(&call.Call); callee != nil && !t.Stop[callee] {
								for _, cb := range callee.Blocks {
									if ret, ok := cb.Instrs[len(cb.Instrs)-1].(*ssa.Return); ok && x.Index < len(ret.Results) {
										res := ret.Results[x.Index]
										if t.Set[res] || t.Set[resolveLocal(res)] {
											mark(x)
										}
									}
								}
							}
						}
					case *ssa.Index:
						if t.Set[x.X] {
							mark(x)
						}
					case *ssa.Lookup:
						if t.Set[x.X] {
							mark(x)
						}
					case *ssa.IndexAddr:
						if t.Set[x.X] {
							mark(x)
						}
					case *ssa.FieldAddr:
						if t.Set[x.X] {
							mark(x)
						}
						if fv := fieldVar(x); fv != nil && t.Fields[fv] {
							mark(x)
						}
					case *ssa.Field:
						if t.Set[x.X] {
							mark(x)
						}
					case *ssa.BinOp:
						if !t.NoArith && x.Op == token.ADD && (t.Set[x.X] || t.Set[x.Y]) {
							mark(x)
						}
					case *ssa.UnOp:
						if x.Op == token.MUL {
							if t.Set[x.X] {
								mark(x)
							}
							if g, ok := x.X.(*ssa.Global); ok && t.Globals[g] {
								mark(x)
							}
						}
					case *ssa.Store:
						if t.Set[x.Val] {
							switch a := x.Addr.(type) {
							case *ssa.Alloc:
								mark(a)
							case *ssa.Global:
								if !t.Globals[a] {
									t.Globals[a] = true
									changed = true
								}
							case *ssa.FieldAddr:
								if fv := fieldVar(a); fv != nil && !t.Fields[fv] {
									t.Fields[fv] = true
									changed = true
								}
								mark(a)
							case *ssa.IndexAddr:
								mark(a.X)
								// varargs arrays: &t[0] where t = new [n]T; slice t[:] -> taint the alloc
								mark(a)
							case *ssa.FreeVar:
								mark(a)
							}
						}
					case *ssa.MakeClosure:
						cf := x.Fn.(*ssa.Function)
						for i, bnd := range x.Bindings {
							if t.Set[bnd] {
								mark(cf.FreeVars[i])
							}
						}
					case *ssa.Call:
						cc := &x.Call
						anyArg := false
						for _, a := range cc.Args {
							if t.Set[a] {
								anyArg = true
							}
						}
						if cc.IsInvoke() && t.Set[cc.Value] {
							anyArg = true
						}
						if callee := t.c.staticPkgCallee(cc); callee != nil {
							if t.Stop[callee] {
								continue
							}
							for i, a := range cc.Args {
								if t.Set[a] && i < len(callee.Params) {
									mark(callee.Params[i])
								}
							}
							// returns (single result; tuples are handled per index at the Extract)
							if callee.Signature.Results().Len() != 1 {
								continue
							}
							for _, cb := range callee.Blocks {
								if ret, ok := cb.Instrs[len(cb.Instrs)-1].(*ssa.Return); ok {
									for _, res := range ret.Results {
										if t.Set[res] || t.Set[resolveLocal(res)] {
											mark(x)
										}
									}
								}
							}
							continue
						}
						if anyArg {
							if t.LibThrough(x, calleeKey(cc)) {
								mark(x)
							}
						}
					case *ssa.Defer:
						cc := &x.Call
						if callee := t.c.staticPkgCallee(cc); callee != nil && !t.Stop[callee] {
							for i, a := range cc.Args {
								if t.Set[a] && i < len(callee.Params) {
									mark(callee.Params[i])
								}
							}
						}
					}
				}
			}
		}
	}
}

// Uses lists the instructions that use a tainted value, excluding pure propagation
// (the caller classifies them).
func (t *Taint) Uses() []ssa.Instruction {
	var out []ssa.Instruction
	seen := map[ssa.Instruction]bool{}
	for _, fn := range t.funcs {
		for _, b := range fn.Blocks {
			for _, in := range b.Instrs {
				for _, op := range in.Operands(nil) {
					if *op != nil && t.Set[*op] && !seen[in] {
						seen[in] = true
						out = append(out, in)
					}
				}
			}
		}
	}
	return out
}
