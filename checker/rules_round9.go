package main

import (
	"fmt"
	"go/token"
	"go/types"
	"sort"
	"strings"

	"golang.org/x/tools/go/ssa"
)

// tableNilMapRule (C07-R1): an entry of an operator table that is a typed nil map pointer
// (`var tracking OrderedMap; search.Set("tracking", tracking)`) is taken for a nested member
// table by the lookup, which calls Get on it: a nil dereference on the first line that uses
// the option, and every later line is lost.
func tableNilMapRule(c *Ctx, r *Report, rule string) {
	t := c.reconstructTables()
	n := 0
	var names []string
	for name := range t.Globals {
		names = append(names, name)
	}
	sort.Strings(names)
	seen := map[*TObj]bool{}
	var walk func(table, path string, o *TObj)
	walk = func(table, path string, o *TObj) {
		if o == nil || seen[o] {
			return
		}
		seen[o] = true
		for _, k := range o.Keys {
			v := o.Vals[k]
			n++
			if v.Kind == "nilptr" {
				r.Bad(rule, "table:"+table+":"+strings.TrimPrefix(path+"."+k, ".")+"=nil-map", "src/operators.go",
					"the table entry is a nil ordered-map pointer: the lookup takes a map-typed entry for the table of the option's members and calls Get on it - a panic on the first line that carries this option, and the rest of the log is lost")
			}
			if v.Kind == "map" {
				walk(table, path+"."+k, v.Obj)
			}
		}
	}
	for _, name := range names {
		walk(name, "", t.Globals[name])
	}
	r.Trivial(rule, "tables:no-nil-map-entries", "-", fmt.Sprintf("%d table entries read, none is a nil map pointer", n))
}

// searchClassifierAgreesRule (C04-R4): the list of stage names that makes a stage a search stage
// and the table of search stages are two statements of one fact. A name in the list without an
// entry in the search-stage table sends that stage through the search vocabulary, where nothing
// about it is known: members the aggregation table keeps (an index name) are redacted, members
// it names are treated as user data.
func searchClassifierAgreesRule(c *Ctx, r *Report, classifier *ssa.Function, rule string) {
	t := c.reconstructTables()
	// the string set the classifier consults
	var listName string
	for f := range c.pkgReach(classifier) {
		allInstrs(f, func(i ssa.Instruction) {
			if ld, ok := i.(*ssa.UnOp); ok && ld.Op == token.MUL {
				if g, ok := ld.X.(*ssa.Global); ok && g.Pkg == c.SPkg {
					if _, isSet := t.StringSets[g.Name()]; isSet {
						listName = g.Name()
					}
				}
			}
		})
	}
	var listed []string
	if listName != "" {
		listed = t.StringSets[listName]
	} else {
		// the normaliser has written slices.Contains(list, k) out as comparisons: the names are
		// the '$'-prefixed string constants the classifier compares a key with
		seenName := map[string]bool{}
		for f := range c.pkgReach(classifier) {
			allInstrs(f, func(i ssa.Instruction) {
				// compared with a key, or looked up in the stage document
				var cands []ssa.Value
				switch x := i.(type) {
				case *ssa.BinOp:
					if x.Op == token.EQL || x.Op == token.NEQ {
						cands = []ssa.Value{x.X, x.Y}
					}
				case *ssa.Call:
					k := calleeKey(&x.Call)
					if k == omMethod("Get") || k == omMethod("Has") || k == omMethod("GetElement") {
						cands = x.Call.Args[1:]
					}
				}
				for _, v := range cands {
					if sv, isC := constString(v); isC && strings.HasPrefix(sv, "$") && !seenName[sv] {
						seenName[sv] = true
						listed = append(listed, sv)
					}
				}
			})
		}
		sort.Strings(listed)
		listName = "the classifier's name list"
	}
	if len(listed) == 0 {
		r.Undecided(rule, "search-classifier:name-list", c.Pos(classifier.Pos()), "the list of search-stage names the classifier consults was not found")
		return
	}
	// the search-stage table: the table whose keys are exactly stage names and that the lookup
	// consults in search mode - found as the table that holds every reviewed search stage
	var tableName string
	for name, o := range t.Globals {
		if _, ok := o.Vals["$search"]; ok {
			if _, ok2 := o.Vals["$vectorSearch"]; ok2 {
				if _, isAgg := o.Vals["$match"]; !isAgg {
					tableName = name
				}
			}
		}
	}
	if tableName == "" {
		r.Undecided(rule, "search-classifier:table", c.Pos(classifier.Pos()), "the table of search stages ($search, $vectorSearch ...) was not found")
		return
	}
	for _, name := range listed {
		_, has := t.Globals[tableName].Vals[name]
		r.Check(has, rule, "search-classifier:"+listName+"("+name+")", c.Pos(classifier.Pos()),
			name+" is classified as a search stage and has its entry in "+tableName,
			name+" is in "+listName+" (the classifier calls it a search stage) but "+tableName+" has no entry for it: the stage is walked with the search vocabulary, which knows nothing about its members - what the aggregation table keeps for it (index names, limits) is redacted")
	}
}

// noDoubleRewriteRule (C13-R3 / C12-R3): a name is pseudonymised once. Two rewrites of the same
// constant key of the same document on one path (a name listed twice in the table of
// namespace-bearing keys) store the pseudonym of the pseudonym: well-formed, and different from
// the pseudonym the same name gets everywhere else.
func noDoubleRewriteRule(c *Ctx, r *Report, rule string) {
	p := c.prov()
	hn := c.Fn("HashName")
	if hn == nil {
		return
	}
	n := 0
	for f := range p.Zone {
		_ = f
	}
	var fns []*ssa.Function
	for _, f := range c.SortedFuncs() {
		fns = append(fns, f)
	}
	for _, f := range fns {
		type site struct {
			call *ssa.Call
			recv ssa.Value
			key  string
		}
		var sites []site
		allInstrs(f, func(i ssa.Instruction) {
			call, ok := i.(*ssa.Call)
			if !ok || calleeKey(&call.Call) != omMethod("Set") || len(call.Call.Args) != 3 {
				return
			}
			k, isC := constString(call.Call.Args[1])
			if !isC {
				return
			}
			// the stored value is a pseudonym (directly or through a namespace helper)
			isPseudonym := false
			v := peel(canon(call.Call.Args[2]))
			if hc, ok := v.(*ssa.Call); ok {
				if g := c.staticPkgCallee(&hc.Call); g != nil && (g == hn || c.pkgReach(g)[hn]) {
					isPseudonym = true
				}
			}
			if isPseudonym {
				sites = append(sites, site{call, peel(call.Call.Args[0]), k})
			}
		})
		for i := 0; i < len(sites); i++ {
			for j := i + 1; j < len(sites); j++ {
				a, b := sites[i], sites[j]
				if a.key != b.key || a.recv != b.recv {
					continue
				}
				// both on one path: one block dominates the other
				if a.call.Block().Dominates(b.call.Block()) || b.call.Block().Dominates(a.call.Block()) || reaches(a.call.Block(), b.call.Block()) || reaches(b.call.Block(), a.call.Block()) {
					n++
					r.Bad(rule, fmt.Sprintf("%s:rewritten-twice(%s)", f.Name(), a.key), c.InstrPos(b.call),
						"the member "+a.key+" is replaced by a pseudonym twice on one path ("+c.InstrPos(a.call)+" and "+c.InstrPos(b.call)+"): the second rewrite hashes the first one's result, so this name's pseudonym differs from the one it gets in attr.ns and on other lines")
				}
			}
		}
	}
	if n == 0 {
		r.Trivial(rule, "no-key-rewritten-twice", "-", "no constant key of one document is pseudonymised twice on a path")
	}
}

func reaches(from, to *ssa.BasicBlock) bool {
	seen := map[*ssa.BasicBlock]bool{}
	var walk func(b *ssa.BasicBlock) bool
	walk = func(b *ssa.BasicBlock) bool {
		if b == to {
			return true
		}
		if seen[b] {
			return false
		}
		seen[b] = true
		for _, s := range b.Succs {
			if walk(s) {
				return true
			}
		}
		return false
	}
	for _, s := range from.Succs {
		if walk(s) {
			return true
		}
	}
	return false
}

// atlasRequestHeadersRule (C16-R5): the bytes stored are the bytes of the log archive. Go's
// transport undoes a gzip content-coding only when the caller has not asked for one itself:
// an Accept-Encoding header set by hand makes the response body the ENCODED archive whenever the
// server (or a compressing front end) applies the coding. The Atlas requests set Accept and
// Content-Type and nothing that changes how the body is transferred.
func atlasRequestHeadersRule(c *Ctx, r *Report, fns []*ssa.Function, rule string) {
	n := 0
	for _, f := range fns {
		if f == nil {
			continue
		}
		allInstrs(f, func(i ssa.Instruction) {
			call, ok := i.(*ssa.Call)
			if !ok {
				return
			}
			k := calleeKey(&call.Call)
			if k != "(net/http.Header).Set" && k != "(net/http.Header).Add" {
				return
			}
			names, isC := possibleConstKeys(call.Call.Args[1])
			n++
			if !isC {
				r.Undecided(rule, fmt.Sprintf("%s:request-header(?)", f.Name()), c.InstrPos(i), "a request header with a name that is not a constant (nor the key of a local map literal with constant keys)")
				return
			}
			for _, name := range names {
				construct := fmt.Sprintf("%s:request-header(%s)", f.Name(), name)
				lower := strings.ToLower(name)
				bad := lower == "accept-encoding" || lower == "range" || lower == "te" || lower == "transfer-encoding" || lower == "if-none-match" || lower == "if-modified-since" || lower == "if-range"
				r.Check(!bad, rule, construct, c.InstrPos(i), "the header does not change how the body is transferred",
					"the request sets "+name+" itself: with Accept-Encoding the transport no longer undoes a gzip content-coding (the temp file then holds the encoded archive and every line fails to parse, exit 0 with empty output); Range / conditional headers make the body a part of the log or nothing")
			}
		})
	}
}

// cobraSilenceRule (C18-R2): a rejection comes with an explanatory message. Rejections that cobra
// itself decides (too many arguments, an unknown flag, a flag without its value, a value that is
// not a number) are printed by Execute - unless the command literal sets SilenceErrors.
func cobraSilenceRule(c *Ctx, r *Report, rule string) {
	an := c.anchors()
	if an == nil || an.Main == nil {
		return
	}
	n := 0
	check := func(f *ssa.Function) {
		allInstrs(f, func(i ssa.Instruction) {
			st, ok := i.(*ssa.Store)
			if !ok {
				return
			}
			fa, ok := st.Addr.(*ssa.FieldAddr)
			if !ok {
				return
			}
			nm, fv := fieldOf(fa)
			if nm == nil || fv == nil || nm.Obj().Name() != "Command" || nm.Obj().Pkg() == nil || !strings.HasSuffix(nm.Obj().Pkg().Path(), "spf13/cobra") {
				return
			}
			if fv.Name() != "SilenceErrors" {
				return
			}
			n++
			b, isC := constBool(st.Val)
			r.Check(isC && !b, rule, "main:command-literal(SilenceErrors)", c.InstrPos(i), "SilenceErrors is false",
				"a command sets SilenceErrors: the rejections cobra decides itself (a second file argument, an unknown flag, a flag without its value, a date that is not a number) end with exit status 1 and no message at all")
		})
	}
	check(an.Main)
	for _, a := range an.Main.AnonFuncs {
		check(a)
	}
	if init := c.SPkg.Func("init"); init != nil {
		check(init)
	}
	if n == 0 {
		r.Trivial(rule, "main:command-literal(SilenceErrors)", "-", "no command literal sets SilenceErrors: cobra prints the rejections it decides itself")
	}
}

// nestedArraySelectionRule (C14-R2): in selective mode a '$field' reference among the elements of
// an expression array ([ "$SSN", <operand> ]) selects its siblings. When the operand is itself an
// array ({$in: ["$SSN", ["123-45-6789", ...]]}) the selection has to travel down: the array
// walker's recursive call for a nested array hands its own selection flag on. A walker that
// works the flag out from the array it is given lets every nested list of literals decide for
// itself - it holds no '$field' string, so its literals stay in clear.
func nestedArraySelectionRule(c *Ctx, r *Report, p *Prov, rule string) {
	isAnySliceParam := func(prm *ssa.Parameter) bool { return isAnySlice(prm.Type()) }
	// the sibling detector: ([]any) bool
	var detectors []*ssa.Function
	for f := range p.Zone {
		if len(f.Params) == 1 && isAnySliceParam(f.Params[0]) && f.Signature.Results().Len() == 1 && isBoolType(f.Signature.Results().At(0).Type()) {
			detectors = append(detectors, f)
		}
	}
	for _, f := range c.SortedFuncs() {
		if len(f.Params) == 1 && isAnySliceParam(f.Params[0]) && f.Signature.Results().Len() == 1 && isBoolType(f.Signature.Results().At(0).Type()) {
			found := false
			for _, d := range detectors {
				if d == f {
					found = true
				}
			}
			if !found && p.Scope[f] {
				detectors = append(detectors, f)
			}
		}
	}
	if len(detectors) == 0 {
		r.Undecided(rule, "array-walker:sibling-detector", "-", "no ([]any) bool sibling detector found (anchor lost)")
		return
	}
	isDetector := func(g *ssa.Function) bool {
		for _, d := range detectors {
			if d == g {
				return true
			}
		}
		return false
	}
	n := 0
	var fns []*ssa.Function
	for f := range p.Zone {
		fns = append(fns, f)
	}
	sort.Slice(fns, func(i, j int) bool { return fns[i].Name() < fns[j].Name() })
	for _, w := range fns {
		// an array walker: has a []any parameter and calls itself on an element of it
		var arrPrm *ssa.Parameter
		for _, prm := range w.Params {
			if isAnySliceParam(prm) {
				arrPrm = prm
			}
		}
		if arrPrm == nil {
			continue
		}
		recs := callsIn(w, func(k string, cc *ssa.Call) bool { return cc.Call.StaticCallee() == w })
		if len(recs) == 0 {
			continue
		}
		// the walker's selection parameter: a bool parameter that some caller binds to a detector's result
		selIdx := -1
		for _, call := range c.callersOf(w) {
			for ai, a := range call.Call.Args {
				if ai >= len(w.Params) || !isBoolType(w.Params[ai].Type()) {
					continue
				}
				for _, vs := range sourcesAt(a, call.Block()) {
					if dc, ok := peel(canon(vs.Val)).(*ssa.Call); ok {
						if g := c.staticPkgCallee(&dc.Call); g != nil && isDetector(g) {
							selIdx = ai
						}
					}
					// or handed on from an enclosing walker's own selection parameter (wrappers)
				}
			}
		}
		// wrappers: a walker that only forwards gets its flag from its caller's parameter; follow one level
		if selIdx < 0 {
			for _, call := range c.callersOf(w) {
				pw := call.Parent()
				for ai, a := range call.Call.Args {
					if ai >= len(w.Params) || !isBoolType(w.Params[ai].Type()) {
						continue
					}
					if pp, ok := peel(a).(*ssa.Parameter); ok && pp.Parent() == pw {
						for _, c2 := range c.callersOf(pw) {
							for bi, b := range c2.Call.Args {
								if bi < len(pw.Params) && pw.Params[bi] == pp {
									for _, vs := range sourcesAt(b, c2.Block()) {
										if dc, ok := peel(canon(vs.Val)).(*ssa.Call); ok {
											if g := c.staticPkgCallee(&dc.Call); g != nil && isDetector(g) {
												selIdx = ai
											}
										}
									}
								}
							}
						}
					}
				}
			}
		}
		for _, rc := range recs {
			n++
			construct := fmt.Sprintf("%s:nested-array-inherits-the-selection#%d", w.Name(), n)
			if selIdx < 0 {
				// does the walker consult the detector on its own array?
				own := false
				for _, dc := range callsIn(w, func(k string, cc *ssa.Call) bool { g := cc.Call.StaticCallee(); return g != nil && isDetector(g) }) {
					if peel(dc.Call.Args[0]) == ssa.Value(arrPrm) {
						own = true
					}
				}
				why := "the array walker has no selection parameter: what a '$field' sibling selects in the enclosing array cannot reach a nested array"
				if own {
					why = "the array walker works the selection out from the array it was given: a nested list of literals next to a '$field' reference holds no reference of its own, so in selective mode its literals are emitted unchanged although the field they are compared with matches"
				}
				r.Bad(rule, construct, c.InstrPos(rc), why)
				continue
			}
			okPass := false
			if selIdx < len(rc.Call.Args) {
				a := peel(rc.Call.Args[selIdx])
				if a == ssa.Value(w.Params[selIdx]) {
					okPass = true
				}
				if bo, ok := a.(*ssa.BinOp); ok && bo.Op == token.OR {
					if peel(bo.X) == ssa.Value(w.Params[selIdx]) || peel(bo.Y) == ssa.Value(w.Params[selIdx]) {
						okPass = true
					}
				}
				if ph, ok := a.(*ssa.Phi); ok {
					// short-circuit `own || detector(nested)`
					for _, e := range ph.Edges {
						if peel(e) == ssa.Value(w.Params[selIdx]) {
							okPass = true
						}
						if cb, isC := constBool(e); isC && cb {
							okPass = true
						}
					}
				}
			}
			r.Check(okPass, rule, construct, c.InstrPos(rc), "the nested array is walked with the enclosing array's selection flag",
				"the recursive call for a nested array does not hand the walker's own selection flag on: the literals of a nested list next to a matching '$field' reference stay in clear in selective mode")
		}
	}
	if n == 0 {
		r.Undecided(rule, "array-walker:recursion", "-", "no array walker that calls itself for nested arrays was found (anchor lost)")
	}
}

// evalStringPredicate interprets a package predicate over string parameters that consists of
// comparisons of its parameters with constants, boolean connectives, branches and constant
// returns (a `switch parent { case "$binary": return key == "base64" || ... }`), on concrete
// argument strings - by reading its SSA, never by running it. ok is false when the function
// uses anything else.
func evalStringPredicate(fn *ssa.Function, args []string) (result bool, ok bool) {
	if len(fn.Blocks) == 0 || len(args) != len(fn.Params) {
		return false, false
	}
	type val struct {
		isStr bool
		s     string
		b     bool
	}
	env := map[ssa.Value]val{}
	for i, p := range fn.Params {
		env[p] = val{isStr: true, s: args[i]}
	}
	get := func(v ssa.Value) (val, bool) {
		if x, has := env[v]; has {
			return x, true
		}
		if s, isC := constString(v); isC {
			return val{isStr: true, s: s}, true
		}
		if b, isC := constBool(v); isC {
			return val{b: b}, true
		}
		return val{}, false
	}
	b := fn.Blocks[0]
	var pred *ssa.BasicBlock
	for steps := 0; steps < 500; steps++ {
		for _, in := range b.Instrs {
			switch x := in.(type) {
			case *ssa.DebugRef:
			case *ssa.Phi:
				for i, p := range b.Preds {
					if p == pred {
						v, okV := get(x.Edges[i])
						if !okV {
							return false, false
						}
						env[x] = v
					}
				}
			case *ssa.BinOp:
				l, ok1 := get(x.X)
				r, ok2 := get(x.Y)
				if !ok1 || !ok2 {
					return false, false
				}
				switch {
				case x.Op == token.EQL && l.isStr && r.isStr:
					env[x] = val{b: l.s == r.s}
				case x.Op == token.NEQ && l.isStr && r.isStr:
					env[x] = val{b: l.s != r.s}
				case x.Op == token.EQL && !l.isStr && !r.isStr:
					env[x] = val{b: l.b == r.b}
				case x.Op == token.NEQ && !l.isStr && !r.isStr:
					env[x] = val{b: l.b != r.b}
				case x.Op == token.AND && !l.isStr && !r.isStr:
					env[x] = val{b: l.b && r.b}
				case x.Op == token.OR && !l.isStr && !r.isStr:
					env[x] = val{b: l.b || r.b}
				default:
					return false, false
				}
			case *ssa.UnOp:
				if x.Op != token.NOT {
					return false, false
				}
				v, okV := get(x.X)
				if !okV || v.isStr {
					return false, false
				}
				env[x] = val{b: !v.b}
			case *ssa.If:
				v, okV := get(x.Cond)
				if !okV || v.isStr {
					return false, false
				}
				pred = b
				if v.b {
					b = b.Succs[0]
				} else {
					b = b.Succs[1]
				}
			case *ssa.Jump:
				pred = b
				b = b.Succs[0]
			case *ssa.Return:
				if len(x.Results) != 1 {
					return false, false
				}
				v, okV := get(x.Results[0])
				if !okV || v.isStr {
					return false, false
				}
				return v.b, true
			default:
				return false, false
			}
		}
	}
	return false, false
}

// wrapperPredicateTableRule (C05-R2): the predicate that spares the member names of
// extended-JSON wrappers is evaluated (by the checker, on its SSA) on every pair of
// {wrapper names, a foreign parent} x {member names, a foreign key}: it must say yes for
// $binary.base64 / subType, $regularExpression.pattern / options, $timestamp.t / i and for
// nothing else.
func wrapperPredicateTableRule(c *Ctx, r *Report, pred *ssa.Function, rule string) {
	if pred == nil || len(pred.Params) != 2 {
		return
	}
	want := map[string][]string{"$binary": {"base64", "subType"}, "$regularExpression": {"pattern", "options"}, "$timestamp": {"t", "i"}}
	parents := []string{"$binary", "$regularExpression", "$timestamp", "$set", "address", ""}
	keys := []string{"base64", "subType", "pattern", "options", "t", "i", "name", "$oid", ""}
	var wrong []string
	n := 0
	for _, pa := range parents {
		for _, k := range keys {
			got, ok := evalStringPredicate(pred, []string{pa, k})
			if !ok {
				r.Undecided(rule, pred.Name()+":wrapper-member-table", c.Pos(pred.Pos()), "the wrapper-member predicate is not a table of string comparisons the checker can evaluate")
				return
			}
			n++
			exp := false
			for _, m := range want[pa] {
				if m == k {
					exp = true
				}
			}
			if got != exp {
				wrong = append(wrong, fmt.Sprintf("(%q, %q) -> %v", pa, k, got))
			}
		}
	}
	r.Check(len(wrong) == 0, rule, pred.Name()+":wrapper-member-table", c.Pos(pred.Pos()),
		fmt.Sprintf("the predicate answers yes exactly for the member names of $binary, $regularExpression and $timestamp (%d pairs evaluated on its SSA)", n),
		"the wrapper-member predicate answers wrongly for "+strings.Join(wrong, ", ")+": a wrapper member it does not know is renamed under --redactFieldNames (the typed value falls apart), a pair it wrongly knows keeps a user field name in clear")
}

// boolRoleRule (C04-R4 / C14-R2 / C15-R2): the walkers pass three switches down the tree - "rename
// field names" (the per-line field-name mode), "this is a search stage" (which vocabulary the
// lookup uses: index names, limits and paths are kept or not by it) and "a '$field' sibling
// selected this array" (selective mode). All three are bools, so any mix-up compiles. The roles are
// inferred from where a parameter ends up - the scalar step's lookup call (search), the scalar
// step's other switch (selection), the guard of a HashName rename (field names) - and carried
// backwards through the call sites; then (1) no parameter may have two roles, (2) no walker may
// hand a constant `true` to a search / selection / field-name parameter.
func boolRoleRule(c *Ctx, r *Report, p *Prov, scalarFn *ssa.Function, lookupFns map[*ssa.Function]bool, rule string) {
	if scalarFn == nil {
		return
	}
	hn := c.Fn("HashName")
	type roleSet map[string]string // role -> where it came from
	roles := map[*ssa.Parameter]roleSet{}
	add := func(prm *ssa.Parameter, role, where string) bool {
		if roles[prm] == nil {
			roles[prm] = roleSet{}
		}
		if _, has := roles[prm][role]; has {
			return false
		}
		roles[prm][role] = where
		return true
	}
	inScope := func(f *ssa.Function) bool { return p.Zone[f] || f == scalarFn }
	// seeds: the scalar step
	var searchPrm *ssa.Parameter
	for _, call := range callsIn(scalarFn, func(k string, cc *ssa.Call) bool { g := cc.Call.StaticCallee(); return g != nil && lookupFns[g] }) {
		for _, a := range call.Call.Args {
			if prm, ok := peel(a).(*ssa.Parameter); ok && isBoolType(prm.Type()) && prm.Parent() == scalarFn {
				searchPrm = prm
			}
		}
	}
	if searchPrm == nil {
		r.Undecided(rule, scalarFn.Name()+":bool-roles", c.Pos(scalarFn.Pos()), "the scalar step's search switch (the bool it hands to the table lookup) was not found")
		return
	}
	add(searchPrm, "search", "handed to the table lookup in "+scalarFn.Name())
	for _, prm := range scalarFn.Params {
		if isBoolType(prm.Type()) && prm != searchPrm {
			add(prm, "selection", "the scalar step's selection switch")
		}
	}
	// seeds: walkers' own lookups and rename guards
	var fns []*ssa.Function
	for f := range p.Zone {
		fns = append(fns, f)
	}
	sort.Slice(fns, func(i, j int) bool { return fns[i].Name() < fns[j].Name() })
	for _, f := range fns {
		for _, call := range callsIn(f, func(k string, cc *ssa.Call) bool { g := cc.Call.StaticCallee(); return g != nil && lookupFns[g] }) {
			for _, a := range call.Call.Args {
				if prm, ok := peel(a).(*ssa.Parameter); ok && isBoolType(prm.Type()) && prm.Parent() == f {
					add(prm, "search", "handed to the table lookup in "+f.Name())
				}
			}
		}
		if hn != nil {
			for _, call := range callsIn(f, func(k string, cc *ssa.Call) bool { return cc.Call.StaticCallee() == hn }) {
				for _, ft := range allFacts(call.Block()) {
					if prm, ok := peel(ft.Cond).(*ssa.Parameter); ok && ft.Pol && isBoolType(prm.Type()) && prm.Parent() == f {
						add(prm, "field-names", "guards a rename in "+f.Name())
					}
				}
			}
		}
	}
	// propagate backwards through the call sites
	for changed, iter := true, 0; changed && iter < 20; iter++ {
		changed = false
		for _, f := range append(fns, scalarFn) {
			allInstrs(f, func(i ssa.Instruction) {
				call, ok := i.(*ssa.Call)
				if !ok {
					return
				}
				g := c.staticPkgCallee(&call.Call)
				if g == nil || !inScope(g) {
					return
				}
				for ai, a := range call.Call.Args {
					if ai >= len(g.Params) {
						continue
					}
					cp := g.Params[ai]
					prm, isP := peel(a).(*ssa.Parameter)
					if !isP || prm.Parent() != f || !isBoolType(prm.Type()) {
						continue
					}
					for role := range roles[cp] {
						if add(prm, role, fmt.Sprintf("handed to %s's %s parameter at %s", g.Name(), role, c.InstrPos(i))) {
							changed = true
						}
					}
				}
			})
		}
	}
	n := 0
	var prms []*ssa.Parameter
	for prm := range roles {
		prms = append(prms, prm)
	}
	sort.Slice(prms, func(i, j int) bool {
		if prms[i].Parent().Name() != prms[j].Parent().Name() {
			return prms[i].Parent().Name() < prms[j].Parent().Name()
		}
		return prms[i].Name() < prms[j].Name()
	})
	for _, prm := range prms {
		rs := roles[prm]
		n++
		var names []string
		for role := range rs {
			names = append(names, role)
		}
		sort.Strings(names)
		idx := -1
		for i, q := range prm.Parent().Params {
			if q == prm {
				idx = i
			}
		}
		construct := fmt.Sprintf("%s:bool-parameter#%d-has-one-role", prm.Parent().Name(), idx)
		var wheres []string
		for _, role := range names {
			wheres = append(wheres, role+": "+rs[role])
		}
		r.Check(len(rs) == 1, rule, construct, c.Pos(prm.Pos()), "travels as the "+names[0]+" switch only",
			"one boolean parameter travels in two roles ("+strings.Join(wheres, "; ")+"): two switches of the same type were crossed at a call site, so one mode is switched on by the other's flag")
	}
	// constants (inside the lookup helpers a constant is the branch of the helper's own search
	// parameter, `if isSearchStage { lookup(..., true) }` - not a walker's decision)
	for _, f := range fns {
		if lookupFns[f] {
			continue
		}
		allInstrs(f, func(i ssa.Instruction) {
			call, ok := i.(*ssa.Call)
			if !ok {
				return
			}
			g := c.staticPkgCallee(&call.Call)
			if g == nil || !inScope(g) {
				return
			}
			for ai, a := range call.Call.Args {
				if ai >= len(g.Params) || len(roles[g.Params[ai]]) == 0 {
					continue
				}
				if b, isC := constBool(a); isC && b {
					var names []string
					for role := range roles[g.Params[ai]] {
						names = append(names, role)
					}
					sort.Strings(names)
					n++
					r.Bad(rule, fmt.Sprintf("%s:constant-true-for(%s.%s)", f.Name(), g.Name(), strings.Join(names, "+")), c.InstrPos(i),
						"a walker switches the "+strings.Join(names, " / ")+" mode on with a constant: the mode then holds whatever the line, the stage and the flags say (search vocabulary for an ordinary filter keeps members it calls index names or limits; selection without a matching name redacts what selective mode must keep; renaming without the flag)")
				}
			}
		})
	}
	r.Analysed["bool_role_parameters"] = len(prms)
	if len(prms) < 6 {
		r.Bad(rule, "bool-roles:anchor", "-", fmt.Sprintf("anchor lost: only %d role-carrying boolean parameters found in the walkers (about 12 today)", len(prms)))
	}
}

// lookupFunctions: the table-lookup helpers by role - a function of the zone that takes a key
// path ([]string) and returns (entry, found) - and what only they call.
func (c *Ctx) lookupFunctions(p *Prov) map[*ssa.Function]bool {
	out := map[*ssa.Function]bool{}
	for f := range p.Zone {
		res := f.Signature.Results()
		if res.Len() != 2 || !isEmptyInterface(res.At(0).Type()) || !isBoolType(res.At(1).Type()) {
			continue
		}
		hasPath := false
		for _, prm := range f.Params {
			if isStringSliceT(prm.Type()) {
				hasPath = true
			}
		}
		if hasPath {
			for g := range c.pkgReach(f) {
				out[g] = true
			}
		}
	}
	return out
}

// resultAfterErrorCheckRule (C07-R1): on the line path a package function that returns
// (value, error) hands back a meaningless value (nil map, nil slice) together with its error. Every
// use of the value therefore lies where the error was found nil - in a block dominated by the nil
// branch of a test of that very error. The scan loop that serialises the redactor's result without
// having looked at the redactor's error calls Front() on a nil map for every line that is not a
// JSON object: one such line ends the run with a panic.
func resultAfterErrorCheckRule(c *Ctx, r *Report, fns []*ssa.Function, rule string, withSlices ...bool) {
	resultAfterErrorCheckRuleFor(c, r, fns, rule, nil, withSlices...)
}

// resultAfterErrorCheckRuleFor: the same, for the calls of the given callees only (nil: all).
func resultAfterErrorCheckRuleFor(c *Ctx, r *Report, fns []*ssa.Function, rule string, only map[*ssa.Function]bool, withSlices ...bool) {
	n := 0
	for _, f := range fns {
		allInstrs(f, func(i ssa.Instruction) {
			call, ok := i.(*ssa.Call)
			if !ok {
				return
			}
			g := c.staticPkgCallee(&call.Call)
			if g == nil || (only != nil && !only[g]) {
				return
			}
			res := g.Signature.Results()
			if res.Len() != 2 || !isErrorType(res.At(1).Type()) {
				return
			}
			val := extractOf(call, 0)
			if val == nil {
				return
			}
			// only values whose zero value cannot be used: pointers, maps, slices, interfaces
			switch res.At(0).Type().Underlying().(type) {
			case *types.Pointer, *types.Map, *types.Interface:
			case *types.Slice:
				// a nil slice does not panic, but it is not the result either (the ciphertext of a
				// failed encryption is nothing): judged where the caller asks for it
				if len(withSlices) == 0 || !withSlices[0] {
					return
				}
			default:
				return
			}
			var tests []errTest
			for _, ev := range errorResults(call) {
				tests = append(tests, errTestsOf(ev)...)
			}
			var bad []string
			nUses := 0
			for _, al := range aliasesOf(val) {
				for _, use := range referrers(al) {
					switch use.(type) {
					case *ssa.DebugRef, *ssa.Store:
						continue
					}
					if bo, isB := use.(*ssa.BinOp); isB {
						if _, _, isNil := nilCompare(bo); isNil {
							continue // a nil test of the value itself
						}
					}
					nUses++
					blk := use.Block()
					if ph, isPhi := use.(*ssa.Phi); isPhi {
						// judged at the incoming edge
						for ei, e := range ph.Edges {
							if e == al {
								blk = ph.Block().Preds[ei]
							}
						}
					}
					okUse := false
					for _, t := range tests {
						if t.NilSucc != nil && (t.NilSucc == blk || t.NilSucc.Dominates(blk)) && !(t.NonNilSucc == t.NilSucc) {
							okUse = true
						}
						// `if err != nil { ...; continue / return }` with the use after the if: the
						// non-nil branch never reaches the use
						if t.NonNilSucc != nil && !reachesAvoiding(t.NonNilSucc, blk, t.If.Block()) && t.If.Block().Dominates(blk) {
							okUse = true
						}
					}
					if !okUse {
						bad = append(bad, c.InstrPos(use))
					}
				}
			}
			if nUses == 0 {
				return
			}
			n++
			sort.Strings(bad)
			r.Check(len(bad) == 0, rule, fmt.Sprintf("%s:result-of(%s)-used-after-its-error-check", f.Name(), g.Name()), c.InstrPos(call),
				fmt.Sprintf("every use of the value (%d) lies where the error was found nil", nUses),
				"the value returned by "+g.Name()+" is used at "+strings.Join(bad, ", ")+" although its error has not been found nil there: for input on which "+g.Name()+" fails the value is nil, and the first method call on it panics (a line that is not a JSON object ends the run)")
		})
	}
	r.Analysed["value_error_pairs_checked"] = n
}

// reachesAvoiding: can `to` be reached from `from` without passing through `avoid`?
func reachesAvoiding(from, to, avoid *ssa.BasicBlock) bool {
	seen := map[*ssa.BasicBlock]bool{}
	var walk func(b *ssa.BasicBlock) bool
	walk = func(b *ssa.BasicBlock) bool {
		if b == to {
			return true
		}
		if seen[b] || b == avoid {
			return false
		}
		seen[b] = true
		for _, s := range b.Succs {
			if walk(s) {
				return true
			}
		}
		return false
	}
	return walk(from)
}

// namespaceDocumentRule (C12-R4): the document form of a namespace argument ({db, coll} under
// $merge.into / $out) is rebuilt by a helper: it passes over every member of the document, stores
// the pseudonym of every member that is a string and keeps only members that are not strings
// as they are.
func namespaceDocumentRule(c *Ctx, r *Report, p *Prov, rule string) {
	hn := c.Fn("HashName")
	if hn == nil {
		return
	}
	n := 0
	for _, f := range c.SortedFuncs() {
		if !p.Zone[f] && !p.Scope[f] {
			continue
		}
		if len(f.Params) != 1 || !isOrderedMapPtr(f.Params[0].Type()) || f.Signature.Results().Len() != 1 || !isOrderedMapPtr(f.Signature.Results().At(0).Type()) {
			continue
		}
		if len(callsIn(f, func(k string, cc *ssa.Call) bool { return cc.Call.StaticCallee() == hn })) == 0 {
			continue
		}
		n++
		construct := f.Name() + ":namespace-document"
		var loop *IterLoop
		for _, l := range iterLoops(f) {
			if l.Kind == "omap" && peel(l.Coll) == ssa.Value(f.Params[0]) {
				loop = l
			}
		}
		if loop == nil {
			r.Bad(rule, construct+":covers-every-member", c.Pos(f.Pos()), "the helper does not pass over the members of the namespace document from Front() while the element is not nil: members (db, coll) are dropped or never reached")
			continue
		}
		var bad []string
		nSets := 0
		for b := range loop.Loop.Body {
			for _, in := range b.Instrs {
				call, ok := in.(*ssa.Call)
				if !ok || calleeKey(&call.Call) != omMethod("Set") || len(call.Call.Args) != 3 {
					continue
				}
				nSets++
				// the stored value may be decided on the way (`member := el.Value; if string {
				// member = HashName(...) }`): every source is judged with the facts of the edge
				// that delivers it
				for _, vs := range sourcesAt(call.Call.Args[2], call.Block()) {
					v := peel(canon(vs.Val))
					fs := allFacts(call.Block())
					if vs.At != nil {
						fs = append(fs, allFacts(vs.At)...)
						if vs.To != nil && len(vs.At.Instrs) > 0 {
							if ifi, okI := vs.At.Instrs[len(vs.At.Instrs)-1].(*ssa.If); okI && vs.At.Succs[0] != vs.At.Succs[1] {
								fs = append(fs, Fact{ifi.Cond, vs.At.Succs[0] == vs.To, ifi})
							}
						}
					}
					isString, notString := false, false
					for _, ft := range fs {
						ex, isEx := peel(ft.Cond).(*ssa.Extract)
						if !isEx || ex.Index != 1 {
							continue
						}
						ta, isTA := ex.Tuple.(*ssa.TypeAssert)
						if !isTA || !isStringType(ta.AssertedType) {
							continue
						}
						if e2, nm, isLd := elemFieldLoad(peel(canon(ta.X))); isLd && nm == "Value" && e2 == loop.Elem {
							if ft.Pol {
								isString = true
							} else {
								notString = true
							}
						}
					}
					if hc, isCall := v.(*ssa.Call); isCall && hc.Call.StaticCallee() == hn {
						if !isString {
							bad = append(bad, "a pseudonym is stored where the member is not known to be a string ("+c.InstrPos(in)+")")
						}
						continue
					}
					if _, nm, isLd := elemFieldLoad(v); isLd && nm == "Value" {
						if !notString {
							bad = append(bad, "the member is stored as it is although it may be a string: the database / collection name stays in clear ("+c.InstrPos(in)+")")
						}
						continue
					}
					bad = append(bad, "something other than the member or its pseudonym is stored ("+c.InstrPos(in)+")")
				}
			}
		}
		if nSets == 0 {
			bad = append(bad, "nothing is stored in the loop")
		}
		r.Check(len(bad) == 0, rule, construct, c.Pos(f.Pos()), "every string member is replaced by its pseudonym, other members are kept", strings.Join(bad, "; "))
	}
	if n == 0 {
		r.Bad(rule, "namespace-document:anchor", "-", "anchor lost: no helper that rebuilds the document form of a namespace argument ({db, coll}) with pseudonyms")
	}
}

// lookupRecursionRule (C01-R4): where the lookup meets an operator array it starts again, in the
// operator vocabulary, with the REST of the path: `path[i+1:]` for the loop index i - one element
// more or less and every position below $and / $or / compound.must is classified by the wrong
// key. And the vocabulary it names goes with the search switch it passes: a constant `true`
// only where the helper's own switch is on, `false` only where it is off.
func lookupRecursionRule(c *Ctx, r *Report, p *Prov, lookupFns map[*ssa.Function]bool, rule string) {
	n := 0
	var fns []*ssa.Function
	for f := range lookupFns {
		fns = append(fns, f)
	}
	sort.Slice(fns, func(i, j int) bool { return fns[i].Name() < fns[j].Name() })
	for _, f := range fns {
		var pathPrm, searchPrm *ssa.Parameter
		for _, prm := range f.Params {
			if isStringSliceT(prm.Type()) {
				pathPrm = prm
			}
			if isBoolType(prm.Type()) {
				searchPrm = prm
			}
		}
		loops := iterLoops(f)
		for _, call := range callsIn(f, func(k string, cc *ssa.Call) bool { g := cc.Call.StaticCallee(); return g != nil && lookupFns[g] }) {
			g := call.Call.StaticCallee()
			for ai, a := range call.Call.Args {
				if ai >= len(g.Params) {
					continue
				}
				// the rest of the path
				if sl, ok := peel(a).(*ssa.Slice); ok && pathPrm != nil && peel(sl.X) == ssa.Value(pathPrm) && isStringSliceT(g.Params[ai].Type()) {
					n++
					okLow := false
					var l *IterLoop
					for _, cand := range loops {
						// (the call returns out of the loop: its block is in the loop's region, not its body)
						if cand.Kind == "slice" && (cand.Loop.Body[call.Block()] || cand.Loop.Region()[call.Block()]) {
							l = cand
						}
					}
					if l != nil && sl.High == nil && sl.Low != nil {
						if bo, isB := peel(sl.Low).(*ssa.BinOp); isB && bo.Op == token.ADD {
							if one, isC := constInt(bo.Y); isC && one == 1 && peel(bo.X) == peel(l.Idx) {
								okLow = true
							}
						}
					}
					if l == nil && sl.High == nil && sl.Low != nil {
						// the OperatorMap descent written with index arithmetic: what follows the
						// marker and the client-chosen name - path[slices.Index(path, marker)+2:]
						if bo, isB := peel(sl.Low).(*ssa.BinOp); isB && bo.Op == token.ADD {
							if two, isC := constInt(bo.Y); isC && two == 2 {
								if ic, isCall := peel(bo.X).(*ssa.Call); isCall && strings.HasPrefix(calleeKey(&ic.Call), "slices.Index") && len(ic.Call.Args) == 2 && peel(ic.Call.Args[0]) == ssa.Value(pathPrm) {
									okLow = true
								}
							}
						}
					}
					r.Check(okLow, rule, fmt.Sprintf("%s:restarts-with-the-rest-of-the-path#%d", f.Name(), n), c.InstrPos(call),
						"the lookup restarts with path[i+1:] for the loop index i",
						"the lookup restarts below an operator array with something other than the rest of the path (path[i+1:]): the positions below $and / $or / compound clauses are classified by a neighbouring key")
				}
				// the search switch handed on as a constant
				if b, isC := constBool(a); isC && isBoolType(g.Params[ai].Type()) && searchPrm != nil {
					n++
					agrees := false
					for _, ft := range allFacts(call.Block()) {
						if peel(ft.Cond) == ssa.Value(searchPrm) && ft.Pol == b {
							agrees = true
						}
					}
					r.Check(agrees, rule, fmt.Sprintf("%s:constant-search-switch-agrees#%d", f.Name(), n), c.InstrPos(call),
						"the constant search switch handed on is the value the helper's own switch has on this path",
						fmt.Sprintf("the lookup hands the constant %v on as the search switch where its own switch is not known to be %v: the vocabulary that is consulted and the switch that goes with it disagree", b, b))
				}
			}
		}
	}
	r.Analysed["lookup_recursions"] = n
}

// detectorStripsDollarRule (C14-R1): the sibling detector compares the NAME behind a '$field'
// reference with the configured expression: the reference without its leading '$' - exactly that
// byte, exactly once (strings.TrimPrefix(s, "$") or s[1:] under the leading-'$' test).
func detectorStripsDollarRule(c *Ctx, r *Report, p *Prov, rule string) {
	for _, f := range c.SortedFuncs() {
		if !(p.Zone[f] || p.Scope[f]) || len(f.Params) != 1 || !isAnySlice(f.Params[0].Type()) || f.Signature.Results().Len() != 1 || !isBoolType(f.Signature.Results().At(0).Type()) {
			continue
		}
		for _, mc := range callsIn(f, func(k string, _ *ssa.Call) bool { return k == "(*regexp.Regexp).MatchString" }) {
			arg := peel(mc.Call.Args[1])
			okStrip, how := false, "the text matched is "+arg.String()
			switch x := arg.(type) {
			case *ssa.Call:
				k := calleeKey(&x.Call)
				if k == "strings.TrimPrefix" || k == "strings.TrimLeft" {
					if sv, isC := constString(x.Call.Args[1]); isC && sv == "$" && k == "strings.TrimPrefix" {
						okStrip, how = true, "strings.TrimPrefix(ref, \"$\")"
					} else {
						how = fmt.Sprintf("%s with %s", shortKey(k), x.Call.Args[1].String())
					}
				}
			case *ssa.Slice:
				if lo, isC := constInt(x.Low); isC && lo == 1 && x.High == nil {
					okStrip, how = true, "ref[1:]"
				}
			}
			r.Check(okStrip, rule, f.Name()+":matches-the-name-behind-the-reference", c.InstrPos(mc),
				"the expression is applied to the reference without its leading '$' ("+how+")",
				"the sibling detector does not apply the expression to the field name behind the '$field' reference ("+how+"): an anchored expression such as ^SSN$ no longer matches \"$SSN\", and the literal compared with that field stays in clear")
		}
	}
}

// flagSetsAttachedRule (C18-R3): a switch of the redact command exists for the user only if the
// flag set it is bound on belongs to that command: bound on cmd.Flags() / cmd.PersistentFlags()
// directly, or on a pflag.NewFlagSet value that an AddFlagSet call hands to such a set. A set
// that is filled and never attached makes every job that uses one of its switches end in
// "unknown flag": an accepted combination is refused.
func flagSetsAttachedRule(c *Ctx, r *Report, rule string) {
	an := c.anchors()
	if an == nil || an.Main == nil || an.RedactClosure == nil {
		return
	}
	const pfx = "(*github.com/spf13/pflag.FlagSet)."
	// fs value -> the sets it is added to
	addedTo := map[ssa.Value][]ssa.Value{}
	allInstrs(an.Main, func(i ssa.Instruction) {
		call, ok := i.(*ssa.Call)
		if !ok || calleeKey(&call.Call) != pfx+"AddFlagSet" || len(call.Call.Args) < 2 {
			return
		}
		src := canon(peel(call.Call.Args[1]))
		addedTo[src] = append(addedTo[src], canon(peel(call.Call.Args[0])))
	})
	var attached func(fs ssa.Value, depth int) (bool, bool) // attached, decided
	attached = func(fs ssa.Value, depth int) (bool, bool) {
		fs = canon(peel(fs))
		call, ok := fs.(*ssa.Call)
		if !ok || depth > 4 {
			return false, false
		}
		switch calleeKey(&call.Call) {
		case "(*github.com/spf13/cobra.Command).Flags", "(*github.com/spf13/cobra.Command).PersistentFlags", "(*github.com/spf13/cobra.Command).LocalFlags":
			return true, true
		case "github.com/spf13/pflag.NewFlagSet":
			for _, dst := range addedTo[fs] {
				if ok, dec := attached(dst, depth+1); ok || !dec {
					return ok, dec
				}
			}
			return false, true
		}
		return false, false
	}
	captured := map[ssa.Value]bool{}
	for _, fv := range an.FlagAlloc {
		captured[fv] = true
	}
	seen := map[string]bool{}
	allInstrs(an.Main, func(i ssa.Instruction) {
		call, ok := i.(*ssa.Call)
		if !ok {
			return
		}
		k := calleeKey(&call.Call)
		if !strings.HasPrefix(k, pfx) || len(call.Call.Args) < 3 {
			return
		}
		m := strings.TrimPrefix(k, pfx)
		if !strings.HasSuffix(m, "VarP") && !strings.HasSuffix(m, "Var") {
			return
		}
		name, isC := constString(call.Call.Args[2])
		if !isC || an.FlagAlloc[name] != call.Call.Args[1] || seen[name] {
			return
		}
		if _, used := an.FlagFree[an.RedactClosure][name]; !used {
			return
		}
		ok2, decided := attached(call.Call.Args[0], 0)
		if !decided {
			return // a flag set of a shape this rule does not read: no verdict
		}
		seen[name] = true
		r.Check(ok2, rule, "main:flag-set-attached(--"+name+")", c.InstrPos(i), "--"+name+" is bound on a flag set of a command",
			"--"+name+" is bound on a flag set that no AddFlagSet call hands to a command: the redact command answers \"unknown flag\" to every job that uses it")
	})
}
