package main

import (
	"fmt"
	"go/token"
	"sort"
	"strings"

	"golang.org/x/tools/go/ssa"
)

// tableNilMapRule (C07-R1): an entry of an operator table that is a typed nil map pointer
// (`var tracking OrderedMap; search.Set("tracking", tracking)`) is taken for a nested member
// table by the lookup, which calls Get on it: a nil dereference on the first line that uses
// the option, and every later line is lost.
func tableNilMapRule(c *Ctx, r *Report, rule string) {
	t := c.reconstructTables()
	n := 0
	var names []string
	for name := range t.Globals {
		names = append(names, name)
	}
	sort.Strings(names)
	seen := map[*TObj]bool{}
	var walk func(table, path string, o *TObj)
	walk = func(table, path string, o *TObj) {
		if o == nil || seen[o] {
			return
		}
		seen[o] = true
		for _, k := range o.Keys {
			v := o.Vals[k]
			n++
			if v.Kind == "nilptr" {
				r.Bad(rule, "table:"+table+":"+strings.TrimPrefix(path+"."+k, ".")+"=nil-map", "src/operators.go",
					"the table entry is a nil ordered-map pointer: the lookup takes a map-typed entry for the table of the option's members and calls Get on it - a panic on the first line that carries this option, and the rest of the log is lost")
			}
			if v.Kind == "map" {
				walk(table, path+"."+k, v.Obj)
			}
		}
	}
	for _, name := range names {
		walk(name, "", t.Globals[name])
	}
	r.Trivial(rule, "tables:no-nil-map-entries", "-", fmt.Sprintf("%d table entries read, none is a nil map pointer", n))
}

// searchClassifierAgreesRule (C04-R4): the list of stage names that makes a stage a search stage
// and the table of search stages are two statements of one fact. A name in the list without an
// entry in the search-stage table sends that stage through the search vocabulary, where nothing
// about it is known: members the aggregation table keeps (an index name) are redacted, members
// it names are treated as user data.
func searchClassifierAgreesRule(c *Ctx, r *Report, classifier *ssa.Function, rule string) {
	t := c.reconstructTables()
	// the string set the classifier consults
	var listName string
	for f := range c.pkgReach(classifier) {
		allInstrs(f, func(i ssa.Instruction) {
			if ld, ok := i.(*ssa.UnOp); ok && ld.Op == token.MUL {
				if g, ok := ld.X.(*ssa.Global); ok && g.Pkg == c.SPkg {
					if _, isSet := t.StringSets[g.Name()]; isSet {
						listName = g.Name()
					}
				}
			}
		})
	}
	var listed []string
	if listName != "" {
		listed = t.StringSets[listName]
	} else {
		// the normaliser has written slices.Contains(list, k) out as comparisons: the names are
		// the '$'-prefixed string constants the classifier compares a key with
		seenName := map[string]bool{}
		for f := range c.pkgReach(classifier) {
			allInstrs(f, func(i ssa.Instruction) {
				// compared with a key, or looked up in the stage document
				var cands []ssa.Value
				switch x := i.(type) {
				case *ssa.BinOp:
					if x.Op == token.EQL || x.Op == token.NEQ {
						cands = []ssa.Value{x.X, x.Y}
					}
				case *ssa.Call:
					k := calleeKey(&x.Call)
					if k == omMethod("Get") || k == omMethod("Has") || k == omMethod("GetElement") {
						cands = x.Call.Args[1:]
					}
				}
				for _, v := range cands {
					if sv, isC := constString(v); isC && strings.HasPrefix(sv, "$") && !seenName[sv] {
						seenName[sv] = true
						listed = append(listed, sv)
					}
				}
			})
		}
		sort.Strings(listed)
		listName = "the classifier's name list"
	}
	if len(listed) == 0 {
		r.Undecided(rule, "search-classifier:name-list", c.Pos(classifier.Pos()), "the list of search-stage names the classifier consults was not found")
		return
	}
	// the search-stage table: the table whose keys are exactly stage names and that the lookup
	// consults in search mode - found as the table that holds every reviewed search stage
	var tableName string
	for name, o := range t.Globals {
		if _, ok := o.Vals["$search"]; ok {
			if _, ok2 := o.Vals["$vectorSearch"]; ok2 {
				if _, isAgg := o.Vals["$match"]; !isAgg {
					tableName = name
				}
			}
		}
	}
	if tableName == "" {
		r.Undecided(rule, "search-classifier:table", c.Pos(classifier.Pos()), "the table of search stages ($search, $vectorSearch ...) was not found")
		return
	}
	for _, name := range listed {
		_, has := t.Globals[tableName].Vals[name]
		r.Check(has, rule, "search-classifier:"+listName+"("+name+")", c.Pos(classifier.Pos()),
			name+" is classified as a search stage and has its entry in "+tableName,
			name+" is in "+listName+" (the classifier calls it a search stage) but "+tableName+" has no entry for it: the stage is walked with the search vocabulary, which knows nothing about its members - what the aggregation table keeps for it (index names, limits) is redacted")
	}
}

// noDoubleRewriteRule (C13-R3 / C12-R3): a name is pseudonymised once. Two rewrites of the same
// constant key of the same document on one path (a name listed twice in the table of
// namespace-bearing keys) store the pseudonym of the pseudonym: well-formed, and different from
// the pseudonym the same name gets everywhere else.
func noDoubleRewriteRule(c *Ctx, r *Report, rule string) {
	p := c.prov()
	hn := c.Fn("HashName")
	if hn == nil {
		return
	}
	n := 0
	for f := range p.Zone {
		_ = f
	}
	var fns []*ssa.Function
	for _, f := range c.SortedFuncs() {
		fns = append(fns, f)
	}
	for _, f := range fns {
		type site struct {
			call *ssa.Call
			recv ssa.Value
			key  string
		}
		var sites []site
		allInstrs(f, func(i ssa.Instruction) {
			call, ok := i.(*ssa.Call)
			if !ok || calleeKey(&call.Call) != omMethod("Set") || len(call.Call.Args) != 3 {
				return
			}
			k, isC := constString(call.Call.Args[1])
			if !isC {
				return
			}
			// the stored value is a pseudonym (directly or through a namespace helper)
			isPseudonym := false
			v := peel(canon(call.Call.Args[2]))
			if hc, ok := v.(*ssa.Call); ok {
				if g := c.staticPkgCallee(&hc.Call); g != nil && (g == hn || c.pkgReach(g)[hn]) {
					isPseudonym = true
				}
			}
			if isPseudonym {
				sites = append(sites, site{call, peel(call.Call.Args[0]), k})
			}
		})
		for i := 0; i < len(sites); i++ {
			for j := i + 1; j < len(sites); j++ {
				a, b := sites[i], sites[j]
				if a.key != b.key || a.recv != b.recv {
					continue
				}
				// both on one path: one block dominates the other
				if a.call.Block().Dominates(b.call.Block()) || b.call.Block().Dominates(a.call.Block()) || reaches(a.call.Block(), b.call.Block()) || reaches(b.call.Block(), a.call.Block()) {
					n++
					r.Bad(rule, fmt.Sprintf("%s:rewritten-twice(%s)", f.Name(), a.key), c.InstrPos(b.call),
						"the member "+a.key+" is replaced by a pseudonym twice on one path ("+c.InstrPos(a.call)+" and "+c.InstrPos(b.call)+"): the second rewrite hashes the first one's result, so this name's pseudonym differs from the one it gets in attr.ns and on other lines")
				}
			}
		}
	}
	if n == 0 {
		r.Trivial(rule, "no-key-rewritten-twice", "-", "no constant key of one document is pseudonymised twice on a path")
	}
}

func reaches(from, to *ssa.BasicBlock) bool {
	seen := map[*ssa.BasicBlock]bool{}
	var walk func(b *ssa.BasicBlock) bool
	walk = func(b *ssa.BasicBlock) bool {
		if b == to {
			return true
		}
		if seen[b] {
			return false
		}
		seen[b] = true
		for _, s := range b.Succs {
			if walk(s) {
				return true
			}
		}
		return false
	}
	for _, s := range from.Succs {
		if walk(s) {
			return true
		}
	}
	return false
}

// atlasRequestHeadersRule (C16-R5): the bytes stored are the bytes of the log archive. Go's
// transport undoes a gzip content-coding only when the caller has not asked for one itself:
// an Accept-Encoding header set by hand makes the response body the ENCODED archive whenever the
// server (or a compressing front end) applies the coding. The Atlas requests set Accept and
// Content-Type and nothing that changes how the body is transferred.
func atlasRequestHeadersRule(c *Ctx, r *Report, fns []*ssa.Function, rule string) {
	n := 0
	for _, f := range fns {
		if f == nil {
			continue
		}
		allInstrs(f, func(i ssa.Instruction) {
			call, ok := i.(*ssa.Call)
			if !ok {
				return
			}
			k := calleeKey(&call.Call)
			if k != "(net/http.Header).Set" && k != "(net/http.Header).Add" {
				return
			}
			names, isC := possibleConstKeys(call.Call.Args[1])
			n++
			if !isC {
				r.Undecided(rule, fmt.Sprintf("%s:request-header(?)", f.Name()), c.InstrPos(i), "a request header with a name that is not a constant (nor the key of a local map literal with constant keys)")
				return
			}
			for _, name := range names {
				construct := fmt.Sprintf("%s:request-header(%s)", f.Name(), name)
				lower := strings.ToLower(name)
				bad := lower == "accept-encoding" || lower == "range" || lower == "te" || lower == "transfer-encoding" || lower == "if-none-match" || lower == "if-modified-since" || lower == "if-range"
				r.Check(!bad, rule, construct, c.InstrPos(i), "the header does not change how the body is transferred",
					"the request sets "+name+" itself: with Accept-Encoding the transport no longer undoes a gzip content-coding (the temp file then holds the encoded archive and every line fails to parse, exit 0 with empty output); Range / conditional headers make the body a part of the log or nothing")
			}
		})
	}
}

// cobraSilenceRule (C18-R2): a rejection comes with an explanatory message. Rejections that cobra
// itself decides (too many arguments, an unknown flag, a flag without its value, a value that is
// not a number) are printed by Execute - unless the command literal sets SilenceErrors.
func cobraSilenceRule(c *Ctx, r *Report, rule string) {
	an := c.anchors()
	if an == nil || an.Main == nil {
		return
	}
	n := 0
	check := func(f *ssa.Function) {
		allInstrs(f, func(i ssa.Instruction) {
			st, ok := i.(*ssa.Store)
			if !ok {
				return
			}
			fa, ok := st.Addr.(*ssa.FieldAddr)
			if !ok {
				return
			}
			nm, fv := fieldOf(fa)
			if nm == nil || fv == nil || nm.Obj().Name() != "Command" || nm.Obj().Pkg() == nil || !strings.HasSuffix(nm.Obj().Pkg().Path(), "spf13/cobra") {
				return
			}
			if fv.Name() != "SilenceErrors" {
				return
			}
			n++
			b, isC := constBool(st.Val)
			r.Check(isC && !b, rule, "main:command-literal(SilenceErrors)", c.InstrPos(i), "SilenceErrors is false",
				"a command sets SilenceErrors: the rejections cobra decides itself (a second file argument, an unknown flag, a flag without its value, a date that is not a number) end with exit status 1 and no message at all")
		})
	}
	check(an.Main)
	for _, a := range an.Main.AnonFuncs {
		check(a)
	}
	if init := c.SPkg.Func("init"); init != nil {
		check(init)
	}
	if n == 0 {
		r.Trivial(rule, "main:command-literal(SilenceErrors)", "-", "no command literal sets SilenceErrors: cobra prints the rejections it decides itself")
	}
}

// nestedArraySelectionRule (C14-R2): in selective mode a '$field' reference among the elements of
// an expression array ([ "$SSN", <operand> ]) selects its siblings. When the operand is itself an
// array ({$in: ["$SSN", ["123-45-6789", ...]]}) the selection has to travel down: the array
// walker's recursive call for a nested array hands its own selection flag on. A walker that
// works the flag out from the array it is given lets every nested list of literals decide for
// itself - it holds no '$field' string, so its literals stay in clear.
func nestedArraySelectionRule(c *Ctx, r *Report, p *Prov, rule string) {
	isAnySliceParam := func(prm *ssa.Parameter) bool { return isAnySlice(prm.Type()) }
	// the sibling detector: ([]any) bool
	var detectors []*ssa.Function
	for f := range p.Zone {
		if len(f.Params) == 1 && isAnySliceParam(f.Params[0]) && f.Signature.Results().Len() == 1 && isBoolType(f.Signature.Results().At(0).Type()) {
			detectors = append(detectors, f)
		}
	}
	for _, f := range c.SortedFuncs() {
		if len(f.Params) == 1 && isAnySliceParam(f.Params[0]) && f.Signature.Results().Len() == 1 && isBoolType(f.Signature.Results().At(0).Type()) {
			found := false
			for _, d := range detectors {
				if d == f {
					found = true
				}
			}
			if !found && p.Scope[f] {
				detectors = append(detectors, f)
			}
		}
	}
	if len(detectors) == 0 {
		r.Undecided(rule, "array-walker:sibling-detector", "-", "no ([]any) bool sibling detector found (anchor lost)")
		return
	}
	isDetector := func(g *ssa.Function) bool {
		for _, d := range detectors {
			if d == g {
				return true
			}
		}
		return false
	}
	n := 0
	var fns []*ssa.Function
	for f := range p.Zone {
		fns = append(fns, f)
	}
	sort.Slice(fns, func(i, j int) bool { return fns[i].Name() < fns[j].Name() })
	for _, w := range fns {
		// an array walker: has a []any parameter and calls itself on an element of it
		var arrPrm *ssa.Parameter
		for _, prm := range w.Params {
			if isAnySliceParam(prm) {
				arrPrm = prm
			}
		}
		if arrPrm == nil {
			continue
		}
		recs := callsIn(w, func(k string, cc *ssa.Call) bool { return cc.Call.StaticCallee() == w })
		if len(recs) == 0 {
			continue
		}
		// the walker's selection parameter: a bool parameter that some caller binds to a detector's result
		selIdx := -1
		for _, call := range c.callersOf(w) {
			for ai, a := range call.Call.Args {
				if ai >= len(w.Params) || !isBoolType(w.Params[ai].Type()) {
					continue
				}
				for _, vs := range sourcesAt(a, call.Block()) {
					if dc, ok := peel(canon(vs.Val)).(*ssa.Call); ok {
						if g := c.staticPkgCallee(&dc.Call); g != nil && isDetector(g) {
							selIdx = ai
						}
					}
					// or handed on from an enclosing walker's own selection parameter (wrappers)
				}
			}
		}
		// wrappers: a walker that only forwards gets its flag from its caller's parameter; follow one level
		if selIdx < 0 {
			for _, call := range c.callersOf(w) {
				pw := call.Parent()
				for ai, a := range call.Call.Args {
					if ai >= len(w.Params) || !isBoolType(w.Params[ai].Type()) {
						continue
					}
					if pp, ok := peel(a).(*ssa.Parameter); ok && pp.Parent() == pw {
						for _, c2 := range c.callersOf(pw) {
							for bi, b := range c2.Call.Args {
								if bi < len(pw.Params) && pw.Params[bi] == pp {
									for _, vs := range sourcesAt(b, c2.Block()) {
										if dc, ok := peel(canon(vs.Val)).(*ssa.Call); ok {
											if g := c.staticPkgCallee(&dc.Call); g != nil && isDetector(g) {
												selIdx = ai
											}
										}
									}
								}
							}
						}
					}
				}
			}
		}
		for _, rc := range recs {
			n++
			construct := fmt.Sprintf("%s:nested-array-inherits-the-selection#%d", w.Name(), n)
			if selIdx < 0 {
				// does the walker consult the detector on its own array?
				own := false
				for _, dc := range callsIn(w, func(k string, cc *ssa.Call) bool { g := cc.Call.StaticCallee(); return g != nil && isDetector(g) }) {
					if peel(dc.Call.Args[0]) == ssa.Value(arrPrm) {
						own = true
					}
				}
				why := "the array walker has no selection parameter: what a '$field' sibling selects in the enclosing array cannot reach a nested array"
				if own {
					why = "the array walker works the selection out from the array it was given: a nested list of literals next to a '$field' reference holds no reference of its own, so in selective mode its literals are emitted unchanged although the field they are compared with matches"
				}
				r.Bad(rule, construct, c.InstrPos(rc), why)
				continue
			}
			okPass := false
			if selIdx < len(rc.Call.Args) {
				a := peel(rc.Call.Args[selIdx])
				if a == ssa.Value(w.Params[selIdx]) {
					okPass = true
				}
				if bo, ok := a.(*ssa.BinOp); ok && bo.Op == token.OR {
					if peel(bo.X) == ssa.Value(w.Params[selIdx]) || peel(bo.Y) == ssa.Value(w.Params[selIdx]) {
						okPass = true
					}
				}
				if ph, ok := a.(*ssa.Phi); ok {
					// short-circuit `own || detector(nested)`
					for _, e := range ph.Edges {
						if peel(e) == ssa.Value(w.Params[selIdx]) {
							okPass = true
						}
						if cb, isC := constBool(e); isC && cb {
							okPass = true
						}
					}
				}
			}
			r.Check(okPass, rule, construct, c.InstrPos(rc), "the nested array is walked with the enclosing array's selection flag",
				"the recursive call for a nested array does not hand the walker's own selection flag on: the literals of a nested list next to a matching '$field' reference stay in clear in selective mode")
		}
	}
	if n == 0 {
		r.Undecided(rule, "array-walker:recursion", "-", "no array walker that calls itself for nested arrays was found (anchor lost)")
	}
}
