package main

import (
	"fmt"
	"go/ast"
	"go/parser"
	"go/token"
	"go/types"

	"golang.org/x/tools/go/packages"
	"golang.org/x/tools/go/ssa"
	"golang.org/x/tools/go/ssa/ssautil"
)

// Positive controls for rules whose expected count on the repository is zero
// ("no goroutine on the line path", "no nondeterministic source", ...): a tiny
// source text that *does* contain the forbidden construct is type-checked against
// the types already loaded for the repository, built to SSA, and handed to the same
// detector on every run. A detector that no longer matches its control fails the
// check (the rule would otherwise pass vacuously forever).

type loadedImporter struct{ m map[string]*types.Package }

func (li loadedImporter) Import(path string) (*types.Package, error) {
	if p, ok := li.m[path]; ok {
		return p, nil
	}
	return nil, fmt.Errorf("control: package %q is not among the loaded packages", path)
}

// buildControl compiles src (one file, package ctl) and returns its functions by name.
func (c *Ctx) buildControl(src string) (map[string]*ssa.Function, error) {
	imp := loadedImporter{m: map[string]*types.Package{}}
	packages.Visit(c.AllPkgs, nil, func(p *packages.Package) {
		if p.Types != nil {
			imp.m[p.PkgPath] = p.Types
		}
	})
	fset := token.NewFileSet()
	f, err := parser.ParseFile(fset, "control.go", src, 0)
	if err != nil {
		return nil, err
	}
	pkg := types.NewPackage("verif/ctl", "ctl")
	spkg, _, err := ssautil.BuildPackage(&types.Config{Importer: imp}, fset, pkg, []*ast.File{f}, ssa.InstantiateGenerics)
	if err != nil {
		return nil, err
	}
	out := map[string]*ssa.Function{}
	for _, m := range spkg.Members {
		if fn, ok := m.(*ssa.Function); ok && fn.Blocks != nil {
			out[fn.Name()] = fn
			for _, a := range fn.AnonFuncs {
				out[a.Name()] = a
			}
		}
	}
	return out, nil
}

// control runs detect on every function of the control source and requires exactly
// the functions named in want to be matched.
func (c *Ctx) control(r *Report, rule, name, src string, detect func(*ssa.Function) []string, want ...string) {
	fns, err := c.buildControl(src)
	if err != nil {
		r.Undecided(rule, "control:"+name, "-", "positive control does not build: "+err.Error())
		return
	}
	var problems []string
	wantSet := map[string]bool{}
	for _, w := range want {
		wantSet[w] = true
		if fns[w] == nil {
			problems = append(problems, "control function "+w+" missing")
		}
	}
	for n, fn := range fns {
		hit := len(detect(fn)) > 0
		if wantSet[n] && !hit {
			problems = append(problems, "detector misses the forbidden construct in control function "+n)
		}
		if !wantSet[n] && hit && fn.Parent() == nil && n != "init" {
			problems = append(problems, "detector fires on the clean control function "+n)
		}
	}
	if len(problems) > 0 {
		r.Undecided(rule, "control:"+name, "-", fmt.Sprint(problems))
		return
	}
	r.Trivial(rule, "control:"+name, "-", fmt.Sprintf("positive control: detector matches %d seeded construct(s) and stays silent on the clean one", len(want)))
}
