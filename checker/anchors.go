package main

import (
	"fmt"
	"go/types"
	"sort"
	"strings"

	"golang.org/x/tools/go/ssa"
)

// Anchors are the constructs of the repository that the rules talk about. They are
// located through resolved callees / types / data flow, never by line or text.
type Anchors struct {
	Main           *ssa.Function
	RedactClosure  *ssa.Function // Run of the cobra command whose Use starts with "redact"
	DecryptClosure *ssa.Function
	// flag name -> *T variable: the alloc in main and the free variable in a closure
	FlagAlloc map[string]ssa.Value
	FlagKind  map[string]string // "string","bool","int","stringArray"
	// closure -> flag name -> FreeVar
	FlagFree map[*ssa.Function]map[string]*ssa.FreeVar
	StreamFn *ssa.Function // the scan loop
	Problems []string
}

func (c *Ctx) anchors() *Anchors {
	a := &Anchors{FlagAlloc: map[string]ssa.Value{}, FlagKind: map[string]string{}, FlagFree: map[*ssa.Function]map[string]*ssa.FreeVar{}}
	a.Main = c.Fn("main")
	if a.Main == nil {
		a.Problems = append(a.Problems, "main: function main not found")
		return a
	}
	// cobra.Command composite literals: alloc -> (Use, Run)
	type cmdInfo struct {
		use string
		run *ssa.Function
		mc  *ssa.MakeClosure
	}
	cmds := map[ssa.Value]*cmdInfo{}
	allInstrs(a.Main, func(i ssa.Instruction) {
		st, ok := i.(*ssa.Store)
		if !ok {
			return
		}
		fa, ok := st.Addr.(*ssa.FieldAddr)
		if !ok {
			return
		}
		pt, ok := fa.X.Type().Underlying().(*types.Pointer)
		if !ok {
			return
		}
		named, ok := pt.Elem().(*types.Named)
		if !ok || named.Obj().Name() != "Command" || named.Obj().Pkg() == nil || named.Obj().Pkg().Path() != "github.com/spf13/cobra" {
			return
		}
		stt := named.Underlying().(*types.Struct)
		fname := stt.Field(fa.Field).Name()
		ci := cmds[fa.X]
		if ci == nil {
			ci = &cmdInfo{}
			cmds[fa.X] = ci
		}
		switch fname {
		case "Use":
			if s, ok := constString(st.Val); ok {
				ci.use = s
			}
		case "Run":
			switch v := st.Val.(type) {
			case *ssa.MakeClosure:
				ci.run = v.Fn.(*ssa.Function)
				ci.mc = v
			case *ssa.Function:
				ci.run = v
			}
		}
	})
	var mcs []*ssa.MakeClosure
	for _, ci := range cmds {
		if ci.run == nil {
			continue
		}
		word := ci.use
		if i := strings.IndexAny(word, " \t"); i >= 0 {
			word = word[:i]
		}
		switch word {
		case "redact":
			a.RedactClosure = ci.run
		case "decrypt":
			a.DecryptClosure = ci.run
		}
		if ci.mc != nil {
			mcs = append(mcs, ci.mc)
		}
	}
	if a.RedactClosure == nil {
		a.Problems = append(a.Problems, "redact: redact command Run closure not found")
	}
	if a.DecryptClosure == nil {
		a.Problems = append(a.Problems, "decrypt: decrypt command Run closure not found")
	}
	// flag bindings: (*pflag.FlagSet).XxxVarP(fs, &v, "name", ...)
	allInstrs(a.Main, func(i ssa.Instruction) {
		call, ok := i.(*ssa.Call)
		if !ok {
			return
		}
		k := calleeKey(&call.Call)
		const pfx = "(*github.com/spf13/pflag.FlagSet)."
		if !strings.HasPrefix(k, pfx) {
			return
		}
		m := strings.TrimPrefix(k, pfx)
		if !strings.HasSuffix(m, "VarP") && !strings.HasSuffix(m, "Var") {
			return
		}
		if len(call.Call.Args) < 3 {
			return
		}
		name, ok := constString(call.Call.Args[2])
		if !ok {
			return
		}
		// several commands may bind a flag of the same name to variables of their own
		// (redact / decrypt / a key-checking command all have --encryptionKeyFile): the anchor is
		// the variable the redact command's closure captures
		captured := false
		for _, ci := range cmds {
			if ci.run != nil && ci.run == a.RedactClosure && ci.mc != nil {
				for _, b := range ci.mc.Bindings {
					if b == call.Call.Args[1] {
						captured = true
					}
				}
			}
		}
		if _, had := a.FlagAlloc[name]; had && !captured {
			return
		}
		a.FlagAlloc[name] = call.Call.Args[1]
		kind := strings.TrimSuffix(strings.TrimSuffix(m, "P"), "Var")
		if kind == "" {
			kind = "custom" // VarP / Var with a pflag.Value implementation
		}
		a.FlagKind[name] = strings.ToLower(kind[:1]) + kind[1:]
	})
	for _, mc := range mcs {
		fn := mc.Fn.(*ssa.Function)
		m := map[string]*ssa.FreeVar{}
		for idx, b := range mc.Bindings {
			for name, al := range a.FlagAlloc {
				if al == b {
					m[name] = fn.FreeVars[idx]
				}
			}
		}
		a.FlagFree[fn] = m
	}
	// stream function: calls (*bufio.Scanner).Scan and RedactMongoLog
	for _, f := range c.SortedFuncs() {
		if hasCallTo(f, "(*bufio.Scanner).Scan") && hasCallTo(f, c.pkgFn("RedactMongoLog")) {
			if a.StreamFn != nil {
				a.Problems = append(a.Problems, fmt.Sprintf("stream: more than one scan loop: %s and %s", a.StreamFn.Name(), f.Name()))
			}
			a.StreamFn = f
		}
	}
	if a.StreamFn == nil {
		a.Problems = append(a.Problems, "stream: no function combining a bufio.Scanner loop with RedactMongoLog")
	}
	sort.Strings(a.Problems)
	return a
}

// pkgFn gives the callee key of a top-level function of the analysed package.
func (c *Ctx) pkgFn(name string) string { return c.Pkg.PkgPath + "." + name }

// pkgMethod gives the callee key of a pointer-receiver method of the analysed package.
func (c *Ctx) pkgMethod(recv, name string) string {
	return "(*" + c.Pkg.PkgPath + "." + recv + ")." + name
}

// flagOfValue: if v is a load of a flag variable inside closure fn, return the flag name.
func (a *Anchors) flagOfValue(fn *ssa.Function, v ssa.Value) (string, bool) {
	v = peel(v)
	u, ok := v.(*ssa.UnOp)
	if !ok {
		return "", false
	}
	fv, ok := u.X.(*ssa.FreeVar)
	if !ok {
		return "", false
	}
	for name, f := range a.FlagFree[fn] {
		if f == fv {
			return name, true
		}
	}
	return "", false
}

// requireAnchors records anchor problems as undecided obligations.
func requireAnchors(r *Report, a *Anchors, rule string, needs ...string) bool {
	ok := true
	for _, p := range a.Problems {
		kind := p
		if i := strings.Index(p, ":"); i >= 0 {
			kind = p[:i]
		}
		relevant := len(needs) == 0 || kind == "main"
		for _, n := range needs {
			if n == kind {
				relevant = true
			}
		}
		if relevant {
			r.Undecided(rule, "anchor", "-", p)
			ok = false
		}
	}
	return ok
}

// callersOf lists call instructions in the package whose static callee is fn.
func (c *Ctx) callersOf(fn *ssa.Function) []*ssa.Call {
	var out []*ssa.Call
	for _, f := range c.SortedFuncs() {
		allInstrs(f, func(i ssa.Instruction) {
			if call, ok := i.(*ssa.Call); ok && call.Call.StaticCallee() == fn {
				out = append(out, call)
			}
		})
	}
	return out
}

// pkgReach returns the package functions reachable from roots through static calls
// (including closures created inside them and deferred/go calls).
func (c *Ctx) pkgReach(roots ...*ssa.Function) map[*ssa.Function]bool {
	seen := map[*ssa.Function]bool{}
	var w []*ssa.Function
	for _, r := range roots {
		if r != nil {
			w = append(w, r)
		}
	}
	for len(w) > 0 {
		f := w[len(w)-1]
		w = w[:len(w)-1]
		if seen[f] {
			continue
		}
		seen[f] = true
		allInstrs(f, func(i ssa.Instruction) {
			if cc := callCommonOf(i); cc != nil {
				if g := c.staticPkgCallee(cc); g != nil {
					w = append(w, g)
				}
				// interface invoke: resolve to package implementers (CHA restricted to the package)
				if cc.IsInvoke() {
					for _, g := range c.implementers(cc) {
						w = append(w, g)
					}
				}
			}
			if mc, ok := i.(*ssa.MakeClosure); ok {
				if g, ok := mc.Fn.(*ssa.Function); ok {
					w = append(w, g)
				}
			}
			// plain function values (closures without captures passed as arguments)
			for _, op := range i.Operands(nil) {
				if g, ok := (*op).(*ssa.Function); ok && g.Blocks != nil {
					if g.Pkg == c.SPkg || g.Parent() != nil {
						if _, isCallee := i.(ssa.CallInstruction); isCallee && callCommonOf(i).Value == ssa.Value(g) {
							continue
						}
						w = append(w, g)
					}
				}
			}
		})
	}
	return seen
}

// implementers resolves an interface method call to the methods of package types.
func (c *Ctx) implementers(cc *ssa.CallCommon) []*ssa.Function {
	var out []*ssa.Function
	iface, ok := cc.Value.Type().Underlying().(*types.Interface)
	if !ok {
		return nil
	}
	for _, m := range c.SPkg.Members {
		t, ok := m.(*ssa.Type)
		if !ok {
			continue
		}
		for _, typ := range []types.Type{t.Type(), types.NewPointer(t.Type())} {
			if types.Implements(typ, iface) {
				sel := c.Prog.MethodSets.MethodSet(typ).Lookup(cc.Method.Pkg(), cc.Method.Name())
				if sel != nil {
					if fn := c.Prog.MethodValue(sel); fn != nil && fn.Blocks != nil {
						out = append(out, fn)
					}
				}
			}
		}
	}
	return out
}

// ---- roles of package-level option variables -------------------------------------
// The option globals are identified by the exported setter that stores them (the
// setters are the package's API, used by the CLI and by the tests), never by their own
// spelling: renaming `redactNumbers` does not disturb a rule.

var setterRoles = map[string]string{
	"SetRedactedString":       "redactedString",
	"SetRedactNumbers":        "redactNumbers",
	"SetRedactBooleans":       "redactBooleans",
	"SetRedactIPs":            "redactIPs",
	"SetEagerRedactionPaths":  "eagerRedactionPaths",
	"SetEncryptionKey":        "encryptionKey",
	"SetShouldEncrypt":        "shouldEncrypt",
	"SetRedactNamespaces":     "redactNamespaces",
	"SetRedactedFieldsRegexp": "redactedFieldsRegexp",
	"SetAtlasLogStartDate":    "atlasLogStartDate",
	"SetAtlasLogEndDate":      "atlasLogEndDate",
}

var roleCache = map[*Ctx]map[*ssa.Global]string{}

func (c *Ctx) globalRoles() map[*ssa.Global]string {
	if m, ok := roleCache[c]; ok {
		return m
	}
	m := map[*ssa.Global]string{}
	for setter, role := range setterRoles {
		f := c.Fn(setter)
		if f == nil {
			continue
		}
		allInstrs(f, func(i ssa.Instruction) {
			if st, ok := i.(*ssa.Store); ok {
				if g, ok := st.Addr.(*ssa.Global); ok && g.Pkg == c.SPkg {
					m[g] = role
				}
			}
		})
	}
	roleCache[c] = m
	return m
}

// roleName: the canonical role of an option global, or its own name.
func (c *Ctx) roleName(g *ssa.Global) string {
	if r, ok := c.globalRoles()[g]; ok {
		return r
	}
	return g.Name()
}

// GlobalByRole finds the option global with the given role (falls back to the name).
func (c *Ctx) GlobalByRole(role string) *ssa.Global {
	for g, r := range c.globalRoles() {
		if r == role {
			return g
		}
	}
	return c.GlobalVar(role)
}

// parserFn: the recursive parser - the package function the parser entry point calls
// with a *json.Decoder.
func (c *Ctx) parserFn() *ssa.Function {
	un := c.Fn("UnmarshalOrdered")
	if un == nil {
		return nil
	}
	var out *ssa.Function
	allInstrs(un, func(i ssa.Instruction) {
		if call, ok := i.(*ssa.Call); ok {
			if callee := c.staticPkgCallee(&call.Call); callee != nil {
				for _, prm := range callee.Params {
					if strings.HasSuffix(prm.Type().String(), "encoding/json.Decoder") {
						out = callee
					}
				}
			}
		}
	})
	return out
}

// roleConstruct rewrites the function names in an obligation key to role labels for
// the functions that are identified by role (the recursive parser, the stage walker), so
// that a frozen exception keeps matching after a rename of an unexported function.
func (c *Ctx) roleConstruct(construct string) string {
	if pf := c.parserFn(); pf != nil {
		construct = strings.ReplaceAll(construct, pf.Name(), "<parser>")
	}
	if sw := c.stageWalkerFn(); sw != nil {
		construct = strings.ReplaceAll(construct, sw.Name(), "<stage-walker>")
	}
	return construct
}

// stageWalkerFn: the pipeline-stage walker - the package function on the line path whose
// first parameter and single result are both the empty interface.
func (c *Ctx) stageWalkerFn() *ssa.Function {
	root := c.Fn("RedactMongoLog")
	if root == nil {
		return nil
	}
	var out *ssa.Function
	for f := range c.pkgReach(root) {
		if len(f.Params) == 0 || f.Signature.Results().Len() != 1 {
			continue
		}
		if isEmptyInterface(f.Params[0].Type()) && isEmptyInterface(f.Signature.Results().At(0).Type()) {
			if out == nil || fnKey(f) < fnKey(out) {
				out = f
			}
		}
	}
	return out
}
