package main

// Pure predicates on the raw line.
//
// `func cannotBeJSONObject(line string) bool` - a loop over the bytes of its argument, comparisons
// with constants, nothing else - asked about the scanned line before the parser runs: a fast path
// that skips the line "with the same outcome as the parse error". The scan-loop rule (C06-R2)
// lets the raw line reach the redactor and tests for emptiness only; a predicate of this kind is a
// third admissible reader if it never says yes to a line the redactor would accept. The checker
// decides that by *interpreting the predicate's SSA* (never by running it) on probe lines: every
// probe that is a JSON object - with and without leading blanks, CR, LF, tabs, nested, with
// trailing blanks - must be answered no. Such predicates are kept as functions by the normaliser
// (inlined they are a byte loop inside the scan loop).

import (
	"go/ast"
	"go/constant"
	"go/token"
	"go/types"

	"golang.org/x/tools/go/ssa"
)

// pureStringPredicateDecl: one string parameter, one bool result, a body without calls other
// than len, without selectors, function literals, address-of, or assignments to anything but
// its own locals.
func pureStringPredicateDecl(fd *ast.FuncDecl, info *types.Info) bool {
	if fd.Recv != nil || fd.Type.TypeParams != nil || fd.Type.Params == nil || fd.Type.Results == nil {
		return false
	}
	if len(fd.Type.Params.List) != 1 || len(fd.Type.Params.List[0].Names) != 1 || len(fd.Type.Results.List) != 1 || len(fd.Type.Results.List[0].Names) > 0 {
		return false
	}
	pt, ok1 := info.TypeOf(fd.Type.Params.List[0].Type).Underlying().(*types.Basic)
	rt, ok2 := info.TypeOf(fd.Type.Results.List[0].Type).Underlying().(*types.Basic)
	if !ok1 || !ok2 || pt.Kind() != types.String || rt.Kind() != types.Bool {
		return false
	}
	pure := true
	hasLoopOrIndex := false
	ast.Inspect(fd.Body, func(n ast.Node) bool {
		switch x := n.(type) {
		case *ast.CallExpr:
			id, ok := x.Fun.(*ast.Ident)
			if !ok || id.Name != "len" {
				pure = false
			}
		case *ast.SelectorExpr, *ast.FuncLit, *ast.GoStmt, *ast.DeferStmt, *ast.SendStmt, *ast.CompositeLit:
			pure = false
		case *ast.UnaryExpr:
			if x.Op == token.AND || x.Op == token.ARROW {
				pure = false
			}
		case *ast.IndexExpr, *ast.ForStmt, *ast.RangeStmt:
			hasLoopOrIndex = true
		case *ast.Ident:
			if o := info.Uses[x]; o != nil {
				if v, isVar := o.(*types.Var); isVar && v.Parent() != nil && v.Pkg() != nil && v.Parent() == v.Pkg().Scope() {
					pure = false // a package-level variable
				}
			}
		}
		return true
	})
	return pure && hasLoopOrIndex
}

// evalPurePredicate interprets fn(line) on its SSA: integers, bytes, booleans, string indexing,
// len, comparisons, arithmetic, branches, loops (bounded).
func evalPurePredicate(fn *ssa.Function, line string) (result bool, ok bool) {
	if len(fn.Blocks) == 0 || len(fn.Params) != 1 {
		return false, false
	}
	type val struct {
		kind byte // 's' string, 'i' int, 'b' bool
		s    string
		i    int64
		b    bool
	}
	env := map[ssa.Value]val{fn.Params[0]: {kind: 's', s: line}}
	get := func(v ssa.Value) (val, bool) {
		if x, has := env[v]; has {
			return x, true
		}
		if c, isC := v.(*ssa.Const); isC && c.Value != nil {
			switch c.Value.Kind() {
			case constant.String:
				return val{kind: 's', s: constant.StringVal(c.Value)}, true
			case constant.Int:
				n, _ := constant.Int64Val(c.Value)
				return val{kind: 'i', i: n}, true
			case constant.Bool:
				return val{kind: 'b', b: constant.BoolVal(c.Value)}, true
			}
		}
		return val{}, false
	}
	b := fn.Blocks[0]
	var pred *ssa.BasicBlock
	for steps := 0; steps < 20000; steps++ {
		next := (*ssa.BasicBlock)(nil)
		// phis first, simultaneously
		phiVals := map[*ssa.Phi]val{}
		for _, in := range b.Instrs {
			ph, isPhi := in.(*ssa.Phi)
			if !isPhi {
				break
			}
			for i, p := range b.Preds {
				if p == pred {
					v, okV := get(ph.Edges[i])
					if !okV {
						return false, false
					}
					phiVals[ph] = v
				}
			}
		}
		for ph, v := range phiVals {
			env[ph] = v
		}
		for _, in := range b.Instrs {
			switch x := in.(type) {
			case *ssa.Phi, *ssa.DebugRef:
			case *ssa.Call:
				if calleeKey(&x.Call) != "builtin len" || len(x.Call.Args) != 1 {
					return false, false
				}
				a, okA := get(x.Call.Args[0])
				if !okA || a.kind != 's' {
					return false, false
				}
				env[x] = val{kind: 'i', i: int64(len(a.s))}
			case *ssa.Index:
				s, ok1 := get(x.X)
				i, ok2 := get(x.Index)
				if !ok1 || !ok2 || s.kind != 's' || i.kind != 'i' || i.i < 0 || i.i >= int64(len(s.s)) {
					return false, false
				}
				env[x] = val{kind: 'i', i: int64(s.s[i.i])}
			case *ssa.Lookup:
				s, ok1 := get(x.X)
				i, ok2 := get(x.Index)
				if !ok1 || !ok2 || s.kind != 's' || i.kind != 'i' || i.i < 0 || i.i >= int64(len(s.s)) {
					return false, false // (an out-of-range index would be a panic in the real run)
				}
				env[x] = val{kind: 'i', i: int64(s.s[i.i])}
			case *ssa.Convert:
				a, okA := get(x.X)
				if !okA || a.kind != 'i' {
					return false, false
				}
				env[x] = a
			case *ssa.BinOp:
				l, ok1 := get(x.X)
				r, ok2 := get(x.Y)
				if !ok1 || !ok2 || l.kind != r.kind {
					return false, false
				}
				switch l.kind {
				case 'i':
					switch x.Op {
					case token.ADD:
						env[x] = val{kind: 'i', i: l.i + r.i}
					case token.SUB:
						env[x] = val{kind: 'i', i: l.i - r.i}
					case token.EQL:
						env[x] = val{kind: 'b', b: l.i == r.i}
					case token.NEQ:
						env[x] = val{kind: 'b', b: l.i != r.i}
					case token.LSS:
						env[x] = val{kind: 'b', b: l.i < r.i}
					case token.LEQ:
						env[x] = val{kind: 'b', b: l.i <= r.i}
					case token.GTR:
						env[x] = val{kind: 'b', b: l.i > r.i}
					case token.GEQ:
						env[x] = val{kind: 'b', b: l.i >= r.i}
					default:
						return false, false
					}
				case 's':
					switch x.Op {
					case token.EQL:
						env[x] = val{kind: 'b', b: l.s == r.s}
					case token.NEQ:
						env[x] = val{kind: 'b', b: l.s != r.s}
					default:
						return false, false
					}
				case 'b':
					switch x.Op {
					case token.EQL:
						env[x] = val{kind: 'b', b: l.b == r.b}
					case token.NEQ:
						env[x] = val{kind: 'b', b: l.b != r.b}
					default:
						return false, false
					}
				}
			case *ssa.UnOp:
				a, okA := get(x.X)
				if !okA || x.Op != token.NOT || a.kind != 'b' {
					return false, false
				}
				env[x] = val{kind: 'b', b: !a.b}
			case *ssa.Slice:
				s, ok1 := get(x.X)
				if !ok1 || s.kind != 's' {
					return false, false
				}
				lo, hi := int64(0), int64(len(s.s))
				if x.Low != nil {
					v, okV := get(x.Low)
					if !okV {
						return false, false
					}
					lo = v.i
				}
				if x.High != nil {
					v, okV := get(x.High)
					if !okV {
						return false, false
					}
					hi = v.i
				}
				if lo < 0 || hi > int64(len(s.s)) || lo > hi {
					return false, false
				}
				env[x] = val{kind: 's', s: s.s[lo:hi]}
			case *ssa.If:
				cnd, okC := get(x.Cond)
				if !okC || cnd.kind != 'b' {
					return false, false
				}
				if cnd.b {
					next = b.Succs[0]
				} else {
					next = b.Succs[1]
				}
			case *ssa.Jump:
				next = b.Succs[0]
			case *ssa.Return:
				if len(x.Results) != 1 {
					return false, false
				}
				rv, okR := get(x.Results[0])
				if !okR || rv.kind != 'b' {
					return false, false
				}
				return rv.b, true
			default:
				return false, false
			}
		}
		if next == nil {
			return false, false
		}
		pred, b = b, next
	}
	return false, false
}

var jsonObjectProbes = []string{
	`{}`, `{"a":1}`, ` {"a":1}`, "\t{\"a\":1}", "\r{\"a\":1}", "\n{\"a\":1}", "  \t \r\n {\"t\":{\"$date\":\"2024-01-01T00:00:00Z\"},\"c\":\"COMMAND\",\"msg\":\"Slow query\",\"attr\":{}}",
	`{"a":{"b":[1,2,{"c":null}]}}`, `{"a":1}   `, "{\"a\":1}\r", `{ "a" : 1 }`, `{"":""}`, `{"{":"}"}`,
	"\xef\xbb\xbf", // not an object: no constraint, only must not crash the interpreter
}

// prefilterNeverSkipsObjects: the predicate answers no for every probe that is a JSON object.
func prefilterNeverSkipsObjects(fn *ssa.Function) (bool, string) {
	for _, pr := range jsonObjectProbes {
		got, ok := evalPurePredicate(fn, pr)
		if !ok {
			return false, "the predicate uses something the checker's interpreter does not follow"
		}
		isObj := false
		for i := 0; i < len(pr); i++ {
			c := pr[i]
			if c == ' ' || c == '\t' || c == '\r' || c == '\n' {
				continue
			}
			isObj = c == '{'
			break
		}
		if isObj && got {
			return false, "the predicate says yes to the JSON object " + strconvQuote(pr) + ": that line would be skipped"
		}
	}
	return true, ""
}

func strconvQuote(s string) string {
	if len(s) > 40 {
		s = s[:40] + "..."
	}
	out := []byte{'"'}
	for i := 0; i < len(s); i++ {
		c := s[i]
		switch {
		case c == '\t':
			out = append(out, '\\', 't')
		case c == '\r':
			out = append(out, '\\', 'r')
		case c == '\n':
			out = append(out, '\\', 'n')
		case c == '"':
			out = append(out, '\\', '"')
		case c < 32 || c > 126:
			out = append(out, '?')
		default:
			out = append(out, c)
		}
	}
	return string(append(out, '"'))
}
