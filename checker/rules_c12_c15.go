package main

import (
	"fmt"
	"regexp"
	"sort"
	"strings"

	"golang.org/x/tools/go/ssa"
)

func init() {
	register(&propDef{
		ID:          "C12",
		Run:         ruleC12,
		Explanation: "Decides completeness, consistency and confinement of namespace pseudonymisation structurally (necessary conditions of C12): (R1) from the point where attr is known to be a map, every path to a successful return of the line function passes the redactNamespaces test that guards Set(attr,\"ns\",HashName(attr.ns)); (R2) each of the three command-document dispatch sites is paired with the namespace rewriter on the same map, additionally guarded only by the flag; (R3) the rewriter's constant key list contains every declared verb and it stores HashName of the string read from the same key; (R4) the namespace-bearing stage arguments are typed Namespace in the reconstructed tables and both Namespace arms of the pipeline walker store HashName(value) for strings under the flag; (R5) every namespace rewrite applies the one pseudonym function to the original string; (R6) every call of the pseudonym function is control dependent (directly or through all its callers) on the redactNamespaces flag, a boolean field-name parameter or the per-line namespace-prefix test - with the flags off nothing is renamed. NOT decided: whole-line absence of names the tool does not claim to know, string vs object forms of $out/$merge.into, pseudonym collisions.",
		RuleText:    "obligations = success returns of the line function (must-pass-through), dispatch sites, rewriter keys, table entries, Namespace-arm sinks, every HashName call site (guard atoms, inherited through callers)",
	})
	register(&propDef{
		ID:          "C15",
		Run:         ruleC15,
		Explanation: "Decides the wiring of field-name redaction structurally (necessary conditions of C15): (R1) the per-line mode flag is true only via strings.HasPrefix(attr.ns, p) with p ranging over the whole --redactFieldNames list, and is the argument of all command-walker calls and the guard of the plan-summary rewrite; (R2) at every walker-to-walker call the callee's field-name flag is the caller's own flag parameter (the mode can neither be lost nor gained below the root); (R3) under the flag every map walker renames non-operator keys with HashName(current key), '$'-strings that are not operators are stored as HashName(string), and the sort document is dispatched; (R4) every rename is control dependent on the flag (shared with C12-R6); (R5) the plan-summary rewrite is reached on every path on which the mode holds, uses HashName, and never substitutes over its own output (no Replace whose haystack is loop-carried from its previous result with a pseudonym as replacement). R3 also: no top-level key of the core table lacks '$'; a value rename is never decided by looking the value up in the operator tables. NOT decided: whole-line absence for arbitrary names; whether every grammar position that holds a user field name is typed FieldName.",
		RuleText:    "obligations = the mode flag's definition, each walker call site carrying the flag (about 30), map-walker loops (key phi), '$'-string sinks, plan-summary guard and rewrite shape, HashName call-site guards",
	})
}

// nsGuardKind classifies the guard atoms that license a rename.
func renameGuards(p *Prov, atoms []Atom) []string {
	var out []string
	for _, a := range atoms {
		switch {
		case a.Kind == "cfg" && a.Pol && a.Name == "redactNamespaces":
			out = append(out, "cfg(redactNamespaces)")
		case a.Kind == "param" && a.Pol:
			out = append(out, "param("+a.Name+")")
		case a.Kind == "hasprefix" && a.Pol && p.isEagerPrefixTest(a):
			out = append(out, "eager(ns-prefix)")
		}
	}
	sort.Strings(out)
	return dedupe(out)
}

// isEagerPrefixTest: strings.HasPrefix(attr.ns, element of eagerRedactionPaths).
func (p *Prov) isEagerPrefixTest(a Atom) bool {
	call, ok := a.Src.(*ssa.Call)
	if !ok || len(call.Call.Args) != 2 {
		return false
	}
	k, ok := getKeyOfValue(call.Call.Args[0])
	if !ok || k != "ns" {
		return false
	}
	ld, ok := call.Call.Args[1].(*ssa.UnOp)
	if !ok {
		return false
	}
	ia, ok := ld.X.(*ssa.IndexAddr)
	if !ok {
		return false
	}
	gl, ok := ia.X.(*ssa.UnOp)
	if !ok {
		return false
	}
	g, ok := gl.X.(*ssa.Global)
	return ok && p.c.roleName(g) == "eagerRedactionPaths"
}

// rewriteBeforeReadProblems: reads of attr[key] in the line function that can execute
// after the rewrite of attr[key] - such a read sees the pseudonym instead of the
// original, so a decision taken on it (the per-line field-name mode) changes with the flag.
func rewriteBeforeReadProblems(c *Ctx, root *ssa.Function, key string) (nSets int, bad []string) {
	var sets, gets []*ssa.Call
	allInstrs(root, func(i ssa.Instruction) {
		call, ok := i.(*ssa.Call)
		if !ok {
			return
		}
		switch calleeKey(&call.Call) {
		case omMethod("Set"):
			if k, ok := constString(call.Call.Args[1]); ok && k == key {
				sets = append(sets, call)
			}
		case omMethod("Get"):
			if k, ok := constString(call.Call.Args[1]); ok && k == key {
				gets = append(gets, call)
			}
		}
	})
	for _, st := range sets {
		after := map[*ssa.BasicBlock]bool{}
		for _, s := range st.Block().Succs {
			for b := range reachableLive(s) {
				after[b] = true
			}
		}
		for _, g := range gets {
			if g.Call.Args[0] != st.Call.Args[0] {
				continue
			}
			if after[g.Block()] || (g.Block() == st.Block() && instrIndex(g) > instrIndex(st)) {
				bad = append(bad, fmt.Sprintf("attr.%s is read at %s after it was rewritten at %s", key, c.InstrPos(g), c.InstrPos(st)))
			}
		}
	}
	return len(sets), bad
}

// fnGuards: guards inherited from every reference (call or function value) of f.
func (p *Prov) fnGuards(f *ssa.Function, depth int) ([]string, bool) {
	if depth > 5 {
		return nil, false
	}
	var refs []ssa.Instruction
	for _, g := range p.c.SortedFuncs() {
		allInstrs(g, func(i ssa.Instruction) {
			for _, op := range i.Operands(nil) {
				if *op == ssa.Value(f) {
					refs = append(refs, i)
				}
			}
			if mc, ok := i.(*ssa.MakeClosure); ok && mc.Fn == ssa.Value(f) {
				refs = append(refs, i)
			}
		})
	}
	if len(refs) == 0 {
		return nil, false
	}
	var all []string
	for _, r := range refs {
		gs := renameGuards(p, p.atomsAt(r.Block()))
		if len(gs) == 0 {
			up, ok := p.fnGuards(r.Parent(), depth+1)
			if !ok {
				return nil, false
			}
			gs = up
		}
		all = append(all, gs...)
	}
	sort.Strings(all)
	return dedupe(all), true
}

// hashCallSites: every call of the pseudonym function in code reachable from the line function.
func (p *Prov) hashCallSites() []*ssa.Call {
	hn := p.c.Fn("HashName")
	var out []*ssa.Call
	var fns []*ssa.Function
	for f := range p.Scope {
		fns = append(fns, f)
	}
	sort.Slice(fns, func(i, j int) bool { return fns[i].Name() < fns[j].Name() })
	for _, f := range fns {
		allInstrs(f, func(i ssa.Instruction) {
			if call, ok := i.(*ssa.Call); ok && call.Call.StaticCallee() == hn {
				out = append(out, call)
			}
		})
	}
	return out
}

func confinementRule(c *Ctx, r *Report, p *Prov, rule string, wantKinds func([]string) bool, what string) {
	sites := p.hashCallSites()
	r.Floor(rule, 8, "HashName call sites reachable from the line function (12 today)")
	for _, call := range sites {
		gs := renameGuards(p, p.atomsAt(call.Block()))
		inherited := false
		if len(gs) == 0 {
			if up, ok := p.fnGuards(call.Parent(), 0); ok {
				gs = up
				inherited = true
			}
		}
		construct := fmt.Sprintf("%s:HashName-call[%s]", call.Parent().Name(), strings.Join(gs, "|"))
		okG := len(gs) > 0 && wantKinds(gs)
		how := "guarded by "
		if inherited {
			how = "every caller is guarded by "
		}
		r.Check(okG, rule, construct, c.InstrPos(call), how+strings.Join(gs, ", "), "a name is pseudonymised without being control dependent on "+what+": with the flags off the line still changes")
	}
}

func ruleC12(c *Ctx, r *Report) {
	p := c.prov()
	for _, pr := range p.Problems {
		r.Undecided("C12-anchor", "prov", "-", pr)
	}
	if len(p.Problems) > 0 {
		return
	}
	root := p.Root
	hn := c.Fn("HashName")
	if hn == nil {
		r.Undecided("C12-anchor", "HashName", "-", "pseudonym function not found")
		return
	}
	// ---- R1: attr.ns rewritten on every line that has one
	r.Floor("C12-R1", 2, "the ns rewrite + the must-pass-through query")
	var nsSet *ssa.Call
	allInstrs(root, func(i ssa.Instruction) {
		if call, ok := i.(*ssa.Call); ok && calleeKey(&call.Call) == omMethod("Set") {
			if k, ok := constString(call.Call.Args[1]); ok && k == "ns" {
				nsSet = call
			}
		}
	})
	if nsSet == nil {
		r.Bad("C12-R1", root.Name()+":set(ns)", c.Pos(root.Pos()), "attr.ns is never rewritten")
	} else {
		// value = HashName(string read from the same key of the same map)
		okVal := false
		if hc, ok := peel(nsSet.Call.Args[2]).(*ssa.Call); ok && hc.Call.StaticCallee() == hn {
			if k, ok := getKeyOfValue(hc.Call.Args[0]); ok && k == "ns" {
				okVal = true
			}
		}
		var flagIf *ssa.If
		var bad []string
		for _, a := range p.atomsAt(nsSet.Block()) {
			switch {
			case a.Kind == "cfg" && a.Name == "redactNamespaces" && a.Pol:
			case allowedDispatchAtoms[a.Kind]:
			default:
				bad = append(bad, a.String())
			}
		}
		for _, f := range allFacts(nsSet.Block()) {
			if ld, ok := f.Cond.(*ssa.UnOp); ok && f.Pol {
				if g, ok := ld.X.(*ssa.Global); ok && c.roleName(g) == "redactNamespaces" {
					flagIf = f.If
				}
			}
		}
		r.Check(okVal && flagIf != nil && len(bad) == 0, "C12-R1", root.Name()+":set(ns)", c.InstrPos(nsSet),
			"Set(attr,\"ns\",HashName(attr.ns)) under redactNamespaces and lookup/type guards only",
			fmt.Sprintf("ns rewrite: valueIsHashOfSameKey=%v underFlag=%v extraConditions=%v", okVal, flagIf != nil, bad))
		if flagIf != nil {
			// start: the block where attr has been resolved to a map (ok edge of the assertion of Get(entry,"attr"))
			var start *ssa.BasicBlock
			for _, b := range root.Blocks {
				ifi, ok := b.Instrs[len(b.Instrs)-1].(*ssa.If)
				if !ok {
					continue
				}
				if ex, ok := ifi.Cond.(*ssa.Extract); ok && ex.Index == 1 {
					if ta, ok := ex.Tuple.(*ssa.TypeAssert); ok && isOrderedMapPtr(ta.AssertedType) {
						if k, ok := getKeyOfValue(ta.X); ok && k == "attr" && nsSet.Call.Args[0] == ssa.Value(extractOf(ta, 0)) {
							start = b.Succs[0]
						}
					}
				}
			}
			if start == nil {
				r.Undecided("C12-R1", root.Name()+":attr-resolved", c.Pos(root.Pos()), "cannot find where attr is resolved to the map that receives the ns rewrite")
			} else {
				q := &pathQuery{
					witness: func(i ssa.Instruction) bool { return i == ssa.Instruction(flagIf) },
					isEnd: func(i ssa.Instruction) (string, bool) {
						if ret, ok := i.(*ssa.Return); ok {
							for _, res := range ret.Results {
								if isErrorType(res.Type()) && !isNilConst(resolveLocal(res)) {
									return "", false
								}
							}
							return "success-return", true
						}
						return "", false
					},
				}
				ends := q.run(start, 0, false)
				var where []string
				for _, e := range ends {
					where = append(where, c.InstrPos(e.Instr))
				}
				r.Check(len(ends) == 0, "C12-R1", root.Name()+":ns-rewrite-on-every-path", c.InstrPos(nsSet), "every successful return after attr is resolved passes the redactNamespaces test guarding the ns rewrite", fmt.Sprintf("the line function can return at %v without reaching the attr.ns rewrite: such lines keep their namespace in clear", where))
			}
		}
	}

	// ---- R2: dispatch sites paired with the namespace rewriter
	cmdFn := p.cmdWalker()
	var nsFn *ssa.Function
	for _, f := range p.ZoneRoots {
		if f != cmdFn {
			nsFn = f
		}
	}
	if cmdFn == nil || nsFn == nil {
		r.Undecided("C12-R2", "walkers", "-", "command walker / namespace rewriter not identified")
	} else {
		r.Floor("C12-R2", 3, "three dispatch sites")
		for _, d := range callsIn(root, func(k string, cc *ssa.Call) bool { return cc.Call.StaticCallee() == cmdFn }) {
			key, _ := getKeyOfValue(d.Call.Args[0])
			construct := fmt.Sprintf("%s:namespace-rewrite-after-dispatch(%s)", root.Name(), key)
			okPair := false
			detail := "no call of the namespace rewriter on the same map follows this dispatch"
			for _, n := range callsIn(root, func(k string, cc *ssa.Call) bool { return cc.Call.StaticCallee() == nsFn }) {
				if n.Call.Args[0] != d.Call.Args[0] || !d.Block().Dominates(n.Block()) {
					continue
				}
				// extra guards of n relative to d: exactly the flag
				da := map[string]bool{}
				for _, a := range p.atomsAt(d.Block()) {
					da[a.String()] = true
				}
				var extra []string
				for _, a := range p.atomsAt(n.Block()) {
					if !da[a.String()] {
						extra = append(extra, a.String())
					}
				}
				if len(extra) == 1 && extra[0] == "cfg(redactNamespaces)" {
					okPair = true
					detail = "followed by " + nsFn.Name() + "(same map) under the flag only"
				} else {
					detail = fmt.Sprintf("namespace rewriter guarded by %v", extra)
				}
			}
			r.Check(okPair, "C12-R2", construct, c.InstrPos(d), detail, detail)
		}
		// ---- R3: verb list and the store shape
		r.Floor("C12-R3", 2, "key list + store shape")
		noDoubleRewriteRule(c, r, "C12-R3")
		var keys []string
		var loop *IterLoop
		for _, l := range iterLoops(nsFn) {
			if l.Kind == "slice" {
				loop = l
				for _, v := range varargValues(l.Coll) {
					if s, ok := constString(v); ok {
						keys = append(keys, s)
					}
				}
			}
		}
		// the verbs the tool declared when the rule was written, plus the remaining commands
		// that carry a query predicate the tool redacts (distinct, mapReduce): their
		// collection is "the collection named by the command verb" just the same
		required := []string{"ns", "aggregate", "insert", "find", "update", "collection", "delete", "$db", "count", "findAndModify", "findOneAndDelete", "replace", "findOneAndReplace", "findOneAndUpdate", "getIndexes", "countDocuments", "distinct", "mapReduce", "findandmodify"}
		have := map[string]bool{}
		for _, k := range keys {
			have[k] = true
		}
		var missing []string
		for _, k := range required {
			if !have[k] {
				missing = append(missing, k)
			}
		}
		// the written-out form (the list is a package-level table whose loop was unrolled, or the
		// rewrites were written one by one): Set(cmd, "K", HashName(cmd["K"].(string))) under
		// tests of cmd["K"] alone
		unrolledOK := false
		if loop == nil {
			unrolledOK = true
			allInstrs(nsFn, func(i ssa.Instruction) {
				call, ok := i.(*ssa.Call)
				if !ok || calleeKey(&call.Call) != omMethod("Set") || peel(call.Call.Args[0]) != ssa.Value(nsFn.Params[0]) {
					return
				}
				k, isC := constString(call.Call.Args[1])
				hc, isH := peel(call.Call.Args[2]).(*ssa.Call)
				if !isC || !isH || hc.Call.StaticCallee() != hn {
					unrolledOK = false
					return
				}
				rv, kv, okG := getKeyValueOf(hc.Call.Args[0])
				ks, isKC := constString(kv)
				if !okG || peel(rv) != ssa.Value(nsFn.Params[0]) || !isKC || ks != k {
					unrolledOK = false
					return
				}
				for _, a := range p.atomsAt(call.Block()) {
					subj := ""
					switch a.Kind {
					case "ok":
						if gc, isCall := a.X.(*ssa.Call); isCall && len(gc.Call.Args) > 1 {
							subj, _ = constString(gc.Call.Args[1])
						}
					case "typeis", "nil":
						subj, _ = getKeyOfValue(a.X)
					default:
						unrolledOK = false
					}
					if subj != k {
						unrolledOK = false // depends on another member: some lines skip this key
					}
				}
				keys = append(keys, k)
				have[k] = true
			})
			missing = nil
			for _, k := range required {
				if !have[k] {
					missing = append(missing, k)
				}
			}
			if len(keys) == 0 {
				unrolledOK = false
			}
		}
		r.Check(len(missing) == 0 && (loop != nil || unrolledOK), "C12-R3", nsFn.Name()+":verb-list", c.Pos(nsFn.Pos()), fmt.Sprintf("%d namespace-bearing command keys", len(keys)), fmt.Sprintf("namespace-bearing command keys no longer rewritten: %v", missing))
		// each key once: a name listed twice is rewritten twice - the pseudonym of the pseudonym
		{
			count := map[string]int{}
			var twice []string
			for _, k := range keys {
				count[k]++
				if count[k] == 2 {
					twice = append(twice, k)
				}
			}
			sort.Strings(twice)
			r.Check(len(twice) == 0, "C12-R3", nsFn.Name()+":verb-list-distinct", c.Pos(nsFn.Pos()), "every namespace-bearing key is listed once",
				fmt.Sprintf("listed more than once: %v - the rewriter visits the key again and stores HashName of the pseudonym it stored the first time, so the collection named by that verb gets a pseudonym that differs from the one in attr.ns and on other lines", twice))
		}
		okStore := false
		if loop != nil {
			allInstrs(nsFn, func(i ssa.Instruction) {
				call, ok := i.(*ssa.Call)
				if !ok || calleeKey(&call.Call) != omMethod("Set") || call.Call.Args[0] != ssa.Value(nsFn.Params[0]) {
					return
				}
				hc, ok := peel(call.Call.Args[2]).(*ssa.Call)
				if !ok || hc.Call.StaticCallee() != hn {
					return
				}
				// HashName(string of Get(cmd, field)) stored under the same field, for every iteration that has a string
				ex, ok := hc.Call.Args[0].(*ssa.Extract)
				if !ok {
					return
				}
				ta, ok := ex.Tuple.(*ssa.TypeAssert)
				if !ok {
					return
				}
				gx, ok := ta.X.(*ssa.Extract)
				if !ok {
					return
				}
				gc, ok := gx.Tuple.(*ssa.Call)
				if ok && calleeKey(&gc.Call) == omMethod("Get") && gc.Call.Args[0] == ssa.Value(nsFn.Params[0]) && gc.Call.Args[1] == call.Call.Args[1] && len(loop.Loop.earlyExits()) == 0 {
					okStore = true
				}
			})
		}
		if loop == nil && unrolledOK {
			okStore = true
		}
		r.Check(okStore, "C12-R3", nsFn.Name()+":store-shape", c.Pos(nsFn.Pos()), "for every listed key: Set(cmd, key, HashName(cmd[key].(string))), no early exit", "the rewriter does not store HashName of the string read from the same key for every listed key")
	}

	namespaceDocumentRule(c, r, p, "C12-R4")
	// ---- R4: tables + Namespace arms of the pipeline walker
	requiredNamespaces(c, r, "C12-R4")
	nArms := 0
	for _, s := range p.sinks(p.Zone) {
		if s.Kind != "set" {
			continue
		}
		atoms := p.atomsAt(s.Instr.Block())
		isNs, underFlag, isStr := false, false, false
		for _, a := range atoms {
			if a.Kind == "tbl" && a.Pol && a.Name == "Namespace" {
				isNs = true
			}
			if a.Kind == "cfg" && a.Pol && a.Name == "redactNamespaces" {
				underFlag = true
			}
			if a.Kind == "typeis" && a.Pol && isStringType(a.Type) {
				isStr = true
			}
		}
		if !(isNs && underFlag && isStr) {
			continue
		}
		nArms++
		okV := false
		if hc, ok := peel(s.Val).(*ssa.Call); ok && hc.Call.StaticCallee() == hn && p.Of(hc.Call.Args[0])&oIN != 0 {
			okV = true
		}
		r.Check(okV, "C12-R4", fmt.Sprintf("%s:namespace-arm-store", s.Fn.Name()), c.InstrPos(s.Instr), "Namespace-typed string argument stored as HashName(value) under the flag", "a Namespace-typed string argument is not replaced by its pseudonym under --redactNamespaces")
	}
	if nArms < 2 {
		r.Bad("C12-R4", "namespace-arms", "-", fmt.Sprintf("only %d Namespace arm(s) store a pseudonym under the flag (2 expected: top-level and sub-document arguments)", nArms))
	}
	// the string short forms {$out: "coll"}, {$unionWith: "coll"}, {$merge: "coll"}: the
	// whole argument is a collection name and must get its pseudonym under the flag
	{
		found := false
		for _, s := range p.sinks(p.Zone) {
			if s.Kind != "set" {
				continue
			}
			inSet, underFlag := false, false
			for _, a := range p.atomsAt(s.Instr.Block()) {
				if a.Kind == "inset" && a.Pol && p.Of(a.X)&oKEY != 0 {
					have := map[string]bool{}
					for _, m := range a.Set {
						have[m] = true
					}
					if have["$out"] && have["$unionWith"] && have["$merge"] {
						inSet = true
					}
				}
				if a.Kind == "cfg" && a.Pol && a.Name == "redactNamespaces" {
					underFlag = true
				}
			}
			if !inSet || !underFlag {
				continue
			}
			if hc, ok := peel(s.Val).(*ssa.Call); ok && hc.Call.StaticCallee() == hn && p.Of(hc.Call.Args[0])&oIN != 0 {
				found = true
			}
		}
		r.Check(found, "C12-R4", "stage-walker:namespace-stage-shorthand", c.Pos(root.Pos()),
			"a string argument of $out / $unionWith / $merge is stored as HashName(value) under the flag",
			"the string short forms {$out: \"coll\"}, {$unionWith: \"coll\"}, {$merge: \"coll\"} are not recognised as collection names: they become the generic placeholder (no longer the pseudonym the same collection has elsewhere) and stay in clear in selective mode")
	}
	// a Pipeline-typed array is a list of stages: it must be walked by the stage walker
	// (which knows the Namespace / FieldName / Exempt typing of stage arguments), element
	// by element - the query-array walker treats $lookup.from, $unionWith.coll ... of a
	// nested stage as ordinary values
	if sw := c.stageWalkerFn(); sw != nil {
		nPipe := 0
		for _, s := range p.sinks(p.Zone) {
			if s.Kind != "set" || s.Raw {
				continue
			}
			isPipe, isArr := false, false
			for _, a := range p.atomsAt(s.Instr.Block()) {
				if a.Kind == "tbl" && a.Pol && a.Name == "Pipeline" {
					isPipe = true
				}
				if a.Kind == "typeis" && a.Pol && isAnySlice(a.Type) {
					isArr = true
				}
			}
			if !isPipe || !isArr {
				continue
			}
			v := peel(s.Val)
			if !isAnySlice(v.Type()) {
				continue
			}
			nPipe++
			okStage := false
			detail := "the stored value is " + describeArg(v)
			if _, _, fresh := freshSlice(v); fresh {
				// every element store into the fresh slice is a stage-walker result
				okStage = true
				n := 0
				for _, rr := range referrers(v) {
					ia, ok := rr.(*ssa.IndexAddr)
					if !ok {
						continue
					}
					for _, r2 := range referrers(ia) {
						if st, ok := r2.(*ssa.Store); ok && st.Addr == ssa.Value(ia) {
							n++
							if call, ok := peel(st.Val).(*ssa.Call); !ok || call.Call.StaticCallee() != sw {
								okStage = false
							}
						}
					}
				}
				if n == 0 {
					okStage = false
				}
			} else if call, ok := v.(*ssa.Call); ok {
				detail = "the array is handed to " + shortKey(calleeKey(&call.Call)) + ", which walks its elements as query documents"
			}
			r.Check(okStage, "C12-R4", fmt.Sprintf("%s:pipeline-arm-walker", s.Fn.Name()), c.InstrPos(s.Instr),
				"the stages of a Pipeline-typed array are walked one by one by the stage walker",
				"a nested pipeline is not walked by the stage walker ("+detail+"): namespace-bearing arguments of its stages ($lookup.from, $unionWith.coll, $merge.into, $out) are treated as ordinary strings - not pseudonymised consistently, and kept in clear in selective mode")
		}
		if nPipe < 2 {
			r.Bad("C12-R4", "pipeline-arms", "-", fmt.Sprintf("only %d Pipeline arm(s) for array values found (2 expected)", nPipe))
		}
	}
	// under the flag a Namespace-typed argument is never handed on raw when it can be a
	// document: the {db, coll} form of $merge.into / $out / $lookup.from names collections too
	for _, s := range p.sinks(p.Zone) {
		if s.Kind != "set" || !s.Raw {
			continue
		}
		isNs, underFlag, notDoc := false, false, false
		root := rootOf(resolveLocal(s.Val))
		for _, a := range s.Atoms {
			if a.Kind == "tbl" && a.Pol && a.Name == "Namespace" {
				isNs = true
			}
			if a.Kind == "cfg" && a.Pol && a.Name == "redactNamespaces" {
				underFlag = true
			}
			if a.Kind == "typeis" && !a.Pol && isOrderedMapPtr(a.Type) && (rootOf(a.X) == root || a.X == s.Val) {
				notDoc = true
			}
		}
		if !(isNs && underFlag) {
			continue
		}
		r.Check(notDoc, "C12-R4", fmt.Sprintf("%s:namespace-arm-raw[%s]", s.Fn.Name(), atomsString(s.Atoms)), c.InstrPos(s.Instr),
			"the raw pass-through of the Namespace arm is reached only by values that are not documents",
			"under --redactNamespaces a Namespace-typed argument that is a document ({db: ..., coll: ...}) is stored unchanged: the database and collection names in it stay in clear")
	}

	// ---- R5: one pseudonym function (no second hashing site): shared with C13-R3
	nHash := 0
	for _, f := range c.SortedFuncs() {
		allInstrs(f, func(i ssa.Instruction) {
			cc := callCommonOf(i)
			if cc == nil {
				return
			}
			k := calleeKey(cc)
			if strings.HasSuffix(k, ".init") {
				return
			}
			if strings.HasPrefix(k, "crypto/sha") || strings.HasPrefix(k, "crypto/md5") || strings.HasPrefix(k, "hash/") {
				nHash++
				r.Check(f == hn, "C12-R5", fmt.Sprintf("%s:hash(%s)", f.Name(), shortKey(k)), c.InstrPos(i), "the only hashing site is the shared pseudonym function", "a second hashing site: names are not pseudonymised consistently")
			}
		})
	}
	r.Floor("C12-R5", 1, "hash call sites")

	// ---- R6: confinement
	confinementRule(c, r, p, "C12-R6", func(gs []string) bool { return true }, "--redactNamespaces / the field-name mode")
	{
		n, bad := rewriteBeforeReadProblems(c, root, "ns")
		r.Check(len(bad) == 0 && n > 0, "C12-R6", root.Name()+":ns-rewritten-after-its-last-read", c.Pos(root.Pos()),
			"attr.ns is rewritten only after every read of it: the per-line field-name mode and everything else is decided on the original namespace, so the flag changes nothing but the names",
			"with --redactNamespaces other decisions see the pseudonym instead of the namespace: "+strings.Join(bad, "; "))
	}
}

// ---------------------------------------------------------------- C15

// fnFlagParams: the boolean parameters that carry the field-name mode, found by
// propagation from the command walker's parameter bound to the per-line mode value.
func (p *Prov) fnFlagParams() (map[*ssa.Parameter]bool, ssa.Value) {
	flags := map[*ssa.Parameter]bool{}
	cmdFn := p.cmdWalker()
	if cmdFn == nil {
		return flags, nil
	}
	var modeVal ssa.Value
	for _, d := range callsIn(p.Root, func(k string, cc *ssa.Call) bool { return cc.Call.StaticCallee() == cmdFn }) {
		for i, a := range d.Call.Args {
			if isBoolType(a.Type()) && i < len(cmdFn.Params) {
				flags[cmdFn.Params[i]] = true
				modeVal = a
			}
		}
	}
	changed := true
	for changed {
		changed = false
		for f := range p.Zone {
			allInstrs(f, func(i ssa.Instruction) {
				call, ok := i.(*ssa.Call)
				if !ok {
					return
				}
				callee := p.c.staticPkgCallee(&call.Call)
				if callee == nil {
					return
				}
				for idx, a := range call.Call.Args {
					if prm, ok := a.(*ssa.Parameter); ok && flags[prm] && idx < len(callee.Params) && !flags[callee.Params[idx]] {
						flags[callee.Params[idx]] = true
						changed = true
					}
				}
			})
		}
	}
	return flags, modeVal
}

func ruleC15(c *Ctx, r *Report) {
	p := c.prov()
	for _, pr := range p.Problems {
		r.Undecided("C15-anchor", "prov", "-", pr)
	}
	if len(p.Problems) > 0 {
		return
	}
	// the namespaces given to --redactFieldNames are prefixes compared as written
	flagBinderRule(c, r, "C15-R1", "redactFieldNames")
	hn := c.Fn("HashName")
	cmdFn := p.cmdWalker()
	if hn == nil || cmdFn == nil {
		r.Undecided("C15-anchor", "anchors", "-", "pseudonym function / command walker not found")
		return
	}
	root := p.Root
	flags, modeVal := p.fnFlagParams()

	// ---- R1 gating
	r.Floor("C15-R1", 3, "mode definition + dispatch arguments + plan-summary guard")
	okMode := false
	detail := "the per-line mode is not a boolean that is true only via strings.HasPrefix(attr.ns, p)"
	var modeLoop *IterLoop
	if phi, ok := modeVal.(*ssa.Phi); ok {
		okMode = true
		for i, e := range phi.Edges {
			b, isC := constBool(e)
			if !isC {
				okMode = false
				detail = "the per-line mode has a non-constant source"
				continue
			}
			if b {
				found := false
				pred := phi.Block().Preds[i]
				for _, a := range p.atomsAt(pred) {
					if a.Kind == "hasprefix" && a.Pol && p.isEagerPrefixTest(a) {
						found = true
					}
				}
				if !found {
					okMode = false
					detail = "the mode can become true without strings.HasPrefix(attr.ns, <configured prefix>)"
				}
			}
		}
		for _, l := range iterLoops(root) {
			if l.Kind == "slice" {
				if ld, ok := l.Coll.(*ssa.UnOp); ok {
					if g, ok := ld.X.(*ssa.Global); ok && c.roleName(g) == "eagerRedactionPaths" {
						modeLoop = l
					}
				}
			}
		}
		if modeLoop == nil {
			okMode = false
			detail = "no range loop over the whole --redactFieldNames list"
		}
	}
	// ... and the configured list is what the user gave: --redactFieldNames reaches the list
	// through its setter unmodified (a "normalised" prefix selects other namespaces)
	flagWireRule(c, r, c.anchors(), "C15-R1", []flagWire{{"redactFieldNames", "SetEagerRedactionPaths", "eagerRedactionPaths"}})
	r.Check(okMode, "C15-R1", root.Name()+":mode-definition", c.Pos(root.Pos()), "mode is true only under strings.HasPrefix(attr.ns, p), p ranging over the whole configured list", detail)
	{
		_, bad := rewriteBeforeReadProblems(c, root, "ns")
		r.Check(len(bad) == 0, "C15-R1", root.Name()+":mode-reads-original-ns", c.Pos(root.Pos()),
			"the namespace the mode is decided on is the line's original attr.ns (no rewrite of attr.ns can precede the read)",
			"the per-line mode is decided on a rewritten namespace: "+strings.Join(bad, "; "))
	}
	// the operation's namespace: attr.ns, and - for commands that mongod logs under
	// "<db>.$cmd" (update / delete / insert batches) or lines that only carry attr.cmd -
	// the command's own $db and collection. The prefix test must be able to see the latter.
	{
		keys := map[string]bool{}
		allInstrs(root, func(i ssa.Instruction) {
			call, ok := i.(*ssa.Call)
			if !ok || calleeKey(&call.Call) != "strings.HasPrefix" {
				return
			}
			var visit func(v ssa.Value, depth int)
			visit = func(v ssa.Value, depth int) {
				if depth > 10 || v == nil {
					return
				}
				if k, ok := getKeyOfValue(v); ok {
					keys[k] = true
				}
				if in, ok := v.(ssa.Instruction); ok {
					for _, op := range in.Operands(nil) {
						if *op != nil {
							visit(*op, depth+1)
						}
					}
				}
			}
			visit(call.Call.Args[0], 0)
		})
		r.Check(keys["ns"] && keys["$db"], "C15-R1", root.Name()+":mode-namespace-sources", c.Pos(root.Pos()),
			"the namespace the mode is decided on is taken from attr.ns and, where that names the command collection, from the command's $db / collection",
			"the per-line mode looks at attr.ns only: update / delete commands that mongod logs under '<db>.$cmd', and error lines that carry only attr.cmd, never match --redactFieldNames <db>.<coll> and keep their field names")
	}
	for _, d := range callsIn(root, func(k string, cc *ssa.Call) bool { return cc.Call.StaticCallee() == cmdFn }) {
		key, _ := getKeyOfValue(d.Call.Args[0])
		okArg := false
		for _, a := range d.Call.Args {
			if a == modeVal && modeVal != nil {
				okArg = true
			}
		}
		r.Check(okArg, "C15-R1", fmt.Sprintf("%s:mode-argument(%s)", root.Name(), key), c.InstrPos(d), "command walker receives the per-line mode", "a command document is walked with a different mode value")
	}

	// ---- R2 parameter threading
	n := 0
	var fns []*ssa.Function
	for f := range p.Zone {
		fns = append(fns, f)
	}
	sort.Slice(fns, func(i, j int) bool { return fns[i].Name() < fns[j].Name() })
	for _, f := range fns {
		var own *ssa.Parameter
		for _, prm := range f.Params {
			if flags[prm] {
				own = prm
			}
		}
		allInstrs(f, func(i ssa.Instruction) {
			call, ok := i.(*ssa.Call)
			if !ok {
				return
			}
			callee := c.staticPkgCallee(&call.Call)
			if callee == nil {
				return
			}
			for idx, prm := range callee.Params {
				if !flags[prm] || idx >= len(call.Call.Args) {
					continue
				}
				n++
				a := call.Call.Args[idx]
				construct := fmt.Sprintf("%s:threads-flag-to(%s)", f.Name(), callee.Name())
				r.Check(own != nil && a == ssa.Value(own), "C15-R2", construct, c.InstrPos(i), "callee's field-name flag is the caller's own flag parameter", fmt.Sprintf("the field-name mode is %s at this call: below this point names are (not) renamed regardless of the line's namespace", describeArg(a)))
			}
		})
	}
	r.Floor("C15-R2", 20, "walker call sites carrying the flag (about 28 today)")

	// ---- R3 renaming sites
	r.Floor("C15-R3", 5, "map-walker key renames, '$'-string renames, sort dispatch")
	renamingLoops := 0
	for _, f := range fns {
		for _, ic := range p.walkerLoops(f) {
			if ic.Mode != "fresh-map" {
				continue
			}
			renames := false
			for _, s := range ic.Sinks {
				call, ok := s.(*ssa.Call)
				if !ok {
					continue
				}
				if phi, ok := call.Call.Args[1].(*ssa.Phi); ok {
					for _, e := range phi.Edges {
						if hc, ok := e.(*ssa.Call); ok && hc.Call.StaticCallee() == hn && p.isElemKey(hc.Call.Args[0], ic.Loop) {
							renames = true
						}
					}
				}
			}
			if renames {
				renamingLoops++
				r.Check(len(ic.KeyProblems) == 0, "C15-R3", ic.construct()+":key-rename", c.Pos(ic.Loop.Loop.Header.Instrs[0].Pos()), "non-operator keys stored as HashName(current key) under the flag parameter", strings.Join(ic.KeyProblems, "; "))
			} else {
				// a loop of a flag-carrying walker that rebuilds a document of the input under
				// its own keys and never renames them: its keys stay in clear under the mode
				// (the output-field names of $facet - hunt 4, F-60)
				carriesFlag := false
				for _, prm := range f.Params {
					if flags[prm] {
						carriesFlag = true
					}
				}
				storesKey := false
				for _, sk := range ic.Sinks {
					if call, ok := sk.(*ssa.Call); ok && len(call.Call.Args) > 1 && p.isElemKey(call.Call.Args[1], ic.Loop) {
						storesKey = true
					}
				}
				if carriesFlag && storesKey {
					r.Bad("C15-R3", ic.construct()+":keys-never-renamed", c.Pos(ic.Loop.Loop.Header.Instrs[0].Pos()),
						"a document of the input is rebuilt member by member under its own keys, and no path renames a key under the field-name flag: names the client chose (the output fields of $facet) stay in clear although the stages that refer to them are renamed")
				}
			}
		}
	}
	if renamingLoops < 3 {
		r.Bad("C15-R3", "renaming-loops", "-", fmt.Sprintf("only %d map-walker loop(s) rename keys under the flag (query walker, stage walker, stage sub-document expected)", renamingLoops))
	}
	dollarRenames := 0
	for _, s := range p.sinks(p.Zone) {
		hc, ok := peel(s.Val).(*ssa.Call)
		if !ok || hc.Call.StaticCallee() != hn {
			continue
		}
		atoms := p.atomsAt(s.Instr.Block())
		hasDollar, hasFlag := false, false
		for _, a := range atoms {
			if a.Kind == "dollar" && a.Pol {
				hasDollar = true
			}
			if a.Kind == "param" && a.Pol {
				hasFlag = true
			}
		}
		if hasDollar && hasFlag && (s.Kind == "set" || s.Kind == "store") {
			dollarRenames++
			// argument is the '$'-string itself
			okArg := p.Of(hc.Call.Args[0])&oIN != 0
			r.Check(okArg, "C15-R3", fmt.Sprintf("%s:%s-dollar-string-rename", s.Fn.Name(), s.Kind), c.InstrPos(s.Instr), "'$field' reference stored as HashName(reference) under the flag", "'$field' rename does not hash the reference itself")
		}
	}
	if dollarRenames < 2 {
		r.Bad("C15-R3", "dollar-renames", "-", fmt.Sprintf("only %d '$field' rename site(s) (query walker and array walker expected)", dollarRenames))
	}
	// each of the three value walkers (query documents, stage documents, arrays) renames a
	// '$field' reference it meets as a value: a reference that is a direct member of a
	// stage document ({$group: {_id: "$city"}}, {$max: "$f"}) is a value like any other
	renamesIn := map[*ssa.Function]bool{}
	nValueRenames := 0
	ordOf := map[*ssa.Function]int{}
	valueRenameOrd := func(f *ssa.Function) int { ordOf[f]++; return ordOf[f] }
	for _, s := range p.sinks(p.Zone) {
		hc, ok := peel(s.Val).(*ssa.Call)
		if !ok || hc.Call.StaticCallee() != hn || (s.Kind != "set" && s.Kind != "store") {
			continue
		}
		hasDollar, hasFlag := false, false
		for _, a := range p.atomsAt(s.Instr.Block()) {
			if a.Kind == "dollar" && a.Pol && (rootOf(a.X) == rootOf(hc.Call.Args[0]) || a.X == hc.Call.Args[0]) {
				hasDollar = true
			}
			if a.Kind == "param" && a.Pol {
				hasFlag = true
			}
		}
		if hasDollar && hasFlag {
			renamesIn[s.Fn] = true
		}
		// operators occur as keys only: whether a value is renamed must not be decided by
		// looking the value up in the operator tables ("$type", "$date", "$size" are fields here)
		byTable := ""
		for _, a := range p.atomsAt(s.Instr.Block()) {
			lc, isCall := a.X.(*ssa.Call)
			if a.Kind != "ok" || a.Pol || !isCall {
				continue
			}
			for _, arg := range lc.Call.Args {
				for _, v := range append(varargValues(arg), arg) {
					if v == hc.Call.Args[0] || (rootOf(v) != nil && rootOf(v) == rootOf(hc.Call.Args[0])) {
						byTable = a.Name
					}
				}
			}
		}
		nValueRenames++
		r.Check(byTable == "", "C15-R3", fmt.Sprintf("%s:value-rename-not-decided-by-operator-table#%d", s.Fn.Name(), valueRenameOrd(s.Fn)), c.InstrPos(s.Instr),
			"the reference is renamed whatever its spelling",
			"a name met as a value is renamed only when "+byTable+"(value) finds no operator of that spelling: references to fields called like an operator or stage ('$type', '$date', '$size', '$count', '$position') stay in clear although the same fields are renamed as keys and in the plan summary")
	}
	r.Analysed["value_rename_sites"] = nValueRenames
	var valueWalkers []*ssa.Function
	if sw := c.stageWalkerFn(); sw != nil {
		valueWalkers = append(valueWalkers, sw)
	}
	for _, f := range fns {
		if f == c.stageWalkerFn() {
			continue
		}
		// the query walker (ordered map in, ordered map out) and the in-place array walker
		res := f.Signature.Results()
		hasFlag := false
		for _, prm := range f.Params {
			if flags[prm] {
				hasFlag = true
			}
		}
		if hasFlag && res.Len() == 1 && (isOrderedMapPtr(res.At(0).Type()) || isAnySlice(res.At(0).Type())) && len(p.walkerLoops(f)) > 0 {
			valueWalkers = append(valueWalkers, f)
		}
	}
	for _, f := range valueWalkers {
		r.Check(renamesIn[f], "C15-R3", f.Name()+":dollar-string-value-renamed", c.Pos(f.Pos()),
			"a '$field' reference met as a value is stored as HashName(reference) under the flag",
			"this walker never renames a '$field' reference it meets as a value: under --redactFieldNames such a reference becomes the generic placeholder instead of the pseudonym the same field has as a key")
	}
	// ... and no reference is let through unrenamed while the flag is on: every raw pass-through
	// that is licensed as a '$field' reference (J4) or as a string in a FieldName position (J2)
	// lies under "the field-name flag is off" wherever the walker has that flag
	keptOrd := map[string]int{}
	okOrd := map[string]int{}
	for _, s := range p.sinks(p.Zone) {
		if !s.Raw || !(strings.HasPrefix(s.Just, "J4") || s.Just == "J2:tbl==FieldName&string") {
			continue
		}
		hasFlag := false
		for _, prm := range s.Fn.Params {
			if flags[prm] {
				hasFlag = true
			}
		}
		if !hasFlag {
			continue
		}
		flagOff := false
		var split func(as []Atom, depth int) bool
		split = func(as []Atom, depth int) bool {
			for _, a := range as {
				if a.Kind == "param" && !a.Pol {
					return true
				}
			}
			if depth >= 2 {
				return false
			}
			// under a disjunction: every case must establish it
			for i, a := range as {
				if a.Kind != "or" || len(a.Or) < 2 {
					continue
				}
				all := true
				for _, d := range a.Or {
					rest := append(append(append([]Atom{}, as[:i]...), as[i+1:]...), d)
					rest = append(rest, d.And...)
					if !split(rest, depth+1) {
						all = false
					}
				}
				if all {
					return true
				}
			}
			return false
		}
		flagOff = split(s.Atoms, 0)
		what := "a '$field' reference"
		if strings.HasPrefix(s.Just, "J2") {
			what = "a field name in a FieldName position (a search path, an output field)"
		}
		// instances are numbered among the offending ones only (in source order), so that a
		// listed finding keeps its key when code around it is restructured
		ord := 0
		if !flagOff {
			keptOrd[s.Fn.Name()+s.Kind]++
			ord = keptOrd[s.Fn.Name()+s.Kind]
		} else {
			okOrd[s.Fn.Name()+s.Kind]++
			ord = 100 + okOrd[s.Fn.Name()+s.Kind]
		}
		r.Check(flagOff, "C15-R3", fmt.Sprintf("%s:reference-kept-only-without-the-flag(%s)#%d", s.Fn.Name(), s.Kind, ord), c.InstrPos(s.Instr),
			what+" is passed through unchanged only where the field-name flag is off",
			what+" is emitted unchanged although the field-name mode can be on here: the name stays in clear while the same field is renamed as a key, in the sort document and in the plan summary")
	}
	// a key that starts with '$' is an operator / extended-JSON wrapper, never a user field:
	// every key rename is guarded by "does not start with '$'"
	for _, call := range p.hashCallSites() {
		feedsKey := false
		seen := map[ssa.Value]bool{}
		var visit func(v ssa.Value)
		visit = func(v ssa.Value) {
			if seen[v] {
				return
			}
			seen[v] = true
			for _, use := range referrers(v) {
				switch x := use.(type) {
				case *ssa.Phi:
					visit(x)
				case *ssa.Call:
					if calleeKey(&x.Call) == omMethod("Set") && x.Call.Args[1] == v {
						feedsKey = true
					}
				}
			}
		}
		visit(call)
		if !feedsKey {
			continue
		}
		notOp := false
		for _, a := range p.atomsAt(call.Block()) {
			if a.Kind == "dollar" && !a.Pol && (a.X == call.Call.Args[0] || rootOf(a.X) == rootOf(call.Call.Args[0])) {
				notOp = true
			}
		}
		r.Check(notOp, "C15-R3", fmt.Sprintf("%s:key-rename-not-an-operator", call.Parent().Name()), c.InstrPos(call),
			"a key is renamed only where it is known not to start with '$'",
			"a key is renamed without a test that it does not start with '$': operator and wrapper keys missing from the tables ($options, $numberLong, accumulators ...) are pseudonymised as if they were user fields, so the line differs structurally from the run without the flag")
	}
	c01Dispatch2(c, r, p, []string{"sort"}, "C15-R3")
	// documents of a command whose KEYS are field names (values are directions / flags /
	// bounds): under the mode their keys must be renamed like the filter's
	{
		zs := p.zoneSets(cmdFn)
		for _, k := range []string{"projection", "hint", "min", "max", "fields"} {
			r.Check(len(zs[k]) > 0, "C15-R3", fmt.Sprintf("%s:field-name-zone(%s)", cmdFn.Name(), k), c.Pos(cmdFn.Pos()),
				"cmd["+k+"] is walked under the field-name mode",
				"cmd["+k+"] is never walked: the field names renamed in the filter, the sort document and the plan summary remain in clear as keys of "+k)
		}
		// a member whose VALUE is a field name: distinct.key
		r.Check(len(zs["key"]) > 0, "C15-R3", fmt.Sprintf("%s:field-name-value(key)", cmdFn.Name()), c.Pos(cmdFn.Pos()),
			"cmd[key] (the field of a distinct command) is renamed under the field-name mode",
			"cmd[key] is never rewritten: the field a distinct command asks for stays in clear although the same name is renamed in its query and in the plan summary (DISTINCT_SCAN { ... })")
	}
	// output-field names that later stages use as field names are FieldName positions
	// (kept in clear by default, renamed with the field under the flag) - not Exempt
	{
		t := c.reconstructTables()
		for _, w := range [][]string{{"AggregationOperators", "$lookup", "as"}} {
			v, ok := t.Lookup(w[0], w[1:]...)
			name := w[0] + ":" + strings.Join(w[1:], ".")
			r.Check(ok && v.Kind == "leaf" && t.LeafName(v) == "FieldName", "C15-R3", "table:"+name+"=FieldName", "src/operators.go",
				"typed FieldName: renamed consistently with the keys that refer to it",
				fmt.Sprintf("%s is %s: under --redactFieldNames the name stays in clear (or becomes the generic placeholder) while the $match / $sort keys that refer to it are renamed", name, map[bool]string{true: t.LeafName(v), false: "absent"}[ok]))
		}
	}

	// the rename test asks the core table about the key alone (no parent context): every
	// top-level key of that table is taken for an operator wherever it stands, so a key
	// without '$' there is a user field name that can never be renamed
	{
		t := c.reconstructTables()
		core := t.Globals["CoreOperators"]
		if core == nil {
			r.Undecided("C15-R3", "table:CoreOperators", "src/operators.go", "core operator table not reconstructed")
		} else {
			var bare []string
			for _, k := range core.Keys {
				if !strings.HasPrefix(k, "$") {
					bare = append(bare, k)
				}
			}
			sort.Strings(bare)
			r.Analysed["core_table_top_level_keys"] = len(core.Keys)
			r.Check(len(bare) == 0 && len(core.Keys) >= 100, "C15-R3", "table:CoreOperators:top-level-keys-are-operators", "src/operators.go",
				fmt.Sprintf("%d top-level keys, all '$'-prefixed", len(core.Keys)),
				fmt.Sprintf("top-level keys without '$' %v (of %d): the key-rename test looks the key up alone, so user fields with these names are taken for operators and stay in clear in filters, sort documents and $match / $sort stages while the plan summary renames them", bare, len(core.Keys)))
		}
	}

	// ---- R4 confinement of renames
	confinementRule(c, r, p, "C15-R4", func(gs []string) bool { return true }, "the field-name mode / --redactNamespaces")

	// ---- R5 plan summary
	r.Floor("C15-R5", 3, "guard reachability, rewrite uses HashName, no rewriting over own output")
	var psSet *ssa.Call
	allInstrs(root, func(i ssa.Instruction) {
		if call, ok := i.(*ssa.Call); ok && calleeKey(&call.Call) == omMethod("Set") {
			if k, ok := constString(call.Call.Args[1]); ok && k == "planSummary" {
				psSet = call
			}
		}
	})
	if psSet == nil {
		r.Bad("C15-R5", root.Name()+":set(planSummary)", c.Pos(root.Pos()), "the plan summary is never rewritten")
		return
	}
	var planFn *ssa.Function
	if pc, ok := peel(psSet.Call.Args[2]).(*ssa.Call); ok {
		planFn = c.staticPkgCallee(&pc.Call)
		if k, ok := getKeyOfValue(pc.Call.Args[0]); !ok || k != "planSummary" {
			planFn = nil
		}
	}
	var modeIf *ssa.If
	for _, f := range allFacts(psSet.Block()) {
		if f.Cond == modeVal && f.Pol {
			modeIf = f.If
		}
	}
	r.Check(planFn != nil && modeIf != nil, "C15-R5", root.Name()+":set(planSummary)", c.InstrPos(psSet), "attr.planSummary replaced by the rewrite of the same value under the per-line mode", "plan summary rewrite is not Set(attr,\"planSummary\", rewrite(attr.planSummary)) under the per-line mode")
	if modeIf != nil && modeLoop != nil {
		// every path from the end of the mode computation to a successful return passes the mode test
		startB := modeVal.(*ssa.Phi).Block()
		q := &pathQuery{
			witness: func(i ssa.Instruction) bool { return i == ssa.Instruction(modeIf) },
			isEnd: func(i ssa.Instruction) (string, bool) {
				if _, ok := i.(*ssa.Return); ok {
					return "return", true
				}
				return "", false
			},
		}
		ends := q.run(startB, 0, false)
		var where []string
		for _, e := range ends {
			where = append(where, c.InstrPos(e.Instr))
		}
		r.Check(len(ends) == 0, "C15-R5", root.Name()+":plan-summary-on-every-path", c.InstrPos(psSet), "every return after the mode is computed passes the mode test guarding the plan-summary rewrite", fmt.Sprintf("the line function can return at %v before the plan-summary rewrite: index key names stay in clear on such lines", where))
	}
	if planFn != nil {
		usesHash := false
		selfRewrite := []string{}
		for f := range c.pkgReach(planFn) {
			if f == hn || c.pkgReach(hn)[f] {
				continue
			}
			loops := naturalLoops(f)
			allInstrs(f, func(i ssa.Instruction) {
				call, ok := i.(*ssa.Call)
				if !ok {
					return
				}
				if call.Call.StaticCallee() == hn {
					usesHash = true
				}
				k := calleeKey(&call.Call)
				if k == "strings.ReplaceAll" || k == "strings.Replace" {
					hay := call.Call.Args[0]
					// loop-carried haystack: a phi in a loop header one of whose edges is this call's result
					if phi, ok := hay.(*ssa.Phi); ok {
						for _, l := range loops {
							if l.Header == phi.Block() {
								for _, e := range phi.Edges {
									if e == ssa.Value(call) {
										selfRewrite = append(selfRewrite, c.InstrPos(i))
									}
								}
							}
						}
					}
				}
			})
		}
		r.Check(usesHash, "C15-R5", planFn.Name()+":uses-HashName", c.Pos(planFn.Pos()), "index key names are replaced by HashName pseudonyms (same function as the filter keys)", "the plan-summary rewrite does not use the shared pseudonym function: names no longer line up with the filter")
		r.Check(len(selfRewrite) == 0, "C15-R5", planFn.Name()+":single-pass", c.Pos(planFn.Pos()), "no substring replacement is applied to its own previous output", fmt.Sprintf("strings.Replace* over its own previous result at %v: later names are replaced inside earlier pseudonyms / the prefix / 'IXSCAN'", selfRewrite))
		planSummaryTokenizerRule(c, r, planFn)
		pseudonymVerbatimRule(c, r, hn, "C15-R5")
	}
}

// planSummaryTokenizerRule: the constant regular expressions that cut the plan summary
// into index-key tokens are evaluated by the checker (constant folding on source
// constants, no repository code runs) on probe summaries: every key - in particular a
// dotted path of an embedded field - must come out as one whole token, because the
// pseudonym of a path is built from the whole path and has to equal the one the same
// path gets as a filter / sort key.
func planSummaryTokenizerRule(c *Ctx, r *Report, planFn *ssa.Function) {
	pats := map[*ssa.Global]string{}
	if initFn := c.Fn("init"); initFn != nil {
		allInstrs(initFn, func(i ssa.Instruction) {
			if st, ok := i.(*ssa.Store); ok {
				if g, ok := st.Addr.(*ssa.Global); ok {
					if call, ok := st.Val.(*ssa.Call); ok && calleeKey(&call.Call) == "regexp.MustCompile" {
						if p, ok := constString(call.Call.Args[0]); ok {
							pats[g] = p
						}
					}
				}
			}
		})
	}
	// regexps used by the rewrite, ordered by closure nesting depth (outer block regexp first)
	type used struct {
		g     *ssa.Global
		depth int
	}
	var us []used
	seen := map[*ssa.Global]bool{}
	for f := range c.pkgReach(planFn) {
		depth := 0
		for q := f; q != nil && q != planFn; q = q.Parent() {
			depth++
		}
		if f != planFn && f.Parent() == nil {
			continue // a named helper (the pseudonym function): not part of the tokenizer
		}
		allInstrs(f, func(i ssa.Instruction) {
			cc := callCommonOf(i)
			if cc == nil || !strings.HasPrefix(calleeKey(cc), "(*regexp.Regexp).") || len(cc.Args) == 0 {
				return
			}
			if ld, ok := cc.Args[0].(*ssa.UnOp); ok {
				if g, ok := ld.X.(*ssa.Global); ok && !seen[g] {
					if strings.Contains(calleeKey(cc), "Replace") || strings.Contains(calleeKey(cc), "FindAll") {
						seen[g] = true
						us = append(us, used{g, depth})
					}
				}
			}
		})
	}
	sort.Slice(us, func(i, j int) bool { return us[i].depth < us[j].depth })
	construct := planFn.Name() + ":key-tokenizer"
	if len(us) == 0 || len(us) > 2 {
		r.Undecided("C15-R5", construct, c.Pos(planFn.Pos()), fmt.Sprintf("%d constant regular expressions drive the plan-summary rewrite (1 or 2 expected)", len(us)))
		return
	}
	var res []*regexp.Regexp
	var shown []string
	for _, u := range us {
		p, ok := pats[u.g]
		if !ok {
			r.Undecided("C15-R5", construct, c.Pos(planFn.Pos()), "regexp "+u.g.Name()+" is not compiled from a constant pattern")
			return
		}
		re, err := regexp.Compile(p)
		if err != nil {
			r.Bad("C15-R5", construct, c.Pos(planFn.Pos()), "pattern of "+u.g.Name()+" does not compile: "+err.Error())
			return
		}
		res = append(res, re)
		shown = append(shown, u.g.Name()+"="+p)
	}
	probes := []struct {
		summary string
		keys    []string
	}{
		{"IXSCAN { foo: 1 }", []string{"foo"}},
		{"IXSCAN { homeAddress.postcode: 1, a_b.c-d: -1 }", []string{"homeAddress.postcode", "a_b.c-d"}},
		{"IXSCAN { _id: 1 }, IXSCAN { orders.items.sku : 1, ts:-1 }", []string{"_id", "orders.items.sku", "ts"}},
		{"COLLSCAN", nil},
		{"COUNT_SCAN { status: 1 }", []string{"status"}},
		{"DISTINCT_SCAN { city: 1, owner.name: 1 }", []string{"city", "owner.name"}},
		{"EXPRESS_IXSCAN { _id: 1 }", []string{"_id"}},
		{"IXSCAN { caf\u00e9.prix: 1, $**: 1 }", []string{"caf\u00e9.prix", "$**"}},
		// field names may hold spaces (hunt 4, F-61): the key is what stands between '{' / ',' and ':'
		{"IXSCAN { Maiden Surname: 1, address.Home Town: -1 }", []string{"Maiden Surname", "address.Home Town"}},
	}
	var bad []string
	for _, pr := range probes {
		pieces := []string{pr.summary}
		for _, re := range res {
			var next []string
			for _, p := range pieces {
				next = append(next, re.FindAllString(p, -1)...)
			}
			pieces = next
		}
		var names []string
		for _, t := range pieces {
			names = append(names, strings.TrimSpace(strings.TrimSuffix(strings.TrimSpace(t), ":")))
		}
		if len(res) == 1 {
			// single-level tokenizer: tokens may carry the stage word; accept names that end with a key
			// (not used by today's two-level form)
		}
		if strings.Join(names, "|") != strings.Join(pr.keys, "|") {
			bad = append(bad, fmt.Sprintf("%q is cut into %q, the index keys are %q", pr.summary, names, pr.keys))
		}
	}
	r.Check(len(bad) == 0, "C15-R5", construct, c.Pos(planFn.Pos()),
		fmt.Sprintf("the constant tokenizer (%s) yields every index key, dotted paths included, as one whole token on %d probe summaries (evaluated by the checker on the source constants)", strings.Join(shown, " ; "), len(probes)),
		"the plan-summary tokenizer does not isolate whole index keys, so a key's pseudonym differs from the one the same path gets in the filter (or part of the name stays in clear): "+strings.Join(bad, "; "))
}

func describeArg(a ssa.Value) string {
	if b, ok := constBool(a); ok {
		return fmt.Sprintf("the constant %v", b)
	}
	if prm, ok := a.(*ssa.Parameter); ok {
		return "parameter " + prm.Name()
	}
	return "another value"
}

// c01Dispatch2: zone-key dispatch check for extra keys (sort) without re-checking the dispatch sites.
func c01Dispatch2(c *Ctx, r *Report, p *Prov, zoneKeys []string, rule string) {
	cmdFn := p.cmdWalker()
	if cmdFn == nil {
		return
	}
	sets := p.zoneSets(cmdFn)
	for _, k := range zoneKeys {
		construct := fmt.Sprintf("%s:zone(%s)", cmdFn.Name(), k)
		if len(sets[k]) == 0 {
			r.Bad(rule, construct, c.Pos(cmdFn.Pos()), "the "+k+" document is not walked: its field names stay in clear under --redactFieldNames")
			continue
		}
		zs := sets[k][len(sets[k])-1]
		r.Check(zs.srcOK, rule, construct, c.InstrPos(zs.call), "cmd["+k+"] replaced by the walker's result for cmd["+k+"]"+zs.via, "cmd["+k+"] is not the walker's result for the same key")
	}
}
