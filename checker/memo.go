package main

// Complete-key memo.
//
// "No package-level state is both written and read on the line path" (C06-R1a, C07-R4, C14-R1)
// is what keeps one line from influencing the next. One shape of state cannot do that: a
// single-entry memo whose hit requires the FULL key to be equal and whose stored value is
// what the miss path computes from that key alone -
//
//	if cache.value != nil && bytes.Equal(cache.key, key) { return cache.value }
//	v := build(key) ...
//	cache.key = bytes.Clone(key); cache.value = v
//
// Invariant: whenever cache.value is read under `equal(cache.key, key)`, it is build(key) for
// this very key - the answer the miss path would give. The rule accepts exactly that shape and
// nothing looser: the comparison is bytes.Equal / slices.Equal / == on the whole key (no digest,
// prefix or length), the key is stored as a private copy (or is an immutable string) in the same
// block as the value, the value's data flow starts at the key parameter and constants only
// (no other parameter, no package-level variable), every read of the value that is more than a
// nil test lies under the equality, and nothing else in the analysed functions touches the
// variable. That the computation itself is deterministic and state-free is what the other
// line-path rules (R1a for its callees, R1d, the whole-program query) decide.

import (
	"fmt"
	"go/token"
	"go/types"
	"strings"

	"golang.org/x/tools/go/ssa"
)

type memoInfo struct {
	ok       bool
	why      string
	keyField int
	// per function: the value stored into each value field
	stored map[*ssa.Function]map[int]ssa.Value
}

func (c *Ctx) completeKeyMemo(g *ssa.Global, u *globalUse) *memoInfo {
	if c.memoCache == nil {
		c.memoCache = map[*ssa.Global]*memoInfo{}
	}
	if m, ok := c.memoCache[g]; ok {
		return m
	}
	// the shape must hold in every function of the package that touches the variable, whether
	// or not the asking rule looks at that function
	allFns := map[*ssa.Function]bool{}
	var addFn func(f *ssa.Function)
	addFn = func(f *ssa.Function) {
		allFns[f] = true
		for _, a := range f.AnonFuncs {
			addFn(a)
		}
	}
	for _, f := range c.SortedFuncs() {
		addFn(f)
	}
	if ua := c.modRef(allFns)[g]; ua != nil {
		u = ua
	}
	m := c.completeKeyMemo0(g, u)
	c.memoCache[g] = m
	return m
}

func isMutexType(t types.Type) bool {
	s := t.String()
	return s == "sync.Mutex" || s == "sync.RWMutex"
}

func (c *Ctx) completeKeyMemo0(g *ssa.Global, u *globalUse) *memoInfo {
	m := &memoInfo{keyField: -1, stored: map[*ssa.Function]map[int]ssa.Value{}}
	fail := func(format string, a ...any) *memoInfo {
		m.why = fmt.Sprintf(format, a...)
		return m
	}
	pt, ok := g.Type().Underlying().(*types.Pointer)
	if !ok {
		return fail("not a variable")
	}
	st, ok := pt.Elem().Underlying().(*types.Struct)
	if !ok {
		return fail("not a struct of (key, value)")
	}
	fns := map[*ssa.Function]bool{}
	for _, i := range append(append([]ssa.Instruction{}, u.reads...), u.writes...) {
		fns[i.Parent()] = true
	}
	fieldOfAddr := func(a ssa.Value) int {
		fa, ok := a.(*ssa.FieldAddr)
		if !ok || fa.X != ssa.Value(g) {
			return -1
		}
		return fa.Field
	}
	for f := range fns {
		// the equality test of the key
		var key *ssa.Parameter
		var eqCond ssa.Value
		kf := -1
		isKeyLoad := func(v ssa.Value) int {
			ld, ok := peel(v).(*ssa.UnOp)
			if !ok || ld.Op != token.MUL {
				return -1
			}
			return fieldOfAddr(ld.X)
		}
		paramOf := func(v ssa.Value) *ssa.Parameter {
			p, _ := canon(peel(v)).(*ssa.Parameter)
			if p != nil && p.Parent() == f {
				return p
			}
			return nil
		}
		nEq := 0
		allInstrs(f, func(i ssa.Instruction) {
			var a, b ssa.Value
			var cond ssa.Value
			switch x := i.(type) {
			case *ssa.Call:
				k := calleeKey(&x.Call)
				if (k == "bytes.Equal" || strings.HasPrefix(k, "slices.Equal")) && len(x.Call.Args) == 2 {
					a, b, cond = x.Call.Args[0], x.Call.Args[1], x
				}
			case *ssa.BinOp:
				if x.Op == token.EQL && isStringType(x.X.Type()) {
					a, b, cond = x.X, x.Y, x
				}
			}
			if cond == nil {
				return
			}
			for _, pr := range [][2]ssa.Value{{a, b}, {b, a}} {
				if fld := isKeyLoad(pr[0]); fld >= 0 {
					if p := paramOf(pr[1]); p != nil {
						nEq++
						kf, key, eqCond = fld, p, cond
					}
				}
			}
		})
		if nEq != 1 {
			return fail("%s: %d whole-key equality tests between a field of the variable and a parameter (exactly one expected)", f.Name(), nEq)
		}
		if m.keyField >= 0 && m.keyField != kf {
			return fail("the functions disagree about the key field")
		}
		m.keyField = kf
		underEq := func(b *ssa.BasicBlock) bool {
			for _, fc := range allFacts(b) {
				if fc.Cond == eqCond && fc.Pol {
					return true
				}
			}
			return false
		}
		// reads
		var bad string
		allInstrs(f, func(i ssa.Instruction) {
			if bad != "" {
				return
			}
			switch x := i.(type) {
			case *ssa.UnOp:
				if x.Op != token.MUL {
					return
				}
				if x.X == ssa.Value(g) {
					bad = "the variable is copied whole at " + c.InstrPos(i)
					return
				}
				fld := fieldOfAddr(x.X)
				if fld < 0 {
					if globalRoot(x.X, 0) == g {
						bad = "a part of the variable is read in a way the rule does not know at " + c.InstrPos(i)
					}
					return
				}
				if fld == kf {
					for _, use := range referrers(x) {
						if _, isDbg := use.(*ssa.DebugRef); isDbg {
							continue
						}
						if use != eqCond.(ssa.Instruction) {
							bad = "the stored key is used for something else than the equality test at " + c.InstrPos(use)
						}
					}
					return
				}
				for _, use := range referrers(x) {
					switch y := use.(type) {
					case *ssa.DebugRef:
					case *ssa.BinOp:
						if (y.Op == token.EQL || y.Op == token.NEQ) && (isNilConst(y.X) || isNilConst(y.Y)) {
							continue
						}
						bad = "the stored value is compared at " + c.InstrPos(use)
					case *ssa.Phi:
						for ei, e := range y.Edges {
							if e == ssa.Value(x) && !underEq(y.Block().Preds[ei]) {
								bad = "the stored value is used where the keys were not found equal (" + c.InstrPos(use) + ")"
							}
						}
					default:
						if !underEq(use.Block()) {
							bad = "the stored value is used where the keys were not found equal (" + c.InstrPos(use) + ")"
						}
					}
				}
			case *ssa.Store:
				if x.Addr == ssa.Value(g) {
					bad = "the variable is overwritten whole at " + c.InstrPos(i)
				}
			}
		})
		if bad != "" {
			return fail("%s: %s", f.Name(), bad)
		}
		// writes
		var keyStore *ssa.Store
		var valStores []*ssa.Store
		allInstrs(f, func(i ssa.Instruction) {
			stt, ok := i.(*ssa.Store)
			if !ok {
				return
			}
			fld := fieldOfAddr(stt.Addr)
			if fld < 0 {
				if globalRoot(stt.Addr, 0) == g && bad == "" {
					bad = "a part of the variable is written in a way the rule does not know at " + c.InstrPos(i)
				}
				return
			}
			if isMutexType(st.Field(fld).Type()) {
				return
			}
			if fld == kf {
				if keyStore != nil {
					bad = "the key is stored at more than one place"
				}
				keyStore = stt
			} else {
				valStores = append(valStores, stt)
			}
		})
		if bad != "" {
			return fail("%s: %s", f.Name(), bad)
		}
		if keyStore == nil || len(valStores) == 0 {
			return fail("%s: key and value are not stored together", f.Name())
		}
		// the key is kept as a private copy
		kv := canon(peel(keyStore.Val))
		okCopy := false
		if isStringType(kv.Type()) && kv == ssa.Value(key) {
			okCopy = true
		}
		if call, isCall := kv.(*ssa.Call); isCall {
			k := calleeKey(&call.Call)
			if (k == "bytes.Clone" || strings.HasPrefix(k, "slices.Clone")) && canon(peel(call.Call.Args[0])) == ssa.Value(key) {
				okCopy = true
			}
			if k == "builtin append" && len(call.Call.Args) == 2 && canon(peel(call.Call.Args[1])) == ssa.Value(key) {
				base := canon(peel(call.Call.Args[0]))
				if isNilConst(base) {
					okCopy = true
				} else if n, _, fresh := freshSlice(base); fresh && n == 0 {
					okCopy = true
				}
			}
		}
		if !okCopy {
			return fail("%s: the key is not stored as a private copy of the parameter (bytes.Clone / append(nil, key...) / a string): the caller's later writes to its slice would change the stored key too", f.Name())
		}
		m.stored[f] = map[int]ssa.Value{}
		for _, vs := range valStores {
			if vs.Block() != keyStore.Block() {
				return fail("%s: key and value are stored in different blocks (one can be updated without the other)", f.Name())
			}
			if why := impureFrom(vs.Val, key, 0, map[ssa.Value]bool{}); why != "" {
				return fail("%s: the stored value is not computed from the key alone: %s", f.Name(), why)
			}
			m.stored[f][fieldOfAddr(vs.Addr)] = canon(peel(vs.Val))
		}
	}
	m.ok = true
	return m
}

// impureFrom: "" when v's data flow starts at key and constants only.
func impureFrom(v ssa.Value, key *ssa.Parameter, depth int, seen map[ssa.Value]bool) string {
	if depth > 14 {
		return "data flow too deep to follow"
	}
	v = canon(peel(v))
	if seen[v] {
		return ""
	}
	seen[v] = true
	switch x := v.(type) {
	case *ssa.Const:
		return ""
	case *ssa.Parameter:
		if x == key {
			return ""
		}
		return "depends on parameter " + x.Name()
	case *ssa.Function, *ssa.Builtin:
		return ""
	case *ssa.Global:
		return "depends on package-level variable " + x.Name()
	case *ssa.FreeVar:
		return "depends on a captured variable"
	case *ssa.Alloc:
		// a local: what is stored into it
		for _, r := range referrers(x) {
			if st, ok := r.(*ssa.Store); ok && st.Addr == ssa.Value(x) {
				if w := impureFrom(st.Val, key, depth+1, seen); w != "" {
					return w
				}
			}
		}
		return ""
	case ssa.Instruction:
		if u, ok := v.(*ssa.UnOp); ok && u.Op == token.MUL {
			if g := globalRoot(u.X, 0); g != nil {
				return "reads package-level variable " + g.Name()
			}
		}
		for _, op := range x.Operands(nil) {
			if *op == nil {
				continue
			}
			if w := impureFrom(*op, key, depth+1, seen); w != "" {
				return w
			}
		}
		return ""
	}
	return fmt.Sprintf("unknown value %T", v)
}

// throughMemo: v, read at block `at` in fn, with loads of a recognised memo's value fields
// replaced by the value the miss path stores there (equal by the memo invariant); when every
// source of a phi then is one and the same value, that value.
func (c *Ctx) throughMemo(fn *ssa.Function, v ssa.Value, at *ssa.BasicBlock) ssa.Value {
	var uniq ssa.Value
	for _, vs := range sourcesAt(v, at) {
		s := canon(peel(vs.Val))
		if ld, ok := s.(*ssa.UnOp); ok && ld.Op == token.MUL {
			if fa, ok := ld.X.(*ssa.FieldAddr); ok {
				if g, ok := fa.X.(*ssa.Global); ok && g.Pkg == c.SPkg {
					mr := c.modRef(map[*ssa.Function]bool{fn: true})
					if u := mr[g]; u != nil {
						if m := c.completeKeyMemo(g, u); m.ok {
							if sv := m.stored[fn][fa.Field]; sv != nil {
								s = sv
							}
						}
					}
				}
			}
		}
		if uniq == nil {
			uniq = s
		} else if uniq != s {
			return v
		}
	}
	if uniq == nil {
		return v
	}
	return uniq
}
