package main

// Source-level normalisations that run before inlining (inline.go). Each one is a
// semantics-preserving rewrite of the package's syntax trees that brings a common
// maintenance idiom back to the shape the rules were written against; after a pass changed
// something the package is printed, re-parsed and re-type-checked (against the already
// loaded dependencies), so every pass sees fully typed trees.
//
//  N1  unrolling of `for i, v := range T` where T is a package-level slice / array variable
//      with a constant initialiser that nothing ever writes (a "table of names"): the loop
//      becomes one copy of its body per element with v bound to the element (a constant, or
//      for struct elements with the selected fields substituted by their constants).
//      `continue` / `break` become jumps to the end of the copy / of the whole sequence.
//  N2  `slices.Contains(T, x)` over such a table becomes `x == e1 || x == e2 ...`.
//
//  N3  `slices.ContainsFunc(S, func(x T) bool { return E })` and `slices.Contains(S, v)` over
//      any other slice become calls of generated package-level helpers holding the loop the
//      library call stands for (`for _, x := range S { if E { return true } }; return false`),
//      with the variables E captures passed as parameters; the inliner then puts the loop
//      where the call was, with its usual care for evaluation order.
//
//  N4  `for k, v := range m.AllFromFront()` (also Keys / Values) over an ordered map becomes
//      the element loop the iterator is defined as: `for el := m.Front(); el != nil; el =
//      el.Next() { k, v := el.Key, el.Value; ... }`.
//
//  N5  a new helper function used as a value (`re.ReplaceAllStringFunc(s, rewriteKey)`) is
//      written as the literal `func(a T) R { return rewriteKey(a) }`, so that the inliner can
//      put its body there (closures extracted into named functions come back as closures).
//
//  N6  scalar replacement of local struct values: a local struct variable that is only read and
//      written field by field (an options / job struct filled by a literal and handed to an
//      inlined helper) becomes one local variable per field.
//  N7  a loop over a local table of struct literals whose fields are side-effect-free
//      expressions (`rules := []struct{bad bool; msg string}{{a && b, "..."}, ...}; for _, r :=
//      range rules { if r.bad { return r.msg } }`), the loop following the table directly, is
//      unrolled with the fields substituted.
//
// Whenever a precondition is not met the construct is left as it is.

import (
	"bytes"
	"fmt"
	"go/ast"
	"go/format"
	"go/parser"
	"go/token"
	"go/types"
	"os"
	"sort"
	"strings"

	"golang.org/x/tools/go/ast/astutil"
	"golang.org/x/tools/go/packages"
)

type mapImporter map[string]*types.Package

func (m mapImporter) Import(path string) (*types.Package, error) {
	if p := m[path]; p != nil {
		return p, nil
	}
	return nil, fmt.Errorf("package %q is not among the loaded dependencies", path)
}

// recheck parses the package's files (taking changed ones from overlay) and type-checks
// them against the dependencies pkg was loaded with.
func recheck(pkg *packages.Package, overlay map[string][]byte) (*packages.Package, error) {
	fset := token.NewFileSet()
	var files []*ast.File
	names := append([]string{}, pkg.CompiledGoFiles...)
	sort.Strings(names)
	for _, name := range names {
		var src []byte
		if b, ok := overlay[name]; ok {
			src = b
		} else {
			b, err := os.ReadFile(name)
			if err != nil {
				return nil, err
			}
			src = b
		}
		f, err := parser.ParseFile(fset, name, src, parser.ParseComments)
		if err != nil {
			return nil, err
		}
		files = append(files, f)
	}
	imp := mapImporter{}
	var add func(p *packages.Package)
	seen := map[*packages.Package]bool{}
	add = func(p *packages.Package) {
		if seen[p] {
			return
		}
		seen[p] = true
		if p.Types != nil {
			imp[p.PkgPath] = p.Types
		}
		for _, q := range p.Imports {
			add(q)
		}
	}
	for _, q := range pkg.Imports {
		add(q)
	}
	info := &types.Info{
		Types:      map[ast.Expr]types.TypeAndValue{},
		Defs:       map[*ast.Ident]types.Object{},
		Uses:       map[*ast.Ident]types.Object{},
		Implicits:  map[ast.Node]types.Object{},
		Selections: map[*ast.SelectorExpr]*types.Selection{},
		Scopes:     map[ast.Node]*types.Scope{},
		Instances:  map[*ast.Ident]types.Instance{},
	}
	conf := types.Config{Importer: imp, Sizes: pkg.TypesSizes}
	tp, err := conf.Check(pkg.PkgPath, fset, files, info)
	if err != nil {
		return nil, err
	}
	// all dependencies (for imports added later by the inliner)
	all := map[string]*packages.Package{}
	for k, v := range pkg.Imports {
		all[k] = v
	}
	return &packages.Package{ID: pkg.ID, Name: pkg.Name, PkgPath: pkg.PkgPath, Fset: fset, Syntax: files, Types: tp, TypesInfo: info,
		Imports: all, CompiledGoFiles: pkg.CompiledGoFiles, GoFiles: pkg.GoFiles, TypesSizes: pkg.TypesSizes}, nil
}

// renderFile prints one (changed) file: free-floating comments dropped, unused imports pruned.
func renderFile(fset *token.FileSet, f *ast.File, pkg *packages.Package) ([]byte, error) {
	var keepC []*ast.CommentGroup
	for _, cg := range f.Comments {
		if cg.End() < f.Package {
			keepC = append(keepC, cg) // build constraints, file documentation
		}
	}
	f.Comments = keepC
	var buf bytes.Buffer
	if err := format.Node(&buf, fset, f); err != nil {
		return nil, fmt.Errorf("printing the normalised %s: %w", fset.File(f.Pos()).Name(), err)
	}
	names := map[string]string{}
	for path, ip := range pkg.Imports {
		names[path] = ip.Name
	}
	return pruneUnusedImports(buf.Bytes(), names), nil
}

// ---- N1 / N2: constant tables ----

type constTable struct {
	obj   *types.Var
	elts  []ast.Expr // element expressions (composite literals carry an explicit type)
	elemT ast.Expr   // element type expression
}

type normaliser struct {
	pkg           *packages.Package
	info          *types.Info
	tables        map[*types.Var]*constTable
	aliasDef      map[*ast.Ident]bool // uses of a table that define an alias of it
	local         map[*types.Var]bool // tables that are local variables (must stay "used" after unrolling)
	n             int
	baseline      map[string]bool // functions of the reviewed decomposition (never rewritten away)
	splice        map[ast.Stmt][]ast.Stmt
	failedRewrite bool
	initRanges    [][2]token.Pos // function literals in package-level variable initialisers (the table builders)
	changed       map[*ast.File]bool
	log           []string
}

// constantElt: a constant expression, or a reference to a package-level function / nil.
func (nz *normaliser) constantElt(e ast.Expr) bool {
	if tv, ok := nz.info.Types[e]; ok && tv.Value != nil {
		return true
	}
	if id, ok := e.(*ast.Ident); ok {
		switch o := nz.info.Uses[id].(type) {
		case *types.Func:
			return o.Parent() == nz.pkg.Types.Scope()
		case *types.Nil:
			return true
		}
	}
	return false
}

func (nz *normaliser) findTables() {
	nz.tables = map[*types.Var]*constTable{}
	nz.local = map[*types.Var]bool{}
	nz.aliasDef = map[*ast.Ident]bool{}
	// candidates: package-level and local variables defined by a composite literal
	type candT struct {
		name  *ast.Ident
		cl    *ast.CompositeLit
		local bool
	}
	var cands []candT
	nz.initRanges = nil
	for _, f := range nz.pkg.Syntax {
		for _, d := range f.Decls {
			if gd, ok := d.(*ast.GenDecl); ok && gd.Tok == token.VAR {
				for _, sp := range gd.Specs {
					vs := sp.(*ast.ValueSpec)
					if len(vs.Names) == 1 && len(vs.Values) == 1 {
						if cl, ok := vs.Values[0].(*ast.CompositeLit); ok {
							cands = append(cands, candT{vs.Names[0], cl, false})
						}
					}
					// the builders of the operator tables: straight-line code is what the table
					// reconstruction reads, so loops over literal lists of names inside them are unrolled
					for _, v := range vs.Values {
						ast.Inspect(v, func(n ast.Node) bool {
							if fl, ok := n.(*ast.FuncLit); ok {
								nz.initRanges = append(nz.initRanges, [2]token.Pos{fl.Pos(), fl.End()})
								ast.Inspect(fl.Body, func(m ast.Node) bool {
									switch x := m.(type) {
									case *ast.AssignStmt:
										if x.Tok == token.DEFINE && len(x.Lhs) == 1 && len(x.Rhs) == 1 {
											if id, ok := x.Lhs[0].(*ast.Ident); ok {
												if cl, ok := x.Rhs[0].(*ast.CompositeLit); ok {
													cands = append(cands, candT{id, cl, true})
												}
											}
										}
									case *ast.DeclStmt:
										if gd, ok := x.Decl.(*ast.GenDecl); ok && gd.Tok == token.VAR {
											for _, sp := range gd.Specs {
												lvs := sp.(*ast.ValueSpec)
												if len(lvs.Names) == 1 && len(lvs.Values) == 1 && !strings.HasPrefix(lvs.Names[0].Name, "_inl") {
													if cl, ok := lvs.Values[0].(*ast.CompositeLit); ok {
														cands = append(cands, candT{lvs.Names[0], cl, true})
													}
												}
											}
										}
									}
									return true
								})
								return false
							}
							return true
						})
					}
				}
			}
		}
		ast.Inspect(f, func(n ast.Node) bool {
			switch x := n.(type) {
			case *ast.DeclStmt:
				if gd, ok := x.Decl.(*ast.GenDecl); ok && gd.Tok == token.VAR {
					for _, sp := range gd.Specs {
						vs := sp.(*ast.ValueSpec)
						if len(vs.Names) == 1 && len(vs.Values) == 1 && strings.HasPrefix(vs.Names[0].Name, "_inl") {
							// only the argument temporaries of inlined calls (a variadic or literal
							// argument): the loops the reviewed functions themselves run over local
							// lists stay loops
							if cl, ok := vs.Values[0].(*ast.CompositeLit); ok {
								cands = append(cands, candT{vs.Names[0], cl, true})
							}
						}
					}
				}
			}
			return true
		})
	}
	{
		{
			for _, cd := range cands {
				cl := cd.cl
				obj, _ := nz.info.Defs[cd.name].(*types.Var)
				if obj == nil {
					continue
				}
				if cd.local {
					nz.local[obj] = true
				}
				var elemT ast.Expr
				switch t := cl.Type.(type) {
				case *ast.ArrayType:
					elemT = t.Elt
				default:
					continue
				}
				switch obj.Type().Underlying().(type) {
				case *types.Slice, *types.Array:
				default:
					continue
				}
				if len(cl.Elts) == 0 || len(cl.Elts) > 256 {
					continue
				}
				okAll := true
				var elts []ast.Expr
				for _, e := range cl.Elts {
					switch x := e.(type) {
					case *ast.KeyValueExpr:
						okAll = false
					case *ast.CompositeLit:
						// a struct element with constant fields
						if _, isStruct := nz.info.TypeOf(x).Underlying().(*types.Struct); !isStruct {
							okAll = false
							break
						}
						for _, fe := range x.Elts {
							v := fe
							if kv, ok := fe.(*ast.KeyValueExpr); ok {
								v = kv.Value
							}
							if !nz.constantElt(v) {
								okAll = false
							}
						}
						elts = append(elts, x)
					default:
						if !nz.constantElt(e) {
							okAll = false
						}
						elts = append(elts, e)
					}
				}
				if okAll {
					nz.tables[obj] = &constTable{obj: obj, elts: elts, elemT: elemT}
				}
			}
		}
	}
	// aliases: `var keys []string = _inl3_a2` (the parameter of an inlined helper bound to its
	// argument temporary) names the same table
	for _, f := range nz.pkg.Syntax {
		ast.Inspect(f, func(n ast.Node) bool {
			ds, ok := n.(*ast.DeclStmt)
			if !ok {
				return true
			}
			gd, ok := ds.Decl.(*ast.GenDecl)
			if !ok || gd.Tok != token.VAR {
				return true
			}
			for _, sp := range gd.Specs {
				vs := sp.(*ast.ValueSpec)
				if len(vs.Names) != 1 || len(vs.Values) != 1 {
					continue
				}
				src, ok := vs.Values[0].(*ast.Ident)
				if !ok {
					continue
				}
				so, _ := nz.info.Uses[src].(*types.Var)
				tb := nz.tables[so]
				obj, _ := nz.info.Defs[vs.Names[0]].(*types.Var)
				if tb == nil || obj == nil || !nz.local[so] || !types.Identical(obj.Type(), so.Type()) {
					continue
				}
				nz.tables[obj] = &constTable{obj: obj, elts: tb.elts, elemT: tb.elemT}
				nz.local[obj] = true
				nz.aliasDef[src] = true
			}
			return true
		})
	}
	if len(nz.tables) == 0 {
		return
	}
	// every use must be a read that cannot modify the table: range operand, len / cap, an
	// index read, or an argument of a read-only library function
	readOnlyCallee := map[string]bool{"slices.Contains": true, "slices.ContainsFunc": true, "slices.Index": true, "slices.IndexFunc": true, "strings.Join": true}
	for _, f := range nz.pkg.Syntax {
		var stack []ast.Node
		ast.Inspect(f, func(n ast.Node) bool {
			if n == nil {
				stack = stack[:len(stack)-1]
				return true
			}
			stack = append(stack, n)
			id, ok := n.(*ast.Ident)
			if !ok {
				return true
			}
			obj, _ := nz.info.Uses[id].(*types.Var)
			if obj == nil || nz.tables[obj] == nil {
				return true
			}
			parent := stack[len(stack)-2]
			okUse := nz.aliasDef[id]
			if as, isAs := parent.(*ast.AssignStmt); isAs && as.Tok == token.ASSIGN && len(as.Lhs) == 1 && len(as.Rhs) == 1 && as.Rhs[0] == ast.Expr(id) {
				if l, isId := as.Lhs[0].(*ast.Ident); isId && l.Name == "_" {
					okUse = true // `_ = keys`
				}
			}
			switch p := parent.(type) {
			case *ast.RangeStmt:
				okUse = p.X == ast.Expr(id)
			case *ast.CallExpr:
				if fid, isId := p.Fun.(*ast.Ident); isId && (fid.Name == "len" || fid.Name == "cap") {
					if _, isB := nz.info.Uses[fid].(*types.Builtin); isB {
						okUse = true
					}
				}
				if se, isSel := p.Fun.(*ast.SelectorExpr); isSel {
					if pid, isId := se.X.(*ast.Ident); isId {
						if pn, isPkg := nz.info.Uses[pid].(*types.PkgName); isPkg && readOnlyCallee[pn.Imported().Path()+"."+se.Sel.Name] {
							okUse = true
						}
					}
				}
			case *ast.IndexExpr:
				if p.X == ast.Expr(id) && len(stack) >= 3 {
					okUse = true
					switch gp := stack[len(stack)-3].(type) {
					case *ast.AssignStmt:
						for _, l := range gp.Lhs {
							if l == ast.Expr(p) {
								okUse = false
							}
						}
					case *ast.UnaryExpr:
						if gp.Op == token.AND {
							okUse = false
						}
					case *ast.IncDecStmt:
						okUse = false
					case *ast.SelectorExpr:
						// T[i].field: a read unless the selector is assigned / addressed - be strict
						okUse = false
						if len(stack) >= 4 {
							switch stack[len(stack)-4].(type) {
							case *ast.AssignStmt, *ast.UnaryExpr, *ast.IncDecStmt:
							default:
								okUse = true
							}
						}
					}
				}
			}
			if !okUse {
				delete(nz.tables, obj)
			}
			return true
		})
	}
}

// loopJumps classifies the unlabeled break / continue statements of body that target the
// loop itself; ok=false when the body has labels, labeled jumps or gotos.
func loopJumps(body *ast.BlockStmt) (breaks, continues []*ast.BranchStmt, ok bool) {
	ok = true
	var walk func(n ast.Node, inLoop, inSwitch bool)
	walk = func(n ast.Node, inLoop, inSwitch bool) {
		ast.Inspect(n, func(m ast.Node) bool {
			if m == nil || m == n {
				return true
			}
			switch x := m.(type) {
			case *ast.FuncLit:
				return false
			case *ast.LabeledStmt:
				ok = false
			case *ast.ForStmt:
				walk(x.Body, true, false)
				return false
			case *ast.RangeStmt:
				walk(x.Body, true, false)
				return false
			case *ast.SwitchStmt:
				walk(x.Body, inLoop, true)
				return false
			case *ast.TypeSwitchStmt:
				walk(x.Body, inLoop, true)
				return false
			case *ast.SelectStmt:
				walk(x.Body, inLoop, true)
				return false
			case *ast.BranchStmt:
				if x.Label != nil || x.Tok == token.GOTO {
					ok = false
					return true
				}
				if inLoop {
					return true
				}
				switch x.Tok {
				case token.BREAK:
					if !inSwitch {
						breaks = append(breaks, x)
					}
				case token.CONTINUE:
					continues = append(continues, x)
				}
			}
			return true
		})
	}
	walk(body, false, false)
	return
}

func (nz *normaliser) unrollIn(f *ast.File) {
	astutil.Apply(f, nil, func(c *astutil.Cursor) bool {
		rs, ok := c.Node().(*ast.RangeStmt)
		if !ok {
			return true
		}
		if _, labeled := c.Parent().(*ast.LabeledStmt); labeled {
			return true
		}
		id, ok := rs.X.(*ast.Ident)
		var obj *types.Var
		var tb *constTable
		if ok {
			obj, _ = nz.info.Uses[id].(*types.Var)
			tb = nz.tables[obj]
		} else if cl, isCL := rs.X.(*ast.CompositeLit); isCL {
			// `for _, name := range []string{"a", "b"} {` inside a table builder (any length) or
			// anywhere else (short lists of names, as in `for _, key := range []string{"query", "filter"}`)
			limit := 32
			if nz.inInitialiser(rs.Pos()) {
				limit = 256
			}
			if at, isArr := cl.Type.(*ast.ArrayType); isArr && len(cl.Elts) > 0 && len(cl.Elts) <= limit {
				okAll := true
				for _, e := range cl.Elts {
					if _, isKV := e.(*ast.KeyValueExpr); isKV || !nz.constantElt(e) {
						okAll = false
					}
				}
				if okAll {
					tb = &constTable{elts: cl.Elts, elemT: at.Elt}
					id = ast.NewIdent("literal list")
				}
			}
		}
		if tb == nil {
			return true
		}
		if rs.Tok != token.DEFINE && (rs.Key != nil || rs.Value != nil) {
			return true
		}
		keyName, valName := "", ""
		if k, ok := rs.Key.(*ast.Ident); ok && k.Name != "_" {
			keyName = k.Name
		}
		if v, ok := rs.Value.(*ast.Ident); ok && v.Name != "_" {
			valName = v.Name
		}
		breaks, continues, jok := loopJumps(rs.Body)
		if !jok {
			return true
		}
		_ = breaks
		_ = continues
		// the value variable must only be read (struct fields substituted, whole value copied)
		var valObj types.Object
		if valName != "" {
			valObj = nz.info.Defs[rs.Value.(*ast.Ident)]
		}
		written := false
		ast.Inspect(rs.Body, func(n ast.Node) bool {
			switch x := n.(type) {
			case *ast.AssignStmt:
				for _, l := range x.Lhs {
					if root := rootIdent(l); root != nil && valObj != nil && nz.info.Uses[root] == valObj {
						written = true
					}
				}
			case *ast.UnaryExpr:
				if x.Op == token.AND {
					if root := rootIdent(x.X); root != nil && valObj != nil && nz.info.Uses[root] == valObj {
						written = true
					}
				}
			case *ast.IncDecStmt:
				if root := rootIdent(x.X); root != nil && valObj != nil && nz.info.Uses[root] == valObj {
					written = true
				}
			}
			return true
		})
		if written {
			return true
		}
		nz.n++
		pfx := fmt.Sprintf("_unr%d_", nz.n)
		endLabel := pfx + "end"
		usedEnd := false
		var out []ast.Stmt
		for k, elt := range tb.elts {
			body := copyNode(rs.Body).(*ast.BlockStmt)
			nextLabel := fmt.Sprintf("%sn%d", pfx, k)
			usedNext := false
			// jumps: the copies keep the structure, so classify again on the copy
			bs, cs, _ := loopJumps(body)
			bset, cset := map[*ast.BranchStmt]bool{}, map[*ast.BranchStmt]bool{}
			for _, b := range bs {
				bset[b] = true
			}
			for _, cn := range cs {
				cset[cn] = true
			}
			// struct elements: substitute v.field by the field's constant
			var fieldVal map[string]ast.Expr
			if cl, isCL := elt.(*ast.CompositeLit); isCL {
				fieldVal = map[string]ast.Expr{}
				st := nz.info.TypeOf(cl).Underlying().(*types.Struct)
				for i, fe := range cl.Elts {
					if kv, ok := fe.(*ast.KeyValueExpr); ok {
						if kid, ok := kv.Key.(*ast.Ident); ok {
							fieldVal[kid.Name] = kv.Value
						}
					} else if i < st.NumFields() {
						fieldVal[st.Field(i).Name()] = fe
					}
				}
			}
			wholeUses := 0
			astutil.Apply(body, func(cc *astutil.Cursor) bool {
				switch x := cc.Node().(type) {
				case *ast.BranchStmt:
					if bset[x] {
						usedEnd = true
						cc.Replace(&ast.BranchStmt{Tok: token.GOTO, Label: ast.NewIdent(endLabel)})
					} else if cset[x] {
						usedNext = true
						cc.Replace(&ast.BranchStmt{Tok: token.GOTO, Label: ast.NewIdent(nextLabel)})
					}
				case *ast.SelectorExpr:
					if fieldVal != nil && valName != "" {
						if xid, ok := x.X.(*ast.Ident); ok && xid.Name == valName {
							if fv, has := fieldVal[x.Sel.Name]; has {
								cc.Replace(&ast.ParenExpr{X: copyNode(fv).(ast.Expr)})
								return false
							}
						}
					}
				}
				return true
			}, nil)
			// shadowing inside the body is ignored for the field substitution only when the
			// name is not redeclared there
			var pre []ast.Stmt
			if keyName != "" {
				pre = append(pre, &ast.AssignStmt{Lhs: []ast.Expr{ast.NewIdent(keyName)}, Tok: token.DEFINE, Rhs: []ast.Expr{&ast.BasicLit{Kind: token.INT, Value: fmt.Sprint(k)}}},
					&ast.AssignStmt{Lhs: []ast.Expr{ast.NewIdent("_")}, Tok: token.ASSIGN, Rhs: []ast.Expr{ast.NewIdent(keyName)}})
			}
			if valName != "" {
				var val ast.Expr = copyNode(elt).(ast.Expr)
				if cl, isCL := val.(*ast.CompositeLit); isCL && cl.Type == nil {
					cl.Type = copyNode(tb.elemT).(ast.Expr)
				}
				vs := &ast.ValueSpec{Names: []*ast.Ident{ast.NewIdent(valName)}, Type: copyNode(tb.elemT).(ast.Expr), Values: []ast.Expr{val}}
				pre = append(pre, &ast.DeclStmt{Decl: &ast.GenDecl{Tok: token.VAR, Specs: []ast.Spec{vs}}},
					&ast.AssignStmt{Lhs: []ast.Expr{ast.NewIdent("_")}, Tok: token.ASSIGN, Rhs: []ast.Expr{ast.NewIdent(valName)}})
			}
			_ = wholeUses
			out = append(out, &ast.BlockStmt{List: append(pre, body)})
			if usedNext {
				out = append(out, &ast.LabeledStmt{Label: ast.NewIdent(nextLabel), Stmt: &ast.EmptyStmt{}})
			}
		}
		if usedEnd {
			out = append(out, &ast.LabeledStmt{Label: ast.NewIdent(endLabel), Stmt: &ast.EmptyStmt{}})
		}
		if obj != nil && nz.local[obj] {
			out = append([]ast.Stmt{&ast.AssignStmt{Lhs: []ast.Expr{ast.NewIdent("_")}, Tok: token.ASSIGN, Rhs: []ast.Expr{ast.NewIdent(id.Name)}}}, out...)
		}
		c.Replace(&ast.BlockStmt{List: out})
		nz.changed[f] = true
		nz.log = append(nz.log, fmt.Sprintf("unrolled `range %s` (%d elements)", id.Name, len(tb.elts)))
		return true
	})
}

func (nz *normaliser) inInitialiser(p token.Pos) bool {
	for _, r := range nz.initRanges {
		if p >= r[0] && p < r[1] {
			return true
		}
	}
	return false
}

func rootIdent(e ast.Expr) *ast.Ident {
	for {
		switch x := e.(type) {
		case *ast.Ident:
			return x
		case *ast.SelectorExpr:
			e = x.X
		case *ast.IndexExpr:
			e = x.X
		case *ast.ParenExpr:
			e = x.X
		case *ast.StarExpr:
			e = x.X
		default:
			return nil
		}
	}
}

// containsIn rewrites slices.Contains(T, x) over a constant table of comparable constants
// into a disjunction of equalities (x must be a plain identifier or selector: evaluated once
// per comparison without effects).
func (nz *normaliser) containsIn(f *ast.File) {
	astutil.Apply(f, nil, func(c *astutil.Cursor) bool {
		ce, ok := c.Node().(*ast.CallExpr)
		if !ok || len(ce.Args) != 2 {
			return true
		}
		se, ok := ce.Fun.(*ast.SelectorExpr)
		if !ok || se.Sel.Name != "Contains" {
			return true
		}
		pid, ok := se.X.(*ast.Ident)
		if !ok {
			return true
		}
		pn, ok := nz.info.Uses[pid].(*types.PkgName)
		if !ok || pn.Imported().Path() != "slices" {
			return true
		}
		tid, ok := ce.Args[0].(*ast.Ident)
		if !ok {
			return true
		}
		obj, _ := nz.info.Uses[tid].(*types.Var)
		tb := nz.tables[obj]
		if tb == nil {
			return true
		}
		switch ce.Args[1].(type) {
		case *ast.Ident:
		default:
			return true
		}
		var e ast.Expr
		for _, elt := range tb.elts {
			if tv, ok := nz.info.Types[elt]; !ok || tv.Value == nil {
				return true
			}
			cmp := &ast.BinaryExpr{X: copyNode(ce.Args[1]).(ast.Expr), Op: token.EQL, Y: copyNode(elt).(ast.Expr)}
			if e == nil {
				e = cmp
			} else {
				e = &ast.BinaryExpr{X: e, Op: token.LOR, Y: cmp}
			}
		}
		c.Replace(&ast.ParenExpr{X: e})
		nz.changed[f] = true
		nz.log = append(nz.log, fmt.Sprintf("slices.Contains(%s, ...) written out (%d elements)", tid.Name, len(tb.elts)))
		return true
	})
}

// preNormalise runs N1-N3 on cur (the original package or the re-checked result of earlier
// rounds, whose changed files are in base); it returns the re-checked package and the
// accumulated overlay, or cur and nil when nothing applied (or the result did not type-check).
func preNormalise(orig, cur *packages.Package, base map[string][]byte, rep *inlineReport, outer int, baseline map[string]bool) (*packages.Package, map[string][]byte) {
	overlay := map[string][]byte{}
	for k, v := range base {
		overlay[k] = v
	}
	changedAny := false
	for round := 0; round < 3; round++ {
		nz := &normaliser{pkg: cur, info: cur.TypesInfo, changed: map[*ast.File]bool{}, n: outer*10000 + round*1000, baseline: baseline, splice: map[ast.Stmt][]ast.Stmt{}}
		nz.findTables()
		nz.foldSeams()
		nz.flattenStructParams()
		nz.monomorphise()
		nz.swapThinWrappers()
		nz.stubMethodCalls()
		for _, f := range cur.Syntax {
			nz.unrollIn(f)
			nz.containsIn(f)
		}
		for _, f := range cur.Syntax {
			nz.containsLoopsIn(f)
			nz.omapIteratorsIn(f)
			nz.stdIteratorsIn(f)
			nz.cmpOrIn(f)
			nz.etaExpandIn(f)
			nz.sinkDefersIn(f)
			nz.localRefsIn(f)
			nz.libIdiomsIn(f)
		}
		if len(nz.changed) == 0 {
			// the aggregate rewrites work on fully typed trees of their own round
			for _, f := range cur.Syntax {
				nz.sroaIn(f)
			}
		}
		if len(nz.changed) == 0 {
			for _, f := range cur.Syntax {
				nz.pureTablesIn(f)
			}
		}
		if len(nz.changed) == 0 {
			break
		}
		next := map[string][]byte{}
		for k, v := range overlay {
			next[k] = v
		}
		failed := false
		for f := range nz.changed {
			src, err := renderFile(cur.Fset, f, cur)
			if err != nil {
				failed = true
				break
			}
			next[cur.Fset.File(f.Pos()).Name()] = src
		}
		var np *packages.Package
		var err error
		if !failed {
			np, err = recheck(orig, next)
		}
		if failed || err != nil {
			why := "a rewritten file could not be printed"
			if err != nil {
				why = "the rewritten package does not type-check (" + strings.SplitN(err.Error(), "\n", 2)[0] + ")"
			}
			rep.Kept = append(rep.Kept, "pre-normalisation: "+why+"; pass dropped")
			// the trees of cur were modified in place: take clean ones from the last good state
			if clean, cerr := recheck(orig, overlay); cerr == nil {
				cur = clean
			}
			break
		}
		rep.Rewrites = append(rep.Rewrites, nz.log...)
		overlay, cur = next, np
		changedAny = true
	}
	if !changedAny {
		return cur, nil
	}
	return cur, overlay
}

// ---- N3: slices.ContainsFunc / slices.Contains as loops ----

func (nz *normaliser) fileQualifier(f *ast.File) (types.Qualifier, *bool) {
	ok := true
	names := map[string]string{}
	for _, imp := range f.Imports {
		path := strings.Trim(imp.Path.Value, "\"")
		if imp.Name != nil {
			names[path] = imp.Name.Name
		} else if p := nz.pkg.Imports[path]; p != nil {
			names[path] = p.Name
		}
	}
	return func(p *types.Package) string {
		if p == nz.pkg.Types {
			return ""
		}
		if n, has := names[p.Path()]; has && n != "_" && n != "." {
			return n
		}
		ok = false
		return p.Name()
	}, &ok
}

func (nz *normaliser) containsLoopsIn(f *ast.File) {
	var newDecls []ast.Decl
	astutil.Apply(f, nil, func(c *astutil.Cursor) bool {
		ce, ok := c.Node().(*ast.CallExpr)
		if !ok || len(ce.Args) != 2 || ce.Ellipsis != token.NoPos {
			return true
		}
		se, ok := ce.Fun.(*ast.SelectorExpr)
		if !ok || (se.Sel.Name != "ContainsFunc" && se.Sel.Name != "Contains") {
			return true
		}
		pid, ok := se.X.(*ast.Ident)
		if !ok {
			return true
		}
		pn, ok := nz.info.Uses[pid].(*types.PkgName)
		if !ok || pn.Imported().Path() != "slices" {
			return true
		}
		sliceT := nz.info.TypeOf(ce.Args[0])
		if sliceT == nil {
			return true
		}
		sl, ok := sliceT.Underlying().(*types.Slice)
		if !ok {
			return true
		}
		qual, qok := nz.fileQualifier(f)
		type param struct{ name, typ string }
		var params []param
		var args []ast.Expr
		var cond ast.Expr
		loopVar := "_e"
		if se.Sel.Name == "Contains" {
			vt := nz.info.TypeOf(ce.Args[1])
			if vt == nil {
				return true
			}
			if b, isB := vt.(*types.Basic); isB && b.Info()&types.IsUntyped != 0 {
				vt = sl.Elem()
			}
			params = append(params, param{"_s", types.TypeString(sliceT, qual)}, param{"_v", types.TypeString(sl.Elem(), qual)})
			_ = vt
			args = append(args, ce.Args[0], ce.Args[1])
			cond = &ast.BinaryExpr{X: ast.NewIdent("_e"), Op: token.EQL, Y: ast.NewIdent("_v")}
		} else {
			lit, ok := ce.Args[1].(*ast.FuncLit)
			if !ok {
				// a function or method value f: as if it were func(e T) bool { return f(e) }
				var fun ast.Expr
				switch x := ce.Args[1].(type) {
				case *ast.Ident:
					if fo, isF := nz.info.Uses[x].(*types.Func); isF && fo.Parent() == nz.pkg.Types.Scope() {
						fun = x
					}
				case *ast.SelectorExpr:
					if _, isId := x.X.(*ast.Ident); isId {
						if sel := nz.info.Selections[x]; sel != nil && sel.Kind() == types.MethodVal {
							fun = x
						} else if _, isF := nz.info.Uses[x.Sel].(*types.Func); isF && sel == nil {
							fun = x // pkg.Func
						}
					}
				}
				if fun == nil {
					return true
				}
				pf, err := parser.ParseExpr("func(_e " + types.TypeString(sl.Elem(), qual) + ") bool { return _F_(_e) }")
				if err != nil {
					return true
				}
				lit = copyNode(pf).(*ast.FuncLit)
				lit.Body.List[0].(*ast.ReturnStmt).Results[0].(*ast.CallExpr).Fun = fun
				// positions: the synthetic literal has none; captured-variable detection below uses
				// the literal's extent only to exclude its own parameter, which is named _e here
			}
			if len(lit.Body.List) != 1 || lit.Type.Params == nil || len(lit.Type.Params.List) != 1 || len(lit.Type.Params.List[0].Names) != 1 {
				return true
			}
			rs, ok := lit.Body.List[0].(*ast.ReturnStmt)
			if !ok || len(rs.Results) != 1 {
				return true
			}
			loopVar = lit.Type.Params.List[0].Names[0].Name
			params = append(params, param{"_s", types.TypeString(sliceT, qual)})
			args = append(args, ce.Args[0])
			// captured locals become parameters (read-only uses only)
			seen := map[types.Object]bool{}
			bad := false
			ast.Inspect(rs.Results[0], func(n ast.Node) bool {
				switch x := n.(type) {
				case *ast.FuncLit:
					bad = true
					return false
				case *ast.UnaryExpr:
					if x.Op == token.AND {
						bad = true
					}
				case *ast.Ident:
					v, isVar := nz.info.Uses[x].(*types.Var)
					if !isVar || v.IsField() || v.Parent() == nz.pkg.Types.Scope() || v.Parent() == types.Universe {
						return true
					}
					if lit.Pos().IsValid() && v.Pos() >= lit.Pos() && v.Pos() <= lit.End() {
						return true // the literal's own parameter
					}
					if !seen[v] {
						seen[v] = true
						if v.Name() == "_s" {
							bad = true
						}
						params = append(params, param{v.Name(), types.TypeString(v.Type(), qual)})
						args = append(args, ast.NewIdent(v.Name()))
					}
				}
				return true
			})
			if bad || loopVar == "_" {
				return true
			}
			cond = copyNode(rs.Results[0]).(ast.Expr)
		}
		if !*qok {
			return true
		}
		nz.n++
		name := fmt.Sprintf("_loop%d_%s", nz.n, strings.ToLower(se.Sel.Name))
		var ps []string
		for _, p := range params {
			ps = append(ps, p.name+" "+p.typ)
		}
		src := fmt.Sprintf("package p\nfunc %s(%s) bool {\n\tfor _, %s := range _s {\n\t\tif _COND_ {\n\t\t\treturn true\n\t\t}\n\t}\n\treturn false\n}\n", name, strings.Join(ps, ", "), loopVar)
		pf, err := parser.ParseFile(token.NewFileSet(), "gen.go", src, 0)
		if err != nil {
			return true
		}
		fd := copyNode(pf.Decls[0]).(*ast.FuncDecl)
		ast.Inspect(fd, func(n ast.Node) bool {
			if is, ok := n.(*ast.IfStmt); ok {
				if id, ok := is.Cond.(*ast.Ident); ok && id.Name == "_COND_" {
					is.Cond = cond
				}
			}
			return true
		})
		newDecls = append(newDecls, fd)
		c.Replace(&ast.CallExpr{Fun: ast.NewIdent(name), Args: args})
		nz.changed[f] = true
		nz.log = append(nz.log, fmt.Sprintf("slices.%s written as the loop helper %s", se.Sel.Name, name))
		return true
	})
	f.Decls = append(f.Decls, newDecls...)
}

// ---- N4: ordered-map iterators as element loops ----

func (nz *normaliser) omapIteratorsIn(f *ast.File) {
	astutil.Apply(f, nil, func(c *astutil.Cursor) bool {
		rs, ok := c.Node().(*ast.RangeStmt)
		if !ok {
			return true
		}
		ce, ok := rs.X.(*ast.CallExpr)
		if !ok || len(ce.Args) != 0 {
			return true
		}
		se, ok := ce.Fun.(*ast.SelectorExpr)
		if !ok {
			return true
		}
		mode := se.Sel.Name
		if mode != "AllFromFront" && mode != "Keys" && mode != "Values" {
			return true
		}
		fo, ok := nz.info.Uses[se.Sel].(*types.Func)
		if !ok || fo.Pkg() == nil || !strings.Contains(fo.Pkg().Path(), "elliotchance/orderedmap") {
			return true
		}
		// the map expression: an identifier or a selector chain of identifiers (evaluated once
		// by the range statement; evaluating it in the loop header instead changes nothing)
		pure := func(e ast.Expr) bool {
			for {
				switch x := e.(type) {
				case *ast.Ident:
					return true
				case *ast.SelectorExpr:
					e = x.X
				case *ast.ParenExpr:
					e = x.X
				default:
					return false
				}
			}
		}
		if !pure(se.X) {
			return true
		}
		if rs.Tok != token.DEFINE && (rs.Key != nil || rs.Value != nil) {
			return true
		}
		name := func(e ast.Expr) string {
			if id, ok := e.(*ast.Ident); ok && id.Name != "_" {
				return id.Name
			}
			return ""
		}
		var kn, vn string
		switch mode {
		case "AllFromFront":
			kn, vn = name(rs.Key), name(rs.Value)
		case "Keys":
			kn = name(rs.Key)
			if rs.Value != nil {
				return true
			}
		case "Values":
			vn = name(rs.Key)
			if rs.Value != nil {
				return true
			}
		}
		nz.n++
		it := fmt.Sprintf("_it%d", nz.n)
		var pre []ast.Stmt
		bind := func(n, field string) {
			if n == "" {
				return
			}
			pre = append(pre,
				&ast.AssignStmt{Lhs: []ast.Expr{ast.NewIdent(n)}, Tok: token.DEFINE, Rhs: []ast.Expr{&ast.SelectorExpr{X: ast.NewIdent(it), Sel: ast.NewIdent(field)}}},
				&ast.AssignStmt{Lhs: []ast.Expr{ast.NewIdent("_")}, Tok: token.ASSIGN, Rhs: []ast.Expr{ast.NewIdent(n)}})
		}
		bind(kn, "Key")
		bind(vn, "Value")
		body := &ast.BlockStmt{List: append(pre, rs.Body.List...)}
		loop := &ast.ForStmt{
			Init: &ast.AssignStmt{Lhs: []ast.Expr{ast.NewIdent(it)}, Tok: token.DEFINE, Rhs: []ast.Expr{&ast.CallExpr{Fun: &ast.SelectorExpr{X: copyNode(se.X).(ast.Expr), Sel: ast.NewIdent("Front")}}}},
			Cond: &ast.BinaryExpr{X: ast.NewIdent(it), Op: token.NEQ, Y: ast.NewIdent("nil")},
			Post: &ast.AssignStmt{Lhs: []ast.Expr{ast.NewIdent(it)}, Tok: token.ASSIGN, Rhs: []ast.Expr{&ast.CallExpr{Fun: &ast.SelectorExpr{X: ast.NewIdent(it), Sel: ast.NewIdent("Next")}}}},
			Body: body,
		}
		c.Replace(loop)
		nz.changed[f] = true
		nz.log = append(nz.log, "range over "+mode+"() written as the element loop")
		return true
	})
}

// ---- N5: eta-expansion of new helper functions used as values ----

func (nz *normaliser) etaExpandIn(f *ast.File) {
	if nz.baseline == nil {
		return
	}
	qual, qok := nz.fileQualifier(f)
	var stack []ast.Node
	astutil.Apply(f, func(c *astutil.Cursor) bool {
		stack = append(stack, c.Node())
		return true
	}, func(c *astutil.Cursor) bool {
		stack = stack[:len(stack)-1]
		id, ok := c.Node().(*ast.Ident)
		if !ok {
			return true
		}
		fo, ok := nz.info.Uses[id].(*types.Func)
		if !ok || fo.Parent() != nz.pkg.Types.Scope() || nz.baseline[fo.Name()] {
			return true
		}
		// only as an argument of a call (not the callee, not a selector operand)
		parent, ok := c.Parent().(*ast.CallExpr)
		if !ok || parent.Fun == ast.Expr(id) {
			return true
		}
		sig := fo.Type().(*types.Signature)
		if sig.Variadic() || sig.Recv() != nil || sig.TypeParams() != nil {
			return true
		}
		var ps, as []string
		for i := 0; i < sig.Params().Len(); i++ {
			ps = append(ps, fmt.Sprintf("_p%d %s", i, types.TypeString(sig.Params().At(i).Type(), qual)))
			as = append(as, fmt.Sprintf("_p%d", i))
		}
		var rs []string
		for i := 0; i < sig.Results().Len(); i++ {
			rs = append(rs, types.TypeString(sig.Results().At(i).Type(), qual))
		}
		if !*qok {
			return true
		}
		body := "return " + id.Name + "(" + strings.Join(as, ", ") + ")"
		if len(rs) == 0 {
			body = id.Name + "(" + strings.Join(as, ", ") + ")"
		}
		src := "func(" + strings.Join(ps, ", ") + ") (" + strings.Join(rs, ", ") + ") { " + body + " }"
		e, err := parser.ParseExpr(src)
		if err != nil {
			return true
		}
		c.Replace(copyNode(e).(ast.Expr))
		nz.changed[f] = true
		nz.log = append(nz.log, "function value "+id.Name+" written as a literal calling it")
		return true
	})
}

// ---- N6: scalar replacement of local struct values ----

func (nz *normaliser) sroaIn(f *ast.File) {
	qual, qok := nz.fileQualifier(f)
	for _, d := range f.Decls {
		fd, ok := d.(*ast.FuncDecl)
		if !ok || fd.Body == nil {
			continue
		}
		nz.sroaFunc(f, fd.Body, qual, qok)
	}
	// function literals of package-level variables (the cobra commands) are reached through
	// their enclosing declarations above only when inside functions; handle top-level ones too
	for _, d := range f.Decls {
		if gd, ok := d.(*ast.GenDecl); ok && gd.Tok == token.VAR {
			ast.Inspect(gd, func(n ast.Node) bool {
				if fl, ok := n.(*ast.FuncLit); ok {
					nz.sroaFunc(f, fl.Body, qual, qok)
					return false
				}
				return true
			})
		}
	}
}

func (nz *normaliser) sroaFunc(f *ast.File, body *ast.BlockStmt, qual types.Qualifier, qok *bool) {
	type cand struct {
		v     *types.Var
		st    *types.Struct
		lit   *ast.CompositeLit // initialiser, or nil
		from  *types.Var        // whole copy of another candidate, or nil
		decl  ast.Stmt
		names []*ast.Ident
		ptr   bool // a pointer to a struct literal: copies of the pointer share the fields
	}
	cands := map[*types.Var]*cand{}
	// definitions
	ast.Inspect(body, func(n ast.Node) bool {
		var name *ast.Ident
		var val ast.Expr
		var st ast.Stmt
		switch x := n.(type) {
		case *ast.DeclStmt:
			gd, ok := x.Decl.(*ast.GenDecl)
			if !ok || gd.Tok != token.VAR || len(gd.Specs) != 1 {
				return true
			}
			vs := gd.Specs[0].(*ast.ValueSpec)
			if len(vs.Names) != 1 || len(vs.Values) != 1 {
				return true
			}
			name, val, st = vs.Names[0], vs.Values[0], x
		case *ast.AssignStmt:
			if x.Tok != token.DEFINE || len(x.Lhs) != 1 || len(x.Rhs) != 1 {
				return true
			}
			id, ok := x.Lhs[0].(*ast.Ident)
			if !ok {
				return true
			}
			name, val, st = id, x.Rhs[0], x
		default:
			return true
		}
		v, ok := nz.info.Defs[name].(*types.Var)
		if !ok || name.Name == "_" {
			return true
		}
		stT, ok := v.Type().Underlying().(*types.Struct)
		isPtr := false
		if !ok {
			// `lr := &lineRedactor{out: w, bar: bar}` used through its fields only (and through
			// copies of the pointer): the fields are shared by every copy
			if pt, isP := v.Type().Underlying().(*types.Pointer); isP {
				if ps, isS := pt.Elem().Underlying().(*types.Struct); isS {
					stT, ok, isPtr = ps, true, true
				}
			}
		}
		if !ok || stT.NumFields() == 0 || stT.NumFields() > 40 {
			return true
		}
		c := &cand{v: v, st: stT, decl: st, ptr: isPtr}
		if isPtr {
			if u, isU := val.(*ast.UnaryExpr); isU && u.Op == token.AND {
				if cl, isCL := u.X.(*ast.CompositeLit); isCL {
					val = cl
				} else {
					return true
				}
			} else if _, isId := val.(*ast.Ident); !isId {
				return true
			}
		}
		switch e := val.(type) {
		case *ast.CompositeLit:
			c.lit = e
		case *ast.Ident:
			src, ok := nz.info.Uses[e].(*types.Var)
			if !ok {
				return true
			}
			c.from = src
		default:
			return true
		}
		cands[v] = c
		return true
	})
	if len(cands) == 0 {
		return
	}
	// uses: field selections, whole copies into another candidate, `_ = v`
	for changed := true; changed; {
		changed = false
		var stack []ast.Node
		ast.Inspect(body, func(n ast.Node) bool {
			if n == nil {
				stack = stack[:len(stack)-1]
				return true
			}
			stack = append(stack, n)
			id, ok := n.(*ast.Ident)
			if !ok {
				return true
			}
			v, ok := nz.info.Uses[id].(*types.Var)
			if !ok || cands[v] == nil {
				return true
			}
			okUse := false
			parent := stack[len(stack)-2]
			switch p := parent.(type) {
			case *ast.SelectorExpr:
				if p.X == ast.Expr(id) {
					if sel := nz.info.Selections[p]; sel != nil && sel.Kind() == types.FieldVal && len(sel.Index()) == 1 {
						okUse = true
						if len(stack) >= 3 {
							if u, isU := stack[len(stack)-3].(*ast.UnaryExpr); isU && u.Op == token.AND {
								okUse = false
							}
						}
					}
				}
			case *ast.ValueSpec:
				// var y T = v, y a candidate copying v
				if len(p.Names) == 1 && len(p.Values) == 1 && p.Values[0] == ast.Expr(id) {
					if y, isVar := nz.info.Defs[p.Names[0]].(*types.Var); isVar && cands[y] != nil && cands[y].from == v {
						okUse = true
					}
				}
			case *ast.AssignStmt:
				if len(p.Lhs) == 1 && len(p.Rhs) == 1 && p.Rhs[0] == ast.Expr(id) {
					if l, isId := p.Lhs[0].(*ast.Ident); isId {
						if l.Name == "_" && p.Tok == token.ASSIGN {
							okUse = true
						} else if y, isVar := nz.info.Defs[l].(*types.Var); isVar && p.Tok == token.DEFINE && cands[y] != nil && cands[y].from == v {
							okUse = true
						}
					}
				}
			}
			if !okUse {
				delete(cands, v)
				changed = true
			}
			return true
		})
		for v, c := range cands {
			if c.from != nil && (cands[c.from] == nil || cands[c.from].ptr != c.ptr) {
				delete(cands, v)
				changed = true
			}
		}
	}
	if len(cands) == 0 {
		return
	}
	fname := func(v *types.Var, field string) string { return fmt.Sprintf("_sr_%s_%s", v.Name(), field) }
	// unique suffix per variable object (shadowing)
	ids := map[*types.Var]int{}
	var order []*types.Var
	for v := range cands {
		order = append(order, v)
	}
	sort.Slice(order, func(i, j int) bool { return order[i].Pos() < order[j].Pos() })
	for i, v := range order {
		ids[v] = nz.n*100 + i
	}
	nz.n++
	fname = func(v *types.Var, field string) string {
		// copies of a pointer name the fields of the object the first pointer was made for
		for d := 0; d < 32 && cands[v] != nil && cands[v].ptr && cands[v].from != nil; d++ {
			v = cands[v].from
		}
		return fmt.Sprintf("_sr%d_%s_%s", ids[v], v.Name(), field)
	}
	failed := false
	// rewrite
	astutil.Apply(body, func(c *astutil.Cursor) bool {
		switch x := c.Node().(type) {
		case *ast.SelectorExpr:
			if id, ok := x.X.(*ast.Ident); ok {
				if v, ok := nz.info.Uses[id].(*types.Var); ok && cands[v] != nil {
					c.Replace(ast.NewIdent(fname(v, x.Sel.Name)))
					return false
				}
			}
		case *ast.DeclStmt, *ast.AssignStmt:
			var cd *cand
			for _, cc := range cands {
				if cc.decl == ast.Stmt(x.(ast.Stmt)) {
					cd = cc
				}
			}
			if cd == nil {
				// `_ = v`
				if as, ok := x.(*ast.AssignStmt); ok && as.Tok == token.ASSIGN && len(as.Lhs) == 1 && len(as.Rhs) == 1 {
					if id, ok := as.Rhs[0].(*ast.Ident); ok {
						if v, ok := nz.info.Uses[id].(*types.Var); ok && cands[v] != nil {
							c.Replace(&ast.EmptyStmt{})
							return false
						}
					}
				}
				return true
			}
			var list []ast.Stmt
			if cd.ptr && cd.from != nil {
				// a copy of the pointer: nothing to declare
				nz.splice[x.(ast.Stmt)] = []ast.Stmt{&ast.EmptyStmt{}}
				return false
			}
			given := map[string]ast.Expr{}
			var litOrder []string
			if cd.lit != nil {
				for i, e := range cd.lit.Elts {
					if kv, ok := e.(*ast.KeyValueExpr); ok {
						k, _ := kv.Key.(*ast.Ident)
						if k == nil {
							failed = true
							return false
						}
						given[k.Name] = kv.Value
						litOrder = append(litOrder, k.Name)
					} else if i < cd.st.NumFields() {
						given[cd.st.Field(i).Name()] = e
						litOrder = append(litOrder, cd.st.Field(i).Name())
					}
				}
			}
			mk := func(field *types.Var, val ast.Expr) ast.Stmt {
				te, err := parser.ParseExpr(types.TypeString(field.Type(), qual))
				if err != nil {
					failed = true
					te = ast.NewIdent("any")
				}
				n := fname(cd.v, field.Name())
				vs := &ast.ValueSpec{Names: []*ast.Ident{ast.NewIdent(n)}, Type: te}
				if val != nil {
					vs.Values = []ast.Expr{val}
				}
				return &ast.BlockStmt{List: []ast.Stmt{&ast.DeclStmt{Decl: &ast.GenDecl{Tok: token.VAR, Specs: []ast.Spec{vs}}}}}
			}
			_ = mk
			// declarations must stay in the enclosing block: emit them flat (a statement list
			// cannot replace one statement, so wrap the later uses' scope by declaring all fields
			// through one `var ( ... )` declaration - evaluation order is the literal's order)
			gd := &ast.GenDecl{Tok: token.VAR, Lparen: 1, Rparen: 1}
			seen := map[string]bool{}
			add := func(field *types.Var, val ast.Expr) {
				te, err := parser.ParseExpr(types.TypeString(field.Type(), qual))
				if err != nil {
					failed = true
					return
				}
				vs := &ast.ValueSpec{Names: []*ast.Ident{ast.NewIdent(fname(cd.v, field.Name()))}, Type: te}
				if val != nil {
					vs.Values = []ast.Expr{val}
				}
				gd.Specs = append(gd.Specs, vs)
			}
			byName := map[string]*types.Var{}
			for i := 0; i < cd.st.NumFields(); i++ {
				byName[cd.st.Field(i).Name()] = cd.st.Field(i)
			}
			for _, fn := range litOrder {
				if fv := byName[fn]; fv != nil && !seen[fn] {
					seen[fn] = true
					add(fv, given[fn])
				}
			}
			for i := 0; i < cd.st.NumFields(); i++ {
				fv := cd.st.Field(i)
				if seen[fv.Name()] {
					continue
				}
				if cd.from != nil {
					add(fv, ast.NewIdent(fname(cd.from, fv.Name())))
				} else {
					add(fv, nil)
				}
			}
			list = append(list, &ast.DeclStmt{Decl: gd})
			// keep every field "used"
			for i := 0; i < cd.st.NumFields(); i++ {
				list = append(list, &ast.AssignStmt{Lhs: []ast.Expr{ast.NewIdent("_")}, Tok: token.ASSIGN, Rhs: []ast.Expr{ast.NewIdent(fname(cd.v, cd.st.Field(i).Name()))}})
			}
			// a DeclStmt followed by `_ = f` statements cannot replace one statement without a
			// block; the block would end the variables' scope. Use the multi-statement splice below.
			nz.splice[x.(ast.Stmt)] = list
			return false
		}
		return true
	}, nil)
	if failed || !*qok {
		// the tree was partly rewritten: mark the file changed, so that the re-check fails and
		// the round is dropped with clean trees
		nz.splice = map[ast.Stmt][]ast.Stmt{}
		nz.failedRewrite = true
		nz.changed[f] = true
		return
	}
	// splice the field declarations in place of the struct declarations
	ast.Inspect(body, func(n ast.Node) bool {
		fix := func(list []ast.Stmt) []ast.Stmt {
			var out []ast.Stmt
			for _, st := range list {
				if rep, ok := nz.splice[st]; ok {
					out = append(out, rep...)
				} else {
					out = append(out, st)
				}
			}
			return out
		}
		switch x := n.(type) {
		case *ast.BlockStmt:
			x.List = fix(x.List)
		case *ast.CaseClause:
			x.Body = fix(x.Body)
		case *ast.CommClause:
			x.Body = fix(x.Body)
		}
		return true
	})
	nz.splice = map[ast.Stmt][]ast.Stmt{}
	nz.changed[f] = true
	nz.log = append(nz.log, fmt.Sprintf("%d local struct value(s) replaced by their fields", len(cands)))
}

// ---- N7: loops over local tables of struct literals with pure fields ----

func (nz *normaliser) pureExpr(e ast.Expr) bool {
	pure := true
	ast.Inspect(e, func(n ast.Node) bool {
		switch x := n.(type) {
		case *ast.CallExpr:
			if id, ok := x.Fun.(*ast.Ident); ok && (id.Name == "len" || id.Name == "cap") {
				if _, isB := nz.info.Uses[id].(*types.Builtin); isB {
					return true
				}
			}
			if tv, ok := nz.info.Types[x.Fun]; ok && tv.IsType() {
				return true // conversion
			}
			pure = false
		case *ast.FuncLit, *ast.IndexExpr, *ast.SliceExpr, *ast.StarExpr, *ast.TypeAssertExpr:
			pure = false // may panic or hide effects
		case *ast.UnaryExpr:
			if x.Op == token.ARROW || x.Op == token.AND {
				pure = false
			}
		case *ast.BinaryExpr:
			if x.Op == token.QUO || x.Op == token.REM || x.Op == token.SHL || x.Op == token.SHR {
				pure = false
			}
		}
		return pure
	})
	return pure
}

func (nz *normaliser) pureTablesIn(f *ast.File) {
	ast.Inspect(f, func(n ast.Node) bool {
		blk, ok := n.(*ast.BlockStmt)
		if !ok {
			return true
		}
		for i := 0; i+1 < len(blk.List); i++ {
			as, ok := blk.List[i].(*ast.AssignStmt)
			if !ok || as.Tok != token.DEFINE || len(as.Lhs) != 1 || len(as.Rhs) != 1 {
				continue
			}
			tid, ok := as.Lhs[0].(*ast.Ident)
			cl, ok2 := as.Rhs[0].(*ast.CompositeLit)
			rs, ok3 := blk.List[i+1].(*ast.RangeStmt)
			if !ok || !ok2 || !ok3 {
				continue
			}
			tv, _ := nz.info.Defs[tid].(*types.Var)
			rid, isId := rs.X.(*ast.Ident)
			if tv == nil || !isId || nz.info.Uses[rid] != types.Object(tv) || rs.Tok != token.DEFINE {
				continue
			}
			if k, isK := rs.Key.(*ast.Ident); rs.Key != nil && (!isK || k.Name != "_") {
				continue
			}
			vid, isV := rs.Value.(*ast.Ident)
			if !isV || vid.Name == "_" {
				continue
			}
			at, isArr := cl.Type.(*ast.ArrayType)
			if !isArr || len(cl.Elts) == 0 || len(cl.Elts) > 64 {
				continue
			}
			sl, isSl := tv.Type().Underlying().(*types.Slice)
			if !isSl {
				continue
			}
			st, isSt := sl.Elem().Underlying().(*types.Struct)
			if !isSt {
				continue
			}
			_ = at
			// the table is used by this loop only
			uses := 0
			ast.Inspect(f, func(m ast.Node) bool {
				if id, ok := m.(*ast.Ident); ok && nz.info.Uses[id] == types.Object(tv) {
					uses++
				}
				return true
			})
			if uses != 1 {
				continue
			}
			// elements: struct literals with pure fields
			var elems []map[string]ast.Expr
			okAll := true
			mentioned := map[types.Object]bool{}
			for _, e := range cl.Elts {
				ecl, ok := e.(*ast.CompositeLit)
				if !ok {
					okAll = false
					break
				}
				fm := map[string]ast.Expr{}
				for fi, fe := range ecl.Elts {
					var name string
					val := fe
					if kv, ok := fe.(*ast.KeyValueExpr); ok {
						kid, _ := kv.Key.(*ast.Ident)
						if kid == nil {
							okAll = false
							break
						}
						name, val = kid.Name, kv.Value
					} else if fi < st.NumFields() {
						name = st.Field(fi).Name()
					}
					if !nz.pureExpr(val) {
						okAll = false
					}
					ast.Inspect(val, func(m ast.Node) bool {
						if id, ok := m.(*ast.Ident); ok {
							if o := nz.info.Uses[id]; o != nil {
								mentioned[o] = true
							}
						}
						return true
					})
					fm[name] = val
				}
				elems = append(elems, fm)
			}
			if !okAll {
				continue
			}
			// the body reads the element field by field only and assigns none of the mentioned variables
			vobj := nz.info.Defs[vid]
			bad := false
			var stack []ast.Node
			ast.Inspect(rs.Body, func(m ast.Node) bool {
				if m == nil {
					stack = stack[:len(stack)-1]
					return true
				}
				stack = append(stack, m)
				switch x := m.(type) {
				case *ast.Ident:
					if nz.info.Uses[x] == vobj {
						if se, ok := stack[len(stack)-2].(*ast.SelectorExpr); !ok || se.X != ast.Expr(x) {
							bad = true
						}
					}
				case *ast.AssignStmt:
					for _, l := range x.Lhs {
						if root := rootIdent(l); root != nil {
							if o := nz.info.Uses[root]; o != nil && (mentioned[o] || o == vobj) {
								bad = true
							}
						}
					}
				case *ast.IncDecStmt:
					if root := rootIdent(x.X); root != nil && mentioned[nz.info.Uses[root]] {
						bad = true
					}
				case *ast.UnaryExpr:
					if x.Op == token.AND {
						bad = true
					}
				case *ast.FuncLit:
					bad = true
				}
				return true
			})
			breaks, continues, jok := loopJumps(rs.Body)
			if bad || !jok {
				continue
			}
			_ = breaks
			_ = continues
			nz.n++
			pfx := fmt.Sprintf("_unr%d_", nz.n)
			endLabel := pfx + "end"
			usedEnd := false
			var out []ast.Stmt
			for k, fm := range elems {
				bodyCopy := copyNode(rs.Body).(*ast.BlockStmt)
				nextLabel := fmt.Sprintf("%sn%d", pfx, k)
				usedNext := false
				bs, cs, _ := loopJumps(bodyCopy)
				bset, cset := map[*ast.BranchStmt]bool{}, map[*ast.BranchStmt]bool{}
				for _, b := range bs {
					bset[b] = true
				}
				for _, c := range cs {
					cset[c] = true
				}
				astutil.Apply(bodyCopy, func(cc *astutil.Cursor) bool {
					switch x := cc.Node().(type) {
					case *ast.BranchStmt:
						if bset[x] {
							usedEnd = true
							cc.Replace(&ast.BranchStmt{Tok: token.GOTO, Label: ast.NewIdent(endLabel)})
						} else if cset[x] {
							usedNext = true
							cc.Replace(&ast.BranchStmt{Tok: token.GOTO, Label: ast.NewIdent(nextLabel)})
						}
					case *ast.SelectorExpr:
						if xid, ok := x.X.(*ast.Ident); ok && xid.Name == vid.Name {
							if fv, has := fm[x.Sel.Name]; has {
								cc.Replace(&ast.ParenExpr{X: copyNode(fv).(ast.Expr)})
								return false
							}
						}
					}
					return true
				}, nil)
				out = append(out, bodyCopy)
				if usedNext {
					out = append(out, &ast.LabeledStmt{Label: ast.NewIdent(nextLabel), Stmt: &ast.EmptyStmt{}})
				}
			}
			if usedEnd {
				out = append(out, &ast.LabeledStmt{Label: ast.NewIdent(endLabel), Stmt: &ast.EmptyStmt{}})
			}
			blk.List = append(append(append([]ast.Stmt{}, blk.List[:i]...), &ast.BlockStmt{List: out}), blk.List[i+2:]...)
			nz.changed[f] = true
			nz.log = append(nz.log, fmt.Sprintf("loop over the local table %s (%d entries) written out", tid.Name, len(elems)))
			return true
		}
		return true
	})
}

// ---- N8: a defer in a nested block that ends with a return ----
//
// In a helper that is not part of the reviewed decomposition,
//
//	if resp.StatusCode != 200 {
//		defer resp.Body.Close()
//		body, _ := io.ReadAll(resp.Body)
//		return nil, fmt.Errorf("status %d: %s", resp.StatusCode, body)
//	}
//
// runs the deferred call after the results have been computed and before the caller sees them.
// The block is written that way: results into temporaries, the call, the return. (What differs
// is the panic path only.) After this the helper has no defer left and can be inlined.
func (nz *normaliser) sinkDefersIn(f *ast.File) {
	for _, d := range f.Decls {
		fd, ok := d.(*ast.FuncDecl)
		if !ok || fd.Body == nil || nz.baseline[declKey(fd)] || fd.Name.Name == "main" || fd.Name.Name == "init" {
			continue
		}
		var rtypes []ast.Expr
		namedResults := false
		if fd.Type.Results != nil {
			for _, fld := range fd.Type.Results.List {
				n := len(fld.Names)
				if n > 0 {
					namedResults = true
				}
				if n == 0 {
					n = 1
				}
				for i := 0; i < n; i++ {
					rtypes = append(rtypes, fld.Type)
				}
			}
		}
		if namedResults {
			continue // a deferred call can observe / change named results
		}
		simple := func(e ast.Expr) bool {
			okE := true
			ast.Inspect(e, func(n ast.Node) bool {
				switch n.(type) {
				case nil, *ast.Ident, *ast.SelectorExpr, *ast.BasicLit, *ast.ParenExpr:
				default:
					okE = false
				}
				return okE
			})
			return okE
		}
		process := func(list []ast.Stmt) ([]ast.Stmt, bool) {
			di := -1
			for i, st := range list {
				if _, isD := st.(*ast.DeferStmt); isD {
					if di >= 0 {
						return list, false
					}
					di = i
				}
			}
			if di < 0 || len(list) < 2 {
				return list, false
			}
			ret, isRet := list[len(list)-1].(*ast.ReturnStmt)
			if !isRet || (len(ret.Results) != len(rtypes)) {
				return list, false
			}
			ds := list[di].(*ast.DeferStmt)
			if !simple(ds.Call.Fun) {
				return list, false
			}
			for _, a := range ds.Call.Args {
				if !simple(a) {
					return list, false
				}
			}
			roots := map[string]bool{}
			ast.Inspect(ds.Call, func(n ast.Node) bool {
				if id, ok := n.(*ast.Ident); ok {
					roots[id.Name] = true
				}
				return true
			})
			for _, st := range list[di+1 : len(list)-1] {
				bad := false
				ast.Inspect(st, func(n ast.Node) bool {
					switch x := n.(type) {
					case *ast.ReturnStmt, *ast.BranchStmt, *ast.DeferStmt, *ast.FuncLit, *ast.GoStmt, *ast.LabeledStmt:
						bad = true
					case *ast.AssignStmt:
						for _, l := range x.Lhs {
							if id := rootIdent(l); id != nil && roots[id.Name] {
								bad = true
							}
						}
					case *ast.IncDecStmt:
						if id := rootIdent(x.X); id != nil && roots[id.Name] {
							bad = true
						}
					case *ast.UnaryExpr:
						if x.Op == token.AND {
							if id := rootIdent(x.X); id != nil && roots[id.Name] {
								bad = true
							}
						}
					}
					return !bad
				})
				if bad {
					return list, false
				}
			}
			nz.n++
			var out []ast.Stmt
			out = append(out, list[:di]...)
			out = append(out, list[di+1:len(list)-1]...)
			var temps []ast.Expr
			for k, e := range ret.Results {
				name := fmt.Sprintf("_dfr%d_r%d", nz.n, k)
				vs := &ast.ValueSpec{Names: []*ast.Ident{ast.NewIdent(name)}, Type: copyNode(rtypes[k]).(ast.Expr), Values: []ast.Expr{e}}
				out = append(out, &ast.DeclStmt{Decl: &ast.GenDecl{Tok: token.VAR, Specs: []ast.Spec{vs}}})
				temps = append(temps, ast.NewIdent(name))
			}
			out = append(out, &ast.ExprStmt{X: ds.Call}, &ast.ReturnStmt{Results: temps})
			return out, true
		}
		did := false
		ast.Inspect(fd.Body, func(n ast.Node) bool {
			switch x := n.(type) {
			case *ast.FuncLit:
				return false
			case *ast.BlockStmt:
				if x != fd.Body {
					if nl, ok := process(x.List); ok {
						x.List = nl
						did = true
					}
				}
			case *ast.CaseClause:
				if nl, ok := process(x.Body); ok {
					x.Body = nl
					did = true
				}
			}
			return true
		})
		if did {
			nz.changed[f] = true
			nz.log = append(nz.log, "deferred call in a returning block of "+declKey(fd)+" placed before the return")
		}
	}
}

// ---- N9: equivalent spellings of library calls the rules know under one name ----
//
//	enc.AppendDecode(nil, b)   ->  enc.DecodeString(string(b))        (*base64.Encoding)
//	enc.AppendEncode(nil, b)   ->  []byte(enc.EncodeToString(b))
//	string(sc.Bytes())         ->  sc.Text()                          (*bufio.Scanner)
func (nz *normaliser) libIdiomsIn(f *ast.File) {
	isNamedPtr := func(t types.Type, pkg, name string) bool {
		if p, ok := t.(*types.Pointer); ok {
			t = p.Elem()
		}
		n, ok := t.(*types.Named)
		return ok && n.Obj().Name() == name && n.Obj().Pkg() != nil && n.Obj().Pkg().Path() == pkg
	}
	astutil.Apply(f, nil, func(c *astutil.Cursor) bool {
		ce, ok := c.Node().(*ast.CallExpr)
		if !ok {
			return true
		}
		// string(sc.Bytes())
		if id, ok := ce.Fun.(*ast.Ident); ok && id.Name == "string" && len(ce.Args) == 1 {
			if _, isB := nz.info.Uses[id].(*types.TypeName); isB || nz.info.Uses[id] == types.Universe.Lookup("string") {
				if inner, ok := ce.Args[0].(*ast.CallExpr); ok && len(inner.Args) == 0 {
					if sel, ok := inner.Fun.(*ast.SelectorExpr); ok && sel.Sel.Name == "Bytes" {
						if tv, ok := nz.info.Types[sel.X]; ok && isNamedPtr(tv.Type, "bufio", "Scanner") {
							c.Replace(&ast.CallExpr{Fun: &ast.SelectorExpr{X: sel.X, Sel: ast.NewIdent("Text")}})
							nz.changed[f] = true
							nz.log = append(nz.log, "string(scanner.Bytes()) written as scanner.Text()")
							return true
						}
					}
				}
			}
		}
		sel, ok := ce.Fun.(*ast.SelectorExpr)
		if !ok {
			return true
		}
		// io.ReadFull(rand.Reader, b) -> rand.Read(b)   (crypto/rand.Read is documented as exactly that)
		if sel.Sel.Name == "ReadFull" && len(ce.Args) == 2 {
			if fo, ok := nz.info.Uses[sel.Sel].(*types.Func); ok && fo.Pkg() != nil && fo.Pkg().Path() == "io" {
				if rs, ok := ce.Args[0].(*ast.SelectorExpr); ok && rs.Sel.Name == "Reader" {
					if vo, ok := nz.info.Uses[rs.Sel].(*types.Var); ok && vo.Pkg() != nil && vo.Pkg().Path() == "crypto/rand" {
						c.Replace(&ast.CallExpr{Fun: &ast.SelectorExpr{X: rs.X, Sel: ast.NewIdent("Read")}, Args: []ast.Expr{ce.Args[1]}})
						nz.changed[f] = true
						nz.log = append(nz.log, "io.ReadFull(rand.Reader, b) written as rand.Read(b)")
						return true
					}
				}
			}
		}
		if len(ce.Args) != 2 || (sel.Sel.Name != "AppendDecode" && sel.Sel.Name != "AppendEncode") {
			return true
		}
		tv, ok := nz.info.Types[sel.X]
		if !ok || !isNamedPtr(tv.Type, "encoding/base64", "Encoding") {
			return true
		}
		if id, ok := ce.Args[0].(*ast.Ident); !ok || id.Name != "nil" {
			return true
		}
		if sel.Sel.Name == "AppendDecode" {
			c.Replace(&ast.CallExpr{Fun: &ast.SelectorExpr{X: sel.X, Sel: ast.NewIdent("DecodeString")},
				Args: []ast.Expr{&ast.CallExpr{Fun: ast.NewIdent("string"), Args: []ast.Expr{ce.Args[1]}}}})
		} else {
			c.Replace(&ast.CallExpr{Fun: &ast.ArrayType{Elt: ast.NewIdent("byte")},
				Args: []ast.Expr{&ast.CallExpr{Fun: &ast.SelectorExpr{X: sel.X, Sel: ast.NewIdent("EncodeToString")}, Args: []ast.Expr{ce.Args[1]}}}})
		}
		nz.changed[f] = true
		nz.log = append(nz.log, "base64 "+sel.Sel.Name+"(nil, x) written with the string form")
		return true
	})
}

// ---- N10: test seams ----
//
// A package-level variable that exists so that tests can replace a dependency -
//
//	var timeNow = time.Now
//	var exit = os.Exit
//	var defaultKeyStore = keyStore{readFile: os.ReadFile, writeFile: os.WriteFile, entropy: rand.Reader}
//
// - and that no non-test code ever assigns, takes the address of or hands out whole, IS its
// initial value as far as the analysed program goes. Its uses are written as that value:
// `timeNow()` -> `time.Now()`, `exit(1)` -> `os.Exit(1)`, `defaultKeyStore.readFile` ->
// `os.ReadFile`, and a local copy `ks := defaultKeyStore` becomes the literal (which the
// scalar replacement of local structs then takes apart).
func (nz *normaliser) foldSeams() {
	type seam struct {
		obj  *types.Var
		init ast.Expr
		file *ast.File
	}
	seams := map[*types.Var]*seam{}
	// a "reference" initialiser: a function of this or another package, or a package-level
	// variable / constant of ANOTHER package (rand.Reader, os.Stderr)
	isRef := func(e ast.Expr) bool {
		switch x := e.(type) {
		case *ast.Ident:
			_, isF := nz.info.Uses[x].(*types.Func)
			return isF
		case *ast.SelectorExpr:
			if pid, ok := x.X.(*ast.Ident); ok {
				if _, isPkg := nz.info.Uses[pid].(*types.PkgName); isPkg {
					switch nz.info.Uses[x.Sel].(type) {
					case *types.Func, *types.Var, *types.Const:
						return true
					}
				}
			}
		case *ast.BasicLit:
			return true
		}
		return false
	}
	for _, f := range nz.pkg.Syntax {
		for _, d := range f.Decls {
			gd, ok := d.(*ast.GenDecl)
			if !ok || gd.Tok != token.VAR {
				continue
			}
			for _, sp := range gd.Specs {
				vs := sp.(*ast.ValueSpec)
				if len(vs.Names) != 1 || len(vs.Values) != 1 {
					continue
				}
				obj, _ := nz.info.Defs[vs.Names[0]].(*types.Var)
				if obj == nil {
					continue
				}
				switch obj.Type().Underlying().(type) {
				case *types.Signature:
					if isRef(vs.Values[0]) {
						seams[obj] = &seam{obj, vs.Values[0], f}
					}
				case *types.Struct:
					cl, ok := vs.Values[0].(*ast.CompositeLit)
					if !ok || cl.Type == nil {
						continue
					}
					okAll := len(cl.Elts) > 0
					hasFunc := false
					for _, e := range cl.Elts {
						kv, isKV := e.(*ast.KeyValueExpr)
						if !isKV || !isRef(kv.Value) {
							okAll = false
							continue
						}
						if tv, ok := nz.info.Types[kv.Value]; ok {
							if _, isSig := tv.Type.Underlying().(*types.Signature); isSig {
								hasFunc = true
							}
						}
					}
					if okAll && hasFunc {
						seams[obj] = &seam{obj, cl, f}
					}
				}
			}
		}
	}
	if len(seams) == 0 {
		return
	}
	// disqualify: assigned, address taken, field assigned, ++/--
	for _, f := range nz.pkg.Syntax {
		ast.Inspect(f, func(n ast.Node) bool {
			root := func(e ast.Expr) *types.Var {
				if id := rootIdent(e); id != nil {
					if v, ok := nz.info.Uses[id].(*types.Var); ok {
						return v
					}
				}
				return nil
			}
			switch x := n.(type) {
			case *ast.AssignStmt:
				for _, l := range x.Lhs {
					if v := root(l); v != nil {
						delete(seams, v)
					}
				}
			case *ast.UnaryExpr:
				if x.Op == token.AND {
					if v := root(x.X); v != nil {
						delete(seams, v)
					}
				}
			case *ast.IncDecStmt:
				if v := root(x.X); v != nil {
					delete(seams, v)
				}
			case *ast.RangeStmt:
				if x.Tok == token.ASSIGN {
					for _, e := range []ast.Expr{x.Key, x.Value} {
						if e != nil {
							if v := root(e); v != nil {
								delete(seams, v)
							}
						}
					}
				}
			}
			return true
		})
	}
	if len(seams) == 0 {
		return
	}
	// struct seams: every use must be `G.field` or a whole-value copy into a new local
	// (`ks := G`, `var ks T = G`); anything else (passed to a function, compared ...) keeps it
	for _, f := range nz.pkg.Syntax {
		var stack []ast.Node
		ast.Inspect(f, func(n ast.Node) bool {
			if n == nil {
				stack = stack[:len(stack)-1]
				return true
			}
			stack = append(stack, n)
			id, ok := n.(*ast.Ident)
			if !ok {
				return true
			}
			v, _ := nz.info.Uses[id].(*types.Var)
			sm := seams[v]
			if sm == nil {
				return true
			}
			if _, isStruct := v.Type().Underlying().(*types.Struct); !isStruct {
				return true
			}
			parent := stack[len(stack)-2]
			okUse := false
			switch p := parent.(type) {
			case *ast.SelectorExpr:
				okUse = p.X == ast.Expr(id)
			case *ast.AssignStmt:
				okUse = p.Tok == token.DEFINE && len(p.Rhs) == 1 && p.Rhs[0] == ast.Expr(id)
			case *ast.ValueSpec:
				okUse = len(p.Values) == 1 && p.Values[0] == ast.Expr(id)
			}
			if !okUse {
				delete(seams, v)
			}
			return true
		})
	}
	if len(seams) == 0 {
		return
	}
	needImports := func(f *ast.File, e ast.Expr, from *ast.File) {
		ast.Inspect(e, func(n ast.Node) bool {
			if id, ok := n.(*ast.Ident); ok {
				if pn, ok := nz.info.Uses[id].(*types.PkgName); ok {
					have := false
					for _, imp := range f.Imports {
						if strings.Trim(imp.Path.Value, "\"") == pn.Imported().Path() {
							have = true
						}
					}
					if !have {
						if pn.Name() == pn.Imported().Name() {
							astutil.AddImport(nz.pkg.Fset, f, pn.Imported().Path())
						} else {
							astutil.AddNamedImport(nz.pkg.Fset, f, pn.Name(), pn.Imported().Path())
						}
					}
				}
			}
			return true
		})
	}
	for _, f := range nz.pkg.Syntax {
		f := f
		astutil.Apply(f, nil, func(c *astutil.Cursor) bool {
			switch x := c.Node().(type) {
			case *ast.SelectorExpr:
				id, ok := x.X.(*ast.Ident)
				if !ok {
					return true
				}
				v, _ := nz.info.Uses[id].(*types.Var)
				sm := seams[v]
				if sm == nil {
					return true
				}
				cl, ok := sm.init.(*ast.CompositeLit)
				if !ok {
					return true
				}
				for _, e := range cl.Elts {
					kv := e.(*ast.KeyValueExpr)
					if kid, ok := kv.Key.(*ast.Ident); ok && kid.Name == x.Sel.Name {
						needImports(f, kv.Value, sm.file)
						c.Replace(nz.copyWithInfo(kv.Value))
						nz.changed[f] = true
						nz.log = append(nz.log, "seam "+v.Name()+"."+x.Sel.Name+" written as its initial value")
						return true
					}
				}
			case *ast.Ident:
				v, _ := nz.info.Uses[x].(*types.Var)
				sm := seams[v]
				if sm == nil {
					return true
				}
				if _, isSel := c.Parent().(*ast.SelectorExpr); isSel {
					return true // handled above (X of a selector) or a field name
				}
				if _, isKV := c.Parent().(*ast.KeyValueExpr); isKV && c.Name() == "Key" {
					return true
				}
				needImports(f, sm.init, sm.file)
				c.Replace(nz.copyWithInfo(sm.init))
				nz.changed[f] = true
				nz.log = append(nz.log, "seam "+v.Name()+" written as its initial value")
			}
			return true
		})
	}
}

// ---- N11: local names of functions / package variables ----
//
// `var read func(string) ([]byte, error) = os.ReadFile` (what is left of a folded seam or of a
// scalar-replaced options struct), with `read` never assigned again and its address never
// taken: uses of `read` are written as `os.ReadFile`.
func (nz *normaliser) localRefsIn(f *ast.File) {
	var curBody *ast.BlockStmt
	// a local that is defined once and never assigned again, whose address is never taken
	stableLocal := func(v *types.Var) bool {
		if curBody == nil || v == nil || v.Parent() == nil || v.Parent() == nz.pkg.Types.Scope() {
			return false
		}
		ok := true
		ast.Inspect(curBody, func(n ast.Node) bool {
			switch x := n.(type) {
			case *ast.AssignStmt:
				if x.Tok != token.DEFINE {
					for _, l := range x.Lhs {
						if id, isId := l.(*ast.Ident); isId && nz.info.Uses[id] == types.Object(v) {
							ok = false
						}
					}
				}
			case *ast.UnaryExpr:
				if x.Op == token.AND {
					if id, isId := x.X.(*ast.Ident); isId && nz.info.Uses[id] == types.Object(v) {
						ok = false
					}
				}
			case *ast.IncDecStmt:
				if id, isId := x.X.(*ast.Ident); isId && nz.info.Uses[id] == types.Object(v) {
					ok = false
				}
			}
			return true
		})
		return ok
	}
	isRef := func(e ast.Expr) bool {
		switch x := e.(type) {
		case *ast.Ident:
			if _, isF := nz.info.Uses[x].(*types.Func); isF {
				return true
			}
		case *ast.SelectorExpr:
			// a method value of a stable local (`fn := lr.handle` with lr defined once): calling fn
			// is calling the method on that receiver
			if sel := nz.info.Selections[x]; sel != nil && sel.Kind() == types.MethodVal {
				if rid, ok := x.X.(*ast.Ident); ok {
					if rv, ok := nz.info.Uses[rid].(*types.Var); ok && stableLocal(rv) {
						if _, isPtr := rv.Type().Underlying().(*types.Pointer); isPtr {
							return true
						}
					}
				}
			}
			if pid, ok := x.X.(*ast.Ident); ok {
				if _, isPkg := nz.info.Uses[pid].(*types.PkgName); isPkg {
					switch nz.info.Uses[x.Sel].(type) {
					case *types.Func, *types.Var:
						return true
					}
				}
			}
		}
		return false
	}
	for _, d := range f.Decls {
		fd, ok := d.(*ast.FuncDecl)
		if !ok || fd.Body == nil {
			continue
		}
		curBody = fd.Body
		cands := map[*types.Var]ast.Expr{}
		// (a local initialised with another such local is one too: chains are followed)
		isRefOrCand := func(e ast.Expr) bool {
			if isRef(e) {
				return true
			}
			if id, ok := e.(*ast.Ident); ok {
				if v, ok := nz.info.Uses[id].(*types.Var); ok {
					_, is := cands[v]
					return is
				}
			}
			return false
		}
		for grown := true; grown; {
			grown = false
			ast.Inspect(fd.Body, func(n ast.Node) bool {
				switch x := n.(type) {
				case *ast.ValueSpec:
					if len(x.Names) == len(x.Values) {
						for i, nm := range x.Names {
							if v, ok := nz.info.Defs[nm].(*types.Var); ok && isRefOrCand(x.Values[i]) {
								if _, had := cands[v]; !had {
									cands[v] = x.Values[i]
									grown = true
								}
							}
						}
					}
				case *ast.AssignStmt:
					if x.Tok == token.DEFINE && len(x.Lhs) == len(x.Rhs) {
						for i, l := range x.Lhs {
							if id, ok := l.(*ast.Ident); ok {
								if v, ok := nz.info.Defs[id].(*types.Var); ok && isRefOrCand(x.Rhs[i]) {
									if _, had := cands[v]; !had {
										cands[v] = x.Rhs[i]
										grown = true
									}
								}
							}
						}
					}
				}
				return true
			})
		}
		if len(cands) == 0 {
			continue
		}
		ast.Inspect(fd.Body, func(n ast.Node) bool {
			kill := func(e ast.Expr) {
				if id := rootIdent(e); id != nil {
					if v, ok := nz.info.Uses[id].(*types.Var); ok {
						delete(cands, v)
					}
				}
			}
			switch x := n.(type) {
			case *ast.AssignStmt:
				if x.Tok != token.DEFINE {
					for _, l := range x.Lhs {
						kill(l)
					}
				} else {
					// a := redeclaration of an existing variable in a multi-assign
					for _, l := range x.Lhs {
						if id, ok := l.(*ast.Ident); ok && nz.info.Defs[id] == nil {
							kill(l)
						}
					}
				}
			case *ast.UnaryExpr:
				if x.Op == token.AND {
					kill(x.X)
				}
			case *ast.IncDecStmt:
				kill(x.X)
			case *ast.RangeStmt:
				if x.Tok == token.ASSIGN {
					if x.Key != nil {
						kill(x.Key)
					}
					if x.Value != nil {
						kill(x.Value)
					}
				}
			}
			return true
		})
		if len(cands) == 0 {
			continue
		}
		astutil.Apply(fd.Body, nil, func(c *astutil.Cursor) bool {
			id, ok := c.Node().(*ast.Ident)
			if !ok {
				return true
			}
			v, _ := nz.info.Uses[id].(*types.Var)
			e, ok := cands[v]
			if !ok {
				return true
			}
			if sel, isSel := c.Parent().(*ast.SelectorExpr); isSel && sel.Sel == id {
				return true
			}
			if as, isAs := c.Parent().(*ast.AssignStmt); isAs && len(as.Lhs) == 1 {
				if l, ok := as.Lhs[0].(*ast.Ident); ok && l.Name == "_" {
					return true // `_ = x`: the marker that keeps x used
				}
			}
			// follow the chain to the reference itself (only through candidates that survived)
			for depth := 0; depth < 8; depth++ {
				nid, isId := e.(*ast.Ident)
				if !isId {
					break
				}
				nv, _ := nz.info.Uses[nid].(*types.Var)
				ne, isCand := cands[nv]
				if !isCand {
					break
				}
				e = ne
			}
			if !isRef(e) {
				return true
			}
			c.Replace(nz.copyWithInfo(e))
			nz.changed[f] = true
			return true
		})
		// a candidate whose uses were all written out must stay "used": `_ = name` after its
		// declaration (the inliner's argument temporaries carry no such marker)
		if nz.changed[f] {
			// candidates nothing refers to any more (but for `_ = x` markers): their
			// declarations go, so that the function / method they named is no longer "used as
			// a value" and can be inlined in the next round
			live := map[*types.Var]int{}
			ast.Inspect(fd.Body, func(n ast.Node) bool {
				if as, ok := n.(*ast.AssignStmt); ok && as.Tok == token.ASSIGN && len(as.Lhs) == 1 && len(as.Rhs) == 1 {
					if l, ok := as.Lhs[0].(*ast.Ident); ok && l.Name == "_" {
						if _, isId := as.Rhs[0].(*ast.Ident); isId {
							return false
						}
					}
				}
				if id, ok := n.(*ast.Ident); ok {
					if v, ok := nz.info.Uses[id].(*types.Var); ok {
						live[v]++
					}
				}
				return true
			})
			dead := func(nm *ast.Ident) bool {
				v, ok := nz.info.Defs[nm].(*types.Var)
				if !ok {
					return false
				}
				_, isCand := cands[v]
				return isCand && live[v] == 0
			}
			ast.Inspect(fd.Body, func(n ast.Node) bool {
				fix := func(list []ast.Stmt) []ast.Stmt {
					var out []ast.Stmt
					for _, st := range list {
						// drop `var x T = ref` / `x := ref` of a dead candidate and its marker
						switch x := st.(type) {
						case *ast.DeclStmt:
							if gd, ok := x.Decl.(*ast.GenDecl); ok && gd.Tok == token.VAR && len(gd.Specs) == 1 {
								if vs, ok := gd.Specs[0].(*ast.ValueSpec); ok && len(vs.Names) == 1 && dead(vs.Names[0]) {
									continue
								}
							}
						case *ast.AssignStmt:
							if x.Tok == token.DEFINE && len(x.Lhs) == 1 {
								if id, ok := x.Lhs[0].(*ast.Ident); ok && dead(id) {
									continue
								}
							}
							if x.Tok == token.ASSIGN && len(x.Lhs) == 1 && len(x.Rhs) == 1 {
								if l, ok := x.Lhs[0].(*ast.Ident); ok && l.Name == "_" {
									if rid, ok := x.Rhs[0].(*ast.Ident); ok {
										if v, ok := nz.info.Uses[rid].(*types.Var); ok {
											if _, isCand := cands[v]; isCand && live[v] == 0 {
												continue
											}
										}
									}
								}
							}
						}
						out = append(out, st)
						var names []*ast.Ident
						switch x := st.(type) {
						case *ast.DeclStmt:
							if gd, ok := x.Decl.(*ast.GenDecl); ok && gd.Tok == token.VAR {
								for _, sp := range gd.Specs {
									if vs, ok := sp.(*ast.ValueSpec); ok {
										names = append(names, vs.Names...)
									}
								}
							}
						case *ast.AssignStmt:
							if x.Tok == token.DEFINE {
								for _, l := range x.Lhs {
									if id, ok := l.(*ast.Ident); ok {
										names = append(names, id)
									}
								}
							}
						}
						for _, nm := range names {
							if v, ok := nz.info.Defs[nm].(*types.Var); ok && nm.Name != "_" {
								if _, isCand := cands[v]; isCand {
									out = append(out, &ast.AssignStmt{Lhs: []ast.Expr{ast.NewIdent("_")}, Tok: token.ASSIGN, Rhs: []ast.Expr{ast.NewIdent(nm.Name)}})
								}
							}
						}
					}
					return out
				}
				switch x := n.(type) {
				case *ast.BlockStmt:
					x.List = fix(x.List)
				case *ast.CaseClause:
					x.Body = fix(x.Body)
				case *ast.CommClause:
					x.Body = fix(x.Body)
				}
				return true
			})
		}
	}
}

// copyWithInfo copies an expression and carries the type information of its identifiers and
// sub-expressions over to the copy, so that later passes of the same round can still resolve it.
func (nz *normaliser) copyWithInfo(e ast.Expr) ast.Expr {
	cp := copyNode(e).(ast.Expr)
	var a, b []ast.Node
	ast.Inspect(e, func(n ast.Node) bool {
		if n != nil {
			a = append(a, n)
		}
		return true
	})
	ast.Inspect(cp, func(n ast.Node) bool {
		if n != nil {
			b = append(b, n)
		}
		return true
	})
	if len(a) != len(b) {
		return cp
	}
	for i := range a {
		if id, ok := a[i].(*ast.Ident); ok {
			if nid, ok := b[i].(*ast.Ident); ok {
				if o := nz.info.Uses[id]; o != nil {
					nz.info.Uses[nid] = o
				}
			}
		}
		if ex, ok := a[i].(ast.Expr); ok {
			if nex, ok := b[i].(ast.Expr); ok {
				if tv, ok := nz.info.Types[ex]; ok {
					nz.info.Types[nex] = tv
				}
			}
		}
	}
	return cp
}

// ---- N12: options structs passed by value ----
//
// `func walk(arr []any, w arrayWalk, path []string)` with `type arrayWalk struct{fieldNames, search, selective bool}`,
// called as `walk(a, arrayWalk{fieldNames: f}, p)` or `walk(a, w, p)`, is the function with one
// parameter per field: `walk(arr, w_fieldNames, w_search, w_selective, path)`. The rules follow
// individual parameters (the field-name flag, the search flag, the private key) from caller to
// callee; a group of them travelling in a struct value is taken apart again. Conditions: the
// struct type is declared in the package, the parameter is used only through its fields (or handed
// on whole to another such parameter), the function is only ever called directly, and every
// argument is a composite literal, a local variable or such a parameter.
func (nz *normaliser) flattenStructParams() {
	pkg := nz.pkg
	info := nz.info
	// struct type declarations of the package
	structDecl := map[*types.TypeName]*ast.StructType{}
	structFile := map[*types.TypeName]*ast.File{}
	for _, f := range pkg.Syntax {
		ast.Inspect(f, func(n ast.Node) bool {
			ts, ok := n.(*ast.TypeSpec)
			if !ok {
				return true
			}
			st, ok := ts.Type.(*ast.StructType)
			if !ok || ts.TypeParams != nil {
				return true
			}
			if tn, ok := info.Defs[ts.Name].(*types.TypeName); ok && tn.Parent() == pkg.Types.Scope() {
				okFields := st.Fields != nil && len(st.Fields.List) > 0
				nf := 0
				for _, fl := range st.Fields.List {
					if len(fl.Names) == 0 {
						okFields = false // embedded
					}
					nf += len(fl.Names)
				}
				if okFields && nf <= 12 {
					structDecl[tn] = st
					structFile[tn] = f
				}
			}
			return true
		})
	}
	if len(structDecl) == 0 {
		return
	}
	structOf := func(t types.Type) *types.TypeName {
		n, ok := t.(*types.Named)
		if !ok {
			return nil
		}
		if _, has := structDecl[n.Obj()]; has {
			return n.Obj()
		}
		return nil
	}
	type cand struct {
		fn    *types.Func
		fd    *ast.FuncDecl
		file  *ast.File
		idx   int // parameter index in the signature
		v     *types.Var
		tn    *types.TypeName
		alive bool
	}
	var cands []*cand
	byVar := map[*types.Var]*cand{}
	byFn := map[*types.Func][]*cand{}
	for _, f := range pkg.Syntax {
		for _, d := range f.Decls {
			fd, ok := d.(*ast.FuncDecl)
			if !ok || fd.Body == nil || fd.Type.TypeParams != nil {
				continue
			}
			fo, ok := info.Defs[fd.Name].(*types.Func)
			if !ok {
				continue
			}
			sig := fo.Type().(*types.Signature)
			if sig.Variadic() {
				continue
			}
			for i := 0; i < sig.Params().Len(); i++ {
				pv := sig.Params().At(i)
				tn := structOf(pv.Type())
				if tn == nil || pv.Name() == "" || pv.Name() == "_" {
					continue
				}
				c := &cand{fn: fo, fd: fd, file: f, idx: i, v: pv, tn: tn, alive: true}
				cands = append(cands, c)
				byVar[pv] = c
				byFn[fo] = append(byFn[fo], c)
			}
		}
	}
	if len(cands) == 0 {
		return
	}
	calleeOf := func(ce *ast.CallExpr) *types.Func {
		switch fx := ce.Fun.(type) {
		case *ast.Ident:
			fo, _ := info.Uses[fx].(*types.Func)
			return fo
		case *ast.SelectorExpr:
			fo, _ := info.Uses[fx.Sel].(*types.Func)
			return fo
		}
		return nil
	}
	candAt := func(fo *types.Func, argIdx int) *cand {
		for _, c := range byFn[fo] {
			if c.idx == argIdx {
				return c
			}
		}
		return nil
	}
	// fixpoint of disqualifications
	for changed := true; changed; {
		changed = false
		kill := func(c *cand) {
			if c != nil && c.alive {
				c.alive = false
				changed = true
			}
		}
		for _, f := range pkg.Syntax {
			var stack []ast.Node
			ast.Inspect(f, func(n ast.Node) bool {
				if n == nil {
					stack = stack[:len(stack)-1]
					return true
				}
				stack = append(stack, n)
				switch x := n.(type) {
				case *ast.Ident:
					// a function with candidate parameters used other than as the callee
					if fo, ok := info.Uses[x].(*types.Func); ok && len(byFn[fo]) > 0 {
						direct := false
						if len(stack) >= 2 {
							switch p := stack[len(stack)-2].(type) {
							case *ast.CallExpr:
								direct = p.Fun == ast.Expr(x)
							case *ast.SelectorExpr:
								if len(stack) >= 3 {
									if ce, ok := stack[len(stack)-3].(*ast.CallExpr); ok && ce.Fun == ast.Expr(p) && p.Sel == x {
										direct = true
									}
								}
							}
						}
						if !direct {
							for _, c := range byFn[fo] {
								kill(c)
							}
						}
					}
					// uses of a candidate parameter
					if v, ok := info.Uses[x].(*types.Var); ok {
						if c := byVar[v]; c != nil && c.alive {
							okUse := false
							if len(stack) >= 2 {
								switch p := stack[len(stack)-2].(type) {
								case *ast.SelectorExpr:
									okUse = p.X == ast.Expr(x)
									if sel := info.Selections[p]; sel == nil || sel.Kind() != types.FieldVal {
										okUse = false // a method of the struct called on the parameter (inlined first, when it is a new one)
									}
								case *ast.ValueSpec:
									// `var r T = p`: a local copy (what an inlined value-receiver method leaves)
									okUse = len(p.Values) == 1 && p.Values[0] == ast.Expr(x) && len(p.Names) == 1
								case *ast.AssignStmt:
									okUse = p.Tok == token.DEFINE && len(p.Rhs) == 1 && len(p.Lhs) == 1 && p.Rhs[0] == ast.Expr(x)
								case *ast.CallExpr:
									if fo := calleeOf(p); fo != nil {
										for ai, a := range p.Args {
											if a == ast.Expr(x) {
												if cc := candAt(fo, ai); cc != nil && cc.alive && cc.tn == c.tn {
													okUse = true
												}
											}
										}
									}
								}
							}
							if okUse && len(stack) >= 3 {
								// &p.f, p.f = ..., p.f++ : the copy semantics of a by-value struct are those of locals; fine
							}
							if !okUse {
								kill(c)
							}
						}
					}
				case *ast.CallExpr:
					fo := calleeOf(x)
					if fo == nil || len(byFn[fo]) == 0 {
						return true
					}
					if x.Ellipsis.IsValid() || len(x.Args) != fo.Type().(*types.Signature).Params().Len() {
						for _, c := range byFn[fo] {
							kill(c)
						}
						return true
					}
					for _, c := range byFn[fo] {
						if !c.alive {
							continue
						}
						a := x.Args[c.idx]
						okArg := false
						switch ax := a.(type) {
						case *ast.CompositeLit:
							if tv, ok := info.Types[ax]; ok && structOf(tv.Type) == c.tn {
								okArg = true
								for _, e := range ax.Elts {
									if kv, isKV := e.(*ast.KeyValueExpr); isKV {
										if _, isId := kv.Key.(*ast.Ident); !isId {
											okArg = false
										}
									}
								}
							}
						case *ast.Ident:
							if v, ok := info.Uses[ax].(*types.Var); ok && structOf(v.Type()) == c.tn && !v.IsField() && v.Parent() != pkg.Types.Scope() {
								if pc := byVar[v]; pc != nil {
									okArg = pc.alive
								} else {
									okArg = true // a local variable: its fields are read at the call
								}
							}
						}
						if !okArg {
							kill(c)
						}
					}
				}
				return true
			})
		}
	}
	alive := 0
	for _, c := range cands {
		if c.alive {
			alive++
		}
	}
	if alive == 0 {
		return
	}
	fieldsOf := func(tn *types.TypeName) (names []string, typs []ast.Expr, ttypes []types.Type) {
		st := structDecl[tn]
		tst := tn.Type().Underlying().(*types.Struct)
		k := 0
		for _, fl := range st.Fields.List {
			for _, nm := range fl.Names {
				names = append(names, nm.Name)
				typs = append(typs, fl.Type)
				ttypes = append(ttypes, tst.Field(k).Type())
				k++
			}
		}
		return
	}
	zeroOf := func(t types.Type, te ast.Expr) ast.Expr {
		switch u := t.Underlying().(type) {
		case *types.Basic:
			switch {
			case u.Info()&types.IsBoolean != 0:
				return ast.NewIdent("false")
			case u.Info()&types.IsString != 0:
				return &ast.BasicLit{Kind: token.STRING, Value: "\"\""}
			case u.Info()&types.IsNumeric != 0:
				return &ast.BasicLit{Kind: token.INT, Value: "0"}
			}
		case *types.Pointer, *types.Slice, *types.Map, *types.Interface, *types.Signature, *types.Chan:
			return ast.NewIdent("nil")
		}
		return &ast.StarExpr{X: &ast.CallExpr{Fun: ast.NewIdent("new"), Args: []ast.Expr{copyNode(te).(ast.Expr)}}}
	}
	addImportsFor := func(f *ast.File, e ast.Expr) {
		ast.Inspect(e, func(n ast.Node) bool {
			if id, ok := n.(*ast.Ident); ok {
				if pn, ok := info.Uses[id].(*types.PkgName); ok {
					have := false
					for _, imp := range f.Imports {
						if strings.Trim(imp.Path.Value, "\"") == pn.Imported().Path() {
							have = true
						}
					}
					if !have {
						astutil.AddImport(pkg.Fset, f, pn.Imported().Path())
					}
				}
			}
			return true
		})
	}
	flat := func(p, f string) string { return p + "_" + f }
	// 1. call sites (before the parameter uses are rewritten: arguments that are candidate
	// parameters are expanded by name)
	for _, f := range pkg.Syntax {
		astutil.Apply(f, nil, func(cur *astutil.Cursor) bool {
			ce, ok := cur.Node().(*ast.CallExpr)
			if !ok {
				return true
			}
			fo := calleeOf(ce)
			if fo == nil {
				return true
			}
			var live []*cand
			for _, c := range byFn[fo] {
				if c.alive {
					live = append(live, c)
				}
			}
			if len(live) == 0 {
				return true
			}
			var nargs []ast.Expr
			for ai, a := range ce.Args {
				var c *cand
				for _, lc := range live {
					if lc.idx == ai {
						c = lc
					}
				}
				if c == nil {
					nargs = append(nargs, a)
					continue
				}
				names, typs, ttypes := fieldsOf(c.tn)
				switch ax := a.(type) {
				case *ast.CompositeLit:
					vals := make([]ast.Expr, len(names))
					for ei, e := range ax.Elts {
						if kv, isKV := e.(*ast.KeyValueExpr); isKV {
							for k, nm := range names {
								if nm == kv.Key.(*ast.Ident).Name {
									vals[k] = kv.Value
								}
							}
						} else if ei < len(vals) {
							vals[ei] = e
						}
					}
					for k := range vals {
						if vals[k] == nil {
							vals[k] = zeroOf(ttypes[k], typs[k])
						}
					}
					nargs = append(nargs, vals...)
				case *ast.Ident:
					v, _ := info.Uses[ax].(*types.Var)
					if pc := byVar[v]; pc != nil && pc.alive {
						for _, nm := range names {
							nargs = append(nargs, ast.NewIdent(flat(ax.Name, nm)))
						}
					} else {
						for _, nm := range names {
							nargs = append(nargs, &ast.SelectorExpr{X: ast.NewIdent(ax.Name), Sel: ast.NewIdent(nm)})
						}
					}
				}
			}
			ce.Args = nargs
			nz.changed[f] = true
			return true
		})
	}
	// 2. declarations and bodies
	for _, c := range cands {
		if !c.alive {
			continue
		}
		names, typs, _ := fieldsOf(c.tn)
		// parameter list
		var nl []*ast.Field
		for _, fl := range c.fd.Type.Params.List {
			hit := false
			for _, nm := range fl.Names {
				if info.Defs[nm] == types.Object(c.v) {
					hit = true
				}
			}
			if !hit {
				nl = append(nl, fl)
				continue
			}
			for _, nm := range fl.Names {
				if info.Defs[nm] == types.Object(c.v) {
					for k := range names {
						addImportsFor(c.file, typs[k])
						nl = append(nl, &ast.Field{Names: []*ast.Ident{ast.NewIdent(flat(nm.Name, names[k]))}, Type: copyNode(typs[k]).(ast.Expr)})
					}
				} else {
					nl = append(nl, &ast.Field{Names: []*ast.Ident{nm}, Type: fl.Type})
				}
			}
		}
		c.fd.Type.Params.List = nl
		// uses: p.f -> p_f ; a whole-value copy `r := p` -> `r := T{f: p_f, ...}`
		astutil.Apply(c.fd.Body, nil, func(cur *astutil.Cursor) bool {
			if id, ok := cur.Node().(*ast.Ident); ok && info.Uses[id] == types.Object(c.v) {
				whole := false
				switch p := cur.Parent().(type) {
				case *ast.ValueSpec:
					whole = len(p.Values) == 1 && p.Values[0] == ast.Expr(id)
				case *ast.AssignStmt:
					whole = p.Tok == token.DEFINE && len(p.Rhs) == 1 && p.Rhs[0] == ast.Expr(id)
				}
				if whole {
					cl := &ast.CompositeLit{Type: ast.NewIdent(c.tn.Name())}
					for _, nm := range names {
						cl.Elts = append(cl.Elts, &ast.KeyValueExpr{Key: ast.NewIdent(nm), Value: ast.NewIdent(flat(id.Name, nm))})
					}
					cur.Replace(cl)
				}
				return true
			}
			se, ok := cur.Node().(*ast.SelectorExpr)
			if !ok {
				return true
			}
			id, ok := se.X.(*ast.Ident)
			if !ok {
				return true
			}
			if info.Uses[id] == types.Object(c.v) {
				cur.Replace(ast.NewIdent(flat(id.Name, se.Sel.Name)))
			}
			return true
		})
		// keep every new parameter "used" is not needed: parameters may be unused in Go
		nz.changed[c.file] = true
		nz.log = append(nz.log, fmt.Sprintf("struct parameter %s of %s (%s) taken apart into %d parameters", c.v.Name(), c.fn.Name(), c.tn.Name(), len(names)))
	}
}
