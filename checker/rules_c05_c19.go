package main

import (
	"encoding/base64"
	"fmt"
	"go/constant"
	"go/token"
	"go/types"
	"regexp"
	"sort"
	"strings"
	"time"

	"golang.org/x/tools/go/ssa"
)

func init() {
	register(&propDef{
		ID:          "C05",
		Run:         ruleC05,
		Explanation: "Decides validity of the placeholder constants and the class->placeholder selection (structural necessary conditions of C05): (R1) each placeholder constant is a member of its class, evaluated by the checker on the source constants (RFC 3339 date, 24 hex digits, valid standard base64, e-mail literal matching the pattern extracted from the classifier and within its length bounds, number 0, boolean false); (R2) in the scalar step the arm taken under parent key $date yields the date placeholder, $oid the ObjectId placeholder, base64 under grand-parent $binary the base64 placeholder, the e-mail arm is guarded by the classifier, every other string yields the configured replacement global, numbers yield 0 and booleans false; parent/grand-parent key are the last / second-to-last path elements; (R3) the replacement text is stored only by init and its setter, fed by --replacement; (R4) $binary.subType is exempt. No zone function writes into the backing array of a key-path parameter (the last two keys the scalar step reads are the ancestors'). NOT decided: that an arbitrary replacement string survives JSON serialisation (library).",
		RuleText:    "obligations = placeholder constants (checker-side evaluation of source constants), calls of the string choke point in the scalar step (guard atoms -> expected placeholder operand), numeric/boolean constant returns, stores to the replacement global",
	})
	register(&propDef{
		ID:          "C19",
		Run:         ruleC19,
		Explanation: "Decides that each placeholder is classified as its own class by the same code and that the redactor emits no other values on redacting paths (structural necessary conditions of C19): (R1) feeding each arm's placeholder constant back through the class tests, evaluated on the source constants, yields the same constant (the e-mail literal is accepted by the extracted classifier, the default replacement is not and does not start with '$', the wrapper arms are selected by key and string type only, number/boolean placeholders are JSON numbers/booleans, the remote placeholder is a constant string); (R2) every non-raw return of the scalar step is a constant, the replacement global or a choke-point result whose placeholder operand is one of those; (R3) parse followed by serialise keeps kinds, order and number text: number tokens stay json.Number (UseNumber before the first token), objects are rebuilt in token order and serialised Front-to-Next, containers never reach encoding/json. (R4) reader/writer agreement on the encoding selected by the file name: a file created from the --outputFile string is gzip-encoded when its name selects gzip decoding on input. NOT decided: byte-level canonicity of encoding/json on its own output; a user-supplied replacement that is e-mail shaped (excluded by the statement).",
		RuleText:    "obligations = placeholder constants re-classified by the extracted classifier, non-raw returns of the scalar step, parser/serialiser agreement rules shared with C03/C04",
	})
}

type placeholders struct {
	vals      map[string]constant.Value // constant name -> value
	emailLit  string
	emailPat  string
	emailMin  int64
	emailMax  int64
	remoteLit string
	problems  []string
	emailCall *ssa.Call
	scalarFn  *ssa.Function
	choke     *ssa.Function
}

func (c *Ctx) placeholders(p *Prov) *placeholders {
	ph := &placeholders{vals: map[string]constant.Value{}, emailMin: -1, emailMax: -1}
	scope := c.Pkg.Types.Scope()
	for _, n := range []string{"RedactedISODate", "RedactedString", "RedactedNumber", "RedactedBoolean", "RedactedObjectId", "RedactedUUID"} {
		if cst, ok := scope.Lookup(n).(*types.Const); ok {
			ph.vals[n] = cst.Val()
		} else {
			ph.problems = append(ph.problems, "constant "+n+" not found")
		}
	}
	// classifier pattern: the constant compiled into the global used by IsEmail
	// the regexp global the classifier matches against (found through the classifier, not by name)
	var emailG *ssa.Global
	if ie := c.Fn("IsEmail"); ie != nil {
		allInstrs(ie, func(i ssa.Instruction) {
			if cc := callCommonOf(i); cc != nil && strings.HasPrefix(calleeKey(cc), "(*regexp.Regexp).Match") && len(cc.Args) > 0 {
				if ld, ok := cc.Args[0].(*ssa.UnOp); ok {
					if g, ok := ld.X.(*ssa.Global); ok {
						emailG = g
					}
				}
			}
		})
	}
	if initFn := c.Fn("init"); initFn != nil {
		allInstrs(initFn, func(i ssa.Instruction) {
			if st, ok := i.(*ssa.Store); ok {
				if g, ok := st.Addr.(*ssa.Global); ok && emailG != nil && g == emailG {
					if call, ok := st.Val.(*ssa.Call); ok && calleeKey(&call.Call) == "regexp.MustCompile" {
						ph.emailPat, _ = constString(call.Call.Args[0])
					}
				}
			}
		})
	}
	if ie := c.Fn("IsEmail"); ie != nil {
		allInstrs(ie, func(i ssa.Instruction) {
			if b, ok := i.(*ssa.BinOp); ok {
				if lc, ok := b.X.(*ssa.Call); ok && calleeKey(&lc.Call) == "builtin len" {
					if n, ok := constInt(b.Y); ok {
						switch b.Op {
						case token.LSS:
							ph.emailMin = n
						case token.GTR:
							ph.emailMax = n
						}
					}
				}
			}
		})
	}
	if ph.emailPat == "" {
		ph.problems = append(ph.problems, "e-mail classifier pattern not found")
	}
	// choke point and scalar step
	if enc := c.Fn("Encrypt"); enc != nil {
		for _, call := range c.callersOf(enc) {
			ph.choke = call.Parent()
		}
	}
	if ph.choke != nil {
		for _, call := range c.callersOf(ph.choke) {
			ph.scalarFn = call.Parent()
			for _, a := range p.atomsAt(call.Block()) {
				if a.Kind == "other" && a.Pol {
					if ec, ok := a.Src.(*ssa.Call); ok && ec.Call.StaticCallee() != nil && ec.Call.StaticCallee().Name() == "IsEmail" {
						ph.emailLit, _ = constString(call.Call.Args[1])
						ph.emailCall = call
					}
				}
			}
		}
	} else {
		ph.problems = append(ph.problems, "string choke point not found")
	}
	allInstrs(p.Root, func(i ssa.Instruction) {
		if call, ok := i.(*ssa.Call); ok && calleeKey(&call.Call) == omMethod("Set") {
			if k, ok := constString(call.Call.Args[1]); ok && k == "remote" {
				ph.remoteLit, _ = constString(call.Call.Args[2])
			}
		}
	})
	return ph
}

func (ph *placeholders) str(n string) string {
	if v, ok := ph.vals[n]; ok && v.Kind() == constant.String {
		return constant.StringVal(v)
	}
	return ""
}

func (ph *placeholders) isEmail(s string) (bool, error) {
	re, err := regexp.Compile(ph.emailPat)
	if err != nil {
		return false, err
	}
	if ph.emailMin >= 0 && int64(len(s)) < ph.emailMin {
		return false, nil
	}
	if ph.emailMax >= 0 && int64(len(s)) > ph.emailMax {
		return false, nil
	}
	return re.MatchString(s), nil
}

func placeholderConstantRules(c *Ctx, r *Report, ph *placeholders, rule string) {
	for _, pr := range ph.problems {
		r.Undecided(rule, "placeholders", "-", pr)
	}
	pos := "src/constants.go"
	d := ph.str("RedactedISODate")
	_, err1 := time.Parse(time.RFC3339Nano, d)
	r.Check(err1 == nil, rule, "const:RedactedISODate", pos, fmt.Sprintf("%q parses as an RFC 3339 instant", d), fmt.Sprintf("%q is not a parseable ISO-8601 instant", d))
	o := ph.str("RedactedObjectId")
	r.Check(regexp.MustCompile(`^[0-9a-fA-F]{24}$`).MatchString(o), rule, "const:RedactedObjectId", pos, "24 hex digits", fmt.Sprintf("%q is not 24 hex digits", o))
	u := ph.str("RedactedUUID")
	_, err2 := base64.StdEncoding.DecodeString(u)
	r.Check(err2 == nil && u != "", rule, "const:RedactedUUID", pos, "valid standard base64", fmt.Sprintf("%q is not valid base64", u))
	okE, errE := ph.isEmail(ph.emailLit)
	r.Check(errE == nil && okE, rule, "const:email-placeholder", "src/anonymizer.go", fmt.Sprintf("%q is accepted by the tool's own e-mail classifier (pattern and length bounds extracted from the source)", ph.emailLit), fmt.Sprintf("the e-mail placeholder %q is not accepted by the tool's own e-mail classifier", ph.emailLit))
	// the class "e-mail-shaped" itself: the classifier's constant pattern (with its length
	// bounds) is evaluated by the checker on probe strings; it has to agree with the HTML
	// living standard's definition of a valid e-mail address (which the pattern of the reviewed
	// tree is) on every probe - a narrowed or widened pattern sends addresses to the generic
	// placeholder or ordinary strings to the e-mail placeholder
	{
		must := []string{"a@b", "root@localhost", "ops@mailhost", "first.last@example.com", "x+tag@sub.example.co.uk", "1@2", "u@a-b.c", "A_Z-9@EXAMPLE.ORG",
			"a!#$%&'*+/=?^_`{|}~-@d.e", "user@xn--bcher-kva.example", "a@b.c.d.e.f", "redacted@redacted.com", "x@y-1.z0", ".a.@b"}
		mustNot := []string{"", "plain", "@b", "a@", "a@b.", "a@.b", "a@-b.c", "a@b-.c", "a b@c.d", "a@b c", "a@b..c", "a@b@c", "\u00fc@b.c", "a@b_c.d", "a@b.c ", " a@b.c", "a@" + strings.Repeat("x", 64) + ".com", "a,b@c.d", "\"a\"@b.c"}
		var bad []string
		for _, pr := range must {
			if ok, err := ph.isEmail(pr); err != nil || !ok {
				bad = append(bad, fmt.Sprintf("%q is not classified as an e-mail address", pr))
			}
		}
		for _, pr := range mustNot {
			if ok, err := ph.isEmail(pr); err == nil && ok {
				bad = append(bad, fmt.Sprintf("%q is classified as an e-mail address", pr))
			}
		}
		r.Check(len(bad) == 0, rule, "const:email-class-probes", "src/helpers.go",
			fmt.Sprintf("the classifier's pattern agrees with the reference definition of an e-mail address on %d probe strings (evaluated by the checker on the source constant)", len(must)+len(mustNot)),
			"the e-mail class changed: "+strings.Join(bad, "; ")+" - such leaves get the placeholder of another class")
	}
	if v, ok := ph.vals["RedactedNumber"]; ok {
		f, _ := constant.Float64Val(v)
		r.Check((v.Kind() == constant.Float || v.Kind() == constant.Int) && f == 0, rule, "const:RedactedNumber", pos, "the number 0", "number placeholder is not 0")
	}
	if v, ok := ph.vals["RedactedBoolean"]; ok {
		r.Check(v.Kind() == constant.Bool && !constant.BoolVal(v), rule, "const:RedactedBoolean", pos, "false", "boolean placeholder is not false")
	}
}

func ruleC05(c *Ctx, r *Report) {
	p := c.prov()
	for _, pr := range p.Problems {
		r.Undecided("C05-anchor", "prov", "-", pr)
	}
	if len(p.Problems) > 0 {
		return
	}
	ph := c.placeholders(p)
	r.Floor("C05-R1", 6, "six placeholder constants")
	placeholderConstantRules(c, r, ph, "C05-R1")
	if ph.choke == nil || ph.scalarFn == nil {
		return
	}
	// ---- R5: "exactly the configured --replacement text", "valid for the class": the
	// placeholder is emitted faithfully only if every string leaf reaches the line through
	// encoding/json (no escaping shortcut, no rewriting of the encoded bytes)
	c03Serialiser(c, r, p, "C05-R5")
	// ---- R2 (per element): what replaces an element is decided on that element - a value
	// settled by an earlier element of the same array (a placeholder "reused" for the strings
	// that follow) gives an e-mail the generic placeholder or the other way round
	{
		var fns []*ssa.Function
		for f := range p.Zone {
			fns = append(fns, f)
		}
		sort.Slice(fns, func(i, j int) bool { return fns[i].Name() < fns[j].Name() })
		for _, f := range fns {
			for _, ic := range p.walkerLoops(f) {
				r.Check(len(ic.Carried) == 0, "C05-R2", ic.construct()+":per-element", c.Pos(ic.Loop.Loop.Header.Instrs[0].Pos()),
					"every stored value is computed from the current element alone", strings.Join(dedupe(ic.Carried), "; "))
			}
		}
	}
	// ---- R2 selection
	r.Floor("C05-R2", 7, "five string classes + number + boolean")
	sf := ph.scalarFn
	scalarStepMemberPathRule(c, r, p, sf, "C05-R2")
	wrapperMemberNamesRule(c, r, p, "C05-R2")
	classesSeen := map[string]bool{}
	for _, call := range callsIn(sf, func(k string, cc *ssa.Call) bool { return cc.Call.StaticCallee() == ph.choke }) {
		atoms := p.atomsAt(call.Block())
		want := "generic"
		var keyAtoms []string
		hasDate, hasOid, hasB64, hasBinary, hasEmail := false, false, false, false, false
		for _, a := range atoms {
			if a.Kind == "strconst" && a.Pol {
				pos := pathPosition(a.X)
				keyAtoms = append(keyAtoms, fmt.Sprintf("%s==%s", pos, a.Name))
				switch {
				case a.Name == "$date" && pos == "last":
					hasDate = true
				case a.Name == "$oid" && pos == "last":
					hasOid = true
				case a.Name == "base64" && pos == "last":
					hasB64 = true
				case a.Name == "$binary" && pos == "second-to-last":
					hasBinary = true
				}
			}
			if a.Kind == "other" && a.Pol {
				if ec, ok := a.Src.(*ssa.Call); ok && ec.Call.StaticCallee() != nil && ec.Call.StaticCallee().Name() == "IsEmail" {
					hasEmail = true
				}
			}
		}
		switch {
		case hasDate:
			want = "RedactedISODate"
		case hasOid:
			want = "RedactedObjectId"
		case hasB64 && hasBinary:
			want = "RedactedUUID"
		case hasEmail:
			want = "email"
		}
		classesSeen[want] = true
		arg := call.Call.Args[1]
		got := placeholderName(arg)
		okSel := false
		switch want {
		case "generic":
			if ld, ok := arg.(*ssa.UnOp); ok {
				if g, ok := ld.X.(*ssa.Global); ok && c.roleName(g) == "redactedString" {
					okSel = true
				}
			}
		case "email":
			s, isC := constString(arg)
			okE, _ := ph.isEmail(s)
			okSel = isC && okE
		default:
			s, isC := constString(arg)
			okSel = isC && s == ph.str(want)
		}
		// the plaintext operand is the string form of the scalar parameter
		r.Check(okSel, "C05-R2", fmt.Sprintf("%s:class(%s)", sf.Name(), want), c.InstrPos(call), fmt.Sprintf("arm [%s] yields %s", strings.Join(keyAtoms, ","), got), fmt.Sprintf("arm for class %s (guards %v) yields %s", want, keyAtoms, got))
	}
	wrapperArmsCompleteRule(c, r, p, ph, "C05-R2")
	for _, cl := range []string{"RedactedISODate", "RedactedObjectId", "RedactedUUID", "email", "generic"} {
		if !classesSeen[cl] {
			r.Bad("C05-R2", fmt.Sprintf("%s:class(%s)", sf.Name(), cl), c.Pos(sf.Pos()), "no arm of the scalar step selects the placeholder of this class")
		}
	}
	// numeric / boolean constant returns
	allInstrs(sf, func(i ssa.Instruction) {
		ret, ok := i.(*ssa.Return)
		if !ok {
			return
		}
		mi, ok := resolveLocal(ret.Results[0]).(*ssa.MakeInterface)
		if !ok {
			return
		}
		cst, ok := mi.X.(*ssa.Const)
		if !ok || cst.Value == nil {
			return
		}
		switch cst.Value.Kind() {
		case constant.Float, constant.Int:
			f, _ := constant.Float64Val(cst.Value)
			r.Check(f == 0, "C05-R2", sf.Name()+":class(number)", c.InstrPos(i), "numbers become 0", fmt.Sprintf("numbers become %v", cst.Value))
		case constant.Bool:
			r.Check(!constant.BoolVal(cst.Value), "C05-R2", sf.Name()+":class(boolean)", c.InstrPos(i), "booleans become false", "booleans become true")
		}
	})

	// ---- R3 replacement text
	r.Floor("C05-R3", 2, "stores of the replacement global + the flag wire")
	if an := c.anchors(); requireAnchors(r, an, "C05-R3", "redact") {
		flagWireRule(c, r, an, "C05-R3", []flagWire{{"replacement", "SetRedactedString", "redactedString"}})
		flagBinderRule(c, r, "C05-R3", "replacement")
	}
	if g := c.GlobalByRole("redactedString"); g != nil {
		for _, f := range c.SortedFuncs() {
			allInstrs(f, func(i ssa.Instruction) {
				st, ok := i.(*ssa.Store)
				if !ok || st.Addr != ssa.Value(g) {
					return
				}
				construct := fmt.Sprintf("%s:stores(redactedString)", f.Name())
				if f.Name() == "init" {
					s, isC := constString(st.Val)
					r.Check(isC && s == ph.str("RedactedString"), "C05-R3", construct, c.InstrPos(i), "initialised to the default replacement constant", "initial replacement text is not the RedactedString constant")
					return
				}
				r.Check(len(f.Params) == 1 && st.Val == ssa.Value(f.Params[0]) && len(f.Blocks) == 1, "C05-R3", construct, c.InstrPos(i), "one-line setter (its argument is the --replacement variable: C01-R5)", "the replacement text is modified outside its setter")
			})
		}
	}
	// ---- R4
	requiredExemptions(c, r, "C05-R4", [][]string{{"CoreOperators", "$binary", "subType"}})
	// ... and the scalar step keeps $binary.subType in every kind of stage: the table entry is
	// only consulted for core stages (the Atlas Search lookup never reaches CoreOperators), so
	// the step itself must return the value unchanged when the last two path elements are
	// $binary / subType, before anything that depends on the stage kind
	{
		found := false
		var why string
		allInstrs(sf, func(i ssa.Instruction) {
			ret, ok := i.(*ssa.Return)
			if !ok {
				return
			}
			v := resolveLocal(ret.Results[0])
			if p.Of(v)&oIN == 0 {
				return
			}
			hasSub, hasBin, stageDep := false, false, false
			for _, a := range p.atomsAt(ret.Block()) {
				if a.Kind == "strconst" && a.Pol {
					switch {
					case a.Name == "subType" && pathPosition(a.X) == "last":
						hasSub = true
					case a.Name == "$binary" && pathPosition(a.X) == "second-to-last":
						hasBin = true
					}
				}
				if a.Kind == "param" || a.Kind == "ok" || a.Kind == "tbl" {
					stageDep = true
				}
			}
			if hasSub && hasBin {
				if stageDep {
					why = "the subType pass-through depends on a stage-kind parameter or a table lookup"
				} else {
					found = true
				}
			}
		})
		if why == "" {
			why = "no return of the scalar step hands the value back under (last key == subType, key before == $binary) alone"
		}
		r.Check(found, "C05-R4", sf.Name()+":binary-subtype-kept-in-every-stage", c.Pos(sf.Pos()),
			"the scalar step returns a $binary.subType value unchanged on key context alone, independently of the stage kind",
			"the BSON binary subtype is kept only where the core operator table is consulted: "+why+" - inside $search / $vectorSearch stages it is replaced by the placeholder text and extended-JSON-aware tools reject the line")
		// the class of a leaf ($date / $oid / $binary member) is read off the last keys of the
		// path: that path must reach the scalar step as the ancestors built it
		pathSliceNotWrittenRule(c, r, p, "C05-R4", "the scalar step reads the wrapper kind off the last two keys of a path whose tail was shifted: the class placeholder and the $binary.subType exemption are skipped")
	}
}

// pathPosition: is v the last / second-to-last element of a key-path slice?
func pathPosition(v ssa.Value) string {
	switch x := v.(type) {
	case *ssa.UnOp:
		if ia, ok := x.X.(*ssa.IndexAddr); ok && isStringSlice(ia.X.Type()) {
			li := linOf(ia.Index)
			if li.ok && li.isLen && li.base == canon(ia.X) {
				switch li.off {
				case -1:
					return "last"
				case -2:
					return "second-to-last"
				}
			}
		}
	case *ssa.Phi:
		pos := ""
		for _, e := range x.Edges {
			if s, ok := constString(e); ok && s == "" {
				continue
			}
			p := pathPosition(e)
			if pos != "" && p != pos {
				return "mixed"
			}
			pos = p
		}
		return pos
	}
	return "other"
}

func ruleC19(c *Ctx, r *Report) {
	p := c.prov()
	for _, pr := range p.Problems {
		r.Undecided("C19-anchor", "prov", "-", pr)
	}
	if len(p.Problems) > 0 {
		return
	}
	ph := c.placeholders(p)
	r.Floor("C19-R1", 8, "placeholder constants re-classified")
	placeholderConstantRules(c, r, ph, "C19-R1")
	// the default replacement is not e-mail shaped and is not a '$' reference
	def := ph.str("RedactedString")
	okE, _ := ph.isEmail(def)
	r.Check(def != "" && !okE && !strings.HasPrefix(def, "$"), "C19-R1", "const:RedactedString:reclassified", "src/constants.go", fmt.Sprintf("%q is classified as an ordinary string again (not e-mail shaped, no leading '$')", def), fmt.Sprintf("the default replacement %q would be classified differently on a second pass", def))
	wrapperArmsCompleteRule(c, r, p, ph, "C19-R1")
	for _, n := range []string{"RedactedISODate", "RedactedObjectId", "RedactedUUID"} {
		s := ph.str(n)
		r.Check(s != "" && !strings.HasPrefix(s, "$"), "C19-R1", "const:"+n+":reclassified", "src/constants.go", "a non-empty string without a leading '$': selected again by its wrapper key and string type", "placeholder would be treated as a field reference / empty on a second pass")
	}
	r.Check(ph.remoteLit != "", "C19-R1", "const:remote-placeholder", "src/anonymizer.go", fmt.Sprintf("remote address placeholder %q is a constant string (replaced by itself again)", ph.remoteLit), "remote address placeholder is not a constant string")

	// ---- R2 the scalar step emits only constants / the replacement / choke results
	constantPlaceholderRule(c, r, p, ph, "C19-R2")

	// ---- R3 parse / serialise stability
	c03Serialiser(c, r, p, "C19-R3")
	numbersKeptRule(c, r, "C19-R3")
	insertionOrderRule(c, r, "C19-R3")

	// ---- R4 an output file can be read back: the reader selects its decoding by the file
	// name, so the writer of --outputFile must select its encoding by the same test
	outputReadableAgainRule(c, r, p, "C19-R4")
}

// outputReadableAgainRule: sibling agreement between the input opener and the creation of
// --outputFile. If gzip.NewReader is reached under `extension == ".gz"`, a file created
// from the option string itself (os.Create(<option global>)) must be written through
// gzip.NewWriter under the same kind of test; otherwise an output named *.gz is plain text
// that the tool itself refuses to read.
func outputReadableAgainRule(c *Ctx, r *Report, p *Prov, rule string) {
	r.Floor(rule, 1, "one os.Create(--outputFile) site")
	byExt := ""
	for _, f := range c.SortedFuncs() {
		for _, call := range callsIn(f, func(k string, _ *ssa.Call) bool { return k == "compress/gzip.NewReader" }) {
			for _, a := range p.atomsAt(call.Block()) {
				if a.Kind == "strconst" && a.Pol && strings.HasPrefix(a.Name, ".") {
					byExt = a.Name
				}
			}
		}
	}
	r.Analysed["input_decoding_selected_by_extension"] = byExt
	n := 0
	for _, f := range c.SortedFuncs() {
		for _, call := range callsIn(f, func(k string, _ *ssa.Call) bool { return k == "os.Create" }) {
			// the option string itself (a flag variable: package global, or a local of main
			// captured by the command's closure) - not a name derived from it
			ld, ok := call.Call.Args[0].(*ssa.UnOp)
			if !ok {
				continue
			}
			switch ld.X.(type) {
			case *ssa.Global, *ssa.FreeVar, *ssa.Alloc:
			default:
				continue
			}
			n++
			construct := fmt.Sprintf("%s:output-encoding-follows-extension(os.Create(<option string>))", f.Name())
			if n > 1 {
				construct += fmt.Sprintf("#%d", n)
			}
			if byExt == "" {
				r.Trivial(rule, construct, c.InstrPos(call), "the reader does not select a decoding by file name")
				continue
			}
			enc := false
			for h := range c.pkgReach(f) {
				if hasCallTo(h, "compress/gzip.NewWriter", "compress/gzip.NewWriterLevel") {
					enc = true
				}
			}
			r.Check(enc, rule, construct, c.InstrPos(call),
				"the output is gzip-encoded when its name selects gzip decoding",
				fmt.Sprintf("input files named *%s are read through gzip.NewReader, but a file created from the option string is always written as plain text: `redact in.log.gz -o out.log.gz` (the README's example) produces an out.log.gz the tool itself rejects with 'gzip: invalid header', so its own output cannot be fed back", byExt))
		}
	}
	r.Analysed["output_file_creation_sites"] = n
}

// constantPlaceholderRule (C02-R3 / C19-R2): every non-raw scalar return of the scalar
// step is a constant, the replacement global, or a choke-point result; the choke point
// returns its placeholder parameter or (encrypt mode) the ciphertext encoding; the
// placeholder operand is a constant or the replacement global at every call site.
func constantPlaceholderRule(c *Ctx, r *Report, p *Prov, ph *placeholders, rule string) {
	if ph.scalarFn == nil || ph.choke == nil {
		r.Undecided(rule, "scalar-step", "-", "scalar step / choke point not found")
		return
	}
	r.Floor(rule, 6, "non-raw returns of the scalar step and the choke point")
	isPlaceholderOperand := func(v ssa.Value) bool {
		if _, ok := constString(v); ok {
			return true
		}
		if ld, ok := v.(*ssa.UnOp); ok {
			if g, ok := ld.X.(*ssa.Global); ok && c.roleName(g) == "redactedString" {
				return true
			}
		}
		return false
	}
	var fns []*ssa.Function
	fns = append(fns, ph.scalarFn)
	for _, f := range fns {
		allInstrs(f, func(i ssa.Instruction) {
			ret, ok := i.(*ssa.Return)
			if !ok {
				return
			}
			v := resolveLocal(ret.Results[0])
			if p.Of(v)&oIN != 0 {
				return // raw pass-through: judged by C01-R2
			}
			inner := peel(v)
			construct := fmt.Sprintf("%s:non-raw-return(%s)", f.Name(), valueLabel(inner))
			okV := false
			why := "value is neither a constant, the replacement text nor a choke-point result"
			switch x := inner.(type) {
			case *ssa.Const:
				okV, why = true, "constant"
			case *ssa.UnOp:
				if isPlaceholderOperand(x) {
					okV, why = true, "the configured replacement text"
				}
			case *ssa.Call:
				if x.Call.StaticCallee() == ph.choke {
					if isPlaceholderOperand(x.Call.Args[1]) {
						okV, why = true, "choke-point result with a constant / replacement-text placeholder operand"
					} else {
						why = "the placeholder operand of the choke point is computed from something else"
					}
				}
			}
			r.Check(okV, rule, construct, c.InstrPos(i), why, "a redacting path derives its output from something other than the fixed placeholders: "+why)
		})
	}
	chokeReturnsRule(c, r, p, ph, rule)
}

// numbersKeptRule (C04-R2): number tokens stay json.Number.
func numbersKeptRule(c *Ctx, r *Report, rule string) {
	un := c.Fn("UnmarshalOrdered")
	if un == nil {
		r.Undecided(rule, "UnmarshalOrdered", "-", "parser entry not found")
		return
	}
	var dec *ssa.Call
	for _, call := range callsIn(un, func(k string, _ *ssa.Call) bool { return k == "encoding/json.NewDecoder" }) {
		dec = call
	}
	if dec == nil {
		r.Undecided(rule, un.Name()+":decoder", c.Pos(un.Pos()), "parser does not use a json.Decoder")
		return
	}
	useNum := callsIn(un, func(k string, cc *ssa.Call) bool {
		return k == "(*encoding/json.Decoder).UseNumber" && cc.Call.Args[0] == ssa.Value(dec)
	})
	// every use of the decoder other than UseNumber must be dominated by UseNumber
	okDom := len(useNum) > 0
	if okDom {
		for _, rr := range referrers(dec) {
			if rr == ssa.Instruction(useNum[0]) {
				continue
			}
			ub, ui := useNum[0].Block(), instrIndex(useNum[0])
			if !(ub.Dominates(rr.Block()) && (ub != rr.Block() || ui < instrIndex(rr))) {
				okDom = false
			}
		}
	}
	r.Check(okDom, rule, un.Name()+":UseNumber-before-first-token", c.InstrPos(dec), "dec.UseNumber() dominates every use of the decoder: number literals are kept as their source text", "the decoder is used without UseNumber: numbers are parsed as float64 and 64-bit integers / exponents are rewritten")
	// no numeric conversion of json.Number / no arithmetic on input values in the per-line code
	var bad []string
	reach := c.pkgReach(c.Fn("RedactMongoLog"), c.Fn("MarshalOrdered"))
	for f := range reach {
		allInstrs(f, func(i ssa.Instruction) {
			if cc := callCommonOf(i); cc != nil {
				k := calleeKey(cc)
				if strings.HasPrefix(k, "(encoding/json.Number).") && (strings.HasSuffix(k, "Float64") || strings.HasSuffix(k, "Int64")) {
					bad = append(bad, k+" at "+c.InstrPos(i))
				}
				if strings.HasPrefix(k, "strconv.Parse") || strings.HasPrefix(k, "strconv.Format") {
					bad = append(bad, k+" at "+c.InstrPos(i))
				}
			}
		})
	}
	sort.Strings(bad)
	r.Check(len(bad) == 0, rule, "per-line:no-number-conversion", "-", fmt.Sprintf("%d per-line functions never convert a number token", len(reach)), "number tokens are converted: "+strings.Join(bad, "; "))
}

// insertionOrderRule (C04-R5): keys inserted in token order, serialised Front->Next.
func insertionOrderRule(c *Ctx, r *Report, rule string) {
	pv := c.parserFn()
	ser := c.Fn("MarshalOrdered")
	if pv == nil || ser == nil {
		r.Undecided(rule, "parseValue/MarshalOrdered", "-", "parser or serialiser not found")
		return
	}
	// parser: in the object loop (header calls dec.More) exactly one Set(m, key token, value) per iteration
	okParse := false
	detail := "object loop of the parser not recognised"
	for _, l := range naturalLoops(pv) {
		more := false
		for _, in := range l.Header.Instrs {
			if isCallTo(in, "(*encoding/json.Decoder).More") {
				more = true
			}
		}
		if !more {
			continue
		}
		var sets []*ssa.Call
		for b := range l.Body {
			for _, in := range b.Instrs {
				if call, ok := in.(*ssa.Call); ok && calleeKey(&call.Call) == omMethod("Set") {
					sets = append(sets, call)
				}
			}
		}
		if len(sets) == 1 {
			call := sets[0]
			keyOK := false
			keyArg := call.Call.Args[1]
			if ex, ok := keyArg.(*ssa.Extract); ok && ex.Index == 0 {
				if ta, ok := ex.Tuple.(*ssa.TypeAssert); ok && ta.CommaOk {
					keyArg = ta // key, ok := keyToken.(string)
				}
			}
			if ta, ok := keyArg.(*ssa.TypeAssert); ok {
				if ex, ok := ta.X.(*ssa.Extract); ok {
					if tc, ok := ex.Tuple.(*ssa.Call); ok && calleeKey(&tc.Call) == "(*encoding/json.Decoder).Token" {
						keyOK = true
					}
				}
			}
			every := true
			for _, lt := range l.Latch {
				if !call.Block().Dominates(lt) {
					every = false
				}
			}
			if keyOK && every {
				okParse = true
				detail = "one Set(m, key token, parsed value) per object member, in token order"
			} else {
				detail = fmt.Sprintf("keyIsToken=%v setOnEveryIteration=%v", keyOK, every)
			}
		} else if len(sets) > 1 {
			detail = fmt.Sprintf("%d Set calls in the object loop", len(sets))
		}
	}
	r.Check(okParse, rule, pv.Name()+":insertion-order", c.Pos(pv.Pos()), detail, "parser does not insert object members in token order: "+detail)
	// serialiser: Front/Next iteration over its parameter, no Back/Prev anywhere on the per-line path
	okSer := false
	for _, l := range iterLoops(ser) {
		if l.Kind == "omap" && l.Coll == ssa.Value(ser.Params[0]) && len(l.Loop.earlyExits()) >= 0 {
			okSer = true
		}
	}
	var rev []string
	for f := range c.pkgReach(c.Fn("RedactMongoLog"), ser) {
		allInstrs(f, func(i ssa.Instruction) {
			if cc := callCommonOf(i); cc != nil {
				k := calleeKey(cc)
				if k == omMethod("Back") || k == omElemMethod("Prev") || k == omMethod("ReplaceKey") || k == omMethod("Delete") {
					rev = append(rev, shortKey(k)+" at "+c.InstrPos(i))
				}
			}
		})
	}
	sort.Strings(rev)
	r.Check(okSer && len(rev) == 0, rule, ser.Name()+":front-to-next", c.Pos(ser.Pos()), "serialiser iterates Front()->Next() over its map; no Back/Prev/Delete/ReplaceKey on the per-line path", fmt.Sprintf("iteration order or membership can change: frontToNext=%v %v", okSer, rev))
}

// chokeReturnsRule: every return of the string choke point is its placeholder parameter
// or - in encrypt mode only - the base64 text of the ciphertext just computed from its
// own plaintext parameter (never a remembered text: a memo table keyed by a digest hands
// one value's ciphertext to another value).
func chokeReturnsRule(c *Ctx, r *Report, p *Prov, ph *placeholders, rule string) {
	if ph.choke == nil {
		r.Undecided(rule, "choke-point", "-", "string choke point not found")
		return
	}
	allInstrs(ph.choke, func(i ssa.Instruction) {
		ret, ok := i.(*ssa.Return)
		if !ok {
			return
		}
		v := resolveLocal(ret.Results[0])
		construct := fmt.Sprintf("%s:return(%s)", ph.choke.Name(), valueLabel(v))
		okV := false
		if len(ph.choke.Params) > 1 && v == ssa.Value(ph.choke.Params[1]) {
			okV = true
		}
		if call, ok := v.(*ssa.Call); ok && strings.HasSuffix(calleeKey(&call.Call), ".EncodeToString") {
			// encrypt mode only
			for _, a := range p.atomsAt(ret.Block()) {
				if a.Kind == "cfg" && a.Pol && a.Name == "shouldEncrypt" {
					okV = true
				}
			}
		}
		r.Check(okV, rule, construct, c.InstrPos(i), "returns its placeholder parameter (or, in encrypt mode only, the ciphertext encoding)", "the choke point returns something other than its placeholder parameter or the encoding of the ciphertext it just computed (a remembered or otherwise derived text)")
	})
}

// wrapperArmsCompleteRule (C05-R2 / C19-R1): once the key context of an extended-JSON
// wrapper is established ($date, $oid, base64 under $binary, value a string) EVERY path
// ends in the placeholder of that class - no content test (does it decode? is it e-mail
// shaped?) can send some strings of the class elsewhere. This is what makes each
// placeholder land in its own class again on a second pass.
func wrapperArmsCompleteRule(c *Ctx, r *Report, p *Prov, ph *placeholders, rule string) {
	sf := ph.scalarFn
	for _, call := range callsIn(sf, func(k string, cc *ssa.Call) bool { return cc.Call.StaticCallee() == ph.choke }) {
		s, isC := constString(call.Call.Args[1])
		if !isC {
			continue
		}
		class := ""
		for _, n := range []string{"RedactedISODate", "RedactedObjectId", "RedactedUUID"} {
			if s == ph.str(n) {
				class = n
			}
		}
		if class == "" {
			continue
		}
		// the innermost key-context test on the dominator path of the call
		var entry *ssa.BasicBlock
		for _, f := range allFacts(call.Block()) {
			a := p.atomOf(f.Cond, f.Pol)
			if a.Kind == "strconst" && a.Pol && f.If != nil {
				b := f.If.Block()
				succ := b.Succs[0]
				if !f.Pol {
					succ = b.Succs[1]
				}
				// factsAt walks from the call upwards: the first strconst fact is the innermost
				if entry == nil {
					entry = succ
				}
			}
		}
		construct := fmt.Sprintf("%s:class(%s):every-path", sf.Name(), class)
		if entry == nil {
			r.Undecided(rule, construct, c.InstrPos(call), "no key-context test dominates the wrapper arm")
			continue
		}
		var bad []string
		seen := map[*ssa.BasicBlock]bool{}
		var walk func(b *ssa.BasicBlock)
		walk = func(b *ssa.BasicBlock) {
			if seen[b] {
				return
			}
			seen[b] = true
			if ret, ok := b.Instrs[len(b.Instrs)-1].(*ssa.Return); ok {
				v := peel(resolveLocal(ret.Results[0]))
				rc, ok := v.(*ssa.Call)
				okRet := ok && rc.Call.StaticCallee() == ph.choke
				if okRet {
					s2, isC2 := constString(rc.Call.Args[1])
					okRet = isC2 && s2 == s
				}
				if !okRet {
					bad = append(bad, "return at "+c.InstrPos(ret)+" yields "+valueLabel(v))
				}
				return
			}
			for _, sc := range b.Succs {
				walk(sc)
			}
		}
		walk(entry)
		sort.Strings(bad)
		r.Check(len(bad) == 0, rule, construct, c.InstrPos(call),
			"every path below the key-context test yields the "+class+" placeholder: the class is decided by key context and string type alone",
			"below the key-context test of this class some paths yield something else (a content test splits the class; on a second pass the first pass's output can change): "+strings.Join(bad, "; "))
	}
}

// scalarStepMemberPathRule (C05-R2 / C19-R1 / C14-R2): the scalar step chooses a leaf's class
// ($date, $oid, $binary.base64) from the LAST elements of the key path it is given, and the
// selective decision from all of them. When the value handed to it is the member el.Value of a
// document being iterated, the path that goes with it must therefore end with that member's own
// key: `append(<path>, el.Key)` (directly or through a local). The enclosing operator's path -
// one element short - makes the payload under {$binary:{base64:...}} an ordinary string and the
// instant under {$date:...} too.
func scalarStepMemberPathRule(c *Ctx, r *Report, p *Prov, sf *ssa.Function, rule string) {
	if sf == nil {
		return
	}
	var pathIdx, valIdx = -1, -1
	for i, prm := range sf.Params {
		if isStringSliceT(prm.Type()) && pathIdx < 0 {
			pathIdx = i
		}
		if isEmptyInterface(prm.Type()) && valIdx < 0 {
			valIdx = i
		}
	}
	if pathIdx < 0 || valIdx < 0 {
		r.Undecided(rule, sf.Name()+":member-path", c.Pos(sf.Pos()), "the scalar step has no (key path, value) parameters")
		return
	}
	// lastAppended: the value appended last to build path v
	var lastAppended func(v ssa.Value, depth int) []ssa.Value
	lastAppended = func(v ssa.Value, depth int) []ssa.Value {
		v = canon(v)
		if depth > 6 {
			return nil
		}
		switch x := v.(type) {
		case *ssa.Call:
			if calleeKey(&x.Call) == "builtin append" && len(x.Call.Args) == 2 {
				vs := varargValues(x.Call.Args[1])
				if len(vs) >= 1 {
					return []ssa.Value{vs[len(vs)-1]}
				}
			}
		case *ssa.Phi:
			var out []ssa.Value
			for _, e := range x.Edges {
				l := lastAppended(e, depth+1)
				if l == nil {
					return nil
				}
				out = append(out, l...)
			}
			return out
		}
		return nil
	}
	n := 0
	var fns []*ssa.Function
	for f := range p.Zone {
		fns = append(fns, f)
	}
	sort.Slice(fns, func(i, j int) bool { return fns[i].Name() < fns[j].Name() })
	for _, f := range fns {
		for _, call := range callsIn(f, func(k string, cc *ssa.Call) bool { return cc.Call.StaticCallee() == sf }) {
			if len(call.Call.Args) <= pathIdx || len(call.Call.Args) <= valIdx {
				continue
			}
			_, el, isMember := memberOfIteration(f, call.Call.Args[valIdx])
			if !isMember {
				continue
			}
			n++
			construct := fmt.Sprintf("%s:scalar-step-path-ends-with-the-member-key#%d", f.Name(), n)
			lasts := lastAppended(call.Call.Args[pathIdx], 0)
			okAll := len(lasts) > 0
			for _, lv := range lasts {
				e2, name, isLoad := elemFieldLoad(peel(canon(lv)))
				if !isLoad || name != "Key" || e2 != el {
					okAll = false
				}
			}
			r.Check(okAll, rule, construct, c.InstrPos(call),
				"the path handed to the scalar step is append(<path>, el.Key) for the member el.Value it redacts",
				"the scalar step is given a member el.Value of the document being walked, but the key path that goes with it does not end with that member's key: the class of the leaf ($date / $oid / $binary.base64: last path elements) and the selective decision are taken for its parent")
		}
	}
	r.Analysed["scalar_step_member_calls"] = n
	if n < 3 {
		r.Bad(rule, "scalar-step-member-calls", "-", fmt.Sprintf("anchor lost: only %d calls of the scalar step with a document member (7 today)", n))
	}
}

// wrapperMemberNamesRule (C05-R2 / C15-R4): under --redactFieldNames the walkers rename the keys
// of the documents they rebuild. The members of an extended-JSON wrapper - {$binary:{base64,
// subType}}, {$regularExpression:{pattern, options}}, {$timestamp:{t, i}} - are syntax, not
// field names: renaming them turns a typed value into a document no extended-JSON reader
// accepts (and moves the payload out of the position the class placeholder is chosen for).
// Every site where a walker stores a member under HashName(<its key>) must therefore lie under
// the negative outcome of the wrapper-member test applied to that key (a package predicate
// that knows `$binary`, `base64` and `subType`), or under a table classification that fixes
// what the parent is (a Pipeline-typed position: the output names of $facet).
func wrapperMemberNamesRule(c *Ctx, r *Report, p *Prov, rule string) {
	hn := c.Fn("HashName")
	if hn == nil {
		return
	}
	// the predicate, by vocabulary
	var preds []*ssa.Function
	for _, f := range c.SortedFuncs() {
		res := f.Signature.Results()
		if res.Len() != 1 || !isBoolType(res.At(0).Type()) || len(f.Params) < 1 {
			continue
		}
		words := map[string]bool{}
		allInstrs(f, func(i ssa.Instruction) {
			for _, op := range i.Operands(nil) {
				if *op != nil {
					if s, ok := constString(*op); ok {
						words[s] = true
					}
				}
			}
		})
		if words["$binary"] && words["base64"] && words["subType"] {
			preds = append(preds, f)
		}
	}
	for _, g := range preds {
		wrapperPredicateTableRule(c, r, g, rule)
	}
	isPred := func(f *ssa.Function) bool {
		for _, g := range preds {
			if g == f {
				return true
			}
		}
		return false
	}
	n := 0
	var fns []*ssa.Function
	for f := range p.Zone {
		fns = append(fns, f)
	}
	sort.Slice(fns, func(i, j int) bool { return fns[i].Name() < fns[j].Name() })
	for _, f := range fns {
		for _, call := range callsIn(f, func(k string, cc *ssa.Call) bool { return cc.Call.StaticCallee() == hn }) {
			// the argument is the key of the member being walked
			e, name, isLoad := elemFieldLoad(peel(canon(call.Call.Args[0])))
			if !isLoad || name != "Key" {
				continue
			}
			// ... and the result is used as the key of a Set
			usedAsKey := false
			var visit func(v ssa.Value, d int)
			visit = func(v ssa.Value, d int) {
				if d > 4 || usedAsKey {
					return
				}
				for _, use := range referrers(v) {
					switch x := use.(type) {
					case *ssa.Phi:
						visit(x, d+1)
					case *ssa.Store:
						if al, ok := x.Addr.(*ssa.Alloc); ok && x.Val == v {
							for _, r2 := range referrers(al) {
								if ld, ok := r2.(*ssa.UnOp); ok {
									visit(ld, d+1)
								}
							}
						}
					case *ssa.Call:
						if calleeKey(&x.Call) == omMethod("Set") && len(x.Call.Args) == 3 && x.Call.Args[1] == v {
							usedAsKey = true
						}
					}
				}
			}
			visit(call, 0)
			if !usedAsKey {
				continue
			}
			n++
			construct := fmt.Sprintf("%s:key-rename-spares-wrapper-members#%d", f.Name(), n)
			okGuard, how := false, ""
			for _, a := range p.atomsAt(call.Block()) {
				if a.Kind == "tbl" && a.Pol && (a.Name == "Pipeline" || a.Name == "OperatorMap") {
					okGuard, how = true, "the parent is a "+a.Name+"-typed position (names the client chooses: $facet outputs, search facets)"
				}
			}
			for _, ft := range allFacts(call.Block()) {
				pc, ok := peel(ft.Cond).(*ssa.Call)
				if !ok || ft.Pol {
					continue
				}
				if g := c.staticPkgCallee(&pc.Call); g != nil && isPred(g) {
					// the key goes where the predicate compares with the member names
					keyIdx := -1
					allInstrs(g, func(gi ssa.Instruction) {
						if bo, ok := gi.(*ssa.BinOp); ok && (bo.Op == token.EQL || bo.Op == token.NEQ) {
							for _, pr := range [][2]ssa.Value{{bo.X, bo.Y}, {bo.Y, bo.X}} {
								if sv, isC := constString(pr[1]); isC && sv == "base64" {
									if prm, isP := peel(pr[0]).(*ssa.Parameter); isP {
										for pi, q := range g.Params {
											if q == prm {
												keyIdx = pi
											}
										}
									}
								}
							}
						}
					})
					for ai, arg := range pc.Call.Args {
						e2, n2, l2 := elemFieldLoad(peel(canon(arg)))
						if l2 && n2 == "Key" && e2 == e && (keyIdx < 0 || ai == keyIdx) {
							okGuard, how = true, "under !"+g.Name()+"(parent, key)"
						}
					}
				}
			}
			r.Check(okGuard, rule, construct, c.InstrPos(call), "the key is renamed only "+how,
				"a member's key is replaced by its pseudonym without sparing the fixed member names of extended-JSON wrappers: under --redactFieldNames {$binary:{base64, subType}} (and $regularExpression / $timestamp) lose their member names where this walker meets them, so the value is no longer a member of its class")
		}
	}
	r.Analysed["key_rename_sites"] = n
	if n < 3 {
		r.Bad(rule, "key-rename-sites", "-", fmt.Sprintf("anchor lost: %d key-rename sites in the walkers (4 today)", n))
	}
}
