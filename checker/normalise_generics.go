package main

// ---- N13: type-parameterised helpers ----
//
// `func memberOf[T any](doc OrderedMap, key string) (T, bool)` called as `memberOf[[]any](cmd, "ops")`
// (or with the type argument inferred) is, for the analysis, the ordinary function obtained by
// writing the type argument in place of the type parameter. The source-level inliner does not
// copy bodies that mention type parameters, so each *instantiation* of a generic helper outside
// the reviewed decomposition gets a plain copy of the declaration (`memberOf_mono1`) in the file
// of the generic one, and the call is redirected to it; the next round inlines the copy like any
// other new helper. Conditions: a package-level function (no methods), every type argument can
// be written in the declaring file (package-level or imported named types whose package the file
// imports, composites of those), the callee is named directly at the call. A generic helper used
// as a value, or instantiated with a local type, is left alone (and then reported by whichever
// rule cannot see through it).

import (
	"fmt"
	"go/ast"
	"go/parser"
	"go/types"
	"sort"
	"strings"

	"golang.org/x/tools/go/ast/astutil"
)

func (nz *normaliser) monomorphise() {
	if nz.baseline == nil {
		return
	}
	pkg, info := nz.pkg, nz.info
	type gen struct {
		fd   *ast.FuncDecl
		file *ast.File
		fn   *types.Func
	}
	gens := map[*types.Func]*gen{}
	for _, f := range pkg.Syntax {
		for _, d := range f.Decls {
			fd, ok := d.(*ast.FuncDecl)
			if !ok || fd.Body == nil || fd.Recv != nil || fd.Type.TypeParams == nil || len(fd.Type.TypeParams.List) == 0 {
				continue
			}
			if nz.baseline[fd.Name.Name] {
				continue
			}
			if fo, ok := info.Defs[fd.Name].(*types.Func); ok {
				gens[fo] = &gen{fd: fd, file: f, fn: fo}
			}
		}
	}
	if len(gens) == 0 {
		return
	}
	// writable: the type can be spelled at package level of the declaring file
	var writable func(t types.Type) bool
	writable = func(t types.Type) bool {
		switch x := t.(type) {
		case *types.Basic:
			return x.Kind() != types.Invalid && !strings.HasPrefix(x.Name(), "untyped")
		case *types.Alias:
			o := x.Obj()
			if o.Pkg() == nil || o.Parent() == o.Pkg().Scope() {
				return true
			}
			return writable(types.Unalias(x))
		case *types.Named:
			o := x.Obj()
			if o.Pkg() != nil && o.Parent() != o.Pkg().Scope() {
				return false // a type declared inside a function
			}
			if ta := x.TypeArgs(); ta != nil {
				for i := 0; i < ta.Len(); i++ {
					if !writable(ta.At(i)) {
						return false
					}
				}
			}
			return true
		case *types.Pointer:
			return writable(x.Elem())
		case *types.Slice:
			return writable(x.Elem())
		case *types.Array:
			return writable(x.Elem())
		case *types.Map:
			return writable(x.Key()) && writable(x.Elem())
		case *types.Chan:
			return writable(x.Elem())
		case *types.Interface:
			return x.NumMethods() == 0 && x.NumEmbeddeds() == 0
		case *types.Struct:
			return x.NumFields() == 0
		case *types.Signature:
			for i := 0; i < x.Params().Len(); i++ {
				if !writable(x.Params().At(i).Type()) {
					return false
				}
			}
			for i := 0; i < x.Results().Len(); i++ {
				if !writable(x.Results().At(i).Type()) {
					return false
				}
			}
			return x.TypeParams() == nil
		}
		return false
	}
	made := map[string]string{} // generic name + type arguments -> name of the copy
	taken := map[string]bool{}
	for _, n := range pkg.Types.Scope().Names() {
		taken[n] = true
	}
	type site struct {
		file *ast.File
		ce   *ast.CallExpr
		id   *ast.Ident
		g    *gen
		inst types.Instance
	}
	var sites []site
	for _, f := range pkg.Syntax {
		ast.Inspect(f, func(n ast.Node) bool {
			ce, ok := n.(*ast.CallExpr)
			if !ok {
				return true
			}
			fun := ce.Fun
			for {
				if p, ok := fun.(*ast.ParenExpr); ok {
					fun = p.X
					continue
				}
				break
			}
			switch x := fun.(type) {
			case *ast.IndexExpr:
				fun = x.X
			case *ast.IndexListExpr:
				fun = x.X
			}
			id, ok := fun.(*ast.Ident)
			if !ok {
				return true
			}
			fo, ok := info.Uses[id].(*types.Func)
			if !ok {
				return true
			}
			g := gens[fo]
			if g == nil {
				return true
			}
			inst, ok := info.Instances[id]
			if !ok || inst.TypeArgs == nil {
				return true
			}
			sites = append(sites, site{file: f, ce: ce, id: id, g: g, inst: inst})
			return true
		})
	}
	sort.SliceStable(sites, func(i, j int) bool { return sites[i].ce.Pos() < sites[j].ce.Pos() })
	for _, s := range sites {
		g := s.g
		// a call inside a generic function whose type arguments mention that function's own type
		// parameters is resolved when the enclosing function has been instantiated
		mentionsParam := false
		okArgs := true
		var argStrs []string
		qual, qok := nz.fileQualifier(g.file)
		for i := 0; i < s.inst.TypeArgs.Len(); i++ {
			ta := s.inst.TypeArgs.At(i)
			if hasTypeParam(ta) {
				mentionsParam = true
			}
			if !writable(ta) {
				okArgs = false
			}
			argStrs = append(argStrs, types.TypeString(ta, qual))
		}
		if mentionsParam || !okArgs || !*qok {
			continue
		}
		key := g.fn.Name() + "[" + strings.Join(argStrs, ",") + "]"
		name, have := made[key]
		if !have {
			tps := g.fn.Type().(*types.Signature).TypeParams()
			if tps == nil || tps.Len() != s.inst.TypeArgs.Len() {
				continue
			}
			subst := map[types.Object]string{}
			for i := 0; i < tps.Len(); i++ {
				subst[tps.At(i).Obj()] = argStrs[i]
			}
			for k := 1; ; k++ {
				name = fmt.Sprintf("%s_mono%d", g.fn.Name(), k)
				if !taken[name] {
					break
				}
			}
			cp, ok := nz.instantiateDecl(g.fd, name, subst)
			if !ok {
				continue
			}
			taken[name] = true
			made[key] = name
			// placed right after the generic declaration
			for i, d := range g.file.Decls {
				if d == ast.Decl(g.fd) {
					g.file.Decls = append(g.file.Decls[:i+1], append([]ast.Decl{cp}, g.file.Decls[i+1:]...)...)
					break
				}
			}
			nz.changed[g.file] = true
			nz.log = append(nz.log, "generic helper "+key+" written out as "+name)
		}
		nid := ast.NewIdent(name)
		nid.NamePos = s.id.Pos()
		s.ce.Fun = nid
		nz.changed[s.file] = true
	}
}

func hasTypeParam(t types.Type) bool {
	found := false
	var walk func(t types.Type, depth int)
	walk = func(t types.Type, depth int) {
		if found || depth > 8 {
			return
		}
		switch x := t.(type) {
		case *types.TypeParam:
			found = true
		case *types.Alias:
			walk(types.Unalias(x), depth+1)
		case *types.Named:
			if ta := x.TypeArgs(); ta != nil {
				for i := 0; i < ta.Len(); i++ {
					walk(ta.At(i), depth+1)
				}
			}
		case *types.Pointer:
			walk(x.Elem(), depth+1)
		case *types.Slice:
			walk(x.Elem(), depth+1)
		case *types.Array:
			walk(x.Elem(), depth+1)
		case *types.Map:
			walk(x.Key(), depth+1)
			walk(x.Elem(), depth+1)
		case *types.Chan:
			walk(x.Elem(), depth+1)
		case *types.Signature:
			for i := 0; i < x.Params().Len(); i++ {
				walk(x.Params().At(i).Type(), depth+1)
			}
			for i := 0; i < x.Results().Len(); i++ {
				walk(x.Results().At(i).Type(), depth+1)
			}
		}
	}
	walk(t, 0)
	return found
}

// instantiateDecl copies a generic function declaration under a new name with every use of a
// type parameter replaced by the text of its argument; the type parameter list is dropped.
func (nz *normaliser) instantiateDecl(fd *ast.FuncDecl, name string, subst map[types.Object]string) (*ast.FuncDecl, bool) {
	cp := copyNode(fd).(*ast.FuncDecl)
	var a, b []ast.Node
	ast.Inspect(fd, func(n ast.Node) bool {
		if n != nil {
			a = append(a, n)
		}
		return true
	})
	ast.Inspect(cp, func(n ast.Node) bool {
		if n != nil {
			b = append(b, n)
		}
		return true
	})
	if len(a) != len(b) {
		return nil, false
	}
	repl := map[*ast.Ident]string{}
	for i := range a {
		id, ok := a[i].(*ast.Ident)
		if !ok {
			continue
		}
		nid, ok := b[i].(*ast.Ident)
		if !ok {
			return nil, false
		}
		if o := nz.info.Uses[id]; o != nil {
			if txt, has := subst[o]; has {
				repl[nid] = txt
			}
		}
	}
	cp.Type.TypeParams = nil
	cp.Name = ast.NewIdent(name)
	cp.Doc = nil
	okAll := true
	astutil.Apply(cp, nil, func(c *astutil.Cursor) bool {
		id, ok := c.Node().(*ast.Ident)
		if !ok {
			return true
		}
		txt, has := repl[id]
		if !has {
			return true
		}
		e, err := parser.ParseExpr(txt)
		if err != nil {
			okAll = false
			return true
		}
		e = copyNode(e).(ast.Expr)
		switch e.(type) {
		case *ast.Ident, *ast.SelectorExpr, *ast.ArrayType, *ast.MapType, *ast.InterfaceType, *ast.StructType, *ast.IndexExpr, *ast.IndexListExpr:
		default:
			e = &ast.ParenExpr{X: e}
		}
		c.Replace(e)
		return true
	})
	if !okAll {
		return nil, false
	}
	return cp, true
}


// ---- N14: a reviewed function reduced to a thin wrapper ----
//
// `func RedactMongoLog(s string) (...) { return RedactMongoLogBytes([]byte(s)) }` with the body
// moved to the new `RedactMongoLogBytes`, which other code now calls directly: the role the
// rules attach to the reviewed name (the per-line function, the serialiser, the key reader ...)
// has moved to the new function. The two *names* are exchanged - an alpha-renaming of the
// program, nothing else changes - so that the function holding the body carries the reviewed
// name and the forwarding stub becomes an ordinary new helper (`<name>_thin`). Conditions: the
// reviewed function consists of exactly one call of a package-level function outside the
// reviewed decomposition, whose arguments are the wrapper's parameters (each used once, in
// order, bare or under a type conversion), and that function is also called from elsewhere
// (otherwise it is simply inlined into the wrapper).
func (nz *normaliser) swapThinWrappers() {
	if nz.baseline == nil {
		return
	}
	info := nz.info
	decls := map[*types.Func]*ast.FuncDecl{}
	for _, f := range nz.pkg.Syntax {
		for _, d := range f.Decls {
			if fd, ok := d.(*ast.FuncDecl); ok && fd.Body != nil && fd.Recv == nil {
				if fo, ok := info.Defs[fd.Name].(*types.Func); ok {
					decls[fo] = fd
				}
			}
		}
	}
	callers := map[*types.Func]map[*types.Func]bool{}
	valueUse := map[*types.Func]bool{}
	for fo, fd := range decls {
		funs := map[*ast.Ident]bool{}
		ast.Inspect(fd.Body, func(n ast.Node) bool {
			if ce, ok := n.(*ast.CallExpr); ok {
				if id, ok := ce.Fun.(*ast.Ident); ok {
					funs[id] = true
					if g, ok := info.Uses[id].(*types.Func); ok {
						if callers[g] == nil {
							callers[g] = map[*types.Func]bool{}
						}
						callers[g][fo] = true
					}
				}
			}
			return true
		})
		ast.Inspect(fd.Body, func(n ast.Node) bool {
			if id, ok := n.(*ast.Ident); ok && !funs[id] {
				if g, ok := info.Uses[id].(*types.Func); ok {
					valueUse[g] = true
				}
			}
			return true
		})
	}
	type pair struct{ f, g *types.Func }
	var pairs []pair
	for fo, fd := range decls {
		if !nz.baseline[fd.Name.Name] || fd.Type.TypeParams != nil || len(fd.Body.List) != 1 {
			continue
		}
		var ce *ast.CallExpr
		switch s := fd.Body.List[0].(type) {
		case *ast.ReturnStmt:
			if len(s.Results) == 1 {
				ce, _ = s.Results[0].(*ast.CallExpr)
			}
		case *ast.ExprStmt:
			ce, _ = s.X.(*ast.CallExpr)
		}
		if ce == nil || ce.Ellipsis.IsValid() {
			continue
		}
		gid, ok := ce.Fun.(*ast.Ident)
		if !ok {
			continue
		}
		g, ok := info.Uses[gid].(*types.Func)
		if !ok || decls[g] == nil || nz.baseline[g.Name()] || g == fo || valueUse[g] || valueUse[fo] {
			continue
		}
		if decls[g].Type.TypeParams != nil {
			continue
		}
		sig := fo.Type().(*types.Signature)
		if len(ce.Args) != sig.Params().Len() || sig.Variadic() {
			continue
		}
		okArgs := true
		for i, a := range ce.Args {
			for {
				if p, ok := a.(*ast.ParenExpr); ok {
					a = p.X
					continue
				}
				break
			}
			if conv, ok := a.(*ast.CallExpr); ok && len(conv.Args) == 1 {
				if tv, has := info.Types[conv.Fun]; has && tv.IsType() {
					a = conv.Args[0]
				}
			}
			id, ok := a.(*ast.Ident)
			if !ok || info.Uses[id] != types.Object(sig.Params().At(i)) {
				okArgs = false
			}
		}
		if !okArgs {
			continue
		}
		other := false
		for c := range callers[g] {
			if c != fo {
				other = true
			}
		}
		if !other || callers[g][g] {
			continue
		}
		pairs = append(pairs, pair{fo, g})
	}
	if len(pairs) == 0 {
		return
	}
	sort.Slice(pairs, func(i, j int) bool { return pairs[i].f.Name() < pairs[j].f.Name() })
	rename := map[types.Object]string{}
	usedG := map[*types.Func]bool{}
	for _, p := range pairs {
		thin := p.f.Name() + "_thin"
		if usedG[p.g] || nz.pkg.Types.Scope().Lookup(thin) != nil {
			continue
		}
		usedG[p.g] = true
		rename[p.f] = thin
		rename[p.g] = p.f.Name()
		nz.log = append(nz.log, fmt.Sprintf("%s forwards to %s: the names are exchanged (the body keeps the reviewed name, the stub becomes %s)", p.f.Name(), p.g.Name(), thin))
	}
	for _, f := range nz.pkg.Syntax {
		ast.Inspect(f, func(n ast.Node) bool {
			id, ok := n.(*ast.Ident)
			if !ok {
				return true
			}
			o := info.Uses[id]
			if o == nil {
				o = info.Defs[id]
			}
			if nn, has := rename[o]; has && o != nil {
				id.Name = nn
				nz.changed[f] = true
			}
			return true
		})
	}
}
