package main

// ---- N13: type-parameterised helpers ----
//
// `func memberOf[T any](doc OrderedMap, key string) (T, bool)` called as `memberOf[[]any](cmd, "ops")`
// (or with the type argument inferred) is, for the analysis, the ordinary function obtained by
// writing the type argument in place of the type parameter. The source-level inliner does not
// copy bodies that mention type parameters, so each *instantiation* of a generic helper outside
// the reviewed decomposition gets a plain copy of the declaration (`memberOf_mono1`) in the file
// of the generic one, and the call is redirected to it; the next round inlines the copy like any
// other new helper. Conditions: a package-level function (no methods), every type argument can
// be written in the declaring file (package-level or imported named types whose package the file
// imports, composites of those), the callee is named directly at the call. A generic helper used
// as a value, or instantiated with a local type, is left alone (and then reported by whichever
// rule cannot see through it).

import (
	"fmt"
	"go/ast"
	"go/parser"
	"go/token"
	"go/types"
	"sort"
	"strings"

	"golang.org/x/tools/go/ast/astutil"
)

func (nz *normaliser) monomorphise() {
	if nz.baseline == nil {
		return
	}
	pkg, info := nz.pkg, nz.info
	type gen struct {
		fd   *ast.FuncDecl
		file *ast.File
		fn   *types.Func
	}
	gens := map[*types.Func]*gen{}
	for _, f := range pkg.Syntax {
		for _, d := range f.Decls {
			fd, ok := d.(*ast.FuncDecl)
			if !ok || fd.Body == nil || fd.Recv != nil || fd.Type.TypeParams == nil || len(fd.Type.TypeParams.List) == 0 {
				continue
			}
			if nz.baseline[fd.Name.Name] {
				continue
			}
			if fo, ok := info.Defs[fd.Name].(*types.Func); ok {
				gens[fo] = &gen{fd: fd, file: f, fn: fo}
			}
		}
	}
	if len(gens) == 0 {
		return
	}
	// writable: the type can be spelled at package level of the declaring file
	var writable func(t types.Type) bool
	writable = func(t types.Type) bool {
		switch x := t.(type) {
		case *types.Basic:
			return x.Kind() != types.Invalid && !strings.HasPrefix(x.Name(), "untyped")
		case *types.Alias:
			o := x.Obj()
			if o.Pkg() == nil || o.Parent() == o.Pkg().Scope() {
				return true
			}
			return writable(types.Unalias(x))
		case *types.Named:
			o := x.Obj()
			if o.Pkg() != nil && o.Parent() != o.Pkg().Scope() {
				return false // a type declared inside a function
			}
			if ta := x.TypeArgs(); ta != nil {
				for i := 0; i < ta.Len(); i++ {
					if !writable(ta.At(i)) {
						return false
					}
				}
			}
			return true
		case *types.Pointer:
			return writable(x.Elem())
		case *types.Slice:
			return writable(x.Elem())
		case *types.Array:
			return writable(x.Elem())
		case *types.Map:
			return writable(x.Key()) && writable(x.Elem())
		case *types.Chan:
			return writable(x.Elem())
		case *types.Interface:
			return x.NumMethods() == 0 && x.NumEmbeddeds() == 0
		case *types.Struct:
			return x.NumFields() == 0
		case *types.Signature:
			for i := 0; i < x.Params().Len(); i++ {
				if !writable(x.Params().At(i).Type()) {
					return false
				}
			}
			for i := 0; i < x.Results().Len(); i++ {
				if !writable(x.Results().At(i).Type()) {
					return false
				}
			}
			return x.TypeParams() == nil
		}
		return false
	}
	made := map[string]string{} // generic name + type arguments -> name of the copy
	taken := map[string]bool{}
	for _, n := range pkg.Types.Scope().Names() {
		taken[n] = true
	}
	type site struct {
		file *ast.File
		ce   *ast.CallExpr
		id   *ast.Ident
		g    *gen
		inst types.Instance
	}
	var sites []site
	for _, f := range pkg.Syntax {
		ast.Inspect(f, func(n ast.Node) bool {
			ce, ok := n.(*ast.CallExpr)
			if !ok {
				return true
			}
			fun := ce.Fun
			for {
				if p, ok := fun.(*ast.ParenExpr); ok {
					fun = p.X
					continue
				}
				break
			}
			switch x := fun.(type) {
			case *ast.IndexExpr:
				fun = x.X
			case *ast.IndexListExpr:
				fun = x.X
			}
			id, ok := fun.(*ast.Ident)
			if !ok {
				return true
			}
			fo, ok := info.Uses[id].(*types.Func)
			if !ok {
				return true
			}
			g := gens[fo]
			if g == nil {
				return true
			}
			inst, ok := info.Instances[id]
			if !ok || inst.TypeArgs == nil {
				return true
			}
			sites = append(sites, site{file: f, ce: ce, id: id, g: g, inst: inst})
			return true
		})
	}
	sort.SliceStable(sites, func(i, j int) bool { return sites[i].ce.Pos() < sites[j].ce.Pos() })
	for _, s := range sites {
		g := s.g
		// a call inside a generic function whose type arguments mention that function's own type
		// parameters is resolved when the enclosing function has been instantiated
		mentionsParam := false
		okArgs := true
		var argStrs []string
		qual, qok := nz.fileQualifier(g.file)
		for i := 0; i < s.inst.TypeArgs.Len(); i++ {
			ta := s.inst.TypeArgs.At(i)
			if hasTypeParam(ta) {
				mentionsParam = true
			}
			if !writable(ta) {
				okArgs = false
			}
			argStrs = append(argStrs, types.TypeString(ta, qual))
		}
		if mentionsParam || !okArgs || !*qok {
			continue
		}
		key := g.fn.Name() + "[" + strings.Join(argStrs, ",") + "]"
		name, have := made[key]
		if !have {
			tps := g.fn.Type().(*types.Signature).TypeParams()
			if tps == nil || tps.Len() != s.inst.TypeArgs.Len() {
				continue
			}
			subst := map[types.Object]string{}
			for i := 0; i < tps.Len(); i++ {
				subst[tps.At(i).Obj()] = argStrs[i]
			}
			for k := 1; ; k++ {
				name = fmt.Sprintf("%s_mono%d", g.fn.Name(), k)
				if !taken[name] {
					break
				}
			}
			cp, ok := nz.instantiateDecl(g.fd, name, subst)
			if !ok {
				continue
			}
			taken[name] = true
			made[key] = name
			// placed right after the generic declaration
			for i, d := range g.file.Decls {
				if d == ast.Decl(g.fd) {
					g.file.Decls = append(g.file.Decls[:i+1], append([]ast.Decl{cp}, g.file.Decls[i+1:]...)...)
					break
				}
			}
			nz.changed[g.file] = true
			nz.log = append(nz.log, "generic helper "+key+" written out as "+name)
		}
		nid := ast.NewIdent(name)
		nid.NamePos = s.id.Pos()
		s.ce.Fun = nid
		nz.changed[s.file] = true
	}
}

func hasTypeParam(t types.Type) bool {
	found := false
	var walk func(t types.Type, depth int)
	walk = func(t types.Type, depth int) {
		if found || depth > 8 {
			return
		}
		switch x := t.(type) {
		case *types.TypeParam:
			found = true
		case *types.Alias:
			walk(types.Unalias(x), depth+1)
		case *types.Named:
			if ta := x.TypeArgs(); ta != nil {
				for i := 0; i < ta.Len(); i++ {
					walk(ta.At(i), depth+1)
				}
			}
		case *types.Pointer:
			walk(x.Elem(), depth+1)
		case *types.Slice:
			walk(x.Elem(), depth+1)
		case *types.Array:
			walk(x.Elem(), depth+1)
		case *types.Map:
			walk(x.Key(), depth+1)
			walk(x.Elem(), depth+1)
		case *types.Chan:
			walk(x.Elem(), depth+1)
		case *types.Signature:
			for i := 0; i < x.Params().Len(); i++ {
				walk(x.Params().At(i).Type(), depth+1)
			}
			for i := 0; i < x.Results().Len(); i++ {
				walk(x.Results().At(i).Type(), depth+1)
			}
		}
	}
	walk(t, 0)
	return found
}

// instantiateDecl copies a generic function declaration under a new name with every use of a
// type parameter replaced by the text of its argument; the type parameter list is dropped.
func (nz *normaliser) instantiateDecl(fd *ast.FuncDecl, name string, subst map[types.Object]string) (*ast.FuncDecl, bool) {
	cp := copyNode(fd).(*ast.FuncDecl)
	var a, b []ast.Node
	ast.Inspect(fd, func(n ast.Node) bool {
		if n != nil {
			a = append(a, n)
		}
		return true
	})
	ast.Inspect(cp, func(n ast.Node) bool {
		if n != nil {
			b = append(b, n)
		}
		return true
	})
	if len(a) != len(b) {
		return nil, false
	}
	repl := map[*ast.Ident]string{}
	for i := range a {
		id, ok := a[i].(*ast.Ident)
		if !ok {
			continue
		}
		nid, ok := b[i].(*ast.Ident)
		if !ok {
			return nil, false
		}
		if o := nz.info.Uses[id]; o != nil {
			if txt, has := subst[o]; has {
				repl[nid] = txt
			}
		}
	}
	cp.Type.TypeParams = nil
	cp.Name = ast.NewIdent(name)
	cp.Doc = nil
	okAll := true
	astutil.Apply(cp, nil, func(c *astutil.Cursor) bool {
		id, ok := c.Node().(*ast.Ident)
		if !ok {
			return true
		}
		txt, has := repl[id]
		if !has {
			return true
		}
		e, err := parser.ParseExpr(txt)
		if err != nil {
			okAll = false
			return true
		}
		e = copyNode(e).(ast.Expr)
		switch e.(type) {
		case *ast.Ident, *ast.SelectorExpr, *ast.ArrayType, *ast.MapType, *ast.InterfaceType, *ast.StructType, *ast.IndexExpr, *ast.IndexListExpr:
		default:
			e = &ast.ParenExpr{X: e}
		}
		c.Replace(e)
		return true
	})
	if !okAll {
		return nil, false
	}
	return cp, true
}


// ---- N14: a reviewed function reduced to a thin wrapper ----
//
// `func RedactMongoLog(s string) (...) { return RedactMongoLogBytes([]byte(s)) }` with the body
// moved to the new `RedactMongoLogBytes`, which other code now calls directly: the role the
// rules attach to the reviewed name (the per-line function, the serialiser, the key reader ...)
// has moved to the new function. The two *names* are exchanged - an alpha-renaming of the
// program, nothing else changes - so that the function holding the body carries the reviewed
// name and the forwarding stub becomes an ordinary new helper (`<name>_thin`). Conditions: the
// reviewed function consists of exactly one call of a package-level function outside the
// reviewed decomposition, whose arguments are the wrapper's parameters (each used once, in
// order, bare or under a type conversion), and that function is also called from elsewhere
// (otherwise it is simply inlined into the wrapper).
func (nz *normaliser) swapThinWrappers() {
	if nz.baseline == nil {
		return
	}
	info := nz.info
	decls := map[*types.Func]*ast.FuncDecl{}
	for _, f := range nz.pkg.Syntax {
		for _, d := range f.Decls {
			if fd, ok := d.(*ast.FuncDecl); ok && fd.Body != nil && fd.Recv == nil {
				if fo, ok := info.Defs[fd.Name].(*types.Func); ok {
					decls[fo] = fd
				}
			}
		}
	}
	callers := map[*types.Func]map[*types.Func]bool{}
	valueUse := map[*types.Func]bool{}
	for fo, fd := range decls {
		funs := map[*ast.Ident]bool{}
		ast.Inspect(fd.Body, func(n ast.Node) bool {
			if ce, ok := n.(*ast.CallExpr); ok {
				if id, ok := ce.Fun.(*ast.Ident); ok {
					funs[id] = true
					if g, ok := info.Uses[id].(*types.Func); ok {
						if callers[g] == nil {
							callers[g] = map[*types.Func]bool{}
						}
						callers[g][fo] = true
					}
				}
			}
			return true
		})
		ast.Inspect(fd.Body, func(n ast.Node) bool {
			if id, ok := n.(*ast.Ident); ok && !funs[id] {
				if g, ok := info.Uses[id].(*types.Func); ok {
					valueUse[g] = true
				}
			}
			return true
		})
	}
	type pair struct{ f, g *types.Func }
	var pairs []pair
	for fo, fd := range decls {
		if !nz.baseline[fd.Name.Name] || fd.Type.TypeParams != nil || len(fd.Body.List) != 1 {
			continue
		}
		var ce *ast.CallExpr
		switch s := fd.Body.List[0].(type) {
		case *ast.ReturnStmt:
			if len(s.Results) == 1 {
				ce, _ = s.Results[0].(*ast.CallExpr)
			}
		case *ast.ExprStmt:
			ce, _ = s.X.(*ast.CallExpr)
		}
		if ce == nil || ce.Ellipsis.IsValid() {
			continue
		}
		gid, ok := ce.Fun.(*ast.Ident)
		if !ok {
			continue
		}
		g, ok := info.Uses[gid].(*types.Func)
		if !ok || decls[g] == nil || nz.baseline[g.Name()] || g == fo || valueUse[g] || valueUse[fo] {
			continue
		}
		if decls[g].Type.TypeParams != nil {
			continue
		}
		sig := fo.Type().(*types.Signature)
		if len(ce.Args) != sig.Params().Len() || sig.Variadic() {
			continue
		}
		okArgs := true
		for i, a := range ce.Args {
			for {
				if p, ok := a.(*ast.ParenExpr); ok {
					a = p.X
					continue
				}
				break
			}
			if conv, ok := a.(*ast.CallExpr); ok && len(conv.Args) == 1 {
				if tv, has := info.Types[conv.Fun]; has && tv.IsType() {
					a = conv.Args[0]
				}
			}
			id, ok := a.(*ast.Ident)
			if !ok || info.Uses[id] != types.Object(sig.Params().At(i)) {
				okArgs = false
			}
		}
		if !okArgs {
			continue
		}
		other := false
		for c := range callers[g] {
			if c != fo {
				other = true
			}
		}
		if !other || callers[g][g] {
			continue
		}
		pairs = append(pairs, pair{fo, g})
	}
	if len(pairs) == 0 {
		return
	}
	sort.Slice(pairs, func(i, j int) bool { return pairs[i].f.Name() < pairs[j].f.Name() })
	rename := map[types.Object]string{}
	usedG := map[*types.Func]bool{}
	for _, p := range pairs {
		thin := p.f.Name() + "_thin"
		if usedG[p.g] || nz.pkg.Types.Scope().Lookup(thin) != nil {
			continue
		}
		usedG[p.g] = true
		rename[p.f] = thin
		rename[p.g] = p.f.Name()
		nz.log = append(nz.log, fmt.Sprintf("%s forwards to %s: the names are exchanged (the body keeps the reviewed name, the stub becomes %s)", p.f.Name(), p.g.Name(), thin))
	}
	for _, f := range nz.pkg.Syntax {
		ast.Inspect(f, func(n ast.Node) bool {
			id, ok := n.(*ast.Ident)
			if !ok {
				return true
			}
			o := info.Uses[id]
			if o == nil {
				o = info.Defs[id]
			}
			if nn, has := rename[o]; has && o != nil {
				id.Name = nn
				nz.changed[f] = true
			}
			return true
		})
	}
}

// ---- N15: standard-library iterators in range clauses ----
//
//	for name := range strings.SplitSeq(key, ".")   ->  for _, name := range strings.Split(key, ".")
//	for f := range strings.FieldsSeq(s)            ->  for _, f := range strings.Fields(s)
//	for v := range slices.Values(xs)               ->  for _, v := range xs
//	for i, v := range slices.All(xs)               ->  for i, v := range xs
//	for k := range maps.Keys(m)                    ->  for k := range m
//	for v := range maps.Values(m)                  ->  for _, v := range m
//	for k, v := range maps.All(m)                  ->  for k, v := range m
//
// The iterator forms visit the same elements in the same order as the slice / map they stand
// for (SplitSeq is specified as the lazy Split); go/ssa lowers a range over a function into a
// yield closure with run-time checks (synthetic panics), in which no rule recognises a loop.
func (nz *normaliser) stdIteratorsIn(f *ast.File) {
	astutil.Apply(f, nil, func(c *astutil.Cursor) bool {
		rs, ok := c.Node().(*ast.RangeStmt)
		if !ok {
			return true
		}
		ce, ok := rs.X.(*ast.CallExpr)
		if !ok {
			return true
		}
		se, ok := ce.Fun.(*ast.SelectorExpr)
		if !ok {
			return true
		}
		pid, ok := se.X.(*ast.Ident)
		if !ok {
			return true
		}
		pn, ok := nz.info.Uses[pid].(*types.PkgName)
		if !ok {
			return true
		}
		path := pn.Imported().Path()
		if rs.Tok != token.DEFINE && (rs.Key != nil || rs.Value != nil) {
			return true
		}
		valueOnly := func() bool { // the single range variable becomes the VALUE of a slice / map range
			if rs.Value != nil {
				return false
			}
			rs.Value = rs.Key
			if rs.Key != nil {
				rs.Key = ast.NewIdent("_")
			}
			return true
		}
		done := ""
		switch {
		case (path == "strings" || path == "bytes") && (se.Sel.Name == "SplitSeq" || se.Sel.Name == "SplitAfterSeq" || se.Sel.Name == "FieldsSeq") && (len(ce.Args) == 2 || len(ce.Args) == 1):
			if !valueOnly() {
				return true
			}
			se.Sel = ast.NewIdent(strings.TrimSuffix(se.Sel.Name, "Seq"))
			done = path + "." + se.Sel.Name + "Seq"
		case path == "slices" && se.Sel.Name == "Values" && len(ce.Args) == 1:
			if !valueOnly() {
				return true
			}
			rs.X = ce.Args[0]
			done = "slices.Values"
		case path == "maps" && se.Sel.Name == "Values" && len(ce.Args) == 1:
			if !valueOnly() {
				return true
			}
			rs.X = ce.Args[0]
			done = "maps.Values"
		case (path == "slices" || path == "maps") && se.Sel.Name == "All" && len(ce.Args) == 1:
			rs.X = ce.Args[0]
			done = path + ".All"
		case path == "maps" && se.Sel.Name == "Keys" && len(ce.Args) == 1:
			if rs.Value != nil {
				return true
			}
			rs.X = ce.Args[0]
			done = "maps.Keys"
		default:
			return true
		}
		nz.changed[f] = true
		nz.log = append(nz.log, "range over "+done+"(...) written as the range over the slice / map it stands for")
		return true
	})
}

// ---- N9 (continued): cmp.Or ----
//
//	x := cmp.Or(a, b, c)   ->   _t0, _t1, _t2 := a, b, c; x := _t0; if x == zero { x = _t1 }; if x == zero { x = _t2 }
//
// (every argument is evaluated, in order, as for the call; the first non-zero one is the value).
// Only as the single right-hand side of an assignment / definition of one variable of string,
// numeric or boolean type.
func (nz *normaliser) cmpOrIn(f *ast.File) {
	isCmpOr := func(e ast.Expr) *ast.CallExpr {
		ce, ok := e.(*ast.CallExpr)
		if !ok || len(ce.Args) < 2 || ce.Ellipsis.IsValid() {
			return nil
		}
		fun := ce.Fun
		if ix, ok := fun.(*ast.IndexExpr); ok {
			fun = ix.X
		}
		se, ok := fun.(*ast.SelectorExpr)
		if !ok || se.Sel.Name != "Or" {
			return nil
		}
		pid, ok := se.X.(*ast.Ident)
		if !ok {
			return nil
		}
		pn, ok := nz.info.Uses[pid].(*types.PkgName)
		if !ok || pn.Imported().Path() != "cmp" {
			return nil
		}
		return ce
	}
	zeroOf := func(t types.Type) ast.Expr {
		b, ok := t.Underlying().(*types.Basic)
		if !ok {
			return nil
		}
		switch {
		case b.Info()&types.IsString != 0:
			return &ast.BasicLit{Kind: token.STRING, Value: `""`}
		case b.Info()&types.IsNumeric != 0:
			return &ast.BasicLit{Kind: token.INT, Value: "0"}
		case b.Info()&types.IsBoolean != 0:
			return ast.NewIdent("false")
		}
		return nil
	}
	rewrite := func(st ast.Stmt) []ast.Stmt {
		as, ok := st.(*ast.AssignStmt)
		if !ok || len(as.Lhs) != 1 || len(as.Rhs) != 1 || (as.Tok != token.ASSIGN && as.Tok != token.DEFINE) {
			return nil
		}
		lhs, ok := as.Lhs[0].(*ast.Ident)
		if !ok || lhs.Name == "_" {
			return nil
		}
		ce := isCmpOr(as.Rhs[0])
		if ce == nil {
			return nil
		}
		t := nz.info.TypeOf(ce)
		zero := zeroOf(t)
		if zero == nil {
			return nil
		}
		nz.n++
		var tmps []ast.Expr
		for i := range ce.Args {
			tmps = append(tmps, ast.NewIdent(fmt.Sprintf("_or%d_%d", nz.n, i)))
		}
		out := []ast.Stmt{&ast.AssignStmt{Lhs: tmps, Tok: token.DEFINE, Rhs: ce.Args}}
		out = append(out, &ast.AssignStmt{Lhs: []ast.Expr{ast.NewIdent(lhs.Name)}, Tok: as.Tok, Rhs: []ast.Expr{ast.NewIdent(tmps[0].(*ast.Ident).Name)}})
		for i := 1; i < len(tmps); i++ {
			out = append(out, &ast.IfStmt{
				Cond: &ast.BinaryExpr{X: ast.NewIdent(lhs.Name), Op: token.EQL, Y: copyNode(zero).(ast.Expr)},
				Body: &ast.BlockStmt{List: []ast.Stmt{&ast.AssignStmt{Lhs: []ast.Expr{ast.NewIdent(lhs.Name)}, Tok: token.ASSIGN, Rhs: []ast.Expr{ast.NewIdent(tmps[i].(*ast.Ident).Name)}}}},
			})
		}
		return out
	}
	ast.Inspect(f, func(n ast.Node) bool {
		fix := func(list []ast.Stmt) []ast.Stmt {
			var out []ast.Stmt
			changed := false
			for _, st := range list {
				if rep := rewrite(st); rep != nil {
					out = append(out, rep...)
					changed = true
				} else {
					out = append(out, st)
				}
			}
			if changed {
				nz.changed[f] = true
				nz.log = append(nz.log, "cmp.Or(...) written out as the first-non-zero chain")
			}
			return out
		}
		switch x := n.(type) {
		case *ast.BlockStmt:
			x.List = fix(x.List)
		case *ast.CaseClause:
			x.Body = fix(x.Body)
		case *ast.CommClause:
			x.Body = fix(x.Body)
		}
		return true
	})
}

// ---- N14 (methods): calls of the method behind a forwarding stub ----
//
// `func ReadKeyFromFile(path string) ([]byte, error) { return KeyFile(path).Read() }` with the body
// moved to the method `KeyFile.Read` of a new named type, which other code now calls directly
// (`KeyFile(p).Read()`, `f.Read()` inside other methods): every such call is written as the call
// of the reviewed function with the receiver converted back - `ReadKeyFromFile(string(f))`. This
// is the same computation (the stub converts forth, the method is applied; the named type and
// the parameter type have the same underlying type, so the round trip keeps the value); the
// method is then called from the stub only, and the inliner puts its body there.
func (nz *normaliser) stubMethodCalls() {
	if nz.baseline == nil {
		return
	}
	info := nz.info
	type stub struct {
		f        *types.Func
		fd       *ast.FuncDecl
		m        *types.Func
		recvPrm  int   // index of the parameter the receiver is made from
		argPrm   []int // for each method argument: index of the stub parameter
		prmTypes []types.Type
		file     *ast.File
	}
	var stubs []*stub
	for _, file := range nz.pkg.Syntax {
		for _, d := range file.Decls {
			fd, ok := d.(*ast.FuncDecl)
			if !ok || fd.Body == nil || fd.Recv != nil || !nz.baseline[fd.Name.Name] || len(fd.Body.List) != 1 || fd.Type.TypeParams != nil {
				continue
			}
			fo, ok := info.Defs[fd.Name].(*types.Func)
			if !ok {
				continue
			}
			var ce *ast.CallExpr
			switch s := fd.Body.List[0].(type) {
			case *ast.ReturnStmt:
				if len(s.Results) == 1 {
					ce, _ = s.Results[0].(*ast.CallExpr)
				}
			case *ast.ExprStmt:
				ce, _ = s.X.(*ast.CallExpr)
			}
			if ce == nil || ce.Ellipsis.IsValid() {
				continue
			}
			se, ok := ce.Fun.(*ast.SelectorExpr)
			if !ok {
				continue
			}
			sel := info.Selections[se]
			if sel == nil || sel.Kind() != types.MethodVal || len(sel.Index()) != 1 {
				continue
			}
			m, ok := sel.Obj().(*types.Func)
			if !ok || m.Pkg() != nz.pkg.Types {
				continue
			}
			msig := m.Type().(*types.Signature)
			if _, ptr := msig.Recv().Type().(*types.Pointer); ptr || msig.Variadic() {
				continue
			}
			sig := fo.Type().(*types.Signature)
			prmIdx := func(e ast.Expr) int {
				for {
					if p, ok := e.(*ast.ParenExpr); ok {
						e = p.X
						continue
					}
					break
				}
				id, ok := e.(*ast.Ident)
				if !ok {
					return -1
				}
				for i := 0; i < sig.Params().Len(); i++ {
					if info.Uses[id] == types.Object(sig.Params().At(i)) {
						return i
					}
				}
				return -1
			}
			// receiver: T(p) or p
			rx := se.X
			if conv, ok := rx.(*ast.CallExpr); ok && len(conv.Args) == 1 {
				if tv, has := info.Types[conv.Fun]; has && tv.IsType() {
					rx = conv.Args[0]
				}
			}
			ri := prmIdx(rx)
			if ri < 0 || !types.Identical(sig.Params().At(ri).Type().Underlying(), msig.Recv().Type().Underlying()) {
				continue
			}
			st := &stub{f: fo, fd: fd, m: m, recvPrm: ri, file: file}
			used := map[int]bool{ri: true}
			okArgs := len(ce.Args) == msig.Params().Len()
			for _, a := range ce.Args {
				ai := prmIdx(a)
				if ai < 0 || used[ai] {
					okArgs = false
					break
				}
				used[ai] = true
				st.argPrm = append(st.argPrm, ai)
			}
			if !okArgs || len(used) != sig.Params().Len() {
				continue
			}
			for i := 0; i < sig.Params().Len(); i++ {
				st.prmTypes = append(st.prmTypes, sig.Params().At(i).Type())
			}
			stubs = append(stubs, st)
		}
	}
	if len(stubs) == 0 {
		return
	}
	byMethod := map[*types.Func]*stub{}
	for _, st := range stubs {
		if byMethod[st.m] != nil {
			return // two stubs for one method: leave it
		}
		byMethod[st.m] = st
	}
	for _, file := range nz.pkg.Syntax {
		qual, qok := nz.fileQualifier(file)
		var curDecl *ast.FuncDecl
		astutil.Apply(file, func(c *astutil.Cursor) bool {
			if fd, ok := c.Node().(*ast.FuncDecl); ok {
				curDecl = fd
			}
			return true
		}, func(c *astutil.Cursor) bool {
			ce, ok := c.Node().(*ast.CallExpr)
			if !ok {
				return true
			}
			se, ok := ce.Fun.(*ast.SelectorExpr)
			if !ok {
				return true
			}
			sel := info.Selections[se]
			if sel == nil || sel.Kind() != types.MethodVal {
				return true
			}
			m, ok := sel.Obj().(*types.Func)
			if !ok {
				return true
			}
			st := byMethod[m]
			if st == nil || curDecl == st.fd || len(sel.Index()) != 1 || ce.Ellipsis.IsValid() || len(ce.Args) != len(st.argPrm) {
				return true
			}
			// the name of the stub must mean the stub here
			if scope := nz.pkg.Types.Scope().Innermost(ce.Pos()); scope != nil {
				if _, o := scope.LookupParent(st.f.Name(), ce.Pos()); o != types.Object(st.f) {
					return true
				}
			}
			args := make([]ast.Expr, len(st.prmTypes))
			te, err := parser.ParseExpr(types.TypeString(st.prmTypes[st.recvPrm], qual))
			if err != nil || !*qok {
				return true
			}
			args[st.recvPrm] = &ast.CallExpr{Fun: &ast.ParenExpr{X: te}, Args: []ast.Expr{se.X}}
			for j, pi := range st.argPrm {
				args[pi] = ce.Args[j]
			}
			c.Replace(&ast.CallExpr{Fun: ast.NewIdent(st.f.Name()), Args: args})
			nz.changed[file] = true
			nz.log = append(nz.log, fmt.Sprintf("call of method %s written as a call of the reviewed function %s that forwards to it", m.Name(), st.f.Name()))
			return true
		})
	}
}
