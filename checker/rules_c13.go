package main

import (
	"fmt"
	"go/token"
	"regexp"
	"sort"
	"strings"

	"golang.org/x/tools/go/ssa"
)

func init() {
	register(&propDef{
		ID:          "C13",
		Run:         ruleC13,
		Explanation: "Decides that the pseudonym function is a pure function of (name, replacement prefix) of the stated shape (structural necessary conditions of C13): it reads no global except the replacement text, writes the side table but never reads it (package-wide), calls no time/randomness/environment/pid source; its pipeline is trim-leading-'$' -> split on '.' -> per component SHA-256 of exactly that component -> first 8 bytes -> '<replacement>_<lower-case hex>' -> join with the same separator, one output element per component in order; no second hashing helper exists. The 8-byte width and the format are pinned because the statement fixes '<replacement>_<16 hex digits>'. The leading '$' is trimmed from every component before it is hashed (db.$cmd.x and $cmd.x agree on $cmd). NOT decided: collision-freeness of truncated SHA-256 over a dictionary (probabilistic), behaviour on invalid UTF-8.",
		RuleText:    "obligations = global loads and calls inside the pseudonym function, uses of the side table in the package, each stage of the pipeline, hash call sites in the package",
	})
}

var fmtVerbRe = regexp.MustCompile(`%[-+# 0]*[0-9]*(\.[0-9]+)?[a-zA-Z%]`)

// sideTableReadOnlyViolations: uses of the global map other than map updates.
func (c *Ctx) sideTableReads(g *ssa.Global) []ssa.Instruction {
	var out []ssa.Instruction
	for _, f := range c.SortedFuncs() {
		allInstrs(f, func(i ssa.Instruction) {
			ld, ok := i.(*ssa.UnOp)
			if !ok || ld.Op != token.MUL || ld.X != ssa.Value(g) {
				return
			}
			for _, rr := range referrers(ld) {
				if mu, ok := rr.(*ssa.MapUpdate); ok && mu.Map == ssa.Value(ld) {
					continue
				}
				out = append(out, rr)
			}
		})
		// address taken / passed elsewhere
		allInstrs(f, func(i ssa.Instruction) {
			if f.Name() == "init" {
				return
			}
			for _, op := range i.Operands(nil) {
				if *op == ssa.Value(g) {
					if ld, ok := i.(*ssa.UnOp); ok && ld.Op == token.MUL {
						continue
					}
					out = append(out, i)
				}
			}
		})
	}
	return out
}

func ruleC13(c *Ctx, r *Report) {
	hn := c.Fn("HashName")
	if hn == nil {
		r.Undecided("C13-anchor", "HashName", "-", "pseudonym function not found")
		return
	}
	// ---- R1 purity
	r.Floor("C13-R1", 3, "global loads, effect scan, side table")
	reach := c.pkgReach(hn)
	allowedGlobal := map[string]bool{"redactedString": true}
	badGlobals := 0
	nLoads := 0
	for f := range reach {
		allInstrs(f, func(i ssa.Instruction) {
			if ld, ok := i.(*ssa.UnOp); ok && ld.Op == token.MUL {
				if g, ok := ld.X.(*ssa.Global); ok {
					nLoads++
					if g.Pkg != c.SPkg {
						return // library constants/tables (e.g. encoding objects)
					}
					if allowedGlobal[c.roleName(g)] {
						return
					}
					if g.Name() == "RedactedFieldMapping" {
						return // judged by the write-only rule below
					}
					badGlobals++
					r.Bad("C13-R1", fmt.Sprintf("%s:reads-global(%s)", f.Name(), g.Name()), c.InstrPos(i), "the pseudonym depends on mutable package state other than the replacement text")
				}
			}
			if st, ok := i.(*ssa.Store); ok {
				if g, ok := st.Addr.(*ssa.Global); ok {
					badGlobals++
					r.Bad("C13-R1", fmt.Sprintf("%s:writes-global(%s)", f.Name(), g.Name()), c.InstrPos(i), "the pseudonym function mutates package state (history dependence)")
				}
			}
			if cc := callCommonOf(i); cc != nil {
				k := calleeKey(cc)
				if isNondeterministic(k) {
					badGlobals++
					r.Bad("C13-R1", fmt.Sprintf("%s:nondeterministic(%s)", f.Name(), shortKey(k)), c.InstrPos(i), "a time/randomness/environment/pid source feeds the pseudonym: it differs across runs")
				}
			}
		})
	}
	if badGlobals == 0 {
		r.OK("C13-R1", "HashName:state-and-effects", c.Pos(hn.Pos()), fmt.Sprintf("%d function(s), %d global loads: only the replacement text is read; no nondeterministic source", len(reach), nLoads))
	}
	if g := c.GlobalVar("RedactedFieldMapping"); g != nil {
		reads := c.sideTableReads(g)
		for _, rd := range reads {
			r.Bad("C13-R1", fmt.Sprintf("%s:reads-side-table", rd.Parent().Name()), c.InstrPos(rd), "the name->pseudonym side table is read: a pseudonym can depend on earlier calls")
		}
		if len(reads) == 0 {
			r.OK("C13-R1", "RedactedFieldMapping:write-only", c.Pos(g.Pos()), "side table is only ever updated, never looked up / ranged / passed on (package-wide, non-test code)")
		}
	} else {
		r.Trivial("C13-R1", "RedactedFieldMapping:absent", "-", "no side table")
	}
	// replacement text is stored only by its setter (and init)
	if g := c.GlobalByRole("redactedString"); g != nil {
		okSt := true
		for _, f := range c.SortedFuncs() {
			allInstrs(f, func(i ssa.Instruction) {
				if st, ok := i.(*ssa.Store); ok && st.Addr == ssa.Value(g) && f.Name() != "init" {
					if !(len(f.Params) == 1 && st.Val == ssa.Value(f.Params[0]) && len(f.Blocks) == 1) {
						okSt = false
						r.Bad("C13-R1", f.Name()+":stores-replacement-text", c.InstrPos(i), "replacement prefix modified outside its setter")
					}
				}
			})
		}
		if okSt {
			r.OK("C13-R1", "redactedString:stores", c.Pos(g.Pos()), "stored only by init and its one-line setter")
		}
	}

	// ---- R2 shape
	r.Floor("C13-R2", 6, "trim, split, loop, digest, format, join")
	var ret *ssa.Return
	nRet := 0
	allInstrs(hn, func(i ssa.Instruction) {
		if x, ok := i.(*ssa.Return); ok {
			ret = x
			nRet++
		}
	})
	if nRet != 1 {
		r.Undecided("C13-R2", "HashName:single-return", c.Pos(hn.Pos()), fmt.Sprintf("%d returns: pipeline shape not recognised", nRet))
		return
	}
	join, ok := resolveLocal(ret.Results[0]).(*ssa.Call)
	if !ok || calleeKey(&join.Call) != "strings.Join" {
		r.Undecided("C13-R2", "HashName:join", c.InstrPos(ret), "result is not strings.Join(parts, sep)")
		return
	}
	sepJ, _ := constString(join.Call.Args[1])
	out := join.Call.Args[0]
	_, outLen, okFresh := freshSlice(out)
	var split *ssa.Call
	if okFresh && outLen != nil {
		if lc, ok := outLen.(*ssa.Call); ok && calleeKey(&lc.Call) == "builtin len" {
			split, _ = lc.Call.Args[0].(*ssa.Call)
		}
	}
	if split == nil {
		// or: the component slice itself, each element overwritten in place
		if sc, ok := out.(*ssa.Call); ok && calleeKey(&sc.Call) == "strings.Split" {
			split = sc
		}
	}
	if split == nil || calleeKey(&split.Call) != "strings.Split" {
		r.Bad("C13-R2", "HashName:one-output-per-component", c.InstrPos(join), "the joined slice is neither make([]string, len(strings.Split(...))) nor the split result itself: path depth is not preserved")
		return
	}
	r.OK("C13-R2", "HashName:one-output-per-component", c.InstrPos(join), "joined slice has len(strings.Split(...)) elements")
	sepS, _ := constString(split.Call.Args[1])
	r.Check(sepS == "." && sepJ == sepS, "C13-R2", "HashName:separator-agreement", c.InstrPos(split), "split and join both use \".\"", fmt.Sprintf("split separator %q, join separator %q (dotted paths must map component by component)", sepS, sepJ))
	// the split operand is the parameter (possibly with a leading '$' trimmed from the whole path)
	fromParam := split.Call.Args[0] == ssa.Value(hn.Params[0])
	if tc, ok := split.Call.Args[0].(*ssa.Call); ok {
		k := calleeKey(&tc.Call)
		cut, _ := constString(tc.Call.Args[1])
		if (k == "strings.TrimLeft" || k == "strings.TrimPrefix") && cut == "$" && tc.Call.Args[0] == ssa.Value(hn.Params[0]) {
			fromParam = true
		}
	}
	r.Check(fromParam, "C13-R2", "HashName:splits-the-parameter", c.InstrPos(split), "the components are those of the parameter", "the string that is split is not the parameter (at most with its leading '$' trimmed)")
	perComponentTrim := false
	// loop
	var loop *IterLoop
	for _, l := range iterLoops(hn) {
		if l.Kind == "slice" && l.Coll == ssa.Value(split) {
			loop = l
		}
	}
	if loop == nil {
		r.Bad("C13-R2", "HashName:component-loop", c.Pos(hn.Pos()), "no range loop over the whole component slice")
		return
	}
	// the store into out[idx]
	var store *ssa.Store
	nStores := 0
	for b := range loop.Loop.Body {
		for _, in := range b.Instrs {
			if st, ok := in.(*ssa.Store); ok {
				if ia, ok := st.Addr.(*ssa.IndexAddr); ok && ia.X == out {
					nStores++
					if ia.Index == loop.Idx {
						store = st
					}
				}
			}
		}
	}
	everyIter := store != nil
	if store != nil {
		for _, lt := range loop.Loop.Latch {
			if !store.Block().Dominates(lt) {
				everyIter = false
			}
		}
	}
	r.Check(store != nil && nStores == 1 && everyIter && len(loop.Loop.earlyExits()) == 0, "C13-R2", "HashName:component-loop", c.Pos(hn.Pos()),
		"each component index is written exactly once, at the loop index, on every iteration", "components are not mapped one-to-one in order")
	if store == nil {
		return
	}
	var sp ssa.Instruction
	var args []ssa.Value
	if spc, ok := store.Val.(*ssa.Call); ok && calleeKey(&spc.Call) == "fmt.Sprintf" {
		sp = spc
		format, _ := constString(spc.Call.Args[0])
		verbs := fmtVerbRe.FindAllString(format, -1)
		lit := fmtVerbRe.ReplaceAllString(format, "\x00")
		fmtOK := len(verbs) == 2 && (verbs[0] == "%s" || verbs[0] == "%v") && verbs[1] == "%x" && lit == "\x00_\x00"
		r.Check(fmtOK, "C13-R2", "HashName:format", c.InstrPos(sp), fmt.Sprintf("format %q = <prefix>_<lower-case hex>", format), fmt.Sprintf("format %q does not render '<replacement>_<lower-case hex digits>'", format))
		args = varargValues(spc.Call.Args[1])
	} else if parts := concatOperands(store.Val); len(parts) == 3 {
		// prefix + "_" + hex.EncodeToString(digest[:8])
		sp = store
		sepC, _ := constString(parts[1])
		hexCall, isHex := parts[2].(*ssa.Call)
		fmtOK := sepC == "_" && isHex && calleeKey(&hexCall.Call) == "encoding/hex.EncodeToString"
		r.Check(fmtOK, "C13-R2", "HashName:format", c.InstrPos(store), "<prefix> + \"_\" + hex.EncodeToString(digest bytes) = <prefix>_<lower-case hex>", "the concatenation does not render '<replacement>_<lower-case hex digits>'")
		if fmtOK {
			args = []ssa.Value{parts[0], hexCall.Call.Args[0]}
		}
	} else {
		r.Undecided("C13-R2", "HashName:format", c.InstrPos(store), "component pseudonym is built neither by fmt.Sprintf nor by prefix + \"_\" + hex.EncodeToString(...)")
		return
	}
	if len(args) != 2 {
		r.Undecided("C13-R2", "HashName:format-args", c.InstrPos(sp), "cannot resolve the operands of the pseudonym's rendering")
		return
	}
	prefixOK := false
	if u, ok := peel(args[0]).(*ssa.UnOp); ok {
		if g, ok := u.X.(*ssa.Global); ok && c.roleName(g) == "redactedString" {
			prefixOK = true
		}
	}
	r.Check(prefixOK, "C13-R2", "HashName:prefix", c.InstrPos(sp), "prefix operand is the configured replacement text", "prefix operand is not the configured replacement text")
	// digest slice
	dOK := false
	detail := "second operand is not a constant-bounds slice of a SHA-256 digest"
	if sl, ok := peel(args[1]).(*ssa.Slice); ok {
		lo := int64(0)
		if sl.Low != nil {
			lo, _ = constInt(sl.Low)
		}
		hi, hiOK := int64(0), false
		if sl.High != nil {
			hi, hiOK = constInt(sl.High)
		}
		if al, ok := sl.X.(*ssa.Alloc); ok {
			for _, rr := range referrers(al) {
				if st, ok := rr.(*ssa.Store); ok && st.Addr == ssa.Value(al) {
					if hc, ok := st.Val.(*ssa.Call); ok && calleeKey(&hc.Call) == "crypto/sha256.Sum256" {
						// hashed bytes = []byte(component)
						compOK := false
						if cv, ok := hc.Call.Args[0].(*ssa.Convert); ok {
							x := cv.X
							// strings.TrimLeft(component, "$"): "a.$b" and "$b" share the pseudonym of b
							if tc, ok := x.(*ssa.Call); ok {
								k := calleeKey(&tc.Call)
								if cut, _ := constString(tc.Call.Args[1]); (k == "strings.TrimLeft" || k == "strings.TrimPrefix") && cut == "$" {
									perComponentTrim = true
									x = tc.Call.Args[0]
								}
							}
							if ld, ok := x.(*ssa.UnOp); ok {
								if ia, ok := ld.X.(*ssa.IndexAddr); ok && ia.X == ssa.Value(split) && ia.Index == loop.Idx {
									compOK = true
								}
							}
						}
						if !compOK {
							detail = "the digest input is not exactly the current component"
						} else if !(hiOK && lo == 0 && hi == 8) {
							detail = fmt.Sprintf("digest truncated to [%d:%d], the statement fixes 16 hex digits = 8 bytes", lo, hi)
						} else {
							dOK = true
							detail = "sha256.Sum256([]byte(component))[0:8]"
						}
					}
				}
			}
		}
	}
	r.Check(dOK, "C13-R2", "HashName:digest", c.InstrPos(sp), detail, detail)
	r.Check(dOK && perComponentTrim, "C13-R2", "HashName:trim-dollar", c.InstrPos(split), "the leading '$' is trimmed from every component before it is hashed",
		"the leading '$' is not trimmed from each component: '$cmd' inside 'db.$cmd.aggregate' and the collection '$cmd.aggregate' receive different pseudonyms (\"$a\" and \"a\" must share one wherever the component stands)")

	// ---- R3 single definition: no other hashing in the package
	r.Floor("C13-R3", 1, "hash call sites")
	pseudonymVerbatimRule(c, r, hn, "C13-R3")
	noDoubleRewriteRule(c, r, "C13-R3")
	for _, f := range c.SortedFuncs() {
		allInstrs(f, func(i ssa.Instruction) {
			cc := callCommonOf(i)
			if cc == nil {
				return
			}
			k := calleeKey(cc)
			if strings.HasSuffix(k, ".init") {
				return // package initialiser chaining, not a hashing call
			}
			if strings.HasPrefix(k, "crypto/sha") || strings.HasPrefix(k, "crypto/md5") || strings.HasPrefix(k, "hash/") || strings.HasPrefix(k, "crypto/hmac") {
				r.Check(f == hn, "C13-R3", fmt.Sprintf("%s:hash(%s)", f.Name(), shortKey(k)), c.InstrPos(i), "the only hashing site is the pseudonym function", "a second hashing site exists: pseudonyms are not produced by one function")
			}
		})
	}
}

// pseudonymVerbatimRule (C13-R3 / C15-R5): a pseudonym reaches the output as it is. In
// particular it is never the *template* argument of a regexp replacement (ReplaceAllString
// / ReplaceAll / Expand interpret `$name` and `${n}` in it, so a replacement text with a
// '$' would be expanded away) and never re-processed by a string transformation.
func pseudonymVerbatimRule(c *Ctx, r *Report, hn *ssa.Function, rule string) {
	templateFns := map[string]int{"(*regexp.Regexp).ReplaceAllString": 2, "(*regexp.Regexp).ReplaceAll": 2, "(*regexp.Regexp).ExpandString": 2, "(*regexp.Regexp).Expand": 2}
	n := 0
	live := c.pkgReach(c.Fn("main"))
	for _, call := range c.callersOf(hn) {
		if !live[call.Parent()] {
			continue // test-parameter tables compiled into the package, never reached from main
		}
		n++
		var bad []string
		seen := map[ssa.Value]bool{}
		var visit func(v ssa.Value, depth int)
		visit = func(v ssa.Value, depth int) {
			if seen[v] || depth > 6 {
				return
			}
			seen[v] = true
			for _, use := range referrers(v) {
				switch x := use.(type) {
				case *ssa.BinOp:
					if x.Op == token.ADD {
						visit(x, depth+1)
					}
				case *ssa.Phi, *ssa.MakeInterface:
					visit(x.(ssa.Value), depth+1)
				case *ssa.Call:
					k := calleeKey(&x.Call)
					if idx, ok := templateFns[k]; ok && idx < len(x.Call.Args) && x.Call.Args[idx] == v {
						bad = append(bad, "used as the replacement template of "+shortKey(k)+" at "+c.InstrPos(use))
					}
					for _, pfx := range []string{"strings.ToLower", "strings.ToUpper", "strings.Title", "strings.Trim", "strings.Map", "strings.Fields", "strings.Split"} {
						if strings.HasPrefix(k, pfx) && len(x.Call.Args) > 0 && x.Call.Args[0] == v {
							bad = append(bad, "transformed by "+shortKey(k)+" at "+c.InstrPos(use))
						}
					}
				}
			}
		}
		visit(call, 0)
		sort.Strings(bad)
		r.Check(len(bad) == 0, rule, fmt.Sprintf("%s:pseudonym-used-verbatim", call.Parent().Name()), c.InstrPos(call),
			"the pseudonym is stored / returned / substituted as a literal text",
			"the pseudonym is interpreted or transformed before it reaches the output, so it no longer has the form <replacement>_<16 hex> for every replacement text: "+strings.Join(bad, "; "))
	}
	if n == 0 {
		r.Bad(rule, "pseudonym-call-sites", "-", "the pseudonym function has no call site")
	}
}

// varargValues resolves `slice t[:]` of a varargs array to the stored element values.
func varargValues(v ssa.Value) []ssa.Value {
	sl, ok := v.(*ssa.Slice)
	if !ok {
		return nil
	}
	al, ok := sl.X.(*ssa.Alloc)
	if !ok {
		return nil
	}
	vals := map[int64]ssa.Value{}
	max := int64(-1)
	for _, rr := range referrers(al) {
		if ia, ok := rr.(*ssa.IndexAddr); ok {
			idx, ok := constInt(ia.Index)
			if !ok {
				return nil
			}
			for _, r2 := range referrers(ia) {
				if st, ok := r2.(*ssa.Store); ok && st.Addr == ssa.Value(ia) {
					vals[idx] = st.Val
					if idx > max {
						max = idx
					}
				}
			}
		}
	}
	var out []ssa.Value
	for i := int64(0); i <= max; i++ {
		out = append(out, vals[i])
	}
	return out
}

// concatOperands flattens a left-nested string concatenation a + b + c into its operands.
func concatOperands(v ssa.Value) []ssa.Value {
	if b, ok := v.(*ssa.BinOp); ok && b.Op == token.ADD && isStringType(b.Type()) {
		return append(concatOperands(b.X), concatOperands(b.Y)...)
	}
	return []ssa.Value{v}
}
