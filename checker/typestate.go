package main

import (
	"fmt"
	"sort"
	"strings"

	"golang.org/x/tools/go/ssa"
)

// A3 - container typestate: per iteration of a walker loop over an input container,
// exactly one store into the associated output container.

type IterCheck struct {
	Fn    *ssa.Function
	Loop  *IterLoop
	Out   ssa.Value // output container
	Mode  string    // fresh-map | fresh-slice | in-place
	Sinks []ssa.Instruction
	// results
	MultiStore  []string // descriptions of paths with >= 2 stores
	ZeroPaths   []zeroPath
	KeyProblems []string
	Carried     []string // stored values that depend on something carried over from earlier iterations
	LenOK       bool
	Whole       bool
	EarlyExits  int
}

type zeroPath struct {
	Atoms []Atom
	Last  *ssa.BasicBlock
}

// sinkOn reports whether instruction in is a store into container out, returning key/index and value.
func sinkOn(in ssa.Instruction, out ssa.Value) (key, val ssa.Value, ok bool) {
	switch x := in.(type) {
	case *ssa.Call:
		if calleeKey(&x.Call) == omMethod("Set") && x.Call.Args[0] == out {
			return x.Call.Args[1], x.Call.Args[2], true
		}
		if calleeKey(&x.Call) == "builtin append" && x.Call.Args[0] == out {
			if _, isPhi := out.(*ssa.Phi); isPhi {
				return nil, x.Call.Args[1], true
			}
		}
	case *ssa.Store:
		if ia, isIA := x.Addr.(*ssa.IndexAddr); isIA && ia.X == out {
			return ia.Index, x.Val, true
		}
	}
	return nil, nil, false
}

// walkerLoops finds, in fn, the loops over IN containers together with their output container.
func (p *Prov) walkerLoops(fn *ssa.Function) []*IterCheck {
	var out []*IterCheck
	for _, l := range iterLoops(fn) {
		if l.Coll == nil || p.Of(l.Coll)&oIN == 0 {
			continue
		}
		if l.Kind != "omap" && l.Kind != "slice" {
			continue
		}
		region := l.Loop.Region()
		// candidate output containers: receivers of stores inside the region that are defined outside it
		cands := map[ssa.Value]bool{}
		for b := range region {
			for _, in := range b.Instrs {
				var recv ssa.Value
				switch x := in.(type) {
				case *ssa.Call:
					if calleeKey(&x.Call) == omMethod("Set") {
						recv = x.Call.Args[0]
					}
				case *ssa.Store:
					if ia, ok := x.Addr.(*ssa.IndexAddr); ok {
						if _, isArr := ia.X.(*ssa.Alloc); !isArr {
							recv = ia.X
						}
					}
				}
				if ac, ok := in.(*ssa.Call); ok && calleeKey(&ac.Call) == "builtin append" && isAccumulatorPhi(ac.Call.Args[0], l.Loop.Header) && isAnySlice(ac.Type()) {
					cands[ac.Call.Args[0]] = true
					continue
				}
				if recv == nil {
					continue
				}
				if di, ok := recv.(ssa.Instruction); ok && region[di.Block()] {
					continue // allocated per iteration: belongs to an inner structure
				}
				cands[recv] = true
			}
		}
		var cl []ssa.Value
		for v := range cands {
			cl = append(cl, v)
		}
		sort.Slice(cl, func(i, j int) bool { return cl[i].Pos() < cl[j].Pos() })
		if len(cl) == 0 {
			// a loop over an input container that writes nothing (pure lookup): not a walker loop
			continue
		}
		for _, o := range cl {
			ic := &IterCheck{Fn: fn, Loop: l, Out: o}
			_, isAcc := o.(*ssa.Phi)
			switch {
			case isAcc:
				ic.Mode = "append"
			case o == l.Coll && l.Kind == "omap":
				// selective rewrite of members of the iterated document under their own key
				ic.Mode = "in-place-map"
			case o == l.Coll:
				ic.Mode = "in-place"
			case l.Kind == "omap":
				ic.Mode = "fresh-map"
			default:
				ic.Mode = "fresh-slice"
			}
			p.analyseIter(ic)
			out = append(out, ic)
		}
	}
	return out
}

func (p *Prov) analyseIter(ic *IterCheck) {
	l := ic.Loop
	region := l.Loop.Region()
	ic.EarlyExits = 0
	for _, b := range l.Loop.earlyExits() {
		// exits that leave by returning an error / the loop's normal exit do not count; any
		// other exit from inside an iteration (break, return of a value) is an early exit
		_ = b
		ic.EarlyExits++
	}
	// whole container: the ranged value is not a sub-slice
	_, isSlice := l.Coll.(*ssa.Slice)
	ic.Whole = !isSlice
	// fresh slice length = len(input)
	ic.LenOK = true
	if ic.Mode == "fresh-slice" {
		ic.LenOK = false
		if _, lv, ok := freshSlice(ic.Out); ok && lv != nil {
			if lc, ok := lv.(*ssa.Call); ok && calleeKey(&lc.Call) == "builtin len" && lc.Call.Args[0] == l.Coll {
				ic.LenOK = true
			}
		}
	}
	// entry blocks of an iteration
	var entries []*ssa.BasicBlock
	for _, s := range l.Loop.Header.Succs {
		if l.Loop.Body[s] {
			entries = append(entries, s)
		}
	}
	latch := map[*ssa.BasicBlock]bool{}
	for _, b := range l.Loop.Latch {
		latch[b] = true
	}
	// store counting per iteration. Every store site is recorded; a path is followed only
	// while it has stored nothing (those are the paths whose conditions matter: an
	// iteration that stores nothing must be justified); once a path performs its first
	// store, a plain reachability query decides whether a second store can follow.
	sinkIdx := map[*ssa.BasicBlock][]int{}
	for b := range region {
		for k, in := range b.Instrs {
			if key, v, ok := sinkOn(in, ic.Out); ok {
				sinkIdx[b] = append(sinkIdx[b], k)
				ic.noteSink(p, in, key, v)
			}
		}
	}
	// stores inside an inner loop may repeat
	for _, il := range naturalLoops(l.Loop.Header.Parent()) {
		if il.Header == l.Loop.Header || !region[il.Header] {
			continue
		}
		for b := range il.Body {
			for _, k := range sinkIdx[b] {
				ic.MultiStore = append(ic.MultiStore, "store inside an inner loop at "+p.c.InstrPos(b.Instrs[k]))
			}
		}
	}
	// can a store be reached from the successors of b without passing the loop header?
	reachMemo := map[*ssa.BasicBlock]ssa.Instruction{}
	reachDone := map[*ssa.BasicBlock]bool{}
	var reachStore func(b *ssa.BasicBlock) ssa.Instruction
	reachStore = func(b *ssa.BasicBlock) ssa.Instruction {
		if reachDone[b] {
			return reachMemo[b]
		}
		reachDone[b] = true
		seen := map[*ssa.BasicBlock]bool{}
		var w []*ssa.BasicBlock
		if !noReturnBlock(b) {
			for _, s2 := range b.Succs {
				w = append(w, s2)
			}
		}
		for len(w) > 0 {
			x := w[len(w)-1]
			w = w[:len(w)-1]
			if seen[x] || x == l.Loop.Header || !region[x] {
				continue
			}
			seen[x] = true
			if ks := sinkIdx[x]; len(ks) > 0 {
				reachMemo[b] = x.Instrs[ks[0]]
				return reachMemo[b]
			}
			if !noReturnBlock(x) {
				w = append(w, x.Succs...)
			}
		}
		return nil
	}
	budget := 200000
	var dfs func(b *ssa.BasicBlock, conds []Fact, onPath map[*ssa.BasicBlock]bool)
	dfs = func(b *ssa.BasicBlock, conds []Fact, onPath map[*ssa.BasicBlock]bool) {
		if budget <= 0 {
			return
		}
		budget--
		if onPath[b] {
			return
		}
		if ks := sinkIdx[b]; len(ks) > 0 {
			// first store of this path
			if len(ks) >= 2 {
				ic.MultiStore = append(ic.MultiStore, "second store on one iteration path at "+p.c.InstrPos(b.Instrs[ks[1]]))
			} else if in := reachStore(b); in != nil {
				ic.MultiStore = append(ic.MultiStore, "second store on one iteration path at "+p.c.InstrPos(in))
			}
			return
		}
		onPath[b] = true
		defer delete(onPath, b)
		reachesHeader := false
		for _, s2 := range b.Succs {
			if s2 == l.Loop.Header {
				reachesHeader = true
			}
		}
		if reachesHeader && latch[b] {
			pc := conds
			if ifb, ok := b.Instrs[len(b.Instrs)-1].(*ssa.If); ok && b.Succs[0] != b.Succs[1] {
				pc = append(append([]Fact{}, conds...), Fact{ifb.Cond, b.Succs[0] == l.Loop.Header, ifb})
			}
			var atoms []Atom
			for _, f := range expandFacts(pc) {
				atoms = append(atoms, p.atomOf(f.Cond, f.Pol))
			}
			ic.ZeroPaths = append(ic.ZeroPaths, zeroPath{Atoms: atoms, Last: b})
		}
		if noReturnBlock(b) {
			return
		}
		ifi, _ := b.Instrs[len(b.Instrs)-1].(*ssa.If)
		for i, s2 := range b.Succs {
			if s2 == l.Loop.Header || !region[s2] {
				continue
			}
			nc := conds
			if ifi != nil && b.Succs[0] != b.Succs[1] {
				nc = append(append([]Fact{}, conds...), Fact{ifi.Cond, i == 0, ifi})
			}
			dfs(s2, nc, onPath)
		}
	}
	for _, e := range entries {
		// conditions known at loop entry do not matter for the per-iteration count
		dfs(e, nil, map[*ssa.BasicBlock]bool{})
	}
	if budget <= 0 {
		ic.MultiStore = append(ic.MultiStore, "path budget exhausted (loop body too branchy to decide)")
	}
	// dedupe
	ic.MultiStore = dedupe(ic.MultiStore)
	ic.KeyProblems = dedupe(ic.KeyProblems)
}

func dedupe(xs []string) []string {
	seen := map[string]bool{}
	var out []string
	for _, x := range xs {
		if !seen[x] {
			seen[x] = true
			out = append(out, x)
		}
	}
	return out
}

func (ic *IterCheck) noteSink(p *Prov, in ssa.Instruction, key, val ssa.Value) {
	for _, s := range ic.Sinks {
		if s == in {
			return
		}
	}
	ic.Sinks = append(ic.Sinks, in)
	l := ic.Loop
	// what is stored for this element is computed from this element: a value that travels
	// round the loop (a phi of the loop header other than the index / element / accumulator)
	// is something settled by an earlier element
	{
		hdr := l.Loop.Header
		seen := map[ssa.Value]bool{}
		var walk func(v ssa.Value, depth int) ssa.Value
		walk = func(v ssa.Value, depth int) ssa.Value {
			if v == nil || depth > 10 || seen[v] {
				return nil
			}
			seen[v] = true
			if ph, ok := v.(*ssa.Phi); ok && ph.Block() == hdr {
				if v == l.Elem || v == ic.Out || (l.Idx != nil && phiFeeds(ph, l.Idx)) {
					return nil
				}
				return v
			}
			ins, ok := v.(ssa.Instruction)
			if !ok {
				return nil
			}
			if !l.Loop.Region()[ins.Block()] && ins.Block() != hdr {
				return nil // defined before the loop
			}
			for _, op := range ins.Operands(nil) {
				if *op != nil {
					if c := walk(*op, depth+1); c != nil {
						return c
					}
				}
			}
			return nil
		}
		if c := walk(val, 0); c != nil {
			ic.Carried = append(ic.Carried, fmt.Sprintf("the value stored at %s depends on %s, which is carried over from earlier iterations", p.c.InstrPos(in), c.Name()))
		}
	}
	switch ic.Mode {
	case "fresh-map":
		if why := p.keyIsLoopKey(key, l, 0); why != "" {
			ic.KeyProblems = append(ic.KeyProblems, fmt.Sprintf("%s at %s", why, p.c.InstrPos(in)))
		}
	case "append":
	case "in-place-map":
		if !p.isElemKey(key, l) {
			ic.KeyProblems = append(ic.KeyProblems, "member stored under a key other than the current element's key at "+p.c.InstrPos(in))
		}
	default:
		if key != l.Idx {
			ic.KeyProblems = append(ic.KeyProblems, "element stored at an index other than the loop index at "+p.c.InstrPos(in))
		}
	}
}

// keyIsLoopKey: the Set key is the current element's key, or HashName(that key) under a
// true boolean parameter (field-name mode). Returns "" when fine.
func (p *Prov) keyIsLoopKey(key ssa.Value, l *IterLoop, depth int) string {
	if depth > 4 {
		return "key expression too deep"
	}
	if p.isElemKey(key, l) {
		return ""
	}
	switch x := key.(type) {
	case *ssa.Phi:
		for _, e := range x.Edges {
			if why := p.keyIsLoopKey(e, l, depth+1); why != "" {
				return why
			}
		}
		return ""
	case *ssa.Call:
		if callee := p.c.staticPkgCallee(&x.Call); callee != nil && p.Sanitizers[callee] && callee.Name() == "HashName" {
			if !p.isElemKey(x.Call.Args[0], l) {
				return "pseudonym of something other than the current key"
			}
			for _, a := range p.atomsAt(x.Block()) {
				if a.Kind == "param" && a.Pol {
					return ""
				}
			}
			return "key renamed without the field-name flag parameter being true"
		}
	}
	return "key is not the current element's key"
}

func (p *Prov) isElemKey(v ssa.Value, l *IterLoop) bool {
	ld, ok := v.(*ssa.UnOp)
	if !ok {
		return false
	}
	fa, ok := ld.X.(*ssa.FieldAddr)
	if !ok || fa.X != l.Elem {
		return false
	}
	name, ok := elemFieldName(fa)
	return ok && name == "Key"
}

// zeroPathJustified: an iteration path without a store is acceptable only in the
// in-place walker and only when the element is nil (it stays nil).
func (p *Prov) zeroPathJustified(ic *IterCheck, z zeroPath) bool {
	if ic.Mode == "in-place-map" && ic.Fn == p.cmdWalker() {
		// the command walker passing over the members of the command document: a member it
		// does not rewrite stays as it is (which members must be rewritten is C01-R1's question,
		// that the others stay is C04-R1's)
		return true
	}
	if ic.Mode != "in-place" {
		return false
	}
	for _, a := range z.Atoms {
		if a.Kind == "nil" && a.Pol && p.Of(a.X)&oIN != 0 {
			return true
		}
	}
	// leaving the element in place is the raw store `arr[i] = item`: licensed exactly when
	// that store would be (a '$field' reference, an exempt position, ...)
	if ic.Loop.Kind == "slice" {
		var item ssa.Value
		for b := range ic.Loop.Loop.Region() {
			for _, in := range b.Instrs {
				if ld, ok := in.(*ssa.UnOp); ok {
					if ia, ok := ld.X.(*ssa.IndexAddr); ok && ia.X == ic.Loop.Coll && ia.Index == ic.Loop.Idx {
						item = ld
					}
				}
			}
		}
		if item != nil {
			vs := &Sink{Fn: ic.Fn, Kind: "store", Val: item, Recv: ic.Out, Atoms: z.Atoms}
			if p.justify(vs) != "" {
				return true
			}
		}
	}
	return false
}

func (ic *IterCheck) construct() string {
	kind := ic.Loop.Kind
	return fmt.Sprintf("%s:%s-loop(%s)", ic.Fn.Name(), kind, ic.Mode)
}

func zeroPathString(z zeroPath) string {
	var ps []string
	for _, a := range z.Atoms {
		ps = append(ps, a.String())
	}
	return strings.Join(ps, "&")
}

// inPlaceSanitised: fn returns its slice parameter after a whole-range in-place loop
// that overwrites every element (A3 passes) - the J10 justification for `return arr`.
func (p *Prov) inPlaceSanitised(fn *ssa.Function, v ssa.Value, at *ssa.BasicBlock) bool {
	for _, ic := range p.walkerLoops(fn) {
		if ic.Mode != "in-place" || ic.Out != v {
			continue
		}
		// the return must lie behind the loop on every path: the loop header dominates it
		// and it is not inside the loop (an early `return arr` skips the overwrite)
		hdr := ic.Loop.Loop.Header
		if at != nil && (!hdr.Dominates(at) || ic.Loop.Loop.Body[at]) {
			return false
		}
		if !ic.Whole || len(ic.MultiStore) > 0 || len(ic.KeyProblems) > 0 || ic.EarlyExits > 0 {
			return false
		}
		for _, z := range ic.ZeroPaths {
			if !p.zeroPathJustified(ic, z) {
				return false
			}
		}
		return true
	}
	return false
}


// phiFeeds: idx is computed from the header phi ph (the rangeindex phi and its increment).
func phiFeeds(ph *ssa.Phi, idx ssa.Value) bool {
	if idx == ssa.Value(ph) {
		return true
	}
	if bo, ok := idx.(*ssa.BinOp); ok {
		return bo.X == ssa.Value(ph) || bo.Y == ssa.Value(ph)
	}
	return false
}
