package main

import (
	"fmt"
	"go/constant"
	"go/token"
	"go/types"
	"sort"
	"strings"

	"golang.org/x/tools/go/ssa"
)

// stripBrackets removes balanced [...] segments (type arguments / parameters).
func stripBrackets(s string) string {
	var sb strings.Builder
	depth := 0
	for _, r := range s {
		switch r {
		case '[':
			depth++
		case ']':
			if depth > 0 {
				depth--
			}
		default:
			if depth == 0 {
				sb.WriteRune(r)
			}
		}
	}
	return sb.String()
}

// calleeKey resolves a call through type information and returns a canonical name:
//
//	"fmt.Fprintln", "os.Exit", "(*github.com/elliotchance/orderedmap/v3.OrderedMap).Set",
//	"invoke (io.Reader).Read", "builtin len", "closure main$1", "dynamic".
func calleeKey(cc *ssa.CallCommon) string {
	if cc.IsInvoke() {
		return "invoke " + stripBrackets(cc.Method.FullName())
	}
	switch v := cc.Value.(type) {
	case *ssa.Builtin:
		return "builtin " + v.Name()
	case *ssa.Function:
		return fnFullName(v)
	case *ssa.MakeClosure:
		if f, ok := v.Fn.(*ssa.Function); ok {
			return fnFullName(f)
		}
	}
	return "dynamic"
}

func fnFullName(f *ssa.Function) string {
	if o := f.Origin(); o != nil {
		f = o
	}
	if obj := f.Object(); obj != nil {
		if tf, ok := obj.(*types.Func); ok {
			return stripBrackets(tf.FullName())
		}
	}
	if f.Parent() != nil {
		return "closure " + f.Name()
	}
	if f.Pkg != nil {
		return f.Pkg.Pkg.Path() + "." + f.Name()
	}
	return f.Name()
}

const omPkg = "github.com/elliotchance/orderedmap/v3"

func omMethod(name string) string { return "(*" + omPkg + ".OrderedMap)." + name }
func omElemMethod(name string) string {
	return "(*" + omPkg + ".Element)." + name
}

// callOf returns the CallCommon if v is a call value (not go/defer).
func callOf(v ssa.Value) *ssa.Call {
	c, _ := v.(*ssa.Call)
	return c
}

// staticPkgCallee returns the callee if it is a function of the analysed package with a body.
func (c *Ctx) staticPkgCallee(cc *ssa.CallCommon) *ssa.Function {
	f := cc.StaticCallee()
	if f == nil {
		return nil
	}
	if f.Pkg == c.SPkg && f.Blocks != nil {
		return f
	}
	if f.Parent() != nil && f.Blocks != nil {
		// closure inside package
		p := f
		for p.Parent() != nil {
			p = p.Parent()
		}
		if p.Pkg == c.SPkg {
			return f
		}
	}
	return nil
}

// phiAlias: phis every use of which lies under branch facts that determine the incoming edge
// (the value half of the (value, ok) / (value, err) pair an inlined helper leaves behind): at
// every place it is used such a phi *is* the aliased value, so peel looks through it.
var phiAlias = map[*ssa.Phi]ssa.Value{}

func computePhiAliases(c *Ctx) {
	phiAlias = map[*ssa.Phi]ssa.Value{}
	for _, fn := range c.Funcs {
		for _, b := range fn.Blocks {
			for _, in := range b.Instrs {
				ph, ok := in.(*ssa.Phi)
				if !ok {
					break
				}
				refs := ph.Referrers()
				if refs == nil {
					continue
				}
				var alias ssa.Value
				okAll, n := true, 0
				for _, u := range *refs {
					var ats []*ssa.BasicBlock
					switch x := u.(type) {
					case *ssa.DebugRef:
						continue
					case *ssa.Phi:
						for i, e := range x.Edges {
							if e == ssa.Value(ph) && i < len(x.Block().Preds) {
								ats = append(ats, x.Block().Preds[i])
							}
						}
					default:
						ats = append(ats, u.Block())
					}
					for _, at := range ats {
						n++
						r := resolveAt(ph, at)
						if r == ssa.Value(ph) || (alias != nil && r != alias) {
							okAll = false
						}
						alias = r
					}
				}
				if okAll && n > 0 && alias != nil {
					if _, isPhi := alias.(*ssa.Phi); !isPhi {
						phiAlias[ph] = alias
					}
				}
			}
		}
	}
}

// phiModuloZero: the one non-constant source of a phi whose other edges are zero-value
// constants ("", nil, false, 0) - "the member, or nothing": what `s, _ := m[k].(string)` and an
// inlined lookup helper whose ok result is ignored deliver.
func phiModuloZero(ph *ssa.Phi) ssa.Value {
	var only ssa.Value
	for _, e := range ph.Edges {
		if c, ok := e.(*ssa.Const); ok {
			if c.Value == nil || (c.Value.Kind() == constant.String && constant.StringVal(c.Value) == "") || (c.Value.Kind() == constant.Bool && !constant.BoolVal(c.Value)) {
				continue
			}
			if c.Value.Kind() == constant.Int {
				if n, exact := constant.Int64Val(c.Value); exact && n == 0 {
					continue
				}
			}
			return nil
		}
		if only != nil && e != only {
			return nil
		}
		only = e
	}
	return only
}

// peel removes representation-only wrappers.
func peel(v ssa.Value) ssa.Value {
	for {
		switch x := v.(type) {
		case *ssa.Phi:
			a := phiAlias[x]
			if a == nil {
				return v
			}
			v = a
		case *ssa.MakeInterface:
			v = x.X
		case *ssa.ChangeInterface:
			v = x.X
		case *ssa.ChangeType:
			v = x.X
		default:
			return v
		}
	}
}

func constOf(v ssa.Value) *ssa.Const {
	c, _ := peel(v).(*ssa.Const)
	return c
}

func constString(v ssa.Value) (string, bool) {
	c := constOf(v)
	if c == nil || c.Value == nil || c.Value.Kind() != constant.String {
		return "", false
	}
	return constant.StringVal(c.Value), true
}

func constInt(v ssa.Value) (int64, bool) {
	c := constOf(v)
	if c == nil || c.Value == nil {
		return 0, false
	}
	if c.Value.Kind() != constant.Int {
		return 0, false
	}
	n, ok := constant.Int64Val(c.Value)
	return n, ok
}

func isNilConst(v ssa.Value) bool {
	c := constOf(v)
	return c != nil && c.Value == nil
}

func constBool(v ssa.Value) (bool, bool) {
	c := constOf(v)
	if c == nil || c.Value == nil || c.Value.Kind() != constant.Bool {
		return false, false
	}
	return constant.BoolVal(c.Value), true
}

// Fact: a branch condition that must hold (with the given polarity) at a block.
type Fact struct {
	Cond ssa.Value
	Pol  bool
	If   *ssa.If
}

// noReturnBlock: the block contains a call that never returns (os.Exit, log.Fatal*),
// so its outgoing edges are dead although go/ssa keeps them.
func noReturnBlock(b *ssa.BasicBlock) bool {
	for _, in := range b.Instrs {
		if c, ok := in.(*ssa.Call); ok {
			k := calleeKey(&c.Call)
			if k == "os.Exit" || strings.HasPrefix(k, "log.Fatal") || k == "runtime.Goexit" {
				return true
			}
		}
	}
	return false
}

func effectivePreds(b *ssa.BasicBlock) []*ssa.BasicBlock {
	var out []*ssa.BasicBlock
	for _, p := range b.Preds {
		if !noReturnBlock(p) {
			out = append(out, p)
		}
	}
	return out
}

// factsAt returns the conditions established by dominating single-predecessor branch
// edges (predecessors that end in os.Exit are dead and ignored). It is an
// under-approximation of what holds at b (sound for acceptance).
func factsAt(b *ssa.BasicBlock) []Fact {
	var out []Fact
	seen := map[*ssa.BasicBlock]bool{}
	cur := b
	for cur != nil && !seen[cur] {
		seen[cur] = true
		eps := effectivePreds(cur)
		if len(eps) == 1 {
			d := eps[0]
			if ifi, ok := d.Instrs[len(d.Instrs)-1].(*ssa.If); ok && d.Succs[0] != d.Succs[1] {
				if d.Succs[0] == cur {
					out = append(out, Fact{ifi.Cond, true, ifi})
				} else if d.Succs[1] == cur {
					out = append(out, Fact{ifi.Cond, false, ifi})
				}
			}
			cur = d
			continue
		}
		cur = cur.Idom()
	}
	return out
}

// expandFacts decomposes facts over boolean structure:
//   - !x with pol p  ->  x with !p
//   - a boolean phi that is true only via one non-constant edge (short-circuit &&):
//     phi true => facts at that predecessor + edge value true
//   - symmetric for || chains (phi false).
func expandFacts(fs []Fact) []Fact {
	var out []Fact
	seen := map[string]bool{}
	var push func(f Fact, depth int)
	push = func(f Fact, depth int) {
		key := fmt.Sprintf("%p|%v", f.Cond, f.Pol)
		if seen[key] || depth > 12 {
			return
		}
		seen[key] = true
		out = append(out, f)
		switch x := f.Cond.(type) {
		case *ssa.UnOp:
			if x.Op == token.NOT {
				push(Fact{x.X, !f.Pol, f.If}, depth+1)
			}
		case *ssa.Phi:
			// edges whose value could equal f.Pol
			var cand []int
			for i, e := range x.Edges {
				if b, ok := constBool(e); ok {
					if b == f.Pol {
						cand = append(cand, i)
					}
					continue
				}
				cand = append(cand, i)
			}
			if len(cand) == 1 {
				i := cand[0]
				pred := x.Block().Preds[i]
				if _, isC := constBool(x.Edges[i]); !isC {
					push(Fact{x.Edges[i], f.Pol, f.If}, depth+1)
				}
				for _, pf := range factsAt(pred) {
					push(pf, depth+1)
				}
				// the edge pred->phi block itself, if pred ends in If
				if ifi, ok := pred.Instrs[len(pred.Instrs)-1].(*ssa.If); ok && pred.Succs[0] != pred.Succs[1] {
					if pred.Succs[0] == x.Block() {
						push(Fact{ifi.Cond, true, ifi}, depth+1)
					} else {
						push(Fact{ifi.Cond, false, ifi}, depth+1)
					}
				}
			}
		case *ssa.BinOp:
			// a nil test of a phi (the error temporary of an inlined helper): if only one
			// incoming edge can have that nil-ness, what held on that edge holds here
			if v, neq, ok := nilCompare(x); ok {
				ph, isPhi := resolveLocal(v).(*ssa.Phi)
				if !isPhi {
					break
				}
				nonNil := neq == f.Pol
				var cand []int
				for i, e := range ph.Edges {
					switch {
					case isNilConst(e):
						if !nonNil {
							cand = append(cand, i)
						}
					case syntacticallyNonNil(e):
						if nonNil {
							cand = append(cand, i)
						}
					default:
						cand = append(cand, i)
					}
				}
				if len(cand) == 1 {
					pred := ph.Block().Preds[cand[0]]
					for _, pf := range factsAt(pred) {
						push(pf, depth+1)
					}
					if ifi, ok := pred.Instrs[len(pred.Instrs)-1].(*ssa.If); ok && pred.Succs[0] != pred.Succs[1] {
						if pred.Succs[0] == ph.Block() {
							push(Fact{ifi.Cond, true, ifi}, depth+1)
						} else {
							push(Fact{ifi.Cond, false, ifi}, depth+1)
						}
					}
					// and the phi's value is that edge's value
					if e := ph.Edges[cand[0]]; !isNilConst(e) {
						if bo, ok := x.X.(*ssa.Const); ok {
							_ = bo
						}
					}
				}
			}
		}
	}
	for _, f := range fs {
		push(f, 0)
	}
	return out
}

func allFacts(b *ssa.BasicBlock) []Fact { return expandFacts(factsAt(b)) }

// blockOf returns the block of an instruction.
func instrIndex(i ssa.Instruction) int {
	for k, x := range i.Block().Instrs {
		if x == i {
			return k
		}
	}
	return -1
}

// isCallTo reports whether instr is a call (Call/Defer/Go) to one of keys.
func callCommonOf(i ssa.Instruction) *ssa.CallCommon {
	if ci, ok := i.(ssa.CallInstruction); ok {
		return ci.Common()
	}
	return nil
}

func isCallTo(i ssa.Instruction, keys ...string) bool {
	cc := callCommonOf(i)
	if cc == nil {
		return false
	}
	k := calleeKey(cc)
	for _, want := range keys {
		if k == want {
			return true
		}
	}
	return false
}

// allInstrs iterates over the instructions of fn in block order.
func allInstrs(fn *ssa.Function, f func(ssa.Instruction)) {
	for _, b := range fn.Blocks {
		for _, i := range b.Instrs {
			f(i)
		}
	}
}

// ---- path queries (A5) ----

type pathEnd struct {
	Instr ssa.Instruction
	Kind  string // "return", "exit", "panic"
}

// pathQuery explores CFG paths from a start point. witness(i) stops a path (the
// obligation is met). deferWitness(i) marks that a deferred witness is registered:
// it satisfies every subsequent *return/panic* end but not an os.Exit end.
// isEnd classifies ends. Returns the ends reachable without passing a witness.
type pathQuery struct {
	witness      func(ssa.Instruction) bool
	deferWitness func(ssa.Instruction) bool
	isEnd        func(ssa.Instruction) (string, bool)
	blockEdge    func(from, to *ssa.BasicBlock) bool // optional: false = edge not followed
	cur          *penv                                // the phi bindings of the path being explored (for the callbacks)
}

// onPath resolves v through the phis the explored path has bound: the value and the block
// from which it was delivered (nil when v is not such a phi).
func (q *pathQuery) onPath(v ssa.Value) (ssa.Value, *ssa.BasicBlock) {
	var from *ssa.BasicBlock
	for d := 0; d < 6; d++ {
		ph, ok := resolveLocal(v).(*ssa.Phi)
		if !ok {
			break
		}
		i, bound := q.cur.get(ph)
		if !bound || i >= len(ph.Edges) {
			break
		}
		v, from = ph.Edges[i], ph.Block().Preds[i]
	}
	return v, from
}

type pqState struct {
	b        *ssa.BasicBlock
	deferred bool
	pred     *ssa.BasicBlock
	env      string
}

// decidedSucc: block b was entered from pred and ends in a branch on a phi of b (or on a
// nil test of one): the incoming edge fixes the phi, hence the branch. This is the shape an
// inlined helper leaves behind (`end: err := r; if err != nil {`).
func decidedSucc(b, pred *ssa.BasicBlock) (*ssa.BasicBlock, bool) {
	return decidedSuccEnv(b, pred, nil)
}

// penv: along one explored path, which incoming edge delivered each phi that some branch
// looks at (bound when the path enters the phi's block; a phi's value at a later use is the
// one of the last entry into its block, which is what the path remembers). Immutable: bind
// returns a new environment.
type penv struct {
	m   map[*ssa.Phi]int
	key string
}

func (e *penv) get(ph *ssa.Phi) (int, bool) {
	if e == nil {
		return 0, false
	}
	i, ok := e.m[ph]
	return i, ok
}

var branchPhiCache = map[*ssa.Function]map[*ssa.Phi]bool{}

// branchPhis: the phis of fn that a branch condition tests (directly, negated, compared with
// nil or with a constant).
func branchPhis(fn *ssa.Function) map[*ssa.Phi]bool {
	if m, ok := branchPhiCache[fn]; ok {
		return m
	}
	m := map[*ssa.Phi]bool{}
	for _, b := range fn.Blocks {
		if len(b.Instrs) == 0 {
			continue
		}
		if ret, ok := b.Instrs[len(b.Instrs)-1].(*ssa.Return); ok {
			// returned values too: whether a returned error is nil is asked per path
			for _, res := range ret.Results {
				if ph, ok := resolveLocal(res).(*ssa.Phi); ok {
					m[ph] = true
				}
			}
			continue
		}
		ifi, ok := b.Instrs[len(b.Instrs)-1].(*ssa.If)
		if !ok {
			continue
		}
		cond := ifi.Cond
		for {
			if u, ok := cond.(*ssa.UnOp); ok && u.Op == token.NOT {
				cond = u.X
				continue
			}
			break
		}
		if ph, ok := cond.(*ssa.Phi); ok {
			m[ph] = true
		}
		if bo, ok := cond.(*ssa.BinOp); ok {
			for _, op := range []ssa.Value{bo.X, bo.Y} {
				if ph, ok := resolveLocal(op).(*ssa.Phi); ok {
					m[ph] = true
				}
			}
		}
	}
	branchPhiCache[fn] = m
	return m
}

// enter: the environment after the path goes from pred into b.
func (e *penv) enter(b, pred *ssa.BasicBlock) *penv {
	if pred == nil {
		return e
	}
	idx := -1
	for i, p := range b.Preds {
		if p == pred {
			if idx >= 0 {
				return e
			}
			idx = i
		}
	}
	if idx < 0 {
		return e
	}
	bp := branchPhis(b.Parent())
	var out *penv
	for _, in := range b.Instrs {
		ph, ok := in.(*ssa.Phi)
		if !ok {
			break
		}
		if !bp[ph] {
			continue
		}
		if out == nil {
			out = &penv{m: map[*ssa.Phi]int{}}
			if e != nil {
				for k, v := range e.m {
					out.m[k] = v
				}
			}
		}
		out.m[ph] = idx
	}
	if out == nil {
		return e
	}
	var ks []string
	for k, v := range out.m {
		ks = append(ks, fmt.Sprintf("%s@%d:%d", k.Name(), k.Block().Index, v))
	}
	sort.Strings(ks)
	out.key = strings.Join(ks, ",")
	return out
}

func (e *penv) String() string {
	if e == nil {
		return ""
	}
	return e.key
}

// decidedSuccEnv: like decidedSucc, also for branches on phis of earlier blocks that the
// path has bound.
func decidedSuccEnv(b, pred *ssa.BasicBlock, env *penv) (*ssa.BasicBlock, bool) {
	if len(b.Succs) != 2 {
		return nil, false
	}
	ifi, ok := b.Instrs[len(b.Instrs)-1].(*ssa.If)
	if !ok {
		return nil, false
	}
	idx := -1
	for i, p := range b.Preds {
		if p == pred && pred != nil {
			if idx >= 0 {
				idx = -2 // two edges from the same block
				break
			}
			idx = i
		}
	}
	// edgeOf: the incoming edge index of ph on this path, and the block it came from
	edgeOf := func(ph *ssa.Phi) (int, *ssa.BasicBlock, bool) {
		if ph.Block() == b {
			if idx >= 0 {
				return idx, pred, true
			}
			return 0, nil, false
		}
		if i, ok := env.get(ph); ok && i < len(ph.Block().Preds) {
			return i, ph.Block().Preds[i], true
		}
		return 0, nil, false
	}
	cond, pol := ifi.Cond, true
	for {
		if u, ok := cond.(*ssa.UnOp); ok && u.Op == token.NOT {
			cond, pol = u.X, !pol
			continue
		}
		break
	}
	pick := func(truth bool) (*ssa.BasicBlock, bool) {
		if truth == pol {
			return b.Succs[0], true
		}
		return b.Succs[1], true
	}
	if ph, ok := cond.(*ssa.Phi); ok {
		if i, _, bound := edgeOf(ph); bound {
			if cb, isC := constBool(ph.Edges[i]); isC {
				return pick(cb)
			}
		}
		return nil, false
	}
	if x, neq, ok := nilCompare(cond); ok {
		if ph, ok := resolveLocal(x).(*ssa.Phi); ok {
			if i, from, bound := edgeOf(ph); bound {
				e := ph.Edges[i]
				// an edge that itself carries a bound phi (the error of an inner inlined helper
				// handed on by an outer one)
				for d := 0; d < 4; d++ {
					ph2, isPhi := resolveLocal(e).(*ssa.Phi)
					if !isPhi {
						break
					}
					i2, from2, bound2 := edgeOf(ph2)
					if !bound2 {
						break
					}
					e, from = ph2.Edges[i2], from2
				}
				switch {
				case isNilConst(e):
					return pick(!neq)
				case provablyNonNilErr(e, from, 0):
					return pick(neq)
				}
			}
		}
	}
	// a comparison of a phi of this block with a constant (`code := <status of the inlined
	// helper>; if code != 0 {`): the incoming edge gives the phi's value
	if bo, ok := cond.(*ssa.BinOp); ok {
		var ph *ssa.Phi
		var other *ssa.Const
		swapped := false
		if p, isP := bo.X.(*ssa.Phi); isP {
			ph = p
			other, _ = bo.Y.(*ssa.Const)
		} else if p, isP := bo.Y.(*ssa.Phi); isP {
			ph = p
			other, _ = bo.X.(*ssa.Const)
			swapped = true
		}
		pi, _, pbound := 0, (*ssa.BasicBlock)(nil), false
		if ph != nil {
			pi, _, pbound = edgeOf(ph)
		}
		if ph != nil && other != nil && pbound && other.Value != nil {
			if ec, isC := ph.Edges[pi].(*ssa.Const); isC && ec.Value != nil && ec.Value.Kind() == other.Value.Kind() && ec.Value.Kind() != constant.Unknown {
				switch bo.Op {
				case token.EQL, token.NEQ, token.LSS, token.LEQ, token.GTR, token.GEQ:
					l, r := ec.Value, other.Value
					if swapped {
						l, r = r, l
					}
					if (ec.Value.Kind() == constant.Bool || ec.Value.Kind() == constant.String) && bo.Op != token.EQL && bo.Op != token.NEQ && ec.Value.Kind() == constant.Bool {
						return nil, false
					}
					return pick(constant.Compare(l, bo.Op, r))
				}
			}
		}
	}
	return nil, false
}

func (q *pathQuery) run(startBlock *ssa.BasicBlock, startIdx int, deferred bool) []pathEnd {
	var bad []pathEnd
	seen := map[pqState]bool{}
	type item struct {
		b        *ssa.BasicBlock
		idx      int
		deferred bool
		pred     *ssa.BasicBlock
		env      *penv
	}
	work := []item{{startBlock, startIdx, deferred, nil, nil}}
	for len(work) > 0 {
		it := work[len(work)-1]
		work = work[:len(work)-1]
		if it.idx == 0 {
			st := pqState{it.b, it.deferred, it.pred, it.env.String()}
			if seen[st] {
				continue
			}
			seen[st] = true
			if len(seen) > 200000 {
				bad = append(bad, pathEnd{it.b.Instrs[0], "path exploration too large"})
				return bad
			}
		}
		stopped := false
		d := it.deferred
		q.cur = it.env
		for k := it.idx; k < len(it.b.Instrs); k++ {
			in := it.b.Instrs[k]
			if q.deferWitness != nil && q.deferWitness(in) {
				d = true
			}
			if q.witness != nil && q.witness(in) {
				stopped = true
				break
			}
			if kind, ok := q.isEnd(in); ok {
				if kind == "exit" || !d {
					bad = append(bad, pathEnd{in, kind})
				}
				stopped = true
				break
			}
		}
		if stopped {
			continue
		}
		only, decided := decidedSuccEnv(it.b, it.pred, it.env)
		for _, s := range it.b.Succs {
			if decided && s != only {
				continue
			}
			if q.blockEdge != nil && !q.blockEdge(it.b, s) {
				continue
			}
			work = append(work, item{s, 0, d, it.b, it.env.enter(s, it.b)})
		}
	}
	return bad
}

// stdEnds: Return, panic, and calls to os.Exit / log.Fatal*.
func stdEnds(i ssa.Instruction) (string, bool) {
	switch x := i.(type) {
	case *ssa.Return:
		return "return", true
	case *ssa.Panic:
		return "panic", true
	case *ssa.Call:
		k := calleeKey(&x.Call)
		if k == "os.Exit" || strings.HasPrefix(k, "log.Fatal") {
			return "exit", true
		}
	}
	return "", false
}

// reachableBlocks returns blocks reachable from b (inclusive).
func reachableFrom(b *ssa.BasicBlock) map[*ssa.BasicBlock]bool {
	seen := map[*ssa.BasicBlock]bool{}
	var w []*ssa.BasicBlock
	w = append(w, b)
	for len(w) > 0 {
		x := w[len(w)-1]
		w = w[:len(w)-1]
		if seen[x] {
			continue
		}
		seen[x] = true
		w = append(w, x.Succs...)
	}
	return seen
}

// ---- loops ----

type Loop struct {
	Header *ssa.BasicBlock
	Latch  []*ssa.BasicBlock // sources of back edges
	Body   map[*ssa.BasicBlock]bool
}

// naturalLoops finds loops by back edges (edge t->h where h dominates t).
func naturalLoops(fn *ssa.Function) []*Loop {
	byHeader := map[*ssa.BasicBlock]*Loop{}
	var order []*ssa.BasicBlock
	for _, b := range fn.Blocks {
		for _, s := range b.Succs {
			if s.Dominates(b) {
				l := byHeader[s]
				if l == nil {
					l = &Loop{Header: s, Body: map[*ssa.BasicBlock]bool{s: true}}
					byHeader[s] = l
					order = append(order, s)
				}
				l.Latch = append(l.Latch, b)
				// collect body: nodes that reach b without passing s
				var w []*ssa.BasicBlock
				w = append(w, b)
				for len(w) > 0 {
					x := w[len(w)-1]
					w = w[:len(w)-1]
					if l.Body[x] {
						continue
					}
					l.Body[x] = true
					w = append(w, x.Preds...)
				}
			}
		}
	}
	var out []*Loop
	for _, h := range order {
		out = append(out, byHeader[h])
	}
	return out
}

// typeName renders a type compactly.
func typeName(t types.Type) string {
	return stripBrackets(types.TypeString(t, func(p *types.Package) string { return p.Name() }))
}

func isOrderedMapPtr(t types.Type) bool {
	p, ok := t.Underlying().(*types.Pointer)
	if !ok {
		if n, ok2 := t.(*types.Alias); ok2 {
			return isOrderedMapPtr(types.Unalias(n))
		}
		return false
	}
	n, ok := p.Elem().(*types.Named)
	if !ok {
		return false
	}
	return n.Obj().Name() == "OrderedMap" && n.Obj().Pkg() != nil && n.Obj().Pkg().Path() == omPkg
}

func isAnySlice(t types.Type) bool {
	s, ok := t.Underlying().(*types.Slice)
	if !ok {
		return false
	}
	i, ok := s.Elem().Underlying().(*types.Interface)
	return ok && i.NumMethods() == 0
}

func isEmptyInterface(t types.Type) bool {
	i, ok := t.Underlying().(*types.Interface)
	return ok && i.NumMethods() == 0
}

func isErrorType(t types.Type) bool {
	return types.Identical(t, types.Universe.Lookup("error").Type())
}

func isBoolType(t types.Type) bool {
	b, ok := t.Underlying().(*types.Basic)
	return ok && b.Kind() == types.Bool
}

func isStringType(t types.Type) bool {
	b, ok := t.Underlying().(*types.Basic)
	return ok && b.Kind() == types.String
}

// referrers returns the instructions using v (nil-safe).
func referrers(v ssa.Value) []ssa.Instruction {
	r := v.Referrers()
	if r == nil {
		return nil
	}
	return *r
}

// errorNilTest: cond is `e != nil` or `e == nil` for e; returns (e, isNotNil form).
func nilCompare(cond ssa.Value) (ssa.Value, bool, bool) {
	b, ok := cond.(*ssa.BinOp)
	if !ok || (b.Op != token.NEQ && b.Op != token.EQL) {
		return nil, false, false
	}
	if isNilConst(b.Y) {
		return b.X, b.Op == token.NEQ, true
	}
	if isNilConst(b.X) {
		return b.Y, b.Op == token.NEQ, true
	}
	return nil, false, false
}

// holdsNonNil reports whether facts imply v != nil (pol true) or v == nil (pol false).
func factNil(fs []Fact, v ssa.Value) (nonNil bool, isNil bool) {
	for _, f := range fs {
		x, neq, ok := nilCompare(f.Cond)
		if !ok || x != v {
			continue
		}
		if neq == f.Pol {
			nonNil = true
		} else {
			isNil = true
		}
	}
	return
}

// callResultError returns, for a call producing (..., error) or error, the SSA values
// that carry the error result (the call itself or its Extract).
func errorResults(call *ssa.Call) []ssa.Value {
	sig := call.Call.Signature()
	res := sig.Results()
	var out []ssa.Value
	if res.Len() == 1 && isErrorType(res.At(0).Type()) {
		return []ssa.Value{call}
	}
	for i := 0; i < res.Len(); i++ {
		if isErrorType(res.At(i).Type()) {
			for _, r := range referrers(call) {
				if e, ok := r.(*ssa.Extract); ok && e.Index == i {
					out = append(out, e)
				}
			}
		}
	}
	return out
}

func extractOf(call ssa.Value, idx int) *ssa.Extract {
	for _, r := range referrers(call) {
		if e, ok := r.(*ssa.Extract); ok && e.Index == idx {
			return e
		}
	}
	return nil
}

// derivesFrom reports whether v is computed from src through value-preserving
// instructions only (phi, conversions, slices, extracts, field/element loads of
// local allocs stored from src).
func derivesFrom(v, src ssa.Value, depth int) bool {
	if v == src {
		return true
	}
	if depth > 20 {
		return false
	}
	switch x := v.(type) {
	case *ssa.MakeInterface:
		return derivesFrom(x.X, src, depth+1)
	case *ssa.ChangeInterface:
		return derivesFrom(x.X, src, depth+1)
	case *ssa.ChangeType:
		return derivesFrom(x.X, src, depth+1)
	case *ssa.Convert:
		return derivesFrom(x.X, src, depth+1)
	case *ssa.TypeAssert:
		return derivesFrom(x.X, src, depth+1)
	case *ssa.Extract:
		return derivesFrom(x.Tuple, src, depth+1)
	case *ssa.Slice:
		return derivesFrom(x.X, src, depth+1)
	case *ssa.Phi:
		for _, e := range x.Edges {
			if derivesFrom(e, src, depth+1) {
				return true
			}
		}
	case *ssa.UnOp:
		if x.Op == token.MUL {
			// load: from an alloc -> any stored value
			if a, ok := x.X.(*ssa.Alloc); ok {
				for _, r := range referrers(a) {
					if st, ok := r.(*ssa.Store); ok && st.Addr == a {
						if derivesFrom(st.Val, src, depth+1) {
							return true
						}
					}
				}
			}
			if x.X == src {
				return true
			}
		}
	}
	return false
}

// resolveLocal performs block-local store-to-load forwarding: go/ssa spills results
// into a local when the function has defers (`*t0 = v; rundefers; t5 = *t0; return t5`).
func resolveLocal(v ssa.Value) ssa.Value {
	for depth := 0; depth < 4; depth++ {
		u, ok := v.(*ssa.UnOp)
		if !ok || u.Op != token.MUL {
			return v
		}
		al, ok := u.X.(*ssa.Alloc)
		if !ok {
			return v
		}
		b := u.Block()
		var last ssa.Value
		for _, in := range b.Instrs {
			if in == ssa.Instruction(u) {
				break
			}
			if st, ok := in.(*ssa.Store); ok && st.Addr == ssa.Value(al) {
				last = st.Val
			}
		}
		if last == nil {
			return v
		}
		v = last
	}
	return v
}

// freshSlice recognises make([]T, n): either a MakeSlice, or (constant n) a slice of a
// fresh array alloc. Returns the length value/constant.
func freshSlice(v ssa.Value) (constLen int64, lenVal ssa.Value, ok bool) {
	switch x := v.(type) {
	case *ssa.MakeSlice:
		if n, isC := constInt(x.Len); isC {
			return n, x.Len, true
		}
		return -1, x.Len, true
	case *ssa.Slice:
		al, isAl := x.X.(*ssa.Alloc)
		if !isAl || x.Low != nil {
			return 0, nil, false
		}
		pt, _ := al.Type().Underlying().(*types.Pointer)
		if pt == nil {
			return 0, nil, false
		}
		arr, isArr := pt.Elem().Underlying().(*types.Array)
		if !isArr {
			return 0, nil, false
		}
		if x.High == nil {
			return arr.Len(), nil, true
		}
		if n, isC := constInt(x.High); isC {
			return n, x.High, true
		}
	}
	return 0, nil, false
}

// sameExpr: a and b are structurally the same side-effect-free expression over the same
// SSA values (go/ssa does no common-subexpression elimination: `x.f` read twice is two
// loads of two FieldAddrs). Loads are compared by address expression only - the caller must
// know that no store to that location lies between them (fields of a parsed, read-only value).
func sameExpr(a, b ssa.Value) bool { return sameExprD(a, b, 0) }

func sameExprD(a, b ssa.Value, d int) bool {
	if a == b {
		return true
	}
	if d > 6 || a == nil || b == nil {
		return false
	}
	switch x := a.(type) {
	case *ssa.UnOp:
		y, ok := b.(*ssa.UnOp)
		return ok && x.Op == y.Op && sameExprD(x.X, y.X, d+1)
	case *ssa.FieldAddr:
		y, ok := b.(*ssa.FieldAddr)
		return ok && x.Field == y.Field && sameExprD(x.X, y.X, d+1)
	case *ssa.Field:
		y, ok := b.(*ssa.Field)
		return ok && x.Field == y.Field && sameExprD(x.X, y.X, d+1)
	case *ssa.Const:
		y, ok := b.(*ssa.Const)
		return ok && x.String() == y.String()
	case *ssa.Call:
		y, ok := b.(*ssa.Call)
		if !ok || calleeKey(&x.Call) != calleeKey(&y.Call) || len(x.Call.Args) != len(y.Call.Args) {
			return false
		}
		if k := calleeKey(&x.Call); k != "builtin len" && k != "builtin cap" {
			return false
		}
		for i := range x.Call.Args {
			if !sameExprD(x.Call.Args[i], y.Call.Args[i], d+1) {
				return false
			}
		}
		return true
	}
	return false
}

// infeasibleEdges: which incoming edges of block j cannot have been the one taken, given
// the branch facts that hold at block `at` (dominated by j) about phis of j. The idiom this
// resolves is the (value, ok) / (value, err) result pair of an inlined helper: after
// `if ok {` only the edges that deliver ok=true are possible, so the value phi is known.
// Sound because a fact's branch is dominated by j and dominates `at`: on every path it is
// executed after the last entry into j.
func infeasibleEdges(j, at *ssa.BasicBlock) map[int]bool {
	out := map[int]bool{}
	if j == nil || at == nil {
		return out
	}
	for _, f := range allFacts(at) {
		cond, pol := f.Cond, f.Pol
		for {
			if u, ok := cond.(*ssa.UnOp); ok && u.Op == token.NOT {
				cond, pol = u.X, !pol
				continue
			}
			break
		}
		if ph, ok := cond.(*ssa.Phi); ok && ph.Block() == j && isBoolType(ph.Type()) {
			for i, e := range ph.Edges {
				if cb, isC := constBool(e); isC && cb != pol {
					out[i] = true
				}
			}
			continue
		}
		if x, neq, ok := nilCompare(cond); ok {
			if ph, ok := resolveLocal(x).(*ssa.Phi); ok && ph.Block() == j {
				nonNil := neq == pol
				for i, e := range ph.Edges {
					switch {
					case nonNil && isNilConst(e):
						out[i] = true
					case !nonNil && provablyNonNilErr(e, j.Preds[i], 0):
						out[i] = true
					}
				}
			}
		}
	}
	return out
}

// resolveAt follows v through local cells and through phis whose incoming edge is determined
// by the facts holding at block `at`.
func resolveAt(v ssa.Value, at *ssa.BasicBlock) ssa.Value {
	for depth := 0; depth < 8; depth++ {
		v = resolveLocal(v)
		ph, ok := v.(*ssa.Phi)
		if !ok {
			return v
		}
		inf := infeasibleEdges(ph.Block(), at)
		var only ssa.Value
		n := 0
		for i, e := range ph.Edges {
			if inf[i] {
				continue
			}
			if only == nil || e != only {
				n++
				only = e
			}
		}
		if n != 1 {
			return v
		}
		v = only
	}
	return v
}

// reachesBlock: can control get from block `from` (entered from pred) to target, not
// following branch edges that the incoming edge decides (decidedSucc)?
func reachesBlock(from, pred, target *ssa.BasicBlock) bool {
	return reachesBlockAvoiding(from, pred, target, nil)
}

// reachesBlockAvoiding additionally never follows an edge for which avoid returns true.
func reachesBlockAvoiding(from, pred, target *ssa.BasicBlock, avoid func(from, to *ssa.BasicBlock) bool) bool {
	type st struct {
		b, p *ssa.BasicBlock
		env  *penv
	}
	type key struct {
		b, p *ssa.BasicBlock
		env  string
	}
	seen := map[key]bool{}
	work := []st{{from, pred, nil}}
	for len(work) > 0 {
		x := work[len(work)-1]
		work = work[:len(work)-1]
		k := key{x.b, x.p, x.env.String()}
		if seen[k] || len(seen) > 200000 {
			continue
		}
		seen[k] = true
		if x.b == target {
			return true
		}
		exits := false
		for _, in := range x.b.Instrs {
			if kind, isEnd := stdEnds(in); isEnd && kind == "exit" {
				exits = true // os.Exit / log.Fatal: control does not continue
			}
		}
		if exits {
			continue
		}
		only, decided := decidedSuccEnv(x.b, x.p, x.env)
		for _, s := range x.b.Succs {
			if decided && s != only {
				continue
			}
			if avoid != nil && avoid(x.b, s) {
				continue
			}
			work = append(work, st{s, x.b, x.env.enter(s, x.b)})
		}
	}
	return false
}

// defAt: where the value v used at block `at` comes from - through interface boxing, local
// cells, parameter temporaries and the phis that the facts at `at` resolve.
func defAt(v ssa.Value, at *ssa.BasicBlock) ssa.Value {
	for i := 0; i < 6; i++ {
		nv := peel(resolveAt(peel(v), at))
		if nv == v {
			return v
		}
		v = nv
	}
	return v
}

// syntacticallyNonNil: an error value that is non-nil by construction.
func syntacticallyNonNil(v ssa.Value) bool {
	switch x := v.(type) {
	case *ssa.Call:
		switch calleeKey(&x.Call) {
		case "fmt.Errorf", "errors.New":
			return true
		}
	case *ssa.MakeInterface:
		return true
	}
	return false
}

// valueSource: one of the definitions a value used at some block can have come from, with
// the block at whose end it was chosen (facts holding there hold for that alternative).
type valueSource struct {
	Val ssa.Value
	At  *ssa.BasicBlock
	To  *ssa.BasicBlock // the phi block the value was delivered to from At (nil: the value is used in At itself)
}

// sourcesAt expands v, used at block `at`, through local cells and phis: for every phi the
// incoming edges that the branch facts at `at` rule out are dropped, the others are followed
// (the value an inlined helper returns arrives as such a phi, one edge per return statement).
func sourcesAt(v ssa.Value, at *ssa.BasicBlock) []valueSource {
	var out []valueSource
	seen := map[ssa.Value]bool{}
	var walk func(v ssa.Value, at, to *ssa.BasicBlock, depth int)
	walk = func(v ssa.Value, at, to *ssa.BasicBlock, depth int) {
		v = resolveLocal(v)
		ph, ok := v.(*ssa.Phi)
		if !ok || depth > 6 || seen[v] {
			out = append(out, valueSource{v, at, to})
			return
		}
		seen[v] = true
		inf := infeasibleEdges(ph.Block(), at)
		for i, e := range ph.Edges {
			if inf[i] || blockEndsProcess(ph.Block().Preds[i]) {
				continue // (an edge out of a block that calls os.Exit delivers nothing)
			}
			walk(e, ph.Block().Preds[i], ph.Block(), depth+1)
		}
	}
	walk(v, at, nil, 0)
	return out
}


// everyIteration: every completed iteration of loop l passes through block blk - decided on
// feasible paths (branches that the path's own phi bindings decide are not followed the other
// way), so the landing pads of an inlined helper's error returns, which leave the loop, do
// not count as ways round blk.
func (l *Loop) everyIteration(blk *ssa.BasicBlock) bool {
	dominatesAll := true
	for _, lt := range l.Latch {
		if !blk.Dominates(lt) {
			dominatesAll = false
		}
	}
	if dominatesAll {
		return true
	}
	if !l.Body[blk] && blk != l.Header {
		return false
	}
	avoid := func(from, to *ssa.BasicBlock) bool { return to == blk || !l.Body[to] && to != l.Header }
	for _, sc := range l.Header.Succs {
		if !l.Body[sc] && sc != l.Header {
			continue
		}
		if sc == blk {
			continue
		}
		// back to the header = the iteration completed (reaching a latch block is not enough:
		// the branch at its end may be decided towards the loop exit on this path)
		if reachesBlockAvoiding(sc, l.Header, l.Header, avoid) {
			return false
		}
	}
	return true
}

// blockEndsProcess: the block calls os.Exit / log.Fatal (control never leaves it).
func blockEndsProcess(b *ssa.BasicBlock) bool {
	for _, in := range b.Instrs {
		if k, ok := stdEnds(in); ok && k == "exit" {
			return true
		}
	}
	return false
}

// factsOnEdge: what holds when control passes from block `from` to its successor `to`: the
// facts at `from` plus the outcome of the branch at its end.
func factsOnEdge(from, to *ssa.BasicBlock) []Fact {
	fs := factsAt(from)
	if to != nil && len(from.Instrs) > 0 {
		if ifi, ok := from.Instrs[len(from.Instrs)-1].(*ssa.If); ok && len(from.Succs) == 2 && from.Succs[0] != from.Succs[1] {
			if from.Succs[0] == to {
				fs = append(fs, Fact{ifi.Cond, true, ifi})
			} else if from.Succs[1] == to {
				fs = append(fs, Fact{ifi.Cond, false, ifi})
			}
		}
	}
	return expandFacts(fs)
}
