package main

import (
	"fmt"
	"go/token"
	"go/types"
	"sort"
	"strings"

	"golang.org/x/tools/go/ssa"
)

func init() {
	register(&propDef{
		ID:          "C14",
		Run:         ruleC14,
		Explanation: "Decides, for selective mode, that (R1) the keep-in-clear decision of the scalar step does not read the value: the guard of the selective pass-through consists only of boolean parameters, option globals and the path matcher applied to a key path that carries no input value; the array-sibling test and the search-operator rewrite look at values only through the '$'-string / FieldName-position tests; (R2) the decision sees the whole path: at every call site of a function whose key-path parameter reaches the matcher, the path argument is the caller's own path, append(path, key...) or - only where the path is empty - a one-element fallback; document roots start with the empty path; sub-pipeline restarts are listed exceptions; (R3) the matcher applies the configured regexp to every element of the whole path and the setter compiles the flag value unchanged. R2 also: no zone function writes into the backing array of a key-path parameter. NOT decided: which names a given regexp matches; Atlas Search stages (the statement allows over-redaction there).",
		RuleText:    "obligations = selective pass-through returns (guard atoms), call sites carrying a matcher-reaching key path (about 30), matcher loop shape",
	})
}

func isStringSlice(t types.Type) bool {
	s, ok := t.Underlying().(*types.Slice)
	return ok && isStringType(s.Elem())
}

// selectivePathParams: []string parameters whose value reaches the path matcher.
func (p *Prov) selectivePathParams() (map[*ssa.Parameter]bool, *ssa.Function) {
	matcher := p.pathMatcherFn()
	out := map[*ssa.Parameter]bool{}
	if matcher == nil {
		return out, nil
	}
	// functions passing &param (spill alloc) or param to the matcher
	paramOf := func(v ssa.Value) *ssa.Parameter {
		v = canon(v)
		if al, ok := v.(*ssa.Alloc); ok {
			for _, rr := range referrers(al) {
				if st, ok := rr.(*ssa.Store); ok && st.Addr == ssa.Value(al) {
					if prm, ok := st.Val.(*ssa.Parameter); ok {
						return prm
					}
				}
			}
		}
		if prm, ok := v.(*ssa.Parameter); ok {
			return prm
		}
		return nil
	}
	for _, call := range p.c.callersOf(matcher) {
		if prm := paramOf(call.Call.Args[0]); prm != nil {
			out[prm] = true
		}
	}
	changed := true
	for changed {
		changed = false
		for f := range p.Zone {
			allInstrs(f, func(i ssa.Instruction) {
				call, ok := i.(*ssa.Call)
				if !ok {
					return
				}
				callee := p.c.staticPkgCallee(&call.Call)
				if callee == nil {
					return
				}
				for idx, prm := range callee.Params {
					if !out[prm] || idx >= len(call.Call.Args) {
						continue
					}
					for _, src := range pathSources(call.Call.Args[idx], 0) {
						if sp, ok := canon(src).(*ssa.Parameter); ok && isStringSlice(sp.Type()) && !out[sp] {
							out[sp] = true
							changed = true
						}
					}
				}
			})
		}
	}
	return out, matcher
}

// pathSources: the base slices a path expression is built from (through append / phi).
func pathSources(v ssa.Value, depth int) []ssa.Value {
	if depth > 6 {
		return nil
	}
	v = canon(v)
	switch x := v.(type) {
	case *ssa.Call:
		if calleeKey(&x.Call) == "builtin append" {
			return pathSources(x.Call.Args[0], depth+1)
		}
	case *ssa.Phi:
		var out []ssa.Value
		for _, e := range x.Edges {
			out = append(out, pathSources(e, depth+1)...)
		}
		return out
	}
	return []ssa.Value{v}
}

// classifyPathArg describes how a path argument is built.
func classifyPathArg(v ssa.Value, own *ssa.Parameter, depth int) (kind string, detail string) {
	v = canon(v)
	if own != nil && v == ssa.Value(own) {
		return "own", "the caller's own key path"
	}
	switch x := v.(type) {
	case *ssa.Call:
		if calleeKey(&x.Call) == "builtin append" {
			k, d := classifyPathArg(x.Call.Args[0], own, depth+1)
			if k == "own" || k == "append" {
				return "append", "append(" + d + ", key...)"
			}
			return k, d
		}
	case *ssa.Slice:
		if al, ok := x.X.(*ssa.Alloc); ok && x.Low == nil && x.High == nil {
			if pt, ok := al.Type().Underlying().(*types.Pointer); ok {
				if arr, ok := pt.Elem().Underlying().(*types.Array); ok {
					if arr.Len() == 0 {
						return "empty-literal", "[]string{}"
					}
					return "literal", fmt.Sprintf("a fresh %d-element path literal", arr.Len())
				}
			}
		}
		return "slice", "a re-sliced path"
	case *ssa.Phi:
		kinds := map[string]bool{}
		var ds []string
		for i, e := range x.Edges {
			k, d := classifyPathArg(e, own, depth+1)
			if k == "literal" || k == "empty-literal" {
				// acceptable only as the fallback for an empty own path
				pred := x.Block().Preds[i]
				fs := allFacts(pred)
				if ifi, ok := pred.Instrs[len(pred.Instrs)-1].(*ssa.If); ok && pred.Succs[0] != pred.Succs[1] {
					fs = append(fs, Fact{ifi.Cond, pred.Succs[0] == x.Block(), ifi})
				}
				if own != nil && ownPathEmpty(fs, own) {
					k, d = "fallback", "one-element fallback where the own path is empty"
				}
			}
			kinds[k] = true
			ds = append(ds, d)
		}
		bad := ""
		for k := range kinds {
			if k != "own" && k != "append" && k != "fallback" {
				bad = k
			}
		}
		if bad == "" {
			return "own", "phi(" + strings.Join(ds, " | ") + ")"
		}
		return bad, "phi(" + strings.Join(ds, " | ") + ")"
	case *ssa.Const:
		if x.Value == nil {
			return "empty-literal", "nil path"
		}
	}
	return "other", "a different slice (" + typeName(v.Type()) + ")"
}

// ownPathEmpty: facts establish len(own) == 0.
func ownPathEmpty(fs []Fact, own *ssa.Parameter) bool {
	for _, f := range fs {
		b, ok := f.Cond.(*ssa.BinOp)
		if !ok {
			continue
		}
		x, y := linOf(b.X), linOf(b.Y)
		isLenOwn := func(e linExpr) bool { return e.isLen && e.base == ssa.Value(own) && e.off == 0 }
		isZero := func(e linExpr) bool { return e.base == nil && e.off == 0 }
		if (b.Op == token.EQL && f.Pol) || (b.Op == token.NEQ && !f.Pol) {
			if (isLenOwn(x) && isZero(y)) || (isLenOwn(y) && isZero(x)) {
				return true
			}
		}
	}
	return false
}

func ruleC14(c *Ctx, r *Report) {
	p := c.prov()
	for _, pr := range p.Problems {
		r.Undecided("C14-anchor", "prov", "-", pr)
	}
	if len(p.Problems) > 0 {
		return
	}
	exc := loadExceptions()
	// ---- R1 value independence
	r.Floor("C14-R1", 1, "selective pass-through return")
	crossLineStateRule(c, r, p.Zone, "C14-R1", "the keep-or-redact decision can depend on earlier lines instead of the names on the literal's own path")
	nSel := 0
	for _, s := range p.sinks(p.Zone) {
		if !s.Raw || !strings.HasPrefix(s.Just, "J7") {
			continue
		}
		nSel++
		var bad []string
		for _, a := range s.Atoms {
			switch a.Kind {
			case "param", "cfg":
			case "ok":
				// lookups keyed by the path only
				if call, ok := a.X.(*ssa.Call); ok {
					for _, arg := range call.Call.Args {
						if p.Of(arg)&oIN != 0 && !isStringSlice(arg.Type()) {
							bad = append(bad, a.String()+" reads an input value")
						}
					}
				}
			case "tbl", "len":
				if a.X != nil && p.Of(a.X)&oIN != 0 && !isStringSlice(a.X.Type()) && a.Kind != "tbl" {
					bad = append(bad, a.String()+" reads an input value")
				}
			case "other":
				// the matcher call: its arguments must not carry an input value
				if call, ok := a.Src.(*ssa.Call); ok && c.staticPkgCallee(&call.Call) != nil {
					for _, arg := range call.Call.Args {
						if o := p.Of(arg) | p.Of(canon(arg)); o&oIN != 0 {
							bad = append(bad, "matcher argument carries an input value")
						}
					}
				} else if _, isPhi := a.Src.(*ssa.Phi); isPhi {
					// the short-circuit phi itself (decomposed into the other atoms)
				} else {
					bad = append(bad, a.String())
				}
			default:
				if a.X != nil && p.Of(a.X)&oIN != 0 {
					bad = append(bad, a.String()+" tests the value")
				}
			}
		}
		r.Check(len(bad) == 0, "C14-R1", fmt.Sprintf("%s:selective-pass-through", s.Fn.Name()), c.InstrPos(s.Instr),
			"the keep-in-clear decision depends on flags, options and the path matcher only", fmt.Sprintf("the keep-in-clear decision depends on the value: %v", dedupe(bad)))
	}
	if nSel == 0 {
		r.Bad("C14-R1", "selective-pass-through", "-", "no selective pass-through return found (anchor lost)")
	}
	// sibling / search-operator helpers look at values only through '$' / FieldName tests
	for _, name := range []string{"isRedactableFieldPatternInArray", "augmentOp"} {
		f := c.Fn(name)
		if f == nil {
			continue
		}
		var bad []string
		allInstrs(f, func(i ssa.Instruction) {
			call, ok := i.(*ssa.Call)
			if !ok {
				return
			}
			k := calleeKey(&call.Call)
			if k != "(*regexp.Regexp).MatchString" {
				return
			}
			// the matched string derives from an input string: allowed only under dollar+ or tbl==FieldName+
			okGuard := false
			for _, a := range p.atomsAt(call.Block()) {
				if (a.Kind == "dollar" && a.Pol) || (a.Kind == "tbl" && a.Pol && a.Name == "FieldName") {
					okGuard = true
				}
			}
			if !okGuard {
				bad = append(bad, "regexp applied to a value outside a '$'-string / FieldName position at "+c.InstrPos(i))
			}
		})
		r.Check(len(bad) == 0, "C14-R1", f.Name()+":name-tests-only", c.Pos(f.Pos()), "the configured regexp is applied only to '$field' references / FieldName-typed arguments (names, not values)", strings.Join(bad, "; "))
	}

	// ---- R2 path integrity
	sel, matcher := p.selectivePathParams()
	if matcher == nil {
		r.Undecided("C14-R2", "matcher", "-", "path matcher not found")
		return
	}
	var selNames []string
	for prm := range sel {
		selNames = append(selNames, prm.Parent().Name()+"."+prm.Name())
	}
	sort.Strings(selNames)
	r.Analysed["matcher_reaching_path_params"] = selNames
	r.Floor("C14-R2", 15, "call sites carrying a matcher-reaching key path (about 30 today)")
	detectorStripsDollarRule(c, r, p, "C14-R1")
	nestedArraySelectionRule(c, r, p, "C14-R2")
	boolRoleRule(c, r, p, c.placeholders(p).scalarFn, c.lookupFunctions(p), "C14-R2")
	pathSliceNotWrittenRule(c, r, p, "C14-R2", "the names an ancestor passes down are changed under its feet: the selective decision of its later children sees a path that is not theirs")
	var fns []*ssa.Function
	for f := range p.Zone {
		fns = append(fns, f)
	}
	sort.Slice(fns, func(i, j int) bool { return fns[i].Name() < fns[j].Name() })
	for _, f := range fns {
		var own *ssa.Parameter
		for _, prm := range f.Params {
			if sel[prm] {
				own = prm
			}
		}
		allInstrs(f, func(i ssa.Instruction) {
			call, ok := i.(*ssa.Call)
			if !ok {
				return
			}
			callee := c.staticPkgCallee(&call.Call)
			if callee == nil {
				return
			}
			for idx, prm := range callee.Params {
				if !sel[prm] || idx >= len(call.Call.Args) {
					continue
				}
				kind, detail := classifyPathArg(call.Call.Args[idx], own, 0)
				construct := fmt.Sprintf("%s:path-to(%s)[%s]", f.Name(), callee.Name(), kind)
				// the value handed on is a member el.Value of a document this function iterates: the
				// path that goes with it names that member - the caller's own, unextended path loses
				// the member's name. (Which key an extended path ends with is not judged: the search
				// walkers deliberately leave the clause keys of compound out of the path.)
				for ai, a := range call.Call.Args {
					if ai == idx {
						continue
					}
					_, el, isMember := memberOfIteration(f, a)
					if !isMember {
						continue
					}
					_ = el
					if kind == "own" && canon(call.Call.Args[idx]) == ssa.Value(own) {
						kind, detail = "own-for-a-member", "the caller's own key path although the value handed on is the member under the current key"
						construct = fmt.Sprintf("%s:path-to(%s)[%s]", f.Name(), callee.Name(), kind)
					}
				}
				switch {
				case kind == "own" || kind == "append":
					r.OK("C14-R2", construct, c.InstrPos(i), "path argument is "+detail)
				case kind == "empty-literal" && own == nil:
					r.OK("C14-R2", construct, c.InstrPos(i), "document root: starts with the empty path")
				case kind == "empty-literal":
					reason := ""
					for _, e := range exc {
						if e.Rule == "C14-R2" && (e.Construct == construct || e.Construct == c.roleConstruct(construct)) {
							reason = e.Reason
						}
					}
					r.Check(reason != "", "C14-R2", construct, c.InstrPos(i), "listed exception: "+reason, "the key path is restarted below a document root: ancestor names are lost for the selective decision")
				default:
					r.Bad("C14-R2", construct, c.InstrPos(i), "the path argument is "+detail+": the names of the ancestors are lost, so a value under a matching field is kept in clear when an operator or array sits in between")
				}
			}
		})
	}

	// ---- R3 matcher
	r.Floor("C14-R3", 1, "matcher loop")
	okM := false
	detail := "matcher does not range over the whole path applying the regexp to each element"
	for _, l := range iterLoops(matcher) {
		if l.Kind != "slice" {
			continue
		}
		// ranges over *param0 (whole)
		whole := false
		if ld, ok := l.Coll.(*ssa.UnOp); ok && ld.X == ssa.Value(matcher.Params[0]) {
			whole = true
		}
		if l.Coll == ssa.Value(matcher.Params[0]) {
			whole = true // the path passed by value
		}
		applies := false
		for b := range l.Loop.Body {
			for _, in := range b.Instrs {
				if call, ok := in.(*ssa.Call); ok && calleeKey(&call.Call) == "(*regexp.Regexp).MatchString" && call.Call.Args[0] == ssa.Value(matcher.Params[1]) {
					if ld, ok := call.Call.Args[1].(*ssa.UnOp); ok {
						if ia, ok := ld.X.(*ssa.IndexAddr); ok && ia.X == l.Coll && ia.Index == l.Idx {
							applies = true
						}
					}
				}
			}
		}
		// the only early exit returns true
		exitsOK := true
		for _, b := range matcher.Blocks {
			if ret, ok := b.Instrs[len(b.Instrs)-1].(*ssa.Return); ok && l.Loop.Region()[b] {
				if v, ok := constBool(ret.Results[0]); !ok || !v {
					exitsOK = false
				}
			}
		}
		if whole && applies && exitsOK {
			okM = true
			detail = "ranges over the whole path, pattern.MatchString(element) for each, stops only on a match"
		}
	}
	r.Check(okM, "C14-R3", matcher.Name()+":whole-path", c.Pos(matcher.Pos()), detail, detail)

	// the names on the path: a dotted key ("patient.SSN") names every field on the way, and a
	// key that starts with '$' (operator, extended-JSON wrapper) names none
	splitOK, dollarOK := false, true
	earlyComponentExit := ""
	nMatch := 0
	allInstrs(matcher, func(i ssa.Instruction) {
		call, ok := i.(*ssa.Call)
		if !ok {
			return
		}
		switch calleeKey(&call.Call) {
		case "strings.Split":
			if sep, ok := constString(call.Call.Args[1]); ok && sep == "." {
				// its result is ranged over and each component goes to MatchString
				for _, l := range iterLoops(matcher) {
					if l.Kind == "slice" && l.Coll == ssa.Value(call) {
						for b := range l.Loop.Body {
							for _, in := range b.Instrs {
								if mc, ok := in.(*ssa.Call); ok && calleeKey(&mc.Call) == "(*regexp.Regexp).MatchString" {
									if ld, ok := mc.Call.Args[1].(*ssa.UnOp); ok {
										if ia, ok := ld.X.(*ssa.IndexAddr); ok && ia.X == l.Coll {
											splitOK = true
											// ... and nothing but a match ends the scan of the components
											for _, eb := range l.Loop.earlyExits() {
												ifi, isIf := eb.Instrs[len(eb.Instrs)-1].(*ssa.If)
												onMatch := isIf && ifi.Cond == ssa.Value(mc) && len(eb.Succs) == 2 && !l.Loop.Body[eb.Succs[0]]
												if !onMatch {
													splitOK = false
													earlyComponentExit = c.InstrPos(eb.Instrs[len(eb.Instrs)-1])
												}
											}
										}
									}
								}
							}
						}
					}
				}
			}
		case "(*regexp.Regexp).MatchString":
			nMatch++
			notOp := false
			for _, a := range p.atomsAt(call.Block()) {
				if a.Kind == "dollar" && !a.Pol {
					notOp = true
				}
			}
			if !notOp {
				dollarOK = false
			}
		}
	})
	r.Check(splitOK, "C14-R3", matcher.Name()+":dot-notation", c.Pos(matcher.Pos()),
		"each element of the path is also split on '.' and every component is matched: {\"patient.SSN\": ...} is under the names patient and SSN",
		"a dotted key is matched as one string only, or the scan of its components can end before a match ("+earlyComponentExit+"): with an anchored expression such as ^SSN$ the literal under {\"patient.SSN\": ...} / {\"contacts.$.SSN\": ...} stays in clear although the field SSN is on its path")
	r.Check(dollarOK && nMatch > 0, "C14-R3", matcher.Name()+":operators-are-not-names", c.Pos(matcher.Pos()),
		"every application of the expression is guarded by 'the key does not start with $': operators and extended-JSON wrappers are not field names",
		"operator names and extended-JSON wrapper keys ($oid, $date, $in ...) are matched against the expression as if they were field names: an expression such as (?i)id$ redacts every ObjectId although no field name matches")
}

// pathMatcherFn: the selective-mode path matcher, found by role - a package function on
// the line path that takes a key path ([]string or *[]string) and a *regexp.Regexp and
// returns a bool.
func (p *Prov) pathMatcherFn() *ssa.Function {
	var out *ssa.Function
	for f := range p.Scope {
		if f.Signature.Results().Len() != 1 || !isBoolType(f.Signature.Results().At(0).Type()) {
			continue
		}
		hasPath, hasRe := false, false
		for _, prm := range f.Params {
			ts := prm.Type().String()
			if ts == "[]string" || ts == "*[]string" {
				hasPath = true
			}
			if ts == "*regexp.Regexp" {
				hasRe = true
			}
		}
		if hasPath && hasRe {
			if out == nil || fnKey(f) < fnKey(out) {
				out = f
			}
		}
	}
	return out
}

// pathSliceNotWrittenRule: a key path ([]string) received as a parameter is shared with
// the caller (and, through append's spare capacity, with the caller's other children). No
// function of the zone writes into the backing array of such a parameter: no element store
// through it and no append onto a truncated sub-slice of it (append(s[:i], ...) shifts the
// tail of the caller's slice in place).
func pathSliceNotWrittenRule(c *Ctx, r *Report, p *Prov, rule, consequence string) {
	var fns []*ssa.Function
	for f := range p.Zone {
		fns = append(fns, f)
	}
	sort.Slice(fns, func(i, j int) bool { return fns[i].Name() < fns[j].Name() })
	n := 0
	isStrSlice := func(t types.Type) bool {
		sl, ok := t.Underlying().(*types.Slice)
		if !ok {
			return false
		}
		b, ok := sl.Elem().Underlying().(*types.Basic)
		return ok && b.Kind() == types.String
	}
	var fromParam func(v ssa.Value, depth int) *ssa.Parameter
	fromParam = func(v ssa.Value, depth int) *ssa.Parameter {
		if depth > 6 {
			return nil
		}
		switch x := v.(type) {
		case *ssa.Parameter:
			if isStrSlice(x.Type()) {
				return x
			}
		case *ssa.Slice:
			return fromParam(x.X, depth+1)
		case *ssa.Phi:
			for _, e := range x.Edges {
				if prm := fromParam(e, depth+1); prm != nil {
					return prm
				}
			}
		}
		return nil
	}
	for _, f := range fns {
		hasPathParam := false
		for _, prm := range f.Params {
			if isStrSlice(prm.Type()) {
				hasPathParam = true
			}
		}
		if !hasPathParam {
			continue
		}
		n++
		var bad []string
		allInstrs(f, func(i ssa.Instruction) {
			switch x := i.(type) {
			case *ssa.Call:
				// library functions that rearrange their slice argument in place (slices.Delete
				// shifts the tail down and zeroes the freed slots; slices.Clip / a re-slice do not copy)
				k := calleeKey(&x.Call)
				for _, pfx := range []string{"slices.Delete", "slices.Insert", "slices.Replace", "slices.Reverse", "slices.Sort", "slices.Compact", "slices.Grow", "sort.Strings", "sort.Sort", "sort.Slice", "sort.Stable", "builtin copy", "builtin clear"} {
					if strings.HasPrefix(k, pfx) && len(x.Call.Args) > 0 {
						arg := x.Call.Args[0]
						for depth := 0; depth < 4; depth++ {
							if cl, ok := arg.(*ssa.Call); ok && strings.HasPrefix(calleeKey(&cl.Call), "slices.Clip") && len(cl.Call.Args) > 0 {
								arg = cl.Call.Args[0]
								continue
							}
							break
						}
						if prm := fromParam(arg, 0); prm != nil {
							bad = append(bad, fmt.Sprintf("%s: %s rearranges parameter %s in place", c.InstrPos(i), shortKey(k), prm.Name()))
						}
					}
				}
				if k != "builtin append" {
					return
				}
				if sl, ok := x.Call.Args[0].(*ssa.Slice); ok && sl.High != nil && sl.Max == nil {
					if prm := fromParam(sl.X, 0); prm != nil {
						bad = append(bad, fmt.Sprintf("%s: append onto a truncated sub-slice of parameter %s overwrites the caller's elements in place", c.InstrPos(i), prm.Name()))
					}
				}
			case *ssa.Store:
				if ia, ok := x.Addr.(*ssa.IndexAddr); ok {
					if prm := fromParam(ia.X, 0); prm != nil {
						bad = append(bad, fmt.Sprintf("%s: element store through parameter %s", c.InstrPos(i), prm.Name()))
					}
				}
			}
		})
		r.Check(len(bad) == 0, rule, f.Name()+":path-parameter-not-written", c.Pos(f.Pos()), "no store into / in-place append onto its []string parameter(s)",
			strings.Join(bad, "; ")+" - "+consequence)
	}
	r.Analysed["functions_with_path_parameters"] = n
}
